#!/usr/bin/python3
"""Builds /verif/seeded/<name>/meta.json from eval.json + notes.txt and prints a markdown table
(which check catches which seeded change) for DESIGN.md."""
import json, os, re, sys

VERIF = os.path.dirname(os.path.dirname(os.path.abspath(__file__)))
SD = os.path.join(VERIF, "seeded")


def first_para(path):
    if not os.path.exists(path):
        return ""
    t = open(path, errors="replace").read().strip()
    t = re.sub(r"\s+", " ", t)
    return t[:600]


rows = []
for name in sorted(os.listdir(SD)):
    d = os.path.join(SD, name)
    ev = os.path.join(d, "eval.json")
    if not os.path.exists(ev):
        continue
    e = json.load(open(ev))
    prop = name.split("-")[0]
    notes = first_para(os.path.join(d, "notes.txt"))
    confirmed = bool(e.get("applies")) and e.get("demo_clean", {}).get("rc") == 0 and e.get("demo_patched", {}).get("rc") not in (0, None) \
        and "100% tests passed" in str(e.get("ctest", {}).get("summary", ""))
    caught = [c for c, r in e.get("checks_run", {}).items() if r["rc"] == 1 and r["violations"] > 0]
    meta = {
        "breaks_property": prop,
        "needs_to_manifest": notes,
        "origin": "independent sub-agent given only the property text and a scratch worktree",
        "confirmed_by_coordinator": {
            "patch_applies": e.get("applies"),
            "project_test_suite_with_patch": e.get("ctest", {}).get("summary"),
            "demo_on_clean_tree_rc": e.get("demo_clean", {}).get("rc"),
            "demo_on_patched_tree_rc": e.get("demo_patched", {}).get("rc"),
            "all_confirmed": confirmed,
        },
        "checks_run_against_it": e.get("checks_run", {}),
        "caught_by": caught,
        "evaluated_at": e.get("at"),
    }
    json.dump(meta, open(os.path.join(d, "meta.json"), "w"), indent=1)
    first = ""
    for c in caught:
        first = e["checks_run"][c]["first"][:110]
        break
    rows.append((name, "yes" if confirmed else "NO", ", ".join(caught) or "**missed**", first, notes[:120]))

print("| seeded change | confirmed (applies, suite passes, demo flips) | caught by | first violation |")
print("|---|---|---|---|")
for r in rows:
    print("| %s | %s | %s | %s |" % (r[0], r[1], r[2], r[3].replace("|", "/")))
