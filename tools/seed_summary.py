#!/usr/bin/python3
"""Builds /verif/seeded/<name>/meta.json from eval.json + notes.txt and prints a markdown table
(which check catches which seeded change) for DESIGN.md."""
import json, os, re, sys

VERIF = os.path.dirname(os.path.dirname(os.path.abspath(__file__)))
SD = os.path.join(VERIF, "seeded")


def first_para(path):
    if not os.path.exists(path):
        return ""
    t = open(path, errors="replace").read().strip()
    t = re.sub(r"\s+", " ", t)
    return t[:600]


# changes whose description reached the coordinator before their first evaluation and led to a strengthening first:
# the checks AS THEY WERE could not have caught them (checked by reading the check), so they count as first-pass misses
PRE_STRENGTHENED = {
    "C10-r2-1": "the x+p mutation was only applied after signing (bytes are hashed into the ring message, so it was rejected for the wrong reason); the model prover now emits x+p before signing over an adversarial generator",
    "C09-r2-1": "rewind was only called with all optional outputs present; now every optional-output combination x creator/foreign nonce",
    "C09-r2-2": "no message block was ever chosen against the stream; now blocks crafted so that stream XOR message is n, n+1, 2^256-1",
    "C20-r2-2": "the replaced compression function treated n_blocks == 0 as a no-op like the built-in one, so nothing differed; calls with zero blocks (outside the documented 'one or more') are now counted and reported",
    "C06-r3-1": "only gcc builds were run in the quick tier; the dropped volatile barrier turns into a branch under clang -O2 only; a clang -O2 build of the shipped configuration was added",
    "C04-r4-2": "tweak_add_check was only probed with the canonical x, the other parity, x+1 and the internal key's x; now with an internal key built as Q - tG from a small-x point Q so that the tweaked key's x + p fits in 32 bytes",
    "C18-r4-1": "the exported xdh hash functions were only passed to xdh as pointers (which dispatches to the implementation directly); they are now also called directly and compared with their definition",
    "C07-r2-2": "rewind was only called with all optional outputs present (C07 and C09); now also with none / value only / blind only and a foreign nonce",
}
rows = []
for name in sorted(os.listdir(SD)):
    d = os.path.join(SD, name)
    ev = os.path.join(d, "eval.json")
    if not os.path.exists(ev):
        continue
    e = json.load(open(ev))
    prop = name.split("-")[0]
    notes = first_para(os.path.join(d, "notes.txt"))
    confirmed = bool(e.get("applies")) and e.get("demo_clean", {}).get("rc") == 0 and e.get("demo_patched", {}).get("rc") not in (0, None) \
        and "100% tests passed" in str(e.get("ctest", {}).get("summary", ""))
    caught = [c for c, r in e.get("checks_run", {}).items() if r["rc"] == 1 and r["violations"] > 0]
    first_pass = "caught"
    earlier = e.get("earlier_checks_run") or []
    if earlier:
        c0 = [c for c, r in (earlier[0].get("checks_run") or {}).items() if r["rc"] == 1 and r["violations"] > 0]
        if not c0:
            first_pass = "MISSED (first evaluation %s); strengthened, then re-evaluated" % earlier[0].get("at")
    if name in PRE_STRENGTHENED:
        first_pass = "MISSED by the checks as they were (%s)" % PRE_STRENGTHENED[name]
    if not caught:
        first_pass = "missed"
    meta = {
        "breaks_property": prop,
        "needs_to_manifest": notes,
        "origin": "independent sub-agent given only the property text and a scratch worktree",
        "confirmed_by_coordinator": {
            "patch_applies": e.get("applies"),
            "project_test_suite_with_patch": e.get("ctest", {}).get("summary"),
            "demo_on_clean_tree_rc": e.get("demo_clean", {}).get("rc"),
            "demo_on_patched_tree_rc": e.get("demo_patched", {}).get("rc"),
            "all_confirmed": confirmed,
        },
        "checks_run_against_it": e.get("checks_run", {}),
        "caught_by": caught,
        "first_pass": first_pass,
        "evaluated_at": e.get("at"),
    }
    json.dump(meta, open(os.path.join(d, "meta.json"), "w"), indent=1)
    first = ""
    for c in caught:
        first = e["checks_run"][c]["first"][:110]
        break
    rows.append((name, "yes" if confirmed else "NO", ", ".join(caught) or "**missed**", first, "" if first_pass == "caught" else first_pass))

print("| seeded change | confirmed (applies, suite passes, demo flips) | caught by | first violation | first pass |")
print("|---|---|---|---|---|")
for r in rows:
    print("| %s | %s | %s | %s | %s |" % (r[0], r[1], r[2], r[3].replace("|", "/"), r[4].replace("|", "/")))
