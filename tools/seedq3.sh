#!/bin/bash
# usage: tools/seedq3.sh "<ID> <checks...>" "<ID> <checks...>" ...   -- evaluates /tmp/seed2out_<ID>/{1,2} one after another (round 2)
mkdir -p /tmp/seedq
for spec in "$@"; do
  set -- $spec
  ID="$1"; shift
  for k in 1 2; do
    if [ -f /tmp/seed2out_$ID/$k/patch.diff ] && [ ! -f /verif/seeded/${ID}-r2-$k/eval.json ]; then
      /usr/bin/python3 /verif/tools/seedeval.py /tmp/seed2out_$ID/$k ${ID}-r2-$k "$@" > /tmp/seedq/${ID}-r2-$k.log 2>&1
    fi
  done
  echo "done2 $ID $(date +%T)" >> /tmp/seedq/done.log
done
