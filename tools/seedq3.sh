#!/bin/bash
# usage: [SEEDROUND=2|3] tools/seedq3.sh "<ID> <checks...>" "<ID> <checks...>" ...
#   evaluates /tmp/seed<R>out_<ID>/{1,2} one after another as <ID>-r<R>-<k>
R=${SEEDROUND:-2}
mkdir -p /tmp/seedq
for spec in "$@"; do
  set -- $spec
  ID="$1"; shift
  for k in 1 2; do
    if [ -f /tmp/seed${R}out_$ID/$k/patch.diff ] && [ ! -f /verif/seeded/${ID}-r${R}-$k/eval.json ]; then
      /usr/bin/python3 /verif/tools/seedeval.py /tmp/seed${R}out_$ID/$k ${ID}-r${R}-$k "$@" > /tmp/seedq/${ID}-r${R}-$k.log 2>&1
    fi
  done
  echo "done${R} $ID $(date +%T)" >> /tmp/seedq/done.log
done
