#!/bin/bash
# usage: tools/seedq.sh <ID> <checks...>   -- evaluates /tmp/seedout_<ID>/{1,2,3} sequentially
ID="$1"; shift
for k in 1 2 3; do
  if [ -f /tmp/seedout_$ID/$k/patch.diff ]; then
    /usr/bin/python3 /verif/tools/seedeval.py /tmp/seedout_$ID/$k ${ID}-$k "$@" > /tmp/seedq/${ID}-$k.log 2>&1
  fi
done
echo "done $ID" >> /tmp/seedq/done.log
