#!/bin/bash
# usage: tools/seedq2.sh <ID> <checks...>   -- evaluates /tmp/seed2out_<ID>/{1,2} sequentially (second round)
ID="$1"; shift
for k in 1 2; do
  if [ -f /tmp/seed2out_$ID/$k/patch.diff ]; then
    /usr/bin/python3 /verif/tools/seedeval.py /tmp/seed2out_$ID/$k ${ID}-r2-$k "$@" > /tmp/seedq/${ID}-r2-$k.log 2>&1
  fi
done
echo "done2 $ID" >> /tmp/seedq/done.log
