#!/usr/bin/python3
"""Evaluate one seeded change: confirm it applies, compiles, passes the project's test suite, that its
demonstration distinguishes the clean from the patched tree, then run the given checks against it.
usage: tools/seedeval.py <seedout_dir>/<k> <name> <CHECK_ID> [<CHECK_ID> ...] [--no-ctest]
Writes /verif/seeded/<name>/{patch.diff, demo files, meta.json}.  Never touches /repo (private worktree)."""
import sys, os, subprocess, json, shutil, time

VERIF = os.path.dirname(os.path.dirname(os.path.abspath(__file__)))
CMAKE = ("cmake -G Ninja -S . -B build -DCMAKE_BUILD_TYPE=RelWithDebInfo -DCMAKE_C_FLAGS=-Wno-error -DSECP256K1_BUILD_BENCHMARK=OFF "
         "-DSECP256K1_BUILD_CTIME_TESTS=OFF -DSECP256K1_BUILD_EXAMPLES=OFF -DSECP256K1_ENABLE_MODULE_RECOVERY=OFF -DSECP256K1_ENABLE_MODULE_ECDH=ON "
         "-DSECP256K1_ENABLE_MODULE_EXTRAKEYS=ON -DSECP256K1_ENABLE_MODULE_SCHNORRSIG=ON -DSECP256K1_ENABLE_MODULE_MUSIG=ON -DSECP256K1_ENABLE_MODULE_ELLSWIFT=ON "
         "-DSECP256K1_ENABLE_MODULE_GENERATOR=ON -DSECP256K1_ENABLE_MODULE_RANGEPROOF=ON -DSECP256K1_ENABLE_MODULE_SURJECTIONPROOF=ON -DSECP256K1_ENABLE_MODULE_WHITELIST=ON "
         "-DSECP256K1_ENABLE_MODULE_ECDSA_S2C=ON -DSECP256K1_ENABLE_MODULE_ECDSA_ADAPTOR=ON -DSECP256K1_ENABLE_MODULE_BPPP=ON -DSECP256K1_ENABLE_MODULE_SCHNORRSIG_HALFAGG=ON")


def sh(cmd, cwd=None, timeout=3600, env=None):
    r = subprocess.run(cmd, shell=True, cwd=cwd, capture_output=True, text=True, timeout=timeout, env=env)
    return r.returncode, (r.stdout + r.stderr)


def main():
    args = [a for a in sys.argv[1:] if not a.startswith("--")]
    no_ctest = "--no-ctest" in sys.argv
    src, name, checks = args[0], args[1], args[2:]
    wt = "/tmp/wt_seedeval_%s" % name
    meta = {"name": name, "source_dir": src, "checks_run": {}, "at": time.strftime("%Y-%m-%d %H:%M:%S")}
    head = subprocess.run("git -C /repo rev-parse HEAD", shell=True, capture_output=True, text=True).stdout.strip()
    sh("git -C /repo worktree remove --force %s" % wt)
    rc, out = sh("git -C /repo worktree add --detach %s %s" % (wt, head))
    assert rc == 0, out
    try:
        patch = os.path.join(src, "patch.diff")
        demo = os.path.join(src, "run_demo.sh")
        # demo on the clean tree
        if os.path.exists(demo):
            rc0, o0 = sh("bash %s %s" % (demo, wt), timeout=1800)
            meta["demo_clean"] = {"rc": rc0, "tail": o0[-300:]}
        rc, out = sh("git apply %s" % patch, cwd=wt)
        meta["applies"] = rc == 0
        if rc != 0:
            meta["error"] = out[-500:]
            return meta
        if os.path.exists(demo):
            rc1, o1 = sh("bash %s %s" % (demo, wt), timeout=1800)
            meta["demo_patched"] = {"rc": rc1, "tail": o1[-300:]}
        if not no_ctest:
            rc, out = sh(CMAKE + " && cmake --build build -j6", cwd=wt, timeout=3600)
            meta["builds"] = rc == 0
            if rc == 0:
                rc, out = sh("ctest --test-dir build -j6 --timeout 900", cwd=wt, timeout=7200)
                line = [l for l in out.splitlines() if "tests passed" in l or "tests failed" in l]
                meta["ctest"] = {"rc": rc, "summary": line[-1] if line else out[-300:]}
            shutil.rmtree(os.path.join(wt, "build"), ignore_errors=True)
        env = dict(os.environ)
        env["VERIF_REPO"] = wt
        for cid in checks:
            t0 = time.time()
            rc, out = sh("./check %s --tier quick" % cid, cwd=VERIF, timeout=7200, env=env)
            viol = [l for l in out.splitlines() if l.startswith("VIOLATION")]
            first = ""
            lines = out.splitlines()
            for i, l in enumerate(lines):
                if l.startswith("VIOLATION") and i + 1 < len(lines):
                    first = lines[i + 1].strip()[:300]
                    break
            meta["checks_run"][cid] = {"rc": rc, "violations": len(viol), "first": first, "wall_s": round(time.time() - t0, 1), "last_line": lines[-1][:200] if lines else ""}
        return meta
    finally:
        sh("git -C /repo worktree remove --force %s" % wt)
        shutil.rmtree("/verif/build/alt-" + __import__("hashlib").sha256(os.path.realpath(wt).encode()).hexdigest()[:10], ignore_errors=True)
        d = os.path.join(VERIF, "seeded", name)
        os.makedirs(d, exist_ok=True)
        prev = os.path.join(d, "eval.json")
        if no_ctest and os.path.exists(prev):
            # re-evaluation after a check was strengthened: keep the earlier confirmation, record the history
            old = json.load(open(prev))
            for k in ("builds", "ctest"):
                if k in old and k not in meta:
                    meta[k] = old[k]
            meta["earlier_checks_run"] = old.get("earlier_checks_run", []) + [{"at": old.get("at"), "checks_run": old.get("checks_run")}]
        for f in os.listdir(src):
            p = os.path.join(src, f)
            if os.path.isfile(p) and os.path.getsize(p) < 200000:
                shutil.copy(p, os.path.join(d, f))
        json.dump(meta, open(os.path.join(d, "eval.json"), "w"), indent=1)
        print(json.dumps(meta, indent=1))


if __name__ == "__main__":
    main()
