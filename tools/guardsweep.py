#!/usr/bin/python3
"""Guard-removal sweep (development aid, never part of a verdict): for every rejection guard
    if (<cond>) { return 0; }      /      if (<cond>) return 0;      (also `return NULL;`, `goto fail/cleanup`-free forms)
in a source file (optionally restricted to a line range) build a mutant in a PRIVATE worktree in which the guard is
disabled (`if (0 && (<cond>))`), run one check's quick tier against it (VERIF_REPO) and record whether a VIOLATION was
reported.  Survivors are either redundant guards or gaps in the check.
usage: tools/guardsweep.py <tag> <CHECK> <repo-relative file> [<first line> <last line>] [--only <phase substr>] [--jobs N]
Results: /tmp/sweep_<tag>.jsonl ; the worktree /tmp/wt_sweep_<tag> and its build cache are removed at the end."""
import sys, os, re, subprocess, json, hashlib, shutil, time

VERIF = os.path.dirname(os.path.dirname(os.path.abspath(__file__)))


def sh(cmd, **kw):
    r = subprocess.run(cmd, shell=True, capture_output=True, text=True, **kw)
    return r.returncode, r.stdout + r.stderr


def sites(lines, lo, hi):
    out = []
    for i in range(lo - 1, min(hi, len(lines))):
        l = lines[i]
        m = re.match(r"^(\s*)if \((.*)\) \{\s*$", l)
        if m:
            j = i + 1
            while j < len(lines) and not lines[j].strip():
                j += 1
            if j < len(lines) and re.match(r"^\s*return (0|NULL);\s*$", lines[j]) and j + 1 < len(lines) and lines[j + 1].strip() == "}":
                out.append((i, "%sif (0 && (%s)) {\n" % (m.group(1), m.group(2))))
            continue
        m = re.match(r"^(\s*)if \((.*)\) return (0|NULL);\s*$", l)
        if m:
            out.append((i, "%sif (0 && (%s)) return %s;\n" % (m.group(1), m.group(2), m.group(3))))
            continue
        m = re.match(r"^(\s*)ret &= (.*);\s*$", l)       # a validity flag folded into the result: evaluate it, ignore it
        if m and "declassify" not in l:
            out.append((i, "%s(void)(%s);\n" % (m.group(1), m.group(2))))
    return out


def main():
    a = [x for x in sys.argv[1:]]
    only, jobs = None, "8"
    if "--only" in a:
        k = a.index("--only"); only = a[k + 1]; del a[k:k + 2]
    if "--jobs" in a:
        k = a.index("--jobs"); jobs = a[k + 1]; del a[k:k + 2]
    tag, check, rel = a[0], a[1], a[2]
    lo, hi = (int(a[3]), int(a[4])) if len(a) >= 5 else (1, 10**9)
    wt = "/tmp/wt_sweep_%s" % tag
    sh("git -C /repo worktree remove --force %s" % wt)
    rc, o = sh("git -C /repo worktree add --detach %s HEAD" % wt)
    assert rc == 0, o
    alt = os.path.join(VERIF, "build", "alt-" + hashlib.sha256(os.path.realpath(wt).encode()).hexdigest()[:10])
    path = os.path.join(wt, rel)
    orig = open(path).readlines()
    res = open("/tmp/sweep_%s.jsonl" % tag, "a")
    env = dict(os.environ, VERIF_REPO=wt, VERIF_JOBS=jobs)
    if only:
        env["VERIF_ONLY"] = only
    try:
        for i, repl in sites(orig, lo, hi):
            mut = list(orig)
            mut[i] = repl
            open(path, "w").writelines(mut)
            t0 = time.time()
            rc, out = sh("./check %s --tier quick" % check, cwd=VERIF, env=env, timeout=3600)
            viol = [l for l in out.splitlines() if l.startswith("VIOLATION")]
            first = ""
            ls = out.splitlines()
            for k, l in enumerate(ls):
                if l.startswith("VIOLATION") and k + 1 < len(ls):
                    first = ls[k + 1].strip()[:200]
                    break
            rec = {"file": rel, "line": i + 1, "guard": orig[i].strip(), "rc": rc, "violations": len(viol), "first": first, "wall": round(time.time() - t0, 1),
                   "tail": ls[-1][:160] if ls else ""}
            res.write(json.dumps(rec) + "\n")
            res.flush()
            print(json.dumps(rec), flush=True)
            shutil.rmtree(alt, ignore_errors=True)
    finally:
        open(path, "w").writelines(orig)
        sh("git -C /repo worktree remove --force %s" % wt)
        shutil.rmtree(alt, ignore_errors=True)


if __name__ == "__main__":
    main()
