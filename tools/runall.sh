#!/bin/bash
# usage: tools/runall.sh [quick|thorough] [IDs...]  -- runs the checks on /repo sequentially, validates evidence
cd /verif
TIER=${1:-quick}; shift
IDS="$@"; [ -z "$IDS" ] && IDS="C01 C02 C03 C04 C05 C06 C07 C08 C09 C10 C11 C12 C13 C14 C15 C16 C17 C18 C19 C20"
for id in $IDS; do
  s=$(date +%s)
  ./check $id --tier $TIER > /tmp/runall_$id.log 2>&1; rc=$?
  e=$(( $(date +%s) - s ))
  v=$(grep -ac '^VIOLATION' /tmp/runall_$id.log)
  val=$(python3-vt -c "
import json,jsonschema
e=json.load(open('evidence/$id.json')); jsonschema.validate(e, json.load(open('/root/.vp/EVIDENCE.schema.json'))); print('evidence-ok', e['tier'], 'exhaustive=%s' % e['coverage'].get('exhaustive'))" 2>&1 | tail -1)
  echo "$id $TIER rc=$rc violations=$v wall=${e}s $val"
done
