#!/usr/bin/python3
"""Generates /verif/MANIFEST.json from the table below (one entry per property that has a check);
every property without a check is listed under not_applicable with its reason."""
import json, os, glob

VERIF = os.path.dirname(os.path.dirname(os.path.abspath(__file__)))
props = [json.loads(l) for l in open(os.path.join(VERIF, "properties.jsonl"))]

MC = "model_checking"
CHECKS = {
    "C01": dict(level=MC, design="§4 C01",
                technique="explicit-state total enumeration (small groups) + boundary-alphabet product, lock-step reference model",
                text="Total enumeration of ECDSA verify over every (r,s,m,key) and of sign over every (key,msg,nonce,callback-failure point) in the order-13 (thorough: 7, 199) builds of the same source, plus the full product of boundary alphabets and algebraically constructed triples (R.x>=n, r around p-n, s at the half-order boundary, messages >= n) on secp256k1 for several build configurations; every case is executed on the real code and on an integer-arithmetic model.",
                note="secp256k1 scalars outside the alphabets are not explored (the small groups are explored totally); trusted: the Python big-integer model (self-tested against RFC 6979 / curve vectors), gcc 12 / clang 14."),
    "C02": dict(level=MC, design="§4 C02",
                technique="boundary-alphabet product + single-mutation enumeration + total small-group enumeration, lock-step BIP-340 reference",
                text="Every message length 0..300 (and 11 longer lengths up to 10^5), the KEY alphabet closed under negation, all aux variants and both entry points are signed by the real code and byte-compared with the BIP-340 reference; every single-bit flip, every boundary scalar substituted for r and s, odd-y and infinity constructions are decided by the reference verifier; in the order-13 build every (r, s+kN) for every key and message is enumerated, which decides rejection of s >= n for valid signatures.",
                note="r+p re-encodings of a valid signature are not constructible in any supported group; secp256k1 scalars outside the alphabets are not explored. Trusted: Python model (hashlib SHA-256, big-int group law)."),
    "C03": dict(level=MC, design="§4 C03",
                technique="deviation-bounded grammar enumeration + total short-string enumeration + boundary-alphabet product, lock-step strict-codec models",
                text="DER strings are generated from the grammar SEQ(tag,len){INT(tag,len,content)x2}+trailing with up to 3 (thorough 4) simultaneous deviations over 9 positions, plus EVERY byte string of length <= 2 (thorough 3) and every string of length <= 5 (7) over a 12-symbol alphabet; compact / recoverable parsers over SC^2 and re-encoded valid signatures (s+n, r+n); public-key parsers over every prefix byte x lengths x boundary coordinates; DER / pubkey serialisers into every buffer length; the small-group build adds the subgroup check and the total 'rejected object never verifies' enumeration. An independent strict-codec model decides every case.",
                note="Strings outside the grammar / length bounds are not explored. An object left by a rejected parse is required not to verify (the statement), not to be all-zero."),
    "C04": dict(level=MC, design="§4 C04",
                technique="explicit-state BFS over key states (to fixpoint in the small groups, depth-bounded on secp256k1) calling the real functions on every edge; exhaustive permutation enumeration for the sort",
                text="State = secret key; every edge applies the real secret-side and public-side operation (negate, tweak_add, tweak_mul, x-only / keypair tweak, tweak_add_check) with a state-dependent tweak alphabet and compares both with the key-algebra model; BFS reaches a fixpoint over all keys in the order-13 group and depth 2 (thorough 3) on secp256k1; combine over every sequence of <= 3 group points and cancelling patterns up to 200 keys; cmp on all ordered pairs; sort for every length 0..200 x 9 patterns, all permutations n <= 7, and the internal heap sort on every sequence in {0..v-1}^n (17.7 M sequences).",
                note="Tweaks outside the alphabet are not explored on secp256k1. Failed calls are required to leave an all-zero / unusable object as the headers state."),
    "C05": dict(level=MC, design="§4 C05",
                technique="boundary-alphabet products + history search over magnitude-building operation words + O(L^2) SHA-256 write-state search, each compared with big-integer / hashlib models, on a build matrix",
                text="Field, scalar, group, ecmult-family and hash kernels are driven through byte-level wrappers on every member of a build matrix (5x52/10x26 field, 4x64/8x32 scalar, native/struct int128, asm on/off, table sizes; VERIFY builds assert the library's magnitude bookkeeping): FE alphabet (limb-boundary values for both layouts) x every admissible magnitude construction; all operation words up to length 3 (4) followed by each consumer; SC x SC for scalar ops incl. every bit offset; all ordered pairs of a 21-point set x z-rescalings; ecmult / const / x-only / gen under 5 blinding states; ecmult_multi for every batch size x scratch sizes x patterns; SHA-256 streaming states for every message length; HMAC / RFC 6979 / tagged hash for every key / seed / tag length; small-group builds enumerate group and ecmult totally.",
                note="256-bit operands outside the alphabets are not explored on secp256k1; this is the property where the alphabet matters most. Compilers: gcc 12 / clang 14."),
    "C06": dict(level="exploration", design="§4 C06",
                technique="exhaustive enumeration of the public configuration space of each constant-time API, each execution monitored by valgrind memcheck definedness tracking (declassification-aware)",
                text="432 public configurations (context state x optional-argument presence x signer count / tweak sequence / adaptor x public tweak / message-length alphabets x 2 secret values) of 29 constant-time entry points are each executed once per build under memcheck with the secret arguments undefined and the library's own declassification points live; any conditional jump or address depending on a secret is a violation, attributed to its configuration.",
                note="Level is 'exploration': the enumerated dimension is the public one; secret values are covered per executed path by memcheck's definedness abstraction, not by enumeration (trace-equality over enumerated secrets would raise false alarms because BIP-340 signing legitimately branches on declassified public nonce parity). Secret/public roles follow the maintainers' ctime_tests.c."),
    "C20": dict(level=MC, design="§4 C20",
                technique="explicit-state BFS over context histories with a differential probe battery; schedule exploration by access monitoring (own TSan-ABI runtime) with an independence (single Mazurkiewicz trace) argument; free-running ThreadSanitizer pass",
                text="Context histories (create / preallocated create, randomize with 4 seeds or NULL, install / reset a replaced SHA-256 compression function, clone / preallocated clone, clone-then-randomize-original, callbacks, unrelated-context disturbance) are explored breadth-first to depth 3 (thorough 5), merged on the canonical blinding state; in every state a 40-op battery covering every API family must be byte-identical to a fresh context's, with a balanced allocation ledger. The static context and a byte copy are probed op by op. For schedules, all 1600 ordered pairs (and triples) of battery ops run as logical threads on one shared context with every instrumented non-private memory access a visible operation: programs whose threads share no written byte are independent, so the executed schedule covers all interleavings; a dependent pair is reported as a race. Writable file-scope symbols of the library objects are checked against an allow-list; the small-group build checks n*G for every n in every reachable blinding state.",
                note="Interleavings are decided at the granularity of accesses clang instruments (inline asm and libc internals are covered only by the separate free-running TSan pass); hardware memory-model effects are out of scope."),
    "C08": dict(level=MC, design="§4 C08",
                technique="total small-group enumeration + boundary-alphabet products, lock-step Pedersen / Shallue-van de Woestijne reference model",
                text="In the order-13 build (generators stored from group elements with known logs) pedersen_commit is enumerated for every (blind encoding incl. b+kN, value, generator), verify_tally for every ordered pair of commitment lists up to 2+2 (multisets 3+3), blind_sum and blind_generator_blind_sum for every small tuple incl. overflow encodings, and helper output is fed back into commit+tally; on secp256k1 the SC x U64 x generator products, tallies of 0..32 commitments balanced / off by one, and both parsers over every prefix byte x boundary x-coordinates are compared with the model (b*G + v*H, SvdW map, prefix 8/9 and 10/11 codecs).",
                note="secp256k1 scalars / values / seeds outside the alphabets are not explored; a hash output >= p in generator derivation is not constructible. Output buffers after a failed call are not asserted."),
    "C12": dict(level=MC, design="§4 C12",
                technique="exhaustive session enumeration (signers x key-list shapes x all tweak words x nonce sources x step orders) + total small-group enumeration of nonces, lock-step BIP-327 reference model",
                text="Every MuSig2 session in the bounded space (signers 1..3, all key-list shapes, every plain/x-only tweak word up to length 3, 16 optional-argument masks of nonce_gen, counter alphabet {0,1,2^32,2^32+1,2^63,2^64-1}, both step orders, adaptor absent/present, aggregate nonces cancelling to infinity) is executed and compared byte for byte with an independent BIP-327 model (self-tested on all vectors shipped in vectors.h); each partial signature must verify for its signer only; the aggregate must be a valid BIP-340 signature; adapt/extract are inverse. In the order-13 (non-VERIFY) build every nonce tuple (k11,k12,k21,k22) in [1,12]^4 is enumerated.",
                note="Signer counts 6..15, tweak words longer than 4, keys/messages outside the representatives are not explored."),
    "C13": dict(level=MC, design="§4 C13",
                technique="explicit-state search over API call sequences (all sequences to depth 3 unmerged, then BFS with canonical-state merging) against an abstract single-use nonce machine",
                text="A 49-operation alphabet (nonce_gen / nonce_gen_counter valid and invalid variants; partial_sign with own, foreign, negated-key, zeroed, NULL keypair, missing output, bad cache / session, other nonce's session, reused and zeroed nonce) over two secret-nonce slots: every sequence of length <= 3 (117,649) is replayed on fresh objects without merging, then a merged BFS reaches the fixpoint (73 states); in every state the real secnonce bytes must match the abstract machine (ZERO | LIVE(key,id)), any partial_sign handed a nonce must leave it all-zero, at most one signature per nonce id, failures leave nothing that verifies, nonce_gen wipes the caller's randomness and rejects zero randomness.",
                note="Depth bound 3 (thorough 4) for unmerged sequences; merging soundness is itself checked on the unmerged levels ((state, op) determines (return, callback, next state))."),
    "C19": dict(level=MC, design="§4 C19",
                technique="alphabet product over vector sizes / scalar vectors / rho / scratch sizes + single-mutation enumeration + total small-group enumeration, lock-step norm-argument reference model (prover and round-by-round verifier)",
                text="Prove->verify completeness over the (|n|,|l|) grid {1,2,4,8}^2 (thorough ..64) x vector / rho / transcript alphabets x prover and verifier scratch sizes (every 16-byte step up to sufficient; insufficient must fail closed); the model reproduces library proofs byte for byte and its verifier decides every mutated proof: all single-bit flips, sign byte > 3, infinity encodings, x+p / off-curve points, s+n re-encodings, rho = 0, wrong lengths incl. trailing bytes, non-power-of-two sizes, generator-count mismatch; model-constructed accepting instances with X / R at infinity; generator lists for every count 0..256 (prefix-consistent, equal to the RFC6979->SvdW model, round trip, malformed lengths, bad point at every index with a balanced allocation ledger); in the order-13 build every vector and every well-formed proof string for small sizes is enumerated.",
                note="secp256k1 scalar vectors outside the alphabets are not explored; non-power-of-two sizes are only driven with the all-zero statement (a general input would make a defective verifier read outside its arrays)."),
    "C09": dict(level=MC, design="§4 C09",
                technique="full product of the interacting clamp dimensions + single-deviation enumeration on the real prover, oracle = documented success/failure classes + soundness obligations + specified (model) verifier",
                text="The full product value x min_value x exponent x min_bits over boundary alphabets (16 x 16 x 9 x 12 in quick; 70 x 16 x 22 x 20 in thorough) is run through the real prover; documented-invalid parameters must be refused, documented-valid ones must succeed, and every success - also in the grey zone the header leaves open - must verify with min <= value <= max, agree with rangeproof_info, stay within rangeproof_max_size, rewind to exactly (value, blind, zero-padded message) with the creator's nonce and fail with any other, be byte-deterministic, and be accepted with the same range by the independent model verifier; message length (around 128*(rings-1)), extra-commit length, blinds, nonces, generators and output-buffer sizes are explored as single deviations on 12 core points.",
                note="Parameter values outside the alphabets are not explored; where the header is looser than the code (value >= 2^63 with non-zero min_value / exp) refusal and success are both accepted."),
    "C10": dict(level=MC, design="§4 C10",
                technique="model-prover construction of adversarial-but-valid proofs + single-mutation enumeration, decided by an independent model verifier; total enumeration of the 2-byte header space for rangeproof_info",
                text="Proofs are built by a Python prover that controls every free value (digit blinding factors, ring nonces, forged scalars 1..3) for exponent {0,1,18} x mantissa 0..8 (thorough 63, 64) x has_min x digit patterns covering every signer position, plus proofs that are valid only under a lenient header parser (exponent 19..31, reserved bit, min+max wrapping, 2^mantissa*10^exp overflow); each proof is presented as built and under every single mutation of a finite alphabet (each ring scalar <- s+n / 0 / n, e0, digit x <- x+p / off-curve / p, every sign and spare bit, header and mantissa bytes, trailing and truncated lengths, other commitment / generator / extra data, every single-bit flip for the small proofs); the model verifier's verdict and reported range must equal the library's. rangeproof_info is compared with the header specification on all 65536 (byte0, byte1) x 6 min_value x 8 lengths.",
                note="Adversarial proofs use the forged-scalar alphabet {1,2,3} (+n); Borromean code is dead in the small-group builds, so there is no total enumeration over scalars."),
    "C11": dict(level=MC, design="§4 C11",
                technique="total parser enumeration over the count field + exhaustive pattern enumeration for initialisation (n <= 8) + single-mutation enumeration on model-built proofs, lock-step surjection / Borromean / CSPRNG reference models",
                text="The parser is compared with the model on every n_inputs value 0..65535 x bitmap patterns x lengths (exactly-sized heap objects make overruns ASan-visible); initialise is run for n in 1..8 on every position/multiplicity pattern x subset size x seeds x iteration limits (and boundary patterns for n in {9,16,17,255,256}) with the SHA-256 CSPRNG model predicting bitmap, index and iteration count; generate->verify with blinding keys incl. 0 and n and input == output; model-built proofs with small forged scalars are accepted and their s+n / 0 re-encodings, altered tags, tag-count changes, empty bitmap (with e0 = H(msg)) and every bit flip (n <= 4) rejected; allocate_initialized / destroy keep the allocation ledger balanced.",
                note="Above n = 8 surjection patterns are boundary choices, not all; hash challenges >= n are not constructible; Borromean code is dead in the small-group builds."),
    "C16": dict(level=MC, design="§4 C16",
                technique="exhaustive enumeration over key counts / signer indices / secret alphabets + single-mutation enumeration on library-made and model-built signatures, lock-step whitelist / Borromean reference models",
                text="Key counts 0..8, 254, 255 (thorough +16, 64, 128) x every signer index x secrets {valid, 0, n} for the online and the summed key: sign -> verify -> model verifier -> round trip, honest signatures byte-compared with the model's deterministic derivation; parser over every count byte and length; every bit flip for n <= 4; each scalar replaced by 0 / n / s+n on model-built signatures with forged scalars 1..3 (accepted as built, rejected re-encoded); permuted / replaced keys, count mismatch, degenerate keys; the public-data forgery 00||SHA256(SHA256(ser33(W))) against an empty list (finding F1, fixed) stays as a permanent case.",
                note="Key lists whose ring key is the point at infinity (needs W when choosing the online key) are only required to be rejected by verify; hash challenges >= n are not constructible."),
    "C18": dict(level=MC, design="§4 C18",
                technique="boundary-alphabet products + model-constructed exceptional-case families + total small-group ECDH enumeration, lock-step XSwiftEC / ECDH reference models",
                text="ellswift_decode on an alphabet of 79 field values squared plus model-built inputs for every exceptional family (u^3+t^2+7 = 0 from u and from t, t = 0, u^3 = -8, X = 0) with all three x1/x2/x3 branches selected; the inverse map for every branch c in 0..7 incl. s = 0, r = 0, u = -2x; encode / create for every branch and both parities with decode(encode) = key; ECDH over SC x points x hash choices (default, sha256, custom copy, failing) and xdh for both roles x 4 hashes cross-checked against ECDH on the decoded keys; in the order-13 build ECDH, the x-only ladder and create/decode/xdh are enumerated totally (every secret encoding incl. overflow encodings x every point). Models are self-tested on the BIP-324 and Wycheproof vectors shipped in the tree.",
                note="The ElligatorSwift map lives in the real field: alphabets and families only, the small groups do not make it enumerable. Encoding bytes are not part of the verdict (the header says they are not stable); decode(encoding) = key is."),
    "C17": dict(level=MC, design="§4 C17",
                technique="all compositions + transition closure from the canonical aggregator state + boundary / single-mutation enumeration + total small-group enumeration incl. s+kN re-encodings, lock-step draft-spec model",
                text="For n in 0..8 every composition n = n1+...+nk of incremental aggregation equals one-shot aggregation and the model byte for byte; every (n_before, n_new) transition from the canonical state for n <= 64 closes all splits by induction; buffer lengths from 0 to 32(n+2); aggverify on honest aggregates, reordered keys / messages, one altered signature, every bit flip (n <= 3), r_i >= p / off-curve, s <- n / 2^256-1, wrong lengths, size_t-wrapping n_before+n_new; in the order-13 build all keys x challenge-covering messages x n <= 3 are aggregated and every s encoding s+13k and every s in Z_13 is decided by the model equation (the only place a dropped s >= n rejection shows for n >= 1).",
                note="On secp256k1 r_i+p / s+n re-encodings of a valid aggregate with n >= 1 do not exist; only two fixed key/message data sets are used there."),
    "C14": dict(level=MC, design="§4 C14",
                technique="boundary-alphabet pipeline product + single-mutation enumeration on every adaptor signature + total small-group enumeration of the scalar space, lock-step adaptor / DLEQ reference model",
                text="encrypt for boundary signing / decryption keys x messages (incl. >= n) x nonce sources (default, with aux, custom constant, failing, k = 0) is byte-compared with the model (self-tested on the DLC spec vectors shipped in the tree); verify = 1, decrypt gives a low-S signature that verifies, recover from it and from the negated-s twin returns the decryption key, failure outputs zeroed; every one of the 1296 bit flips, each scalar replaced by 0 / n / s+n / 2^256-1, points negated / off-curve / x >= p, foreign keys / messages / signatures are decided by the model verifier; in the order-13 build every (x, y, k, m) and every (s', e, s) triple is enumerated, deciding exactness over the whole scalar space incl. s+kN re-encodings.",
                note="The decoder reduces the DLEQ challenge e mod n (only distinguishable in the small-group test builds; the model follows the code). Adaptor points with x >= n / x+p aliases are covered at decoder level and in the small group only."),
    "C15": dict(level=MC, design="§4 C15",
                technique="boundary-alphabet product + protocol-history enumeration (4-step anti-exfil machine run twice in every same/different combination, on 3 context kinds) + single-bit mutation enumeration, lock-step sign-to-contract reference model",
                text="s2c_sign for boundary keys x messages (0, n-1, n, 2^256-1) x data is byte-compared with the model (signature and opening); verify_commit accepts exactly (sig, data, opening) and rejects every other datum in the alphabet and every single-bit flip of signature, datum and opening; the anti-exfil protocol host_commit -> signer_commit -> sign -> host_verify is run twice in every combination of same / different host randomness and message with the invariants of the statement (committed opening = opening of the signature, same randomness => same opening, host_verify = commit check AND ecdsa_verify on all mutated inputs), on fresh, randomised and replaced-compression-function contexts so that the two separately written nonce derivations must agree; opening codec over 33 x-values x every prefix byte.",
                note="Production group only (sign-to-contract tweaks are dead in the small-group builds); cryptographically unreachable retries (tweak >= n, k+t = 0) are not driven."),
    "C07": dict(level="fault_enumeration", design="§4 C07",
                technique="deviation-bounded malformed-input enumeration (every 0- and 1-deviation input of each entry point) under ASan / UBSan / VERIFY with callback counters, allocation ledger and watchdog; parsed objects chained into every consumer of their type",
                text="19 parsing / verification targets (public keys, x-only keys, strict and lax DER, compact / recoverable signatures, Schnorr signatures, MuSig pubnonce / aggnonce / partial signature, generators, commitments, range proofs incl. rewind and info, surjection proofs, whitelist signatures, adaptor signatures, half-aggregates incl. incremental aggregation, ElligatorSwift encodings, s2c openings, BP++ generator lists) receive every valid artefact made by the library's own provers under every single mutation of a finite alphabet (each bit flip, each truncation, extensions, each header byte over all 256 values, the 16-bit count over all values, every aligned 32-byte slot replaced by 9 boundary scalars / coordinates, constant strings of every length, header byte pairs), in exactly-sized malloc blocks; a sanitizer report, VERIFY_CHECK abort, callback, return value outside {0,1}, leaked allocation or hang is a violation. Found F2 (ecdsa_adaptor_recover on an s = 0 signature object).",
                note="Multi-mutation inputs beyond the listed pairs are not explored; other arguments are well-formed; declared lengths always equal the buffer length."),
}

NOT_YET = "check not built yet in this round (work in progress; see DESIGN.md section 4 for the planned exploration)"


def main():
    checks = []
    na = []
    for p in props:
        pid = p["id"]
        c = CHECKS.get(pid)
        if c is None or not os.path.exists(os.path.join(VERIF, "mc", "checks", pid.lower() + ".py")):
            na.append({"property_id": pid, "reason": NOT_YET})
            continue
        checks.append({
            "property_id": pid,
            "quick_cmd": "./check %s --tier quick" % pid,
            "thorough_cmd": "./check %s --tier thorough" % pid,
            "evidence_file": "/verif/evidence/%s.json" % pid,
            "replay_cmd_template": "./check %s --replay {path}" % pid,
            "engine": "mc-explorer",
            "level_claimed": {"category": c["level"], "text": c["text"], "design_ref": c["design"]},
            "level_note": c["note"],
            "technique": c["technique"],
        })
    m = {
        "version": 1,
        "setup_cmd": "/usr/bin/python3 mc/build.py prod-san prod-verify prod-fast sg13 sg13-verify cfg-int64-noasm-w8-c22",
        "hooks": {
            "guard": "SECP256K1_ZKP_VERIF",
            "enable": "no source hooks are used: the shim (mc/shim/shim.c) #includes /repo/src/secp256k1.c and is compiled per configuration by mc/build.py from /repo's working tree; -DSECP256K1_ZKP_VERIF is reserved",
            "baseline_off_cmd": "cmake --build /repo/_build -j16 && ctest --test-dir /repo/_build -j8 --timeout 900",
            "source_commits": [],
            "add_only": True,
        },
        "engines": [{"name": "mc-explorer", "path": "/verif/mc",
                     "serves_properties": [c["property_id"] for c in checks],
                     "kind_free_text": "bounded exhaustive explorer: sharded enumeration of finite case spaces / BFS over operation histories on the real library (ctypes shim built from /repo), lock-step Python reference models, crash attribution, replay files"}],
        "checks": checks,
        "not_applicable": na,
        "notes": "All checks rebuild the shim from /repo's working tree (hash-keyed cache in /verif/build). known_findings.json lists fixed/known findings. See DESIGN.md.",
    }
    with open(os.path.join(VERIF, "MANIFEST.json"), "w") as f:
        json.dump(m, f, indent=1)
    print("MANIFEST: %d checks, %d not_applicable" % (len(checks), len(na)))


if __name__ == "__main__":
    main()
