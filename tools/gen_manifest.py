#!/usr/bin/python3
"""Generates /verif/MANIFEST.json from the table below (one entry per property that has a check);
every property without a check is listed under not_applicable with its reason."""
import json, os, glob

VERIF = os.path.dirname(os.path.dirname(os.path.abspath(__file__)))
props = [json.loads(l) for l in open(os.path.join(VERIF, "properties.jsonl"))]

MC = "model_checking"
CHECKS = {
    "C01": dict(level=MC, design="§4 C01",
                technique="explicit-state total enumeration (small groups) + boundary-alphabet product, lock-step reference model",
                text="Total enumeration of ECDSA verify over every (r,s,m,key) and of sign over every (key,msg,nonce,callback-failure point) in the order-13 (thorough: 7, 199) builds of the same source, plus the full product of boundary alphabets and algebraically constructed triples (R.x>=n, r around p-n, s at the half-order boundary, messages >= n) on secp256k1 for several build configurations; every case is executed on the real code and on an integer-arithmetic model.",
                note="secp256k1 scalars outside the alphabets are not explored (the small groups are explored totally); trusted: the Python big-integer model (self-tested against RFC 6979 / curve vectors), gcc 12 / clang 14."),
    "C02": dict(level=MC, design="§4 C02",
                technique="boundary-alphabet product + single-mutation enumeration + total small-group enumeration, lock-step BIP-340 reference",
                text="Every message length 0..300 (and 11 longer lengths up to 10^5), the KEY alphabet closed under negation, all aux variants and both entry points are signed by the real code and byte-compared with the BIP-340 reference; every single-bit flip, every boundary scalar substituted for r and s, odd-y and infinity constructions are decided by the reference verifier; in the order-13 build every (r, s+kN) for every key and message is enumerated, which decides rejection of s >= n for valid signatures.",
                note="r+p re-encodings of a valid signature are not constructible in any supported group; secp256k1 scalars outside the alphabets are not explored. Trusted: Python model (hashlib SHA-256, big-int group law)."),
}

NOT_YET = "check not built yet in this round (work in progress; see DESIGN.md section 4 for the planned exploration)"


def main():
    checks = []
    na = []
    for p in props:
        pid = p["id"]
        c = CHECKS.get(pid)
        if c is None or not os.path.exists(os.path.join(VERIF, "mc", "checks", pid.lower() + ".py")):
            na.append({"property_id": pid, "reason": NOT_YET})
            continue
        checks.append({
            "property_id": pid,
            "quick_cmd": "./check %s --tier quick" % pid,
            "thorough_cmd": "./check %s --tier thorough" % pid,
            "evidence_file": "/verif/evidence/%s.json" % pid,
            "replay_cmd_template": "./check %s --replay {path}" % pid,
            "engine": "mc-explorer",
            "level_claimed": {"category": c["level"], "text": c["text"], "design_ref": c["design"]},
            "level_note": c["note"],
            "technique": c["technique"],
        })
    m = {
        "version": 1,
        "setup_cmd": "/usr/bin/python3 mc/build.py prod-san prod-verify prod-fast sg13 sg13-verify cfg-int64-noasm-w8-c22",
        "hooks": {
            "guard": "SECP256K1_ZKP_VERIF",
            "enable": "no source hooks are used: the shim (mc/shim/shim.c) #includes /repo/src/secp256k1.c and is compiled per configuration by mc/build.py from /repo's working tree; -DSECP256K1_ZKP_VERIF is reserved",
            "baseline_off_cmd": "cmake --build /repo/_build -j16 && ctest --test-dir /repo/_build -j8 --timeout 900",
            "source_commits": [],
            "add_only": True,
        },
        "engines": [{"name": "mc-explorer", "path": "/verif/mc",
                     "serves_properties": [c["property_id"] for c in checks],
                     "kind_free_text": "bounded exhaustive explorer: sharded enumeration of finite case spaces / BFS over operation histories on the real library (ctypes shim built from /repo), lock-step Python reference models, crash attribution, replay files"}],
        "checks": checks,
        "not_applicable": na,
        "notes": "All checks rebuild the shim from /repo's working tree (hash-keyed cache in /verif/build). known_findings.json lists fixed/known findings. See DESIGN.md.",
    }
    with open(os.path.join(VERIF, "MANIFEST.json"), "w") as f:
        json.dump(m, f, indent=1)
    print("MANIFEST: %d checks, %d not_applicable" % (len(checks), len(na)))


if __name__ == "__main__":
    main()
