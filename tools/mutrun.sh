#!/bin/bash
# usage: tools/mutrun.sh <patch.diff> <ID> [<ID> ...]   -- apply a patch to /repo, run the quick checks, always revert
P="$1"; shift
cd /repo && git apply "$P" || { echo "patch does not apply"; exit 3; }
cd /verif
for id in "$@"; do
  ./check "$id" > /tmp/mutrun_$id.log 2>&1; rc=$?
  echo "== $id rc=$rc: $(grep -c '^VIOLATION' /tmp/mutrun_$id.log) violation line(s)"; grep -A1 '^VIOLATION' /tmp/mutrun_$id.log | head -6; tail -1 /tmp/mutrun_$id.log
done
git -C /repo checkout -- . ; git -C /repo status --short | head -3
