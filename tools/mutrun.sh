#!/bin/bash
# usage: tools/mutrun.sh <patch.diff> <ID> [<ID> ...]
# applies a patch to a private worktree of /repo (never to /repo itself), runs the quick checks against it, removes nothing
P="$1"; shift
WT=${MUT_WT:-/tmp/wt_main}
[ -d "$WT" ] || git -C /repo worktree add --detach "$WT" >/dev/null 2>&1
git -C "$WT" checkout -q --detach $(git -C /repo rev-parse HEAD) && git -C "$WT" checkout -- . 
git -C "$WT" apply "$P" || { echo "patch does not apply"; exit 3; }
cd /verif
for id in "$@"; do
  VERIF_REPO="$WT" ./check "$id" > /tmp/mutrun_$id.log 2>&1; rc=$?
  echo "== $id rc=$rc: $(grep -ac '^VIOLATION' /tmp/mutrun_$id.log) violation line(s)"; grep -a -A1 '^VIOLATION' /tmp/mutrun_$id.log | grep -v '^--' | head -6; tail -1 /tmp/mutrun_$id.log
done
git -C "$WT" checkout -- .
