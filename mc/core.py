"""Explorer core: sharded exhaustive enumeration with crash attribution,
violation / replay files, known findings, evidence writer."""
import os, sys, json, time, pickle, mmap, struct, signal, traceback, hashlib, base64

VERIF = os.path.dirname(os.path.dirname(os.path.abspath(__file__)))
NPROC = int(os.environ.get("VERIF_JOBS", "16"))
SEED = int(os.environ.get("VERIF_SEED", "0") or 0)


REPLAY = None
if os.environ.get("VERIF_REPLAY"):
    REPLAY = json.load(open(os.environ["VERIF_REPLAY"]))


def hx(b):
    return bytes(b).hex() if b is not None else None


class Violation(Exception):
    pass


class Run:
    """One check run: collects counts, violations, samples; writes evidence."""

    def __init__(self, pid, tier, level="model_checking"):
        self.pid, self.tier, self.level = pid, tier, level
        self.t0 = time.time()
        self.deadline = self.t0 + (float(os.environ.get("VERIF_DEADLINE_S", "0")) or (1500 if tier == "quick" else 7200))
        self.cov = {"states": 0, "transitions": 0, "traces_validated_against_impl": 0, "evaluations": 0,
                    "distinct_nontrivial": 0, "samples": [], "exhaustive": True, "phases": {}, "builds": {}}
        global CASE_TIMEOUT
        if not os.environ.get("VERIF_CASE_TIMEOUT"):
            CASE_TIMEOUT = 600.0 if tier == "quick" else 1500.0     # a case normally takes seconds; the margin is for a loaded machine
        self.anomalies = []
        self.violations = []
        self.known_hits = []
        self.assumptions = []
        self.rule = []
        self._nontrivial = set()
        if REPLAY is None and os.path.realpath(os.environ.get("VERIF_REPO", "/repo")) == "/repo":
            d = os.path.join(VERIF, "replays", pid)          # stale replay files of earlier runs
            if os.path.isdir(d):
                for f in os.listdir(d):
                    try:
                        os.remove(os.path.join(d, f))
                    except OSError:
                        pass
        kf = json.load(open(os.path.join(VERIF, "known_findings.json")))
        self.known = [k for k in kf.get("known", []) if k["property"] == pid]

    # ---- bookkeeping -------------------------------------------------
    def out_of_time(self):
        return time.time() > self.deadline

    def phase(self, name, stats, rule=None, exhaustive=True):
        """Merge a phase's statistics.  stats: dict with cases, calls, states, nontrivial(set or int), hist(dict), samples(list)"""
        c = self.cov
        cases = int(stats.get("cases", 0))
        calls = int(stats.get("calls", cases))
        states = int(stats.get("states", cases))
        nt = stats.get("nontrivial", 0)
        if isinstance(nt, (set, frozenset)):
            nt = len(nt)
        c["evaluations"] += cases
        c["transitions"] += calls
        c["states"] += states
        c["traces_validated_against_impl"] += int(stats.get("validated", cases))
        c["distinct_nontrivial"] += int(nt)
        c["phases"][name] = {"cases": cases, "api_calls": calls, "states": states, "distinct_nontrivial": int(nt),
                             "outcomes": stats.get("hist", {}), "exhaustive": bool(exhaustive),
                             "wall_s": round(stats.get("wall", 0.0), 2)}
        if stats.get("bounds"):
            c["phases"][name]["bounds"] = stats["bounds"]
        if not exhaustive:
            c["exhaustive"] = False
        for s in stats.get("samples", [])[:3]:
            if len(c["samples"]) < 12:
                c["samples"].append({"phase": name, "case": s})
        if rule:
            self.rule.append("%s: %s" % (name, rule))

    def violation(self, what, case, raw=None, phase=None):
        """Record a violation (after it was replayed by the caller where possible)."""
        for k in self.known:
            if k.get("match") and k["match"] in json.dumps(case, sort_keys=True, default=str):
                self.known_hits.append((k, what))
                return
        self.violations.append({"what": what, "phase": phase, "case": case, "raw_case": raw})

    def finish(self):
        c = self.cov
        c["rule"] = " | ".join(self.rule)
        wall = time.time() - self.t0
        n = 0
        for v in (self.violations[:20] if REPLAY is None else []):
            d = os.path.join(VERIF, "replays", self.pid)
            os.makedirs(d, exist_ok=True)
            p = os.path.join(d, "%d.json" % n)
            with open(p, "w") as f:
                json.dump({"property": self.pid, "tier": self.tier, **v}, f, indent=1, default=str)
            print("VIOLATION property=%s replay=%s" % (self.pid, p))
            print("  " + v["what"][:600])
            n += 1
        seen = set()
        for k, what in self.known_hits:
            if k["id"] not in seen:
                seen.add(k["id"])
                print("KNOWN-FINDING: property=%s %s" % (self.pid, k["what"]))
        if not c["samples"]:
            c["samples"] = [{"note": "no sample recorded"}]
        ev = {"property_id": self.pid, "tier": self.tier, "seed": SEED, "level": self.level, "coverage": c,
              "assumptions": self.assumptions, "wall_s": round(wall, 2), "violations": len(self.violations)}
        if self.anomalies:
            c["harness_exceptions"] = len(self.anomalies)
            c["exhaustive"] = False
        if REPLAY is not None:
            print("replay of %s: %d violation(s)" % (os.environ["VERIF_REPLAY"], len(self.violations)))
            return 1 if self.violations else 0
        evdir = os.path.join(VERIF, "evidence")
        partial = any(k.endswith("_ONLY") and v for k, v in os.environ.items())
        if os.path.realpath(os.environ.get("VERIF_REPO", "/repo")) != "/repo" or partial:
            evdir = "/tmp/verif-alt-evidence"  # runs against scratch copies / development runs of single phases never touch the committed evidence
        os.makedirs(evdir, exist_ok=True)
        tmp = os.path.join(evdir, self.pid + ".json.tmp")
        with open(tmp, "w") as f:
            json.dump(ev, f, indent=1, default=str)
        os.rename(tmp, os.path.join(evdir, self.pid + ".json"))
        print("%s %s: %d cases, %d api calls, %d states, %d distinct non-trivial, exhaustive=%s, %d violation(s), %.1fs" % (
            self.pid, self.tier, c["evaluations"], c["transitions"], c["states"], c["distinct_nontrivial"],
            c["exhaustive"], len(self.violations), wall))
        if self.anomalies:
            sys.stderr.write("%s: the harness raised an exception inside %d case(s) (first: phase %s, case %s):\n%s\n" % (
                self.pid, len(self.anomalies), self.anomalies[0][0], self.anomalies[0][1], self.anomalies[0][2]))
            if not self.violations:
                sys.stderr.write("%s: no violation was established by the other cases: machinery error, no verdict\n" % self.pid)
                return 2
        return 1 if self.violations else 0


# ---------------------------------------------------------------------
# sharded execution with crash attribution
# ---------------------------------------------------------------------

class Stats:
    """Per-worker accumulator, merged in the parent."""

    def __init__(self):
        self.cases = 0
        self.calls = 0
        self.hist = {}
        self.nontrivial = set()
        self.samples = []
        self.viol = []
        self.anomalies = []
        self.states = set()

    def count(self, bucket, n=1):
        self.hist[bucket] = self.hist.get(bucket, 0) + n

    def nt(self, key):
        if len(self.nontrivial) < 2000000:
            self.nontrivial.add(key)

    def sample(self, s):
        if len(self.samples) < 3:
            self.samples.append(s)

    def fail(self, what, case):
        if len(self.viol) < 50:
            raw = base64.b64encode(pickle.dumps(getattr(self, "cur", None))).decode()
            self.viol.append((what, case, raw))

    def merge(self, o):
        self.cases += o.cases
        self.calls += o.calls
        for k, v in o.hist.items():
            self.hist[k] = self.hist.get(k, 0) + v
        self.nontrivial |= o.nontrivial
        self.states |= o.states
        for s in o.samples:
            self.sample(s)
        self.viol += o.viol
        self.anomalies = (self.anomalies + getattr(o, "anomalies", []))[:20]

    def as_dict(self, wall=0.0):
        return {"cases": self.cases, "calls": self.calls or self.cases, "hist": dict(sorted(self.hist.items())),
                "nontrivial": len(self.nontrivial), "samples": self.samples, "wall": wall,
                "states": len(self.states) if self.states else self.cases}


def _worker(fn, setup, cases, idxs, slot, wfd, wid):
    st = Stats()
    try:
        env = setup() if setup else None
        for i in idxs:
            slot.seek(wid * 8)
            slot.write(struct.pack("<q", i))
            st.cases += 1
            st.cur = cases[i]
            try:
                fn(env, cases[i], st)
            except Violation as e:
                st.fail(str(e), cases[i])
            except Exception:
                # the harness itself tripped over this case (e.g. the library returned something the case function did not
                # anticipate): remember it, keep exploring; it is NOT a verdict - see Run.finish
                if len(st.anomalies) < 5:
                    st.anomalies.append((repr(cases[i])[:300], traceback.format_exc()[-1500:]))
        slot.seek(wid * 8)
        slot.write(struct.pack("<q", -2))
        data = pickle.dumps(st)
    except BaseException:
        data = pickle.dumps(("EXC", traceback.format_exc()))
    with os.fdopen(wfd, "wb") as f:
        f.write(data)
    os._exit(0)


CASE_TIMEOUT = float(os.environ.get("VERIF_CASE_TIMEOUT", "1500"))
SETUP_TIMEOUT = float(os.environ.get("VERIF_SETUP_TIMEOUT", "400"))


def pmap(fn, cases, setup=None, nproc=None, describe=None):
    """Run fn(env, case, stats) for every case, sharded round-robin over forked workers.
    A worker that dies (sanitizer abort, VERIFY_CHECK, signal) is attributed to the case it
    was executing; that case is recorded as a crash and the rest of its shard is resumed.
    A worker that makes no progress for CASE_TIMEOUT seconds inside a case is killed and the case is
    recorded as a hang; a worker stuck before its first case (machinery, e.g. a fork-time lock) is
    respawned.  Returns merged Stats (crashes/hangs appear in .viol)."""
    import select
    nproc = nproc or NPROC
    cases = list(cases)
    total = Stats()
    if not cases:
        return total
    nproc = max(1, min(nproc, len(cases)))
    shards = [list(range(w, len(cases), nproc)) for w in range(nproc)]
    t0 = time.time()
    slot = mmap.mmap(-1, 8 * nproc)
    pending = [(wid, idxs, 0) for wid, idxs in enumerate(shards) if idxs]
    active = {}
    crashes = 0

    def cur_of(wid):
        slot.seek(wid * 8)
        return struct.unpack("<q", slot.read(8))[0]

    while pending or active:
        for wid, idxs, tries in pending:
            r, w = os.pipe()
            slot.seek(wid * 8)
            slot.write(struct.pack("<q", -1))
            sys.stdout.flush()
            sys.stderr.flush()
            pid = os.fork()
            if pid == 0:
                os.close(r)
                for fd in list(active):
                    try:
                        os.close(fd)
                    except OSError:
                        pass
                _worker(fn, setup, cases, idxs, slot, w, wid)
            os.close(w)
            active[r] = {"wid": wid, "idxs": idxs, "pid": pid, "data": bytearray(), "last": -1, "t": time.time(), "hung": False, "tries": tries}
        pending = []
        ready, _, _ = select.select(list(active), [], [], 5.0)
        now = time.time()
        for fd in ready:
            chunk = os.read(fd, 1 << 20)
            a = active[fd]
            if chunk:
                a["data"] += chunk
                a["t"] = now
                continue
            # EOF: worker finished or died
            os.close(fd)
            del active[fd]
            _, status = os.waitpid(a["pid"], 0)
            wid, idxs = a["wid"], a["idxs"]
            cur = cur_of(wid)
            if a["data"]:
                st = pickle.loads(bytes(a["data"]))
                if isinstance(st, tuple):
                    raise RuntimeError("worker exception (machinery error):\n" + st[1])
                total.merge(st)
                continue
            if cur < 0:
                if a["tries"] < 2:          # stuck at a fork-time lock, or killed by something outside our control: once more
                    pending.append((wid, idxs, a["tries"] + 1))
                    continue
                if a["hung"]:
                    raise RuntimeError("worker hung before its first case three times (machinery)")
                # the worker died REPEATEDLY while the harness prepared its environment, i.e. inside the library on calls
                # the harness knows to be legal (VERIFY_CHECK, sanitizer abort, crash): that is a violation, not a machinery
                # error; the shard's cases stay unexecuted
                sig = os.WTERMSIG(status) if os.WIFSIGNALED(status) else 0
                total.cur = None
                total.fail("the library aborted (signal %d, exit %d) while the harness made the legal preparatory calls of this phase "
                           "(VERIFY_CHECK / sanitizer report / crash on valid input; see stderr); %d case(s) of this shard could not run"
                           % (sig, os.WEXITSTATUS(status) if os.WIFEXITED(status) else -1, len(idxs)), {"shard": wid, "first_case": repr(cases[idxs[0]])[:300]})
                total.count("crash-in-setup")
                crashes += 1
                continue
            sig = os.WTERMSIG(status) if os.WIFSIGNALED(status) else 0
            total.cases += idxs.index(cur) + 1
            total.cur = cases[cur]
            if a["hung"]:
                total.fail("no progress for %d s inside this case (hang / non-termination); worker killed" % CASE_TIMEOUT,
                           describe(cases[cur]) if describe else cases[cur])
                total.count("hang")
            else:
                total.fail("process died (signal %d, exit %d) while executing this case: sanitizer report, VERIFY_CHECK, or crash"
                           % (sig, os.WEXITSTATUS(status) if os.WIFEXITED(status) else -1),
                           describe(cases[cur]) if describe else cases[cur])
                total.count("crash")
            crashes += 1
            rest = idxs[idxs.index(cur) + 1:]
            if rest and crashes < 20:
                pending.append((wid, rest, 0))
        for fd, a in active.items():
            c = cur_of(a["wid"])
            if c != a["last"]:
                a["last"] = c
                a["t"] = now
            elif not a["hung"] and now - a["t"] > (SETUP_TIMEOUT if c == -1 else CASE_TIMEOUT) and c != -2:
                a["hung"] = True
                try:
                    os.kill(a["pid"], signal.SIGKILL)
                except OSError:
                    pass
    total.wall = time.time() - t0
    return total


def run_phase(run, name, fn, cases, setup=None, rule=None, nproc=None, exhaustive=True, describe=None, extra=None):
    t0 = time.time()
    only = [t for t in os.environ.get("VERIF_ONLY", "").split(",") if t]   # development aid: phases whose name contains one of these
    if only and not any(t in name for t in only):
        return Stats()
    if getattr(run, "abort_rest", False):
        # a case of an earlier phase did not terminate: the violation is established; do not wait another watchdog period per phase
        run.cov["exhaustive"] = False
        run.cov.setdefault("phases_skipped_after_hang", []).append(name)
        return Stats()
    if REPLAY is not None:
        if REPLAY.get("phase") != name:
            return Stats()
        cases = [pickle.loads(base64.b64decode(REPLAY["raw_case"]))]
        nproc = 1
    st = pmap(fn, cases, setup=setup, nproc=nproc, describe=describe)
    if st.hist.get("hang"):
        run.abort_rest = True
    d = st.as_dict(time.time() - t0)
    if extra:
        d.update(extra)
    run.phase(name, d, rule=rule, exhaustive=exhaustive)
    for what, case, raw in st.viol:
        run.violation("[%s] %s" % (name, what), case, raw, name)
    for case, tb in getattr(st, "anomalies", []):
        run.anomalies.append((name, case, tb))
    return st


def seeded_fillers(n, tag=b""):
    """Deterministic 32-byte fillers derived from VERIF_SEED (added to alphabets, never replacing them)."""
    out = []
    for i in range(n):
        out.append(hashlib.sha256(b"verif-filler" + tag + struct.pack("<qI", SEED, i)).digest())
    return out
