/* Exported wrappers around static internals (included at the end of shim.c). */

VX void verif_get_g(unsigned char *out64) {
    secp256k1_ge g = secp256k1_ge_const_g;
    secp256k1_fe_normalize_var(&g.x);
    secp256k1_fe_normalize_var(&g.y);
    secp256k1_fe_get_b32(out64, &g.x);
    secp256k1_fe_get_b32(out64 + 32, &g.y);
}

#ifdef VERIF_WITH_LAX_DER
VX int verif_lax_der(const secp256k1_context *ctx, secp256k1_ecdsa_signature *sig, const unsigned char *input, size_t inputlen) {
    return ecdsa_signature_parse_der_lax(ctx, sig, input, inputlen);
}
#endif

/* ---- point helpers used by several checks: pubkey object <-> affine coordinates ---- */
VX int verif_pubkey_load_xy(const secp256k1_context *ctx, unsigned char *out64, const secp256k1_pubkey *pk) {
    secp256k1_ge ge;
    if (!secp256k1_pubkey_load(ctx, &ge, pk)) return 0;
    secp256k1_fe_normalize_var(&ge.x);
    secp256k1_fe_normalize_var(&ge.y);
    secp256k1_fe_get_b32(out64, &ge.x);
    secp256k1_fe_get_b32(out64 + 32, &ge.y);
    return 1;
}

/* build a pubkey object from affine coordinates WITHOUT any validity check (used to
 * place small-group points and deliberately chosen points into API objects) */
VX int verif_pubkey_save_xy(secp256k1_pubkey *pk, const unsigned char *in64) {
    secp256k1_ge ge;
    secp256k1_fe x, y;
    if (!secp256k1_fe_set_b32_limit(&x, in64)) return 0;
    if (!secp256k1_fe_set_b32_limit(&y, in64 + 32)) return 0;
    secp256k1_ge_set_xy(&ge, &x, &y);
    secp256k1_pubkey_save(pk, &ge);
    return 1;
}

/* ECDSA signature object <-> (r, s) scalars, bypassing the parsers (any r, s in [0,n)) */
VX void verif_ecdsa_sig_save(secp256k1_ecdsa_signature *sig, const unsigned char *r32, const unsigned char *s32, int *overflow) {
    secp256k1_scalar r, s;
    int o1 = 0, o2 = 0;
    secp256k1_scalar_set_b32(&r, r32, &o1);
    secp256k1_scalar_set_b32(&s, s32, &o2);
    secp256k1_ecdsa_signature_save(sig, &r, &s);
    if (overflow) *overflow = o1 | (o2 << 1);
}
VX void verif_ecdsa_sig_load(const secp256k1_context *ctx, unsigned char *r32, unsigned char *s32, const secp256k1_ecdsa_signature *sig) {
    secp256k1_scalar r, s;
    secp256k1_ecdsa_signature_load(ctx, &r, &s, sig);
    secp256k1_scalar_get_b32(r32, &r);
    secp256k1_scalar_get_b32(s32, &s);
}

/* per-property wrapper files (created as needed) */
#if __has_include("wrap_c02.h")
#include "wrap_c02.h"
#endif
#if __has_include("wrap_c03.h")
#include "wrap_c03.h"
#endif
#if __has_include("wrap_c04.h")
#include "wrap_c04.h"
#endif
#if __has_include("wrap_c05.h")
#include "wrap_c05.h"
#endif
#if __has_include("wrap_c06.h")
#include "wrap_c06.h"
#endif
#if __has_include("wrap_c07.h")
#include "wrap_c07.h"
#endif
#if __has_include("wrap_c08.h")
#include "wrap_c08.h"
#endif
#if __has_include("wrap_c09.h")
#include "wrap_c09.h"
#endif
#if __has_include("wrap_c10.h")
#include "wrap_c10.h"
#endif
#if __has_include("wrap_c11.h")
#include "wrap_c11.h"
#endif
#if __has_include("wrap_c12.h")
#include "wrap_c12.h"
#endif
#if __has_include("wrap_c13.h")
#include "wrap_c13.h"
#endif
#if __has_include("wrap_c14.h")
#include "wrap_c14.h"
#endif
#if __has_include("wrap_c15.h")
#include "wrap_c15.h"
#endif
#if __has_include("wrap_c16.h")
#include "wrap_c16.h"
#endif
#if __has_include("wrap_c17.h")
#include "wrap_c17.h"
#endif
#if __has_include("wrap_c18.h")
#include "wrap_c18.h"
#endif
#if __has_include("wrap_c19.h")
#include "wrap_c19.h"
#endif
#if __has_include("wrap_c20.h")
#include "wrap_c20.h"
#endif
