/* C04: exhaustive permutation driver for the internal heap sort. */
static int verif_int_cmp(const void *a, const void *b, void *data) {
    long *cnt = (long *)data;
    int x, y;
    memcpy(&x, a, sizeof(int));
    memcpy(&y, b, sizeof(int));
    if (cnt) (*cnt)++;
    return (x > y) - (x < y);
}

/* Sorts every sequence in {0..vals-1}^n (vals^n sequences; covers all permutations and all multisets)
 * with element size `esz` (ints embedded in esz-byte records, esz >= 4, to exercise the byte-wise swap),
 * returns the number of sequences whose output is not a sorted permutation of the input. */
VX long verif_hsort_all(int n, int vals, int esz, long *n_sequences) {
    unsigned char rec[16 * 64];
    int seq[16];
    int cnt_in[16], cnt_out[16];
    long bad = 0, total = 0;
    int i;
    if (n > 16 || vals > 16 || esz < 4 || esz > 64) return -1;
    for (i = 0; i < n; i++) seq[i] = 0;
    while (1) {
        int ok = 1;
        memset(rec, 0xA5, sizeof(rec));
        for (i = 0; i < vals; i++) { cnt_in[i] = 0; cnt_out[i] = 0; }
        for (i = 0; i < n; i++) {
            memcpy(rec + (size_t)i * esz, &seq[i], sizeof(int));
            cnt_in[seq[i]]++;
        }
        secp256k1_hsort(rec, (size_t)n, (size_t)esz, verif_int_cmp, NULL);
        for (i = 0; i < n; i++) {
            int v;
            memcpy(&v, rec + (size_t)i * esz, sizeof(int));
            if (v < 0 || v >= vals) { ok = 0; break; }
            cnt_out[v]++;
            if (i > 0) {
                int w;
                memcpy(&w, rec + (size_t)(i - 1) * esz, sizeof(int));
                if (w > v) ok = 0;
            }
        }
        for (i = 0; i < vals; i++) if (cnt_in[i] != cnt_out[i]) ok = 0;
        if (!ok) bad++;
        total++;
        /* next sequence */
        for (i = 0; i < n; i++) {
            if (++seq[i] < vals) break;
            seq[i] = 0;
        }
        if (i == n) break;
    }
    if (n_sequences) *n_sequences = total;
    return bad;
}
