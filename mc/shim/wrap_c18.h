/* C18: exported wrappers around the static ElligatorSwift maps and the x-only constant-time
 * multiplication.  Field inputs are loaded the way the library loads them on these paths
 * (u, t: secp256k1_fe_set_b32_mod, i.e. any 32 bytes, unnormalised; x: a normalised element). */
#if defined(ENABLE_MODULE_ELLSWIFT)

/* G_{c,u}(x): returns -1 if x32 >= p, else the function's return value; t32 is written on success */
VX int verif_c18_xswiftec_inv(unsigned char *t32, const unsigned char *x32, const unsigned char *u32, int c) {
    secp256k1_fe x, u, t;
    int ret;
    if (!secp256k1_fe_set_b32_limit(&x, x32)) return -1;
    secp256k1_fe_set_b32_mod(&u, u32);
    ret = secp256k1_ellswift_xswiftec_inv_var(&t, &x, &u, c);
    if (ret) {
        secp256k1_fe_normalize_var(&t);
        secp256k1_fe_get_b32(t32, &t);
    }
    return ret;
}

/* f(u,t) as an affine X coordinate */
VX void verif_c18_xswiftec(unsigned char *x32, const unsigned char *u32, const unsigned char *t32) {
    secp256k1_fe x, u, t;
    secp256k1_fe_set_b32_mod(&u, u32);
    secp256k1_fe_set_b32_mod(&t, t32);
    secp256k1_ellswift_xswiftec_var(&x, &u, &t);
    secp256k1_fe_normalize_var(&x);
    secp256k1_fe_get_b32(x32, &x);
}

/* X(q * (n/d, .)); d32 may be NULL (d = 1).  Caller guarantees d != 0 mod p and q in [1, n-1].
 * returns -1 if q is not a valid non-zero scalar encoding, else the function's return value */
VX int verif_c18_ecmult_const_xonly(unsigned char *r32, const unsigned char *n32, const unsigned char *d32, const unsigned char *q32, int known_on_curve) {
    secp256k1_fe n, d, r;
    secp256k1_scalar q;
    int overflow = 0, ret;
    secp256k1_scalar_set_b32(&q, q32, &overflow);
    if (overflow || secp256k1_scalar_is_zero(&q)) return -1;
    secp256k1_fe_set_b32_mod(&n, n32);
    if (d32 != NULL) {
        secp256k1_fe_set_b32_mod(&d, d32);
        if (secp256k1_fe_normalizes_to_zero_var(&d)) return -1;
    }
    ret = secp256k1_ecmult_const_xonly(&r, &n, d32 != NULL ? &d : NULL, &q, known_on_curve);
    if (ret) {
        secp256k1_fe_normalize_var(&r);
        secp256k1_fe_get_b32(r32, &r);
    }
    return ret;
}

#endif
