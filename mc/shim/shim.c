/* Verification shim: the whole library as ONE translation unit, compiled from
 * /repo's working tree (include path given by build.py), plus
 *   - counting default callbacks (upstream's USE_EXTERNAL_DEFAULT_CALLBACKS),
 *   - a counting allocator with a programmable failure index,
 *   - small-group (EXHAUSTIVE_TEST_ORDER) table initialisation,
 *   - exported wrappers around static internals that the properties anchor in.
 * No library source is modified. */
#include <stdlib.h>
#include <string.h>
#include <stdint.h>
#include <stdio.h>

/* ---------- counting allocator ---------- */
#define VX __attribute__((visibility("default")))

VX long verif_alloc_count = 0;     /* successful allocations            */
VX long verif_free_count = 0;      /* frees of non-NULL pointers        */
VX long verif_alloc_calls = 0;     /* malloc calls incl. failed ones    */
VX long verif_alloc_fail_at = -1;  /* fail the k-th call from now (0-based) if >= 0 */
VX long verif_alloc_bytes = 0;

static void *verif_malloc(size_t n) {
    void *p;
#ifdef VERIF_SCHED
    /* schedule harness: no shared counters (they would be the only shared writes); heap objects belong to the
     * logical thread that allocated them */
    p = malloc(n);
    if (p != NULL) sched_private_add(p, n, sched_cur);
    return p;
#elif defined(REAL_TSAN)
    p = malloc(n);
    return p;
#else
    long k = verif_alloc_calls++;
    if (verif_alloc_fail_at >= 0 && k == verif_alloc_fail_at) {
        return NULL;
    }
    p = malloc(n);
    if (p != NULL) { verif_alloc_count++; verif_alloc_bytes += (long)n; }
    return p;
#endif
}
static void verif_free(void *p) {
#ifdef VERIF_SCHED
    if (p != NULL) sched_private_del(p);
#elif !defined(REAL_TSAN)
    if (p != NULL) verif_free_count++;
#endif
    free(p);
}
VX void verif_alloc_reset(long fail_at) {
    verif_alloc_count = 0; verif_free_count = 0; verif_alloc_calls = 0; verif_alloc_bytes = 0;
    verif_alloc_fail_at = fail_at;
}

/* ---------- counting default callbacks ---------- */
VX long verif_illegal_count = 0;
VX long verif_error_count = 0;
VX char verif_last_cb[256];

VX void secp256k1_default_illegal_callback_fn(const char *str, void *data) {
    (void)data;
    verif_illegal_count++;
    strncpy(verif_last_cb, str ? str : "", sizeof(verif_last_cb) - 1);
}
VX void secp256k1_default_error_callback_fn(const char *str, void *data) {
    (void)data;
    verif_error_count++;
    strncpy(verif_last_cb, str ? str : "", sizeof(verif_last_cb) - 1);
}
VX void verif_cb_reset(void) { verif_illegal_count = 0; verif_error_count = 0; verif_last_cb[0] = 0; }

#define malloc verif_malloc
#define free verif_free
#include "src/secp256k1.c"
#ifndef EXHAUSTIVE_TEST_ORDER
#include "src/precomputed_ecmult.c"
#include "src/precomputed_ecmult_gen.c"
#else
#include "src/ecmult_compute_table_impl.h"
#include "src/ecmult_gen_compute_table_impl.h"
#endif
#ifdef VERIF_WITH_LAX_DER
#include "contrib/lax_der_parsing.c"
#endif
#undef malloc
#undef free

VX int verif_init(void) {
#ifdef EXHAUSTIVE_TEST_ORDER
    secp256k1_ecmult_gen_compute_table(&secp256k1_ecmult_gen_prec_table[0][0], &secp256k1_ge_const_g, COMB_BLOCKS, COMB_TEETH, COMB_SPACING);
    secp256k1_ecmult_compute_two_tables(secp256k1_pre_g, secp256k1_pre_g_128, WINDOW_G, &secp256k1_ge_const_g);
    return EXHAUSTIVE_TEST_ORDER;
#else
    return 0;
#endif
}

VX int verif_config(char *out, size_t n) {
    const char *f, *s, *w;
    int asmx = 0, verify = 0;
#if defined(SECP256K1_WIDEMUL_INT128)
# if defined(SECP256K1_INT128_NATIVE)
    w = "int128_native";
# else
    w = "int128_struct";
# endif
    f = "5x52";
#else
    w = "int64"; f = "10x26";
#endif
#if defined(EXHAUSTIVE_TEST_ORDER)
    s = "low";
#elif defined(SECP256K1_WIDEMUL_INT128)
    s = "4x64";
#else
    s = "8x32";
#endif
#ifdef USE_ASM_X86_64
    asmx = 1;
#endif
#ifdef VERIFY
    verify = 1;
#endif
    return snprintf(out, n, "field=%s scalar=%s widemul=%s asm=%d verify=%d window=%d comb=%dx%d", f, s, w, asmx, verify, (int)ECMULT_WINDOW_SIZE, (int)COMB_BLOCKS, (int)COMB_TEETH);
}

/* ---------- sizes of opaque internals ---------- */
VX size_t verif_sizeof(int what) {
    switch (what) {
    case 0: return sizeof(secp256k1_fe);
    case 1: return sizeof(secp256k1_scalar);
    case 2: return sizeof(secp256k1_ge);
    case 3: return sizeof(secp256k1_gej);
    case 4: return sizeof(secp256k1_sha256);
    case 5: return sizeof(secp256k1_hmac_sha256);
    case 6: return sizeof(secp256k1_rfc6979_hmac_sha256);
    case 7: return sizeof(secp256k1_context);
    case 8: return sizeof(secp256k1_fe_storage);
    case 9: return sizeof(secp256k1_ge_storage);
#ifdef ENABLE_MODULE_SURJECTIONPROOF
    case 10: return sizeof(secp256k1_surjectionproof);
#endif
#ifdef ENABLE_MODULE_WHITELIST
    case 11: return sizeof(secp256k1_whitelist_signature);
#endif
    default: return 0;
    }
}

#include "wrappers.h"
