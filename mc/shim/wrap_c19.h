/* C19 (Bulletproofs++ norm argument, generator lists): exported wrappers around the static
 * internals of src/modules/bppp.  Conventions:
 *   scalar  = 32 bytes big endian; a wrapper returns -1 when an INPUT scalar is >= n
 *             (the check never passes such values on purpose, except `rho`/proof bytes of verify
 *             which go through the library's own decoding);
 *   point   = 64 bytes x||y big endian, fully reduced; 64 zero bytes = point at infinity.
 *             No validity check is made (small-group elements, deliberately chosen points);
 *   vectors = concatenation of their elements.
 * In the sanitizer builds every input array is copied into a heap block of exactly its size before the
 * library sees it, so that reads past the end are caught (Python buffers are not ASan-tracked).  The
 * other builds take the copies from a static bump arena instead: ./check preloads the ASan runtime
 * into the process, whose malloc (quarantine) would otherwise dominate the millions of small-group
 * calls.  This file is included after shim.c has #undef'ed its malloc/free redirection: plain
 * malloc/free here are not counted; objects that the library frees itself are allocated with
 * verif_malloc so that the allocation ledger stays balanced. */
#ifdef ENABLE_MODULE_BPPP

#if defined(__SANITIZE_ADDRESS__)
# define VC19_BEGIN() do { } while (0)
static void *vc19_alloc(size_t n) { return malloc(n + (n == 0)); }
static void vc19_free(void *p) { free(p); }
#else
static struct { unsigned char b[1 << 18]; } vc19_arena __attribute__((aligned(32)));
static size_t vc19_used = 0;
# define VC19_BEGIN() do { vc19_used = 0; } while (0)
static void *vc19_alloc(size_t n) {
    void *p;
    n = (n + 15) & ~(size_t)15;
    if (n > sizeof(vc19_arena.b) - vc19_used) abort();
    p = vc19_arena.b + vc19_used;
    vc19_used += n;
    return p;
}
static void vc19_free(void *p) { (void)p; }
#endif

VX size_t verif_c19_alignment(void) { return (size_t)ALIGNMENT; }

/* ---- scratch space (static in this fork) ---- */
VX secp256k1_scratch *verif_c19_scratch_create(const secp256k1_context *ctx, size_t size) {
    return secp256k1_scratch_create(&ctx->error_callback, size);
}
VX void verif_c19_scratch_destroy(const secp256k1_context *ctx, secp256k1_scratch *s) {
    secp256k1_scratch_destroy(&ctx->error_callback, s);
}
/* bytes currently allocated inside the scratch space (must be 0 between calls) */
VX size_t verif_c19_scratch_used(const secp256k1_scratch *s) { return s->alloc_size; }

/* ---- helpers ---- */
static int verif_c19_ge_from_xy(secp256k1_ge *ge, const unsigned char *in64) {
    secp256k1_fe x, y;
    int i, nz = 0;
    for (i = 0; i < 64; i++) nz |= in64[i];
    if (!nz) { secp256k1_ge_set_infinity(ge); return 1; }
    if (!secp256k1_fe_set_b32_limit(&x, in64)) return 0;
    if (!secp256k1_fe_set_b32_limit(&y, in64 + 32)) return 0;
    secp256k1_ge_set_xy(ge, &x, &y);
    return 1;
}
static void verif_c19_ge_to_xy(unsigned char *out64, const secp256k1_ge *in) {
    secp256k1_ge ge = *in;
    if (secp256k1_ge_is_infinity(&ge)) { memset(out64, 0, 64); return; }
    secp256k1_fe_normalize_var(&ge.x);
    secp256k1_fe_normalize_var(&ge.y);
    secp256k1_fe_get_b32(out64, &ge.x);
    secp256k1_fe_get_b32(out64 + 32, &ge.y);
}
/* returns a heap array of exactly `n` scalars (NULL + *bad = 1 if one is >= group order) */
static secp256k1_scalar *verif_c19_scalars(const unsigned char *in32, size_t n, int *bad) {
    secp256k1_scalar *r = (secp256k1_scalar *)vc19_alloc(n * sizeof(secp256k1_scalar));
    size_t i;
    for (i = 0; i < n; i++) {
        int o = 0;
        secp256k1_scalar_set_b32(&r[i], in32 + 32 * i, &o);
        if (o) *bad = 1;
    }
    return r;
}
static void verif_c19_transcript(const secp256k1_context *ctx, secp256k1_sha256 *sha, int tagged, const unsigned char *prefix, size_t prefix_len) {
    if (tagged) {
        secp256k1_bppp_sha256_tagged_commitment_init(sha);
    } else {
        secp256k1_sha256_initialize(sha);
    }
    if (prefix_len) secp256k1_sha256_write(secp256k1_get_hash_context(ctx), sha, prefix, prefix_len);
}

/* ---- generator list objects from / to affine coordinates ---- */
VX secp256k1_bppp_generators *verif_c19_gens_from_xy(const unsigned char *xy64, size_t n) {
    secp256k1_bppp_generators *ret = (secp256k1_bppp_generators *)verif_malloc(sizeof(*ret));
    size_t i;
    if (ret == NULL) return NULL;
    ret->gens = (secp256k1_ge *)verif_malloc(n * sizeof(*ret->gens) + (n == 0));
    if (ret->gens == NULL) { verif_free(ret); return NULL; }
    ret->n = n;
    for (i = 0; i < n; i++) {
        if (!verif_c19_ge_from_xy(&ret->gens[i], xy64 + 64 * i)) {
            verif_free(ret->gens); verif_free(ret); return NULL;
        }
    }
    return ret;
}
VX size_t verif_c19_gens_count(const secp256k1_bppp_generators *g) { return g->n; }
VX void verif_c19_gens_get_xy(const secp256k1_bppp_generators *g, unsigned char *out64n) {
    size_t i;
    for (i = 0; i < g->n; i++) verif_c19_ge_to_xy(out64n + 64 * i, &g->gens[i]);
}

/* ---- transcript / codec ---- */
VX void verif_c19_challenge(const secp256k1_context *ctx, unsigned char *out32, int tagged, const unsigned char *prefix, size_t prefix_len, uint64_t idx) {
    secp256k1_sha256 sha;
    secp256k1_scalar ch;
    verif_c19_transcript(ctx, &sha, tagged, prefix, prefix_len);
    secp256k1_bppp_challenge_scalar(secp256k1_get_hash_context(ctx), &ch, &sha, idx);
    secp256k1_scalar_get_b32(out32, &ch);
}
VX int verif_c19_serialize_points(unsigned char *out65, const unsigned char *l_xy64, const unsigned char *r_xy64) {
    secp256k1_ge l, r;
    unsigned char *o;
    VC19_BEGIN();
    o = (unsigned char *)vc19_alloc(65);
    if (!verif_c19_ge_from_xy(&l, l_xy64) || !verif_c19_ge_from_xy(&r, r_xy64)) { vc19_free(o); return 0; }
    secp256k1_bppp_serialize_points(o, &l, &r);
    memcpy(out65, o, 65);
    vc19_free(o);
    return 1;
}
VX int verif_c19_parse_point(unsigned char *out_xy64, const unsigned char *in65, int idx) {
    secp256k1_ge ge;
    unsigned char *i;
    int ret;
    VC19_BEGIN();
    i = (unsigned char *)vc19_alloc(65);
    memcpy(i, in65, 65);
    ret = secp256k1_bppp_parse_one_of_points(&ge, i, idx);
    vc19_free(i);
    if (ret) verif_c19_ge_to_xy(out_xy64, &ge);
    return ret;
}

/* ---- commitment ---- */
VX int verif_c19_commit(const secp256k1_context *ctx, secp256k1_scratch *scratch, unsigned char *commit_xy64,
                        const secp256k1_bppp_generators *gens,
                        const unsigned char *n32, size_t n_len, const unsigned char *l32, size_t l_len,
                        const unsigned char *c32, size_t c_len, const unsigned char *mu32) {
    int bad = 0, ret;
    secp256k1_scalar *nv, *lv, *cv, *mu;
    secp256k1_ge commit;
    VC19_BEGIN();
    nv = verif_c19_scalars(n32, n_len, &bad);
    lv = verif_c19_scalars(l32, l_len, &bad);
    cv = verif_c19_scalars(c32, c_len, &bad);
    mu = verif_c19_scalars(mu32, 1, &bad);
    if (bad) {
        ret = -1;
    } else {
        ret = secp256k1_bppp_commit(ctx, scratch, &commit, gens, nv, n_len, lv, l_len, cv, c_len, mu);
        if (ret) verif_c19_ge_to_xy(commit_xy64, &commit);
    }
    vc19_free(nv); vc19_free(lv); vc19_free(cv); vc19_free(mu);
    return ret;
}

/* ---- prover.  `proof` must have room for *proof_len bytes; the library writes into a heap block of
 * exactly that size.  The generator list is copied (the prover folds it in place). ---- */
VX int verif_c19_prove(const secp256k1_context *ctx, secp256k1_scratch *scratch, unsigned char *proof, size_t *proof_len,
                       int tagged, const unsigned char *prefix, size_t prefix_len, const unsigned char *rho32,
                       const secp256k1_bppp_generators *gens,
                       const unsigned char *n32, size_t n_len, const unsigned char *l32, size_t l_len,
                       const unsigned char *c32, size_t c_len) {
    int bad = 0, ret;
    size_t cap = *proof_len;
    secp256k1_scalar *nv, *lv, *cv, *rho;
    secp256k1_ge *gv;
    unsigned char *pf;
    secp256k1_sha256 sha;
    VC19_BEGIN();
    nv = verif_c19_scalars(n32, n_len, &bad);
    lv = verif_c19_scalars(l32, l_len, &bad);
    cv = verif_c19_scalars(c32, c_len, &bad);
    rho = verif_c19_scalars(rho32, 1, &bad);
    gv = (secp256k1_ge *)vc19_alloc(gens->n * sizeof(secp256k1_ge));
    pf = (unsigned char *)vc19_alloc(cap);
    memcpy(gv, gens->gens, gens->n * sizeof(secp256k1_ge));
    memset(pf, 0xEE, cap);
    if (bad) {
        ret = -1;
    } else {
        verif_c19_transcript(ctx, &sha, tagged, prefix, prefix_len);
        ret = secp256k1_bppp_rangeproof_norm_product_prove(ctx, scratch, pf, proof_len, &sha, rho, gv, gens->n, nv, n_len, lv, l_len, cv, c_len);
        memcpy(proof, pf, cap);
    }
    vc19_free(nv); vc19_free(lv); vc19_free(cv); vc19_free(rho); vc19_free(gv); vc19_free(pf);
    return ret;
}

/* ---- verifier.  rho32 / proof go through the library's own decoding untouched, except that rho is a
 * secp256k1_scalar argument: values >= n are refused here (-1). ---- */
VX int verif_c19_verify(const secp256k1_context *ctx, secp256k1_scratch *scratch, const unsigned char *proof, size_t proof_len,
                        int tagged, const unsigned char *prefix, size_t prefix_len, const unsigned char *rho32,
                        const secp256k1_bppp_generators *gens, size_t g_len,
                        const unsigned char *c32, size_t c_len, const unsigned char *commit_xy64) {
    int bad = 0, ret;
    secp256k1_scalar *cv, *rho;
    unsigned char *pf;
    secp256k1_ge commit;
    secp256k1_sha256 sha;
    VC19_BEGIN();
    cv = verif_c19_scalars(c32, c_len, &bad);
    rho = verif_c19_scalars(rho32, 1, &bad);
    pf = (unsigned char *)vc19_alloc(proof_len);
    memcpy(pf, proof, proof_len);
    if (bad || !verif_c19_ge_from_xy(&commit, commit_xy64)) {
        ret = -1;
    } else {
        verif_c19_transcript(ctx, &sha, tagged, prefix, prefix_len);
        ret = secp256k1_bppp_rangeproof_norm_product_verify(ctx, scratch, pf, proof_len, &sha, rho, gens, g_len, cv, c_len, &commit);
    }
    vc19_free(cv); vc19_free(rho); vc19_free(pf);
    return ret;
}

#endif
