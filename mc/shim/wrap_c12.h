/* C12: read the MuSig key-aggregation cache and the session through the library's internal
 * load functions; sizes of the opaque objects.  Included at the end of shim.c via wrappers.h. */
#ifdef ENABLE_MODULE_MUSIG

/* out194 = Q.x(32) Q.y(32) | second_is_infinity(1) second.x(32) second.y(32) | pks_hash(32) | parity_acc(1) | tweak(32)
 * Only call with an initialised cache (the load ARG_CHECKs the magic). */
VX int verif_musig_keyagg_cache_read(const secp256k1_context *ctx, unsigned char *out194, const secp256k1_musig_keyagg_cache *cache) {
    secp256k1_keyagg_cache_internal ci;
    if (!secp256k1_keyagg_cache_load(ctx, &ci, cache)) return 0;
    memset(out194, 0, 194);
    secp256k1_fe_normalize_var(&ci.pk.x);
    secp256k1_fe_normalize_var(&ci.pk.y);
    secp256k1_fe_get_b32(out194, &ci.pk.x);
    secp256k1_fe_get_b32(out194 + 32, &ci.pk.y);
    if (secp256k1_ge_is_infinity(&ci.second_pk)) {
        out194[64] = 1;
    } else {
        secp256k1_fe_normalize_var(&ci.second_pk.x);
        secp256k1_fe_normalize_var(&ci.second_pk.y);
        secp256k1_fe_get_b32(out194 + 65, &ci.second_pk.x);
        secp256k1_fe_get_b32(out194 + 97, &ci.second_pk.y);
    }
    memcpy(out194 + 129, ci.pks_hash, 32);
    out194[161] = (unsigned char)ci.parity_acc;
    secp256k1_scalar_get_b32(out194 + 162, &ci.tweak);
    return 1;
}

/* out129 = fin_nonce_parity(1) | fin_nonce(32) | noncecoef b(32) | challenge e(32) | s_part(32) */
VX int verif_musig_session_read(const secp256k1_context *ctx, unsigned char *out129, const secp256k1_musig_session *session) {
    secp256k1_musig_session_internal si;
    if (!secp256k1_musig_session_load(ctx, &si, session)) return 0;
    out129[0] = (unsigned char)si.fin_nonce_parity;
    memcpy(out129 + 1, si.fin_nonce, 32);
    secp256k1_scalar_get_b32(out129 + 33, &si.noncecoef);
    secp256k1_scalar_get_b32(out129 + 65, &si.challenge);
    secp256k1_scalar_get_b32(out129 + 97, &si.s_part);
    return 1;
}

VX size_t verif_musig_sizeof(int what) {
    switch (what) {
    case 0: return sizeof(secp256k1_musig_keyagg_cache);
    case 1: return sizeof(secp256k1_musig_secnonce);
    case 2: return sizeof(secp256k1_musig_pubnonce);
    case 3: return sizeof(secp256k1_musig_aggnonce);
    case 4: return sizeof(secp256k1_musig_session);
    case 5: return sizeof(secp256k1_musig_partial_sig);
    case 6: return sizeof(secp256k1_keypair);
    case 7: return sizeof(secp256k1_pubkey);
    case 8: return sizeof(secp256k1_xonly_pubkey);
    default: return 0;
    }
}

#endif
