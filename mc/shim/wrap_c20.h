/* C20: probe battery - one or more calls per API family on FIXED inputs.  Every observable (return values and
 * output bytes) is appended to `out`; two contexts are equivalent for the battery iff the buffers are identical.
 * Shared, read-only inputs live in verif_shared (prepared once with a plain context); each op writes only to its
 * own locals and to `out`.  The same table is used by the context-history search (Python), by the static-context
 * check and by the schedule explorer (tools/sched). */

typedef struct {
    unsigned char sk1[32], sk2[32], sk3[32], msg[32], msg2[32], tweak[32], rnd[32], blind[32], blind2[32];
    secp256k1_pubkey pk1, pk2, pk3;
    secp256k1_keypair kp1, kp2;
    secp256k1_xonly_pubkey xo1, xo2;
    secp256k1_ecdsa_signature sig1;
    unsigned char sig1_der[80]; size_t sig1_der_len;
    unsigned char schnorr1[64], schnorr2[64];
    secp256k1_generator gen_a, gen_b;
    secp256k1_pedersen_commitment com1, com2, com3;
    unsigned char rproof[5134]; size_t rproof_len;
    secp256k1_fixed_asset_tag tags[3];
    secp256k1_generator etags[3], eout;
    secp256k1_surjectionproof sproof;
    secp256k1_whitelist_signature wsig;
    secp256k1_pubkey won[3], woff[3], wsub;
    unsigned char adaptor162[162];
    secp256k1_musig_keyagg_cache mcache;
    secp256k1_musig_pubnonce mpn[2];
    secp256k1_musig_aggnonce maggn;
    secp256k1_musig_session msession;
    secp256k1_musig_partial_sig mps[2];
    unsigned char aggsig[32 * 3]; size_t aggsig_len;
    unsigned char ell1[64], ell2[64];
    unsigned char gens_ser[33 * 4];
    int ready;
} verif_shared_t;

static verif_shared_t verif_shared;
/* input variants: the SAME objects at the SAME addresses filled with different values (variant 0 is the default);
 * used by the call-pair history search: op_i on variant a, then op_j on variant b must equal op_j on variant b alone */
static int verif_variant = 0;
static verif_shared_t verif_saved[2];

#define VB_PUT(p, n) do { if (*olen + (size_t)(n) <= cap) { memcpy(out + *olen, (p), (n)); } *olen += (size_t)(n); } while (0)
#define VB_INT(v) do { unsigned char b4_[4]; int v_ = (int)(v); b4_[0] = (unsigned char)(v_ >> 24); b4_[1] = (unsigned char)(v_ >> 16); b4_[2] = (unsigned char)(v_ >> 8); b4_[3] = (unsigned char)v_; VB_PUT(b4_, 4); } while (0)

static void verif_fill(unsigned char *p, size_t n, unsigned char seed) {
    size_t i;
    unsigned int sd = (unsigned int)seed + 97u * (unsigned int)verif_variant;
    for (i = 0; i < n; i++) p[i] = (unsigned char)(sd * 31 + i * 7 + 1);
}

/* Prepare the shared inputs with context ctx (must be a full context). Returns 1 on success. */
VX int verif_shared_init(const secp256k1_context *ctx) {
    verif_shared_t *s = &verif_shared;
    int ok = 1;
    size_t i, idx = 0;
    const secp256k1_pubkey *pks[2];
    const secp256k1_musig_pubnonce *pns[2];
    secp256k1_musig_secnonce sn[2];
    unsigned char secrand[32];
    unsigned char sk[32], summed[32];
    memset(s, 0, sizeof(*s));
    verif_fill(s->sk1, 32, 1); verif_fill(s->sk2, 32, 2); verif_fill(s->sk3, 32, 3);
    s->sk1[0] &= 0x7f; s->sk2[0] &= 0x7f; s->sk3[0] &= 0x7f;
    verif_fill(s->msg, 32, 4); verif_fill(s->msg2, 32, 5); verif_fill(s->tweak, 32, 6); s->tweak[0] &= 0x7f;
    verif_fill(s->rnd, 32, 7); verif_fill(s->blind, 32, 8); s->blind[0] &= 0x7f; verif_fill(s->blind2, 32, 9); s->blind2[0] &= 0x7f;
    ok &= secp256k1_ec_pubkey_create(ctx, &s->pk1, s->sk1);
    ok &= secp256k1_ec_pubkey_create(ctx, &s->pk2, s->sk2);
    ok &= secp256k1_ec_pubkey_create(ctx, &s->pk3, s->sk3);
    ok &= secp256k1_keypair_create(ctx, &s->kp1, s->sk1);
    ok &= secp256k1_keypair_create(ctx, &s->kp2, s->sk2);
    ok &= secp256k1_keypair_xonly_pub(ctx, &s->xo1, NULL, &s->kp1);
    ok &= secp256k1_keypair_xonly_pub(ctx, &s->xo2, NULL, &s->kp2);
    ok &= secp256k1_ecdsa_sign(ctx, &s->sig1, s->msg, s->sk1, NULL, NULL);
    s->sig1_der_len = sizeof(s->sig1_der);
    ok &= secp256k1_ecdsa_signature_serialize_der(ctx, s->sig1_der, &s->sig1_der_len, &s->sig1);
    ok &= secp256k1_schnorrsig_sign32(ctx, s->schnorr1, s->msg, &s->kp1, s->rnd);
    ok &= secp256k1_schnorrsig_sign32(ctx, s->schnorr2, s->msg2, &s->kp2, NULL);
    ok &= secp256k1_generator_generate(ctx, &s->gen_a, s->msg);
    ok &= secp256k1_generator_generate_blinded(ctx, &s->gen_b, s->msg2, s->blind2);
    ok &= secp256k1_pedersen_commit(ctx, &s->com1, s->blind, 1000, &s->gen_a);
    ok &= secp256k1_pedersen_commit(ctx, &s->com2, s->blind, 400, &s->gen_a);
    { unsigned char z[32] = {0}; z[31] = 0; ok &= secp256k1_pedersen_commit(ctx, &s->com3, s->blind2, 600, &s->gen_a); (void)z; }
    s->rproof_len = sizeof(s->rproof);
    ok &= secp256k1_rangeproof_sign(ctx, s->rproof, &s->rproof_len, 0, &s->com1, s->blind, s->rnd, 0, 12, 1000, (const unsigned char *)"verif", 5, s->msg2, 32, &s->gen_a);
    for (i = 0; i < 3; i++) {
        verif_fill(s->tags[i].data, 32, (unsigned char)(20 + i));
        verif_fill(sk, 32, (unsigned char)(30 + i)); sk[0] &= 0x7f;
        ok &= secp256k1_generator_generate_blinded(ctx, &s->etags[i], s->tags[i].data, sk);
    }
    ok &= secp256k1_generator_generate_blinded(ctx, &s->eout, s->tags[1].data, s->blind2);
    ok &= secp256k1_surjectionproof_initialize(ctx, &s->sproof, &idx, s->tags, 3, 2, &s->tags[1], 100, s->rnd) > 0;
    verif_fill(sk, 32, 31); sk[0] &= 0x7f;
    ok &= secp256k1_surjectionproof_generate(ctx, &s->sproof, s->etags, 3, &s->eout, 1, sk, s->blind2);
    /* whitelist: 3 keys, signer index 1 */
    for (i = 0; i < 3; i++) {
        unsigned char a[32], b[32];
        verif_fill(a, 32, (unsigned char)(40 + i)); a[0] &= 0x7f;
        verif_fill(b, 32, (unsigned char)(50 + i)); b[0] &= 0x7f;
        ok &= secp256k1_ec_pubkey_create(ctx, &s->won[i], a);
        ok &= secp256k1_ec_pubkey_create(ctx, &s->woff[i], b);
    }
    verif_fill(sk, 32, 60); sk[0] &= 0x7f;
    ok &= secp256k1_ec_pubkey_create(ctx, &s->wsub, sk);
    { unsigned char on[32]; verif_fill(on, 32, 41); on[0] &= 0x7f; verif_fill(summed, 32, 51); summed[0] &= 0x7f;
      ok &= secp256k1_ec_seckey_tweak_add(ctx, summed, sk);
      ok &= secp256k1_whitelist_sign(ctx, &s->wsig, s->won, s->woff, 3, &s->wsub, on, summed, 1); }
    { unsigned char k[32]; memcpy(k, s->sk1, 32); ok &= secp256k1_ecdsa_adaptor_encrypt(ctx, s->adaptor162, k, &s->pk2, s->msg, NULL, NULL); }
    /* musig 2-of-2 */
    pks[0] = &s->pk1; pks[1] = &s->pk2;
    ok &= secp256k1_musig_pubkey_agg(ctx, NULL, &s->mcache, pks, 2);
    memcpy(secrand, s->rnd, 32);
    ok &= secp256k1_musig_nonce_gen(ctx, &sn[0], &s->mpn[0], secrand, s->sk1, &s->pk1, s->msg, &s->mcache, NULL);
    ok &= secp256k1_musig_nonce_gen_counter(ctx, &sn[1], &s->mpn[1], 7, &s->kp2, s->msg, &s->mcache, NULL);
    pns[0] = &s->mpn[0]; pns[1] = &s->mpn[1];
    ok &= secp256k1_musig_nonce_agg(ctx, &s->maggn, pns, 2);
    ok &= secp256k1_musig_nonce_process(ctx, &s->msession, &s->maggn, s->msg, &s->mcache, NULL);
    ok &= secp256k1_musig_partial_sign(ctx, &s->mps[0], &sn[0], &s->kp1, &s->mcache, &s->msession);
    ok &= secp256k1_musig_partial_sign(ctx, &s->mps[1], &sn[1], &s->kp2, &s->mcache, &s->msession);
    { secp256k1_xonly_pubkey xs[2]; unsigned char msgs[64], sigs[128];
      xs[0] = s->xo1; xs[1] = s->xo2; memcpy(msgs, s->msg, 32); memcpy(msgs + 32, s->msg2, 32);
      memcpy(sigs, s->schnorr1, 64); memcpy(sigs + 64, s->schnorr2, 64);
      s->aggsig_len = sizeof(s->aggsig);
      ok &= secp256k1_schnorrsig_aggregate(ctx, s->aggsig, &s->aggsig_len, xs, msgs, sigs, 2); }
    ok &= secp256k1_ellswift_create(ctx, s->ell1, s->sk1, s->rnd);
    ok &= secp256k1_ellswift_create(ctx, s->ell2, s->sk2, NULL);
    { secp256k1_bppp_generators *g = secp256k1_bppp_generators_create(ctx, 4); size_t l = sizeof(s->gens_ser);
      ok &= g != NULL; if (g) { ok &= secp256k1_bppp_generators_serialize(ctx, g, s->gens_ser, &l); secp256k1_bppp_generators_destroy(ctx, g); } }
    s->ready = ok;
    return ok;
}

/* prepare both variants once; leaves variant 0 active */
VX int verif_shared_prepare(const secp256k1_context *ctx) {
    int ok = 1;
    verif_variant = 1; ok &= verif_shared_init(ctx); memcpy(&verif_saved[1], &verif_shared, sizeof(verif_shared));
    verif_variant = 0; ok &= verif_shared_init(ctx); memcpy(&verif_saved[0], &verif_shared, sizeof(verif_shared));
    return ok;
}
VX void verif_shared_use(int v) {
    memcpy(&verif_shared, &verif_saved[v & 1], sizeof(verif_shared));
    verif_variant = v & 1;
}

#define VERIF_N_OPS 40

/* flags: 1 = needs a signing-capable (non-static) context by documentation */
VX int verif_battery_op_flags(int op) {
    switch (op) {
    case 0: case 1: case 7: case 11: case 12: case 13: case 16: case 18: case 19: case 20: case 22: case 25: case 26: case 27: case 28: case 29: case 35: case 36: case 38:
        return 1;
    default: return 0;
    }
}

VX int verif_battery_op(const secp256k1_context *ctx, int op, unsigned char *out, size_t cap, size_t *olen) {
    const verif_shared_t *s = &verif_shared;
    int r;
    *olen = 0;
    switch (op) {
    case 0: { secp256k1_pubkey pk; unsigned char o[65]; size_t l = 65;
        r = secp256k1_ec_pubkey_create(ctx, &pk, s->sk1); VB_INT(r);
        if (r) { r = secp256k1_ec_pubkey_serialize(ctx, o, &l, &pk, SECP256K1_EC_UNCOMPRESSED); VB_INT(r); VB_PUT(o, 65); }
        r = secp256k1_ec_seckey_verify(ctx, s->sk1); VB_INT(r); break; }
    case 1: { secp256k1_ecdsa_signature sig; unsigned char o[64];
        r = secp256k1_ecdsa_sign(ctx, &sig, s->msg, s->sk1, NULL, s->rnd); VB_INT(r);
        secp256k1_ecdsa_signature_serialize_compact(ctx, o, &sig); VB_PUT(o, 64);
        r = secp256k1_ecdsa_sign(ctx, &sig, s->msg2, s->sk2, secp256k1_nonce_function_rfc6979, NULL); VB_INT(r);
        secp256k1_ecdsa_signature_serialize_compact(ctx, o, &sig); VB_PUT(o, 64); break; }
    case 2: { r = secp256k1_ecdsa_verify(ctx, &s->sig1, s->msg, &s->pk1); VB_INT(r);
        r = secp256k1_ecdsa_verify(ctx, &s->sig1, s->msg2, &s->pk1); VB_INT(r);
        r = secp256k1_ecdsa_verify(ctx, &s->sig1, s->msg, &s->pk2); VB_INT(r); break; }
    case 3: { unsigned char o[80]; size_t l = 80;
        r = secp256k1_ecdsa_signature_serialize_der(ctx, o, &l, &s->sig1); VB_INT(r); VB_INT((int)l); VB_PUT(o, l);
        l = 10; r = secp256k1_ecdsa_signature_serialize_der(ctx, o, &l, &s->sig1); VB_INT(r); VB_INT((int)l); break; }
    case 4: { secp256k1_ecdsa_signature sig, n2; unsigned char o[64];
        r = secp256k1_ecdsa_signature_parse_der(ctx, &sig, s->sig1_der, s->sig1_der_len); VB_INT(r);
        secp256k1_ecdsa_signature_serialize_compact(ctx, o, &sig); VB_PUT(o, 64);
        r = secp256k1_ecdsa_signature_parse_compact(ctx, &sig, o); VB_INT(r);
        r = secp256k1_ecdsa_signature_normalize(ctx, &n2, &sig); VB_INT(r); break; }
    case 5: { unsigned char o[65]; size_t l = 33; secp256k1_pubkey pk;
        r = secp256k1_ec_pubkey_serialize(ctx, o, &l, &s->pk2, SECP256K1_EC_COMPRESSED); VB_INT(r); VB_PUT(o, 33);
        r = secp256k1_ec_pubkey_parse(ctx, &pk, o, 33); VB_INT(r); VB_PUT(pk.data, 64);
        r = secp256k1_ec_pubkey_cmp(ctx, &s->pk1, &s->pk2); VB_INT(r > 0 ? 1 : (r < 0 ? -1 : 0)); break; }
    case 6: { secp256k1_pubkey pk = s->pk1; unsigned char k[32]; memcpy(k, s->sk1, 32);
        r = secp256k1_ec_pubkey_tweak_add(ctx, &pk, s->tweak); VB_INT(r); VB_PUT(pk.data, 64);
        r = secp256k1_ec_pubkey_tweak_mul(ctx, &pk, s->tweak); VB_INT(r); VB_PUT(pk.data, 64);
        r = secp256k1_ec_pubkey_negate(ctx, &pk); VB_INT(r); VB_PUT(pk.data, 64);
        r = secp256k1_ec_seckey_tweak_add(ctx, k, s->tweak); VB_INT(r); VB_PUT(k, 32);
        r = secp256k1_ec_seckey_tweak_mul(ctx, k, s->tweak); VB_INT(r); VB_PUT(k, 32);
        r = secp256k1_ec_seckey_negate(ctx, k); VB_INT(r); VB_PUT(k, 32); break; }
    case 7: { unsigned char k[32]; secp256k1_pubkey pk; memcpy(k, s->sk2, 32);
        r = secp256k1_ec_seckey_tweak_add(ctx, k, s->tweak); VB_INT(r);
        r = secp256k1_ec_pubkey_create(ctx, &pk, k); VB_INT(r); VB_PUT(pk.data, 64); break; }
    case 8: { const secp256k1_pubkey *p[3]; secp256k1_pubkey o; const secp256k1_pubkey *srt[3];
        p[0] = &s->pk1; p[1] = &s->pk2; p[2] = &s->pk3;
        r = secp256k1_ec_pubkey_combine(ctx, &o, p, 3); VB_INT(r); VB_PUT(o.data, 64);
        srt[0] = &s->pk3; srt[1] = &s->pk1; srt[2] = &s->pk2;
        r = secp256k1_ec_pubkey_sort(ctx, srt, 3); VB_INT(r);
        VB_INT(srt[0] == &s->pk1 ? 1 : srt[0] == &s->pk2 ? 2 : 3); VB_INT(srt[1] == &s->pk1 ? 1 : srt[1] == &s->pk2 ? 2 : 3); break; }
    case 9: { unsigned char o[32];
        r = secp256k1_ecdh(ctx, o, &s->pk2, s->sk1, NULL, NULL); VB_INT(r); VB_PUT(o, 32);
        r = secp256k1_ecdh(ctx, o, &s->pk1, s->sk2, secp256k1_ecdh_hash_function_sha256, NULL); VB_INT(r); VB_PUT(o, 32); break; }
    case 10: { secp256k1_ecdsa_recoverable_signature rs; secp256k1_pubkey pk; unsigned char o[64]; int recid = -1;
        secp256k1_ecdsa_signature_serialize_compact(ctx, o, &s->sig1);
        for (recid = 0; recid < 4; recid++) {
            r = secp256k1_ecdsa_recoverable_signature_parse_compact(ctx, &rs, o, recid); VB_INT(r);
            r = secp256k1_ecdsa_recover(ctx, &pk, &rs, s->msg); VB_INT(r); if (r) VB_PUT(pk.data, 64);
        } break; }
    case 11: { secp256k1_ecdsa_recoverable_signature rs; unsigned char o[64]; int recid = -1; secp256k1_pubkey pk;
        r = secp256k1_ecdsa_sign_recoverable(ctx, &rs, s->msg, s->sk3, NULL, NULL); VB_INT(r);
        secp256k1_ecdsa_recoverable_signature_serialize_compact(ctx, o, &recid, &rs); VB_PUT(o, 64); VB_INT(recid);
        r = secp256k1_ecdsa_recover(ctx, &pk, &rs, s->msg); VB_INT(r); VB_PUT(pk.data, 64); break; }
    case 12: { secp256k1_keypair kp; secp256k1_xonly_pubkey xo; int par = -1; unsigned char o[32]; secp256k1_pubkey pk;
        r = secp256k1_keypair_create(ctx, &kp, s->sk3); VB_INT(r);
        r = secp256k1_keypair_xonly_pub(ctx, &xo, &par, &kp); VB_INT(r); VB_INT(par);
        r = secp256k1_xonly_pubkey_serialize(ctx, o, &xo); VB_INT(r); VB_PUT(o, 32);
        r = secp256k1_keypair_xonly_tweak_add(ctx, &kp, s->tweak); VB_INT(r);
        r = secp256k1_keypair_pub(ctx, &pk, &kp); VB_INT(r); VB_PUT(pk.data, 64);
        r = secp256k1_keypair_sec(ctx, o, &kp); VB_INT(r); VB_PUT(o, 32); break; }
    case 13: { unsigned char o[64]; secp256k1_schnorrsig_extraparams ep = SECP256K1_SCHNORRSIG_EXTRAPARAMS_INIT;
        r = secp256k1_schnorrsig_sign32(ctx, o, s->msg, &s->kp1, s->rnd); VB_INT(r); VB_PUT(o, 64);
        r = secp256k1_schnorrsig_sign32(ctx, o, s->msg2, &s->kp2, NULL); VB_INT(r); VB_PUT(o, 64);
        r = secp256k1_schnorrsig_sign_custom(ctx, o, s->rproof, 333, &s->kp1, &ep); VB_INT(r); VB_PUT(o, 64); break; }
    case 14: { r = secp256k1_schnorrsig_verify(ctx, s->schnorr1, s->msg, 32, &s->xo1); VB_INT(r);
        r = secp256k1_schnorrsig_verify(ctx, s->schnorr1, s->msg2, 32, &s->xo1); VB_INT(r);
        r = secp256k1_schnorrsig_verify(ctx, s->schnorr2, s->msg2, 32, &s->xo2); VB_INT(r); break; }
    case 15: { unsigned char o[32];
        r = secp256k1_tagged_sha256(ctx, o, (const unsigned char *)"verif/tag", 9, s->rproof, 1001); VB_INT(r); VB_PUT(o, 32); break; }
    case 16: { unsigned char e[64]; secp256k1_pubkey pk;
        r = secp256k1_ellswift_create(ctx, e, s->sk3, s->rnd); VB_INT(r); VB_PUT(e, 64);
        r = secp256k1_ellswift_decode(ctx, &pk, e); VB_INT(r); VB_PUT(pk.data, 64); break; }
    case 17: { unsigned char o[32]; unsigned char e[64]; secp256k1_pubkey pk;
        r = secp256k1_ellswift_xdh(ctx, o, s->ell1, s->ell2, s->sk1, 0, secp256k1_ellswift_xdh_hash_function_bip324, NULL); VB_INT(r); VB_PUT(o, 32);
        r = secp256k1_ellswift_xdh(ctx, o, s->ell1, s->ell2, s->sk2, 1, secp256k1_ellswift_xdh_hash_function_prefix, (void *)s->msg); VB_INT(r); VB_PUT(o, 32);
        r = secp256k1_ellswift_decode(ctx, &pk, s->ell2); VB_INT(r); VB_PUT(pk.data, 64);
        r = secp256k1_ellswift_encode(ctx, e, &s->pk3, s->rnd); VB_INT(r); VB_PUT(e, 64); break; }
    case 18: { secp256k1_musig_secnonce sn; secp256k1_musig_pubnonce pn; unsigned char sr[32], o[66]; secp256k1_musig_partial_sig ps; unsigned char o32[32];
        secp256k1_musig_session sess; secp256k1_musig_aggnonce an; const secp256k1_musig_pubnonce *pns[2];
        memcpy(sr, s->rnd, 32);
        r = secp256k1_musig_nonce_gen(ctx, &sn, &pn, sr, s->sk1, &s->pk1, s->msg, &s->mcache, s->msg2); VB_INT(r);
        r = secp256k1_musig_pubnonce_serialize(ctx, o, &pn); VB_INT(r); VB_PUT(o, 66); VB_PUT(sr, 32);
        pns[0] = &pn; pns[1] = &s->mpn[1];
        r = secp256k1_musig_nonce_agg(ctx, &an, pns, 2); VB_INT(r);
        r = secp256k1_musig_nonce_process(ctx, &sess, &an, s->msg, &s->mcache, NULL); VB_INT(r);
        r = secp256k1_musig_partial_sign(ctx, &ps, &sn, &s->kp1, &s->mcache, &sess); VB_INT(r);
        r = secp256k1_musig_partial_sig_serialize(ctx, o32, &ps); VB_INT(r); VB_PUT(o32, 32);
        r = secp256k1_musig_partial_sig_verify(ctx, &ps, &pn, &s->pk1, &s->mcache, &sess); VB_INT(r); break; }
    case 19: { secp256k1_musig_secnonce sn; secp256k1_musig_pubnonce pn; unsigned char o[66];
        r = secp256k1_musig_nonce_gen_counter(ctx, &sn, &pn, 0x100000001ULL, &s->kp2, NULL, NULL, NULL); VB_INT(r);
        r = secp256k1_musig_pubnonce_serialize(ctx, o, &pn); VB_INT(r); VB_PUT(o, 66); break; }
    case 20: { secp256k1_generator g; unsigned char o[33]; secp256k1_pedersen_commitment c;
        r = secp256k1_generator_generate_blinded(ctx, &g, s->msg, s->blind); VB_INT(r);
        r = secp256k1_generator_serialize(ctx, o, &g); VB_INT(r); VB_PUT(o, 33);
        r = secp256k1_pedersen_commit(ctx, &c, s->blind, 12345678901ULL, &g); VB_INT(r);
        r = secp256k1_pedersen_commitment_serialize(ctx, o, &c); VB_INT(r); VB_PUT(o, 33);
        r = secp256k1_pedersen_commit(ctx, &c, s->blind2, 0xFFFFFFFFFFFFFFFFULL, secp256k1_generator_h); VB_INT(r);
        r = secp256k1_pedersen_commitment_serialize(ctx, o, &c); VB_INT(r); VB_PUT(o, 33); break; }
    case 21: { secp256k1_generator g; unsigned char o[33]; secp256k1_pedersen_commitment c;
        const secp256k1_pedersen_commitment *pos[1], *neg[2]; const unsigned char *bl[3]; unsigned char bo[32];
        r = secp256k1_generator_generate(ctx, &g, s->msg2); VB_INT(r);
        r = secp256k1_generator_serialize(ctx, o, &g); VB_INT(r); VB_PUT(o, 33);
        r = secp256k1_generator_parse(ctx, &g, o); VB_INT(r);
        r = secp256k1_pedersen_commitment_serialize(ctx, o, &s->com1); VB_INT(r); VB_PUT(o, 33);
        r = secp256k1_pedersen_commitment_parse(ctx, &c, o); VB_INT(r);
        pos[0] = &s->com1; neg[0] = &s->com2; neg[1] = &s->com3;
        r = secp256k1_pedersen_verify_tally(ctx, pos, 1, neg, 2); VB_INT(r);
        bl[0] = s->blind; bl[1] = s->blind; bl[2] = s->blind2;
        r = secp256k1_pedersen_blind_sum(ctx, bo, bl, 3, 1); VB_INT(r); VB_PUT(bo, 32); break; }
    case 22: { unsigned char p[5134]; size_t l = sizeof(p);
        r = secp256k1_rangeproof_sign(ctx, p, &l, 0, &s->com1, s->blind, s->rnd, 0, 12, 1000, (const unsigned char *)"verif", 5, s->msg2, 32, &s->gen_a); VB_INT(r); VB_INT((int)l);
        if (r) VB_PUT(p, l);
        l = sizeof(p);
        r = secp256k1_rangeproof_sign(ctx, p, &l, 100, &s->com1, s->blind, s->rnd, 2, 0, 1000, NULL, 0, NULL, 0, &s->gen_a); VB_INT(r); VB_INT((int)l);
        if (r) VB_PUT(p, l); break; }
    case 23: { uint64_t mn = 7, mx = 7; int e = -9, m = -9;
        r = secp256k1_rangeproof_verify(ctx, &mn, &mx, &s->com1, s->rproof, s->rproof_len, s->msg2, 32, &s->gen_a); VB_INT(r); VB_PUT(&mn, 8); VB_PUT(&mx, 8);
        r = secp256k1_rangeproof_verify(ctx, &mn, &mx, &s->com2, s->rproof, s->rproof_len, s->msg2, 32, &s->gen_a); VB_INT(r);
        r = secp256k1_rangeproof_info(ctx, &e, &m, &mn, &mx, s->rproof, s->rproof_len); VB_INT(r); VB_INT(e); VB_INT(m); VB_PUT(&mn, 8); VB_PUT(&mx, 8);
        VB_INT((int)secp256k1_rangeproof_max_size(ctx, 0xFFFFFFFFULL, 0)); break; }
    case 24: { unsigned char bo[32], mo[256]; size_t ml = sizeof(mo); uint64_t v = 0, mn = 0, mx = 0;
        r = secp256k1_rangeproof_rewind(ctx, bo, &v, mo, &ml, s->rnd, &mn, &mx, &s->com1, s->rproof, s->rproof_len, s->msg2, 32, &s->gen_a); VB_INT(r);
        if (r) { VB_PUT(bo, 32); VB_PUT(&v, 8); VB_INT((int)ml); VB_PUT(mo, ml < 64 ? ml : 64); }
        ml = sizeof(mo);
        r = secp256k1_rangeproof_rewind(ctx, bo, &v, mo, &ml, s->msg, &mn, &mx, &s->com1, s->rproof, s->rproof_len, s->msg2, 32, &s->gen_a); VB_INT(r); break; }
    case 25: { secp256k1_surjectionproof sp; size_t idx = 99; unsigned char o[200]; size_t l = sizeof(o); unsigned char k[32];
        r = secp256k1_surjectionproof_initialize(ctx, &sp, &idx, s->tags, 3, 2, &s->tags[1], 100, s->rnd); VB_INT(r); VB_INT((int)idx);
        verif_fill(k, 32, 31); k[0] &= 0x7f;
        r = secp256k1_surjectionproof_generate(ctx, &sp, s->etags, 3, &s->eout, 1, k, s->blind2); VB_INT(r);
        r = secp256k1_surjectionproof_serialize(ctx, o, &l, &sp); VB_INT(r); VB_INT((int)l); VB_PUT(o, l < 200 ? l : 200); break; }
    case 26: { secp256k1_whitelist_signature ws; unsigned char on[32], summed[32], sk[32], o[200]; size_t l = sizeof(o);
        verif_fill(on, 32, 41); on[0] &= 0x7f; verif_fill(summed, 32, 51); summed[0] &= 0x7f; verif_fill(sk, 32, 60); sk[0] &= 0x7f;
        r = secp256k1_ec_seckey_tweak_add(ctx, summed, sk); VB_INT(r);
        r = secp256k1_whitelist_sign(ctx, &ws, s->won, s->woff, 3, &s->wsub, on, summed, 1); VB_INT(r);
        r = secp256k1_whitelist_signature_serialize(ctx, o, &l, &ws); VB_INT(r); VB_PUT(o, l < 200 ? l : 200); break; }
    case 27: { unsigned char a[162], k[32]; secp256k1_ecdsa_signature sig; unsigned char o[64];
        memcpy(k, s->sk1, 32);
        r = secp256k1_ecdsa_adaptor_encrypt(ctx, a, k, &s->pk2, s->msg, NULL, s->rnd); VB_INT(r); VB_PUT(a, 162);
        r = secp256k1_ecdsa_adaptor_decrypt(ctx, &sig, s->sk2, a); VB_INT(r);
        secp256k1_ecdsa_signature_serialize_compact(ctx, o, &sig); VB_PUT(o, 64);
        r = secp256k1_ecdsa_adaptor_recover(ctx, k, &sig, a, &s->pk2); VB_INT(r); VB_PUT(k, 32); break; }
    case 28: { secp256k1_ecdsa_signature sig; secp256k1_ecdsa_s2c_opening op2; unsigned char o[64], o33[33];
        r = secp256k1_ecdsa_s2c_sign(ctx, &sig, &op2, s->msg, s->sk1, s->msg2); VB_INT(r);
        secp256k1_ecdsa_signature_serialize_compact(ctx, o, &sig); VB_PUT(o, 64);
        r = secp256k1_ecdsa_s2c_opening_serialize(ctx, o33, &op2); VB_INT(r); VB_PUT(o33, 33);
        r = secp256k1_ecdsa_s2c_verify_commit(ctx, &sig, s->msg2, &op2); VB_INT(r);
        r = secp256k1_ecdsa_s2c_verify_commit(ctx, &sig, s->msg, &op2); VB_INT(r); break; }
    case 29: { unsigned char hc[32], o33[33], o[64]; secp256k1_ecdsa_s2c_opening op2; secp256k1_ecdsa_signature sig;
        r = secp256k1_ecdsa_anti_exfil_host_commit(ctx, hc, s->rnd); VB_INT(r); VB_PUT(hc, 32);
        r = secp256k1_ecdsa_anti_exfil_signer_commit(ctx, &op2, s->msg, s->sk1, hc); VB_INT(r);
        r = secp256k1_ecdsa_s2c_opening_serialize(ctx, o33, &op2); VB_INT(r); VB_PUT(o33, 33);
        r = secp256k1_anti_exfil_sign(ctx, &sig, s->msg, s->sk1, s->rnd); VB_INT(r);
        secp256k1_ecdsa_signature_serialize_compact(ctx, o, &sig); VB_PUT(o, 64);
        r = secp256k1_anti_exfil_host_verify(ctx, &sig, s->msg, &s->pk1, s->rnd, &op2); VB_INT(r); break; }
    case 30: { secp256k1_xonly_pubkey xs[2]; unsigned char msgs[64], sigs[128], agg[96]; size_t l = sizeof(agg);
        xs[0] = s->xo1; xs[1] = s->xo2; memcpy(msgs, s->msg, 32); memcpy(msgs + 32, s->msg2, 32);
        memcpy(sigs, s->schnorr1, 64); memcpy(sigs + 64, s->schnorr2, 64);
        r = secp256k1_schnorrsig_aggregate(ctx, agg, &l, xs, msgs, sigs, 2); VB_INT(r); VB_INT((int)l); VB_PUT(agg, 96);
        r = secp256k1_schnorrsig_aggverify(ctx, xs, msgs, 2, s->aggsig, s->aggsig_len); VB_INT(r);
        r = secp256k1_schnorrsig_aggverify(ctx, xs, msgs, 1, s->aggsig, s->aggsig_len); VB_INT(r); break; }
    case 31: { secp256k1_bppp_generators *g; unsigned char o[33 * 4]; size_t l = sizeof(o);
        g = secp256k1_bppp_generators_parse(ctx, s->gens_ser, sizeof(s->gens_ser)); VB_INT(g != NULL);
        if (g) { r = secp256k1_bppp_generators_serialize(ctx, g, o, &l); VB_INT(r); VB_PUT(o, l <= sizeof(o) ? l : sizeof(o)); secp256k1_bppp_generators_destroy(ctx, g); }
        g = secp256k1_bppp_generators_create(ctx, 3); VB_INT(g != NULL);
        if (g) { l = sizeof(o); r = secp256k1_bppp_generators_serialize(ctx, g, o, &l); VB_INT(r); VB_PUT(o, 99); secp256k1_bppp_generators_destroy(ctx, g); } break; }
    case 32: { secp256k1_xonly_pubkey xo; int par = -1; secp256k1_pubkey pk; unsigned char o[32];
        r = secp256k1_xonly_pubkey_from_pubkey(ctx, &xo, &par, &s->pk2); VB_INT(r); VB_INT(par);
        r = secp256k1_xonly_pubkey_tweak_add(ctx, &pk, &xo, s->tweak); VB_INT(r); VB_PUT(pk.data, 64);
        r = secp256k1_xonly_pubkey_from_pubkey(ctx, &xo, &par, &pk); VB_INT(r);
        r = secp256k1_xonly_pubkey_serialize(ctx, o, &xo); VB_INT(r);
        r = secp256k1_xonly_pubkey_tweak_add_check(ctx, o, par, &s->xo2, s->tweak); VB_INT(r);
        r = secp256k1_xonly_pubkey_cmp(ctx, &s->xo1, &s->xo2); VB_INT(r > 0 ? 1 : (r < 0 ? -1 : 0)); break; }
    case 33: { r = secp256k1_surjectionproof_verify(ctx, &s->sproof, s->etags, 3, &s->eout); VB_INT(r);
        r = secp256k1_surjectionproof_verify(ctx, &s->sproof, s->etags, 3, &s->etags[0]); VB_INT(r);
        VB_INT((int)secp256k1_surjectionproof_n_used_inputs(ctx, &s->sproof)); VB_INT((int)secp256k1_surjectionproof_serialized_size(ctx, &s->sproof)); break; }
    case 34: { r = secp256k1_whitelist_verify(ctx, &s->wsig, s->won, s->woff, 3, &s->wsub); VB_INT(r);
        r = secp256k1_whitelist_verify(ctx, &s->wsig, s->woff, s->won, 3, &s->wsub); VB_INT(r); break; }
    case 35: { r = secp256k1_ecdsa_adaptor_verify(ctx, s->adaptor162, &s->pk1, s->msg, &s->pk2); VB_INT(r);
        r = secp256k1_ecdsa_adaptor_verify(ctx, s->adaptor162, &s->pk2, s->msg, &s->pk1); VB_INT(r);
        { secp256k1_ecdsa_signature sig; unsigned char o[64]; r = secp256k1_ecdsa_adaptor_decrypt(ctx, &sig, s->sk2, s->adaptor162); VB_INT(r);
          secp256k1_ecdsa_signature_serialize_compact(ctx, o, &sig); VB_PUT(o, 64); } break; }
    case 36: { const secp256k1_musig_partial_sig *ps[2]; unsigned char o[64], adapted[64], t[32]; int np = -1;
        ps[0] = &s->mps[0]; ps[1] = &s->mps[1];
        r = secp256k1_musig_partial_sig_agg(ctx, o, &s->msession, ps, 2); VB_INT(r); VB_PUT(o, 64);
        r = secp256k1_musig_nonce_parity(ctx, &np, &s->msession); VB_INT(r); VB_INT(np);
        r = secp256k1_musig_adapt(ctx, adapted, o, s->sk3, np); VB_INT(r); VB_PUT(adapted, 64);
        r = secp256k1_musig_extract_adaptor(ctx, t, adapted, o, np); VB_INT(r); VB_PUT(t, 32); break; }
    case 37: { secp256k1_xonly_pubkey agg; secp256k1_musig_keyagg_cache c; const secp256k1_pubkey *pks[3]; secp256k1_pubkey pk; unsigned char o[32];
        pks[0] = &s->pk1; pks[1] = &s->pk2; pks[2] = &s->pk1;
        r = secp256k1_musig_pubkey_agg(ctx, &agg, &c, pks, 3); VB_INT(r);
        r = secp256k1_xonly_pubkey_serialize(ctx, o, &agg); VB_INT(r); VB_PUT(o, 32);
        r = secp256k1_musig_pubkey_xonly_tweak_add(ctx, &pk, &c, s->tweak); VB_INT(r); VB_PUT(pk.data, 64);
        r = secp256k1_musig_pubkey_ec_tweak_add(ctx, &pk, &c, s->tweak); VB_INT(r); VB_PUT(pk.data, 64);
        r = secp256k1_musig_pubkey_get(ctx, &pk, &c); VB_INT(r); VB_PUT(pk.data, 64);
        r = secp256k1_musig_partial_sig_verify(ctx, &s->mps[1], &s->mpn[1], &s->pk2, &s->mcache, &s->msession); VB_INT(r);
        r = secp256k1_musig_partial_sig_verify(ctx, &s->mps[1], &s->mpn[0], &s->pk2, &s->mcache, &s->msession); VB_INT(r); break; }
    case 38: { secp256k1_surjectionproof *sp = NULL; size_t idx = 99;
        r = secp256k1_surjectionproof_allocate_initialized(ctx, &sp, &idx, s->tags, 3, 1, &s->tags[2], 50, s->msg); VB_INT(r); VB_INT((int)idx);
        if (sp) { VB_INT((int)secp256k1_surjectionproof_n_total_inputs(ctx, sp)); secp256k1_surjectionproof_destroy(sp); } break; }
    case 39: { secp256k1_musig_pubnonce pn; secp256k1_musig_aggnonce an; secp256k1_musig_partial_sig ps; unsigned char o[66], o32[32];
        r = secp256k1_musig_pubnonce_serialize(ctx, o, &s->mpn[0]); VB_INT(r); VB_PUT(o, 66);
        r = secp256k1_musig_pubnonce_parse(ctx, &pn, o); VB_INT(r);
        r = secp256k1_musig_aggnonce_serialize(ctx, o, &s->maggn); VB_INT(r); VB_PUT(o, 66);
        r = secp256k1_musig_aggnonce_parse(ctx, &an, o); VB_INT(r);
        r = secp256k1_musig_partial_sig_serialize(ctx, o32, &s->mps[0]); VB_INT(r); VB_PUT(o32, 32);
        r = secp256k1_musig_partial_sig_parse(ctx, &ps, o32); VB_INT(r); break; }
    default: return -1;
    }
    return 0;
}

VX int verif_battery_n_ops(void) { return VERIF_N_OPS; }

/* whole battery into one buffer: [op index (4 bytes) | length (4 bytes) | bytes]* ; returns total length */
VX size_t verif_battery(const secp256k1_context *ctx, unsigned char *out, size_t cap) {
    size_t pos = 0;
    int op;
    for (op = 0; op < VERIF_N_OPS; op++) {
        size_t l = 0;
        unsigned char hdr[8];
        if (pos + 8 > cap) return 0;
        verif_battery_op(ctx, op, out + pos + 8, cap - pos - 8, &l);
        if (pos + 8 + l > cap) return 0;
        hdr[0] = 0; hdr[1] = 0; hdr[2] = 0; hdr[3] = (unsigned char)op;
        hdr[4] = (unsigned char)(l >> 24); hdr[5] = (unsigned char)(l >> 16); hdr[6] = (unsigned char)(l >> 8); hdr[7] = (unsigned char)l;
        memcpy(out + pos, hdr, 8);
        pos += 8 + l;
    }
    return pos;
}

/* context internals for canonical states / blinding invariant */
VX void verif_ctx_blinding(const secp256k1_context *ctx, unsigned char *scalar_offset32, unsigned char *ge_offset65, int *built) {
    secp256k1_ge g = ctx->ecmult_gen_ctx.ge_offset;
    *built = ctx->ecmult_gen_ctx.built;
    secp256k1_scalar_get_b32(scalar_offset32, &ctx->ecmult_gen_ctx.scalar_offset);
    memset(ge_offset65, 0, 65);
    if (!g.infinity) {
        secp256k1_fe_normalize(&g.x); secp256k1_fe_normalize(&g.y);
        ge_offset65[0] = 1; secp256k1_fe_get_b32(ge_offset65 + 1, &g.x); secp256k1_fe_get_b32(ge_offset65 + 33, &g.y);
    }
}
VX size_t verif_ctx_sizeof(void) { return sizeof(secp256k1_context); }
