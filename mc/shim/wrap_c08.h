/* C08 (Pedersen commitments / generators): access to static internals of the generator module.
 * Coordinates travel as 64 bytes x||y (big endian, fully reduced). */
#ifdef ENABLE_MODULE_GENERATOR

/* store an affine point into a generator object WITHOUT any validity check (small-group elements
 * with known discrete logarithm, deliberately chosen points); uses the module's own save routine */
VX int verif_generator_save_xy(secp256k1_generator *gen, const unsigned char *in64) {
    secp256k1_ge ge;
    secp256k1_fe x, y;
    if (!secp256k1_fe_set_b32_limit(&x, in64)) return 0;
    if (!secp256k1_fe_set_b32_limit(&y, in64 + 32)) return 0;
    secp256k1_ge_set_xy(&ge, &x, &y);
    secp256k1_generator_save(gen, &ge);
    return 1;
}

/* the affine point a generator object denotes (the module's own load routine) */
VX void verif_generator_load_xy(unsigned char *out64, const secp256k1_generator *gen) {
    secp256k1_ge ge;
    secp256k1_generator_load(&ge, gen);
    secp256k1_fe_normalize_var(&ge.x);
    secp256k1_fe_normalize_var(&ge.y);
    secp256k1_fe_get_b32(out64, &ge.x);
    secp256k1_fe_get_b32(out64 + 32, &ge.y);
}

/* the affine point a commitment object denotes, as verify_tally / the proof modules see it */
VX void verif_commitment_load_xy(unsigned char *out64, const secp256k1_pedersen_commitment *commit) {
    secp256k1_ge ge;
    secp256k1_pedersen_commitment_load(&ge, commit);
    secp256k1_fe_normalize_var(&ge.x);
    secp256k1_fe_normalize_var(&ge.y);
    secp256k1_fe_get_b32(out64, &ge.x);
    secp256k1_fe_get_b32(out64 + 32, &ge.y);
}

/* store an affine point into a commitment object (the module's own save routine) */
VX int verif_commitment_save_xy(secp256k1_pedersen_commitment *commit, const unsigned char *in64) {
    secp256k1_ge ge;
    secp256k1_fe x, y;
    if (!secp256k1_fe_set_b32_limit(&x, in64)) return 0;
    if (!secp256k1_fe_set_b32_limit(&y, in64 + 32)) return 0;
    secp256k1_ge_set_xy(&ge, &x, &y);
    memset(commit, 0, sizeof(*commit));
    secp256k1_pedersen_commitment_save(commit, &ge);
    return 1;
}

/* the Shallue-van de Woestijne map on a field element t (32 bytes, must be < p) */
VX int verif_svdw(unsigned char *out64, const unsigned char *t32) {
    secp256k1_fe t;
    secp256k1_ge ge;
    if (!secp256k1_fe_set_b32_limit(&t, t32)) return 0;
    shallue_van_de_woestijne(&ge, &t);
    secp256k1_fe_normalize_var(&ge.x);
    secp256k1_fe_normalize_var(&ge.y);
    secp256k1_fe_get_b32(out64, &ge.x);
    secp256k1_fe_get_b32(out64 + 32, &ge.y);
    return 1;
}

#endif
