/* C13 (and C12): MuSig secret-nonce objects written / read through the library's own
 * internal save / load helpers.  Included at the end of shim.c via wrappers.h. */
#ifdef ENABLE_MODULE_MUSIG

/* secnonce := (k1, k2, pk) through secp256k1_musig_secnonce_save.  Scalars are reduced by
 * scalar_set_b32 (no range check: the caller passes what it means).  Returns 0 if pk does not load. */
VX int verif_musig_secnonce_write(const secp256k1_context *ctx, secp256k1_musig_secnonce *secnonce, const unsigned char *k1_32, const unsigned char *k2_32, const secp256k1_pubkey *pk) {
    secp256k1_scalar k[2];
    secp256k1_ge p;
    if (!secp256k1_pubkey_load(ctx, &p, pk)) return 0;
    secp256k1_scalar_set_b32(&k[0], k1_32, NULL);
    secp256k1_scalar_set_b32(&k[1], k2_32, NULL);
    secp256k1_musig_secnonce_save(secnonce, k, &p);
    return 1;
}

/* Read a secnonce WITHOUT the ARG_CHECKs of secnonce_load: returns 0 (and writes nothing) when the
 * magic is absent, else 1 and out = k1(32) k2(32) pk.x(32) pk.y(32). */
VX int verif_musig_secnonce_read(unsigned char *out128, const secp256k1_musig_secnonce *secnonce) {
    secp256k1_scalar k;
    secp256k1_ge p;
    if (secp256k1_memcmp_var(&secnonce->data[0], secp256k1_musig_secnonce_magic, 4) != 0) return 0;
    secp256k1_scalar_set_b32(&k, &secnonce->data[4], NULL);
    secp256k1_scalar_get_b32(out128, &k);
    secp256k1_scalar_set_b32(&k, &secnonce->data[36], NULL);
    secp256k1_scalar_get_b32(out128 + 32, &k);
    secp256k1_ge_from_bytes(&p, &secnonce->data[68]);
    secp256k1_fe_normalize_var(&p.x);
    secp256k1_fe_normalize_var(&p.y);
    secp256k1_fe_get_b32(out128 + 64, &p.x);
    secp256k1_fe_get_b32(out128 + 96, &p.y);
    return 1;
}

#endif
