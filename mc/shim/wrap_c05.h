/* C05: byte-level access to the arithmetic and hashing kernel. */

/* ---------- field ---------- */
/* Build a field element with value v (32 bytes big endian, any 256-bit value, taken mod p) and a chosen
 * magnitude through the API only (never by poking limbs):
 *   meth 0: set_b32_mod(v)                      (magnitude 1, or set_b32_limit normalized if v < p and mag==0 requested)
 *   meth 1: set_b32_mod(w) ; mul_int(mag)       caller passes w = v / mag mod p in v32     (magnitude mag)
 *   meth 2: get_bounds(mag-1) + set_b32_mod(d)  caller passes d = v - value(bounds(mag-1)) (magnitude mag)
 *   meth 3: negate chain: start from normalized (+-v), negate mag-1 times                  (magnitude mag)
 */
static void verif_fe_make(secp256k1_fe *r, const unsigned char *v32, int mag, int meth) {
    int i;
    secp256k1_fe t;
    switch (meth) {
    case 1:
        secp256k1_fe_set_b32_mod(r, v32);
        secp256k1_fe_mul_int_unchecked(r, mag);
        break;
    case 2:
        secp256k1_fe_get_bounds(r, mag - 1);
        secp256k1_fe_set_b32_mod(&t, v32);
        secp256k1_fe_add(r, &t);
        break;
    case 3:
        secp256k1_fe_set_b32_mod(r, v32);
        secp256k1_fe_normalize(r);
        for (i = 1; i < mag; i++) {
            secp256k1_fe_negate_unchecked(r, r, i);
        }
        break;
    default:
        secp256k1_fe_set_b32_mod(r, v32);
        if (mag == 0) secp256k1_fe_normalize(r);
        break;
    }
}

static void verif_fe_out(unsigned char *out32, const secp256k1_fe *a) {
    secp256k1_fe t = *a;
    secp256k1_fe_normalize(&t);
    secp256k1_fe_get_b32(out32, &t);
}

/* value of get_bounds(m), normalized */
VX void verif_fe_bounds_value(unsigned char *out32, int m) {
    secp256k1_fe r;
    secp256k1_fe_get_bounds(&r, m);
    verif_fe_out(out32, &r);
}

/* Generic field operation. Returns the int result of predicates (or 0). out32 = normalized result. */
VX int verif_fe_op(int op, const unsigned char *a32, int amag, int ameth, const unsigned char *b32, int bmag, int bmeth, int iarg, unsigned char *out32) {
    secp256k1_fe a, b, r;
    secp256k1_fe_storage st;
    int ret = 0;
    verif_fe_make(&a, a32, amag, ameth);
    if (b32 != NULL) verif_fe_make(&b, b32, bmag, bmeth);
    r = a;
    switch (op) {
    case 0: secp256k1_fe_normalize(&r); secp256k1_fe_get_b32(out32, &r); return 0;
    case 1: secp256k1_fe_normalize_weak(&r); break;
    case 2: secp256k1_fe_normalize_var(&r); secp256k1_fe_get_b32(out32, &r); return 0;
    case 3: ret = secp256k1_fe_normalizes_to_zero(&a); break;
    case 4: ret = secp256k1_fe_normalizes_to_zero_var(&a); break;
    case 5: secp256k1_fe_negate_unchecked(&r, &a, iarg); break;             /* iarg >= magnitude of a */
    case 6: secp256k1_fe_mul_int_unchecked(&r, iarg); break;
    case 7: secp256k1_fe_half(&r); break;
    case 8: secp256k1_fe_sqr(&r, &a); break;
    case 9: secp256k1_fe_inv(&r, &a); break;
    case 10: secp256k1_fe_inv_var(&r, &a); break;
    case 11: ret = secp256k1_fe_sqrt(&r, &a); break;
    case 12: ret = secp256k1_fe_is_square_var(&a); break;
    case 13: secp256k1_fe_normalize(&r); ret = secp256k1_fe_is_odd(&r) | (secp256k1_fe_is_zero(&r) << 1); break;
    case 14: secp256k1_fe_normalize(&r); secp256k1_fe_to_storage(&st, &r); secp256k1_fe_from_storage(&r, &st); break;
    case 15: secp256k1_fe_add_int(&r, iarg); break;
    case 16: ret = secp256k1_fe_set_b32_limit(&r, a32); if (!ret) { memset(out32, 0, 32); return 0; } secp256k1_fe_get_b32(out32, &r); return ret;
    /* binary */
    case 20: secp256k1_fe_mul(&r, &a, &b); break;
    case 21: secp256k1_fe_add(&r, &b); break;
    case 22: ret = secp256k1_fe_equal(&a, &b); break;                        /* a mag <= 1, b mag <= 31 */
    case 23: secp256k1_fe_normalize(&a); secp256k1_fe_normalize(&b); ret = secp256k1_fe_cmp_var(&a, &b); r = a; break;
    case 24: secp256k1_fe_cmov(&r, &b, iarg); break;
    case 25: { secp256k1_fe_storage sa, sb; secp256k1_fe_normalize(&a); secp256k1_fe_normalize(&b);
               secp256k1_fe_to_storage(&sa, &a); secp256k1_fe_to_storage(&sb, &b);
               secp256k1_fe_storage_cmov(&sa, &sb, iarg); secp256k1_fe_from_storage(&r, &sa); break; }
    case 26: r = b; secp256k1_fe_mul(&r, &r, &a); break;                      /* aliasing r == a */
    case 27: secp256k1_fe_sqr(&r, &r); break;                                 /* aliasing */
    default: return -99;
    }
    verif_fe_out(out32, &r);
    return ret;
}

/* chain of magnitude-building operations followed by a consumer: ops[] over {0:add b, 1:negate, 2:mul_int 2, 3:mul_int 3, 4:half, 5:normalize_weak, 6: add_int 1}
 * applied to a (starting normalized), tracking the magnitude bound like the library documents; returns -1 if a step would exceed 32. */
VX int verif_fe_chain(const unsigned char *a32, const unsigned char *b32, const int *ops, int nops, int consumer, unsigned char *out32) {
    secp256k1_fe a, b, r;
    int mag = 1, i, ret = 0;
    secp256k1_fe_set_b32_mod(&a, a32); secp256k1_fe_normalize(&a);
    secp256k1_fe_set_b32_mod(&b, b32); secp256k1_fe_normalize(&b);
    for (i = 0; i < nops; i++) {
        switch (ops[i]) {
        case 0: if (mag + 1 > 32) return -1; secp256k1_fe_add(&a, &b); mag += 1; break;
        case 1: if (mag > 31) return -1; secp256k1_fe_negate_unchecked(&a, &a, mag); mag += 1; break;
        case 2: if (mag * 2 > 32) return -1; secp256k1_fe_mul_int_unchecked(&a, 2); mag *= 2; break;
        case 3: if (mag * 3 > 32) return -1; secp256k1_fe_mul_int_unchecked(&a, 3); mag *= 3; break;
        case 4: if (mag > 31) return -1; secp256k1_fe_half(&a); mag = (mag >> 1) + 1; break;
        case 5: secp256k1_fe_normalize_weak(&a); mag = 1; break;
        case 6: if (mag + 1 > 32) return -1; secp256k1_fe_add_int(&a, 1); mag += 1; break;
        default: return -2;
        }
    }
    r = a;
    switch (consumer) {
    case 0: break;                                                      /* just normalize */
    case 1: if (mag > 8) return -1; secp256k1_fe_sqr(&r, &a); break;
    case 2: if (mag > 8) return -1; secp256k1_fe_mul(&r, &a, &b); break;
    case 3: secp256k1_fe_inv(&r, &a); break;
    case 4: ret = secp256k1_fe_normalizes_to_zero(&a); break;
    case 5: ret = secp256k1_fe_normalizes_to_zero_var(&a); break;
    case 6: if (mag > 31) return -1; secp256k1_fe_half(&r); break;
    case 7: secp256k1_fe_normalize_var(&r); break;
    case 8: if (mag > 8) return -1; ret = secp256k1_fe_sqrt(&r, &a); break;
    case 9: ret = secp256k1_fe_is_square_var(&a); break;
    case 10: secp256k1_fe_inv_var(&r, &a); break;
    default: return -2;
    }
    verif_fe_out(out32, &r);
    return ret;
}

/* ---------- scalar ---------- */
VX int verif_scalar_op(int op, const unsigned char *a32, const unsigned char *b32, unsigned int iarg, unsigned int iarg2, unsigned char *out64) {
    secp256k1_scalar a, b, r, r2;
    int oa = 0, ob = 0, ret = 0;
    secp256k1_scalar_set_b32(&a, a32, &oa);
    if (b32 != NULL) secp256k1_scalar_set_b32(&b, b32, &ob); else b = secp256k1_scalar_zero;
    r = a; r2 = secp256k1_scalar_zero;
    switch (op) {
    case 0: ret = oa; break;                                              /* set_b32: value + overflow flag */
    case 1: ret = secp256k1_scalar_add(&r, &a, &b); break;
    case 2: secp256k1_scalar_negate(&r, &a); break;
    case 3: secp256k1_scalar_mul(&r, &a, &b); break;
    case 4: secp256k1_scalar_sqr(&r, &a); break;
    case 5: secp256k1_scalar_inverse(&r, &a); break;
    case 6: secp256k1_scalar_inverse_var(&r, &a); break;
    case 7: secp256k1_scalar_half(&r, &a); break;
    case 8: secp256k1_scalar_cadd_bit(&r, iarg, (int)iarg2); break;        /* requires a + 2^bit < 2^256 */
    case 9: ret = (int)secp256k1_scalar_get_bits_limb32(&a, iarg, iarg2); break;
    case 10: ret = (int)secp256k1_scalar_get_bits_var(&a, iarg, iarg2); break;
    case 11: secp256k1_scalar_split_128(&r, &r2, &a); break;
    case 12: secp256k1_scalar_split_lambda(&r, &r2, &a); break;
    case 13: ret = secp256k1_scalar_is_high(&a) | (secp256k1_scalar_is_zero(&a) << 1) | (secp256k1_scalar_is_one(&a) << 2) | (secp256k1_scalar_is_even(&a) << 3); break;
    case 14: ret = secp256k1_scalar_cond_negate(&r, (int)iarg); break;
    case 15: secp256k1_scalar_cmov(&r, &b, (int)iarg); break;
    case 16: ret = secp256k1_scalar_set_b32_seckey(&r, a32); break;
#ifndef EXHAUSTIVE_TEST_ORDER
    case 17: secp256k1_scalar_mul_shift_var(&r, &a, &b, iarg); break;
#endif
    case 18: ret = secp256k1_scalar_eq(&a, &b); break;
    case 19: secp256k1_scalar_set_int(&r, iarg); break;
    case 20: secp256k1_scalar_mul(&r, &r, &b); break;                      /* aliasing */
    case 21: secp256k1_scalar_mul(&r, &a, &a); break;
    default: return -99;
    }
    secp256k1_scalar_get_b32(out64, &r);
    secp256k1_scalar_get_b32(out64 + 32, &r2);
    return ret;
}

VX void verif_scalar_set_u64(uint64_t v, unsigned char *out32) {
    secp256k1_scalar r;
    secp256k1_scalar_set_u64(&r, v);
    secp256k1_scalar_get_b32(out32, &r);
}

/* ---------- group ---------- */
/* points are passed as 65 bytes: flag(0 = infinity, 1 = finite) || x || y ; Jacobian inputs are built from the
 * affine point and rescaled by z (32 bytes, non-zero) when zmode != 0 */
static void verif_ge_in(secp256k1_ge *r, const unsigned char *p65) {
    if (p65[0] == 0) { secp256k1_ge_set_infinity(r); return; }
    {
        secp256k1_fe x, y;
        secp256k1_fe_set_b32_mod(&x, p65 + 1); secp256k1_fe_normalize(&x);
        secp256k1_fe_set_b32_mod(&y, p65 + 33); secp256k1_fe_normalize(&y);
        secp256k1_ge_set_xy(r, &x, &y);
    }
}
static void verif_gej_in(secp256k1_gej *r, const unsigned char *p65, const unsigned char *z32) {
    secp256k1_ge g;
    verif_ge_in(&g, p65);
    secp256k1_gej_set_ge(r, &g);
    if (z32 != NULL && !g.infinity) {
        secp256k1_fe z;
        secp256k1_fe_set_b32_mod(&z, z32);
        secp256k1_gej_rescale(r, &z);
    }
}
static void verif_ge_outp(unsigned char *o65, const secp256k1_ge *a) {
    secp256k1_ge t = *a;
    memset(o65, 0, 65);
    if (t.infinity) return;
    o65[0] = 1;
    secp256k1_fe_normalize(&t.x); secp256k1_fe_normalize(&t.y);
    secp256k1_fe_get_b32(o65 + 1, &t.x);
    secp256k1_fe_get_b32(o65 + 33, &t.y);
}
static void verif_gej_outp(unsigned char *o65, const secp256k1_gej *a) {
    secp256k1_gej t = *a;
    secp256k1_ge g;
    secp256k1_ge_set_gej_var(&g, &t);
    verif_ge_outp(o65, &g);
}

VX int verif_group_op(int op, const unsigned char *a65, const unsigned char *az32, const unsigned char *b65, const unsigned char *bz32, int iarg, unsigned char *out65) {
    secp256k1_gej aj, bj, rj;
    secp256k1_ge a, b, r;
    secp256k1_fe rzr, f;
    int ret = 0;
    verif_ge_in(&a, a65); verif_gej_in(&aj, a65, az32);
    if (b65 != NULL) { verif_ge_in(&b, b65); verif_gej_in(&bj, b65, bz32); } else { secp256k1_ge_set_infinity(&b); secp256k1_gej_set_infinity(&bj); }
    secp256k1_gej_set_infinity(&rj);
    switch (op) {
    case 0: secp256k1_gej_add_var(&rj, &aj, &bj, iarg ? &rzr : NULL); break;
    case 1: secp256k1_gej_add_ge(&rj, &aj, &b); break;
    case 2: secp256k1_gej_add_ge_var(&rj, &aj, &b, iarg ? &rzr : NULL); break;
    case 3: {   /* add_zinv_var: b given with its own z (bz32), passes b's affine-in-its-frame coordinates and 1/z */
        secp256k1_fe bz, bzinv, z2, z3; secp256k1_ge bs;
        if (b.infinity || bz32 == NULL) { secp256k1_gej_add_ge_var(&rj, &aj, &b, NULL); break; }
        secp256k1_fe_set_b32_mod(&bz, bz32);
        /* bs = (b.x*z^2, b.y*z^3) is the point b expressed with denominator z; bzinv = 1/z */
        secp256k1_fe_sqr(&z2, &bz); secp256k1_fe_mul(&z3, &z2, &bz);
        bs = b; secp256k1_fe_mul(&bs.x, &bs.x, &z2); secp256k1_fe_mul(&bs.y, &bs.y, &z3);
        secp256k1_fe_inv(&bzinv, &bz);
        secp256k1_gej_add_zinv_var(&rj, &aj, &bs, &bzinv);
        break; }
    case 4: if (aj.infinity) { secp256k1_gej_set_infinity(&rj); } else secp256k1_gej_double(&rj, &aj); break;
    case 5: secp256k1_gej_double_var(&rj, &aj, iarg ? &rzr : NULL); break;
    case 6: secp256k1_gej_neg(&rj, &aj); break;
    case 7: secp256k1_ge_neg(&r, &a); verif_ge_outp(out65, &r); return 0;
    case 8: ret = secp256k1_gej_eq_var(&aj, &bj); break;
    case 9: ret = secp256k1_gej_eq_ge_var(&aj, &b); break;
    case 10: ret = secp256k1_ge_eq_var(&a, &b); break;
    case 11: if (aj.infinity) return -1; secp256k1_fe_set_b32_mod(&f, b65 + 1); secp256k1_fe_normalize(&f); ret = secp256k1_gej_eq_x_var(&f, &aj); break;
    case 12: ret = secp256k1_gej_has_quad_y_var(&aj); break;
    case 13: secp256k1_ge_mul_lambda(&r, &a); verif_ge_outp(out65, &r); return 0;
    case 14: ret = secp256k1_ge_is_valid_var(&a); break;
    case 15: secp256k1_gej_cmov(&aj, &bj, iarg); rj = aj; break;
    case 16: { secp256k1_ge_storage s; if (a.infinity) return -1; secp256k1_ge_to_storage(&s, &a); secp256k1_ge_from_storage(&r, &s); verif_ge_outp(out65, &r); return 0; }
    case 17: { unsigned char bb[64]; if (a.infinity) return -1; secp256k1_ge_to_bytes(bb, &a); secp256k1_ge_from_bytes(&r, bb); verif_ge_outp(out65, &r); return 0; }
    case 18: { unsigned char bb[64]; secp256k1_ge_to_bytes_ext(bb, &a); secp256k1_ge_from_bytes_ext(&r, bb); verif_ge_outp(out65, &r); return 0; }
    case 19: secp256k1_ge_set_gej(&r, &aj); verif_ge_outp(out65, &r); return 0;   /* constant-time conversion; aj may be infinity? documented: no */
    case 20: { secp256k1_ge_storage sa, sb; if (a.infinity || b.infinity) return -1; secp256k1_ge_to_storage(&sa, &a); secp256k1_ge_to_storage(&sb, &b);
               secp256k1_ge_storage_cmov(&sa, &sb, iarg); secp256k1_ge_from_storage(&r, &sa); verif_ge_outp(out65, &r); return 0; }
    default: return -99;
    }
    verif_gej_outp(out65, &rj);
    return ret;
}

/* set_xo_var / set_xquad / x_on_curve / x_frac_on_curve on an x given as 32 bytes (+ optional denominator) */
VX int verif_group_x_op(int op, const unsigned char *x32, const unsigned char *d32, int iarg, unsigned char *out65) {
    secp256k1_fe x, d;
    secp256k1_ge r;
    int ret;
    secp256k1_fe_set_b32_mod(&x, x32); secp256k1_fe_normalize(&x);
    memset(out65, 0, 65);
    switch (op) {
    case 0: ret = secp256k1_ge_set_xo_var(&r, &x, iarg); if (ret) verif_ge_outp(out65, &r); return ret;
    case 1: ret = secp256k1_ge_set_xquad(&r, &x); if (ret) verif_ge_outp(out65, &r); return ret;
    case 2: return secp256k1_ge_x_on_curve_var(&x);
    case 3: secp256k1_fe_set_b32_mod(&d, d32); return secp256k1_ge_x_frac_on_curve_var(&x, &d);
    default: return -99;
    }
}

/* batch conversions: n points (65 bytes each) with z factors; set_all_gej(_var) and table_set_globalz */
VX int verif_group_batch(int op, const unsigned char *pts65, const unsigned char *zs32, size_t n, unsigned char *out65) {
    secp256k1_gej aj[32];
    secp256k1_ge r[32];
    size_t i;
    if (n > 32) return -1;
    for (i = 0; i < n; i++) verif_gej_in(&aj[i], pts65 + 65 * i, zs32 + 32 * i);
    if (op == 0) {
        secp256k1_ge_set_all_gej(r, aj, n);              /* requires no infinity */
    } else {
        secp256k1_ge_set_all_gej_var(r, aj, n);
    }
    for (i = 0; i < n; i++) verif_ge_outp(out65 + 65 * i, &r[i]);
    return 0;
}

/* ---------- ecmult family ---------- */
VX int verif_ecmult(int kind, const secp256k1_context *ctx, const unsigned char *a65, const unsigned char *az32, const unsigned char *na32, const unsigned char *ng32, unsigned char *out65) {
    secp256k1_gej aj, rj;
    secp256k1_ge a;
    secp256k1_scalar na, ng;
    secp256k1_fe rx, fn, fd;
    int ret = 0;
    verif_ge_in(&a, a65); verif_gej_in(&aj, a65, az32);
    secp256k1_scalar_set_b32(&na, na32, NULL);
    if (ng32 != NULL) secp256k1_scalar_set_b32(&ng, ng32, NULL);
    memset(out65, 0, 65);
    switch (kind) {
    case 0: secp256k1_ecmult(&rj, &aj, &na, ng32 ? &ng : NULL); break;
    case 1: if (a.infinity) return -1; secp256k1_ecmult_const(&rj, &a, &na); break;
    case 2: secp256k1_ecmult_gen(&ctx->ecmult_gen_ctx, &rj, &na); break;
    case 3: /* xonly, d == NULL */
        if (a.infinity || secp256k1_scalar_is_zero(&na)) return -1;
        fn = a.x;
        ret = secp256k1_ecmult_const_xonly(&rx, &fn, NULL, &na, ng32 != NULL);
        if (ret) { secp256k1_fe_normalize(&rx); out65[0] = 1; secp256k1_fe_get_b32(out65 + 1, &rx); }
        return ret;
    case 4: /* xonly with denominator d = az32 (x passed as n = x*d) */
        if (a.infinity || secp256k1_scalar_is_zero(&na) || az32 == NULL) return -1;
        secp256k1_fe_set_b32_mod(&fd, az32);
        secp256k1_fe_mul(&fn, &a.x, &fd);
        ret = secp256k1_ecmult_const_xonly(&rx, &fn, &fd, &na, ng32 != NULL);
        if (ret) { secp256k1_fe_normalize(&rx); out65[0] = 1; secp256k1_fe_get_b32(out65 + 1, &rx); }
        return ret;
    default: return -99;
    }
    verif_gej_outp(out65, &rj);
    return ret;
}

/* x-only multiplication for an arbitrary x (possibly not on the curve): known_on_curve = 0 */
VX int verif_ecmult_xonly_raw(const unsigned char *x32, const unsigned char *q32, unsigned char *out32) {
    secp256k1_fe x, rx; secp256k1_scalar q; int ret;
    secp256k1_fe_set_b32_mod(&x, x32);
    secp256k1_scalar_set_b32(&q, q32, NULL);
    if (secp256k1_scalar_is_zero(&q)) return -1;
    ret = secp256k1_ecmult_const_xonly(&rx, &x, NULL, &q, 0);
    memset(out32, 0, 32);
    if (ret) { secp256k1_fe_normalize(&rx); secp256k1_fe_get_b32(out32, &rx); }
    return ret;
}

typedef struct { const unsigned char *sc; const unsigned char *pt; size_t fail_at; size_t calls; } verif_mm_data;
static int verif_mm_cb(secp256k1_scalar *sc, secp256k1_ge *pt, size_t idx, void *data) {
    verif_mm_data *d = (verif_mm_data *)data;
    d->calls++;
    if (idx == d->fail_at) return 0;
    secp256k1_scalar_set_b32(sc, d->sc + 32 * idx, NULL);
    verif_ge_in(pt, d->pt + 65 * idx);
    return 1;
}
/* scratch_size: (size_t)-1 => NULL scratch */
VX int verif_ecmult_multi(const secp256k1_context *ctx, size_t scratch_size, const unsigned char *g_sc32, const unsigned char *scalars, const unsigned char *points65, size_t n, size_t fail_at, unsigned char *out65, size_t *cb_calls) {
    secp256k1_scratch *scratch = NULL;
    secp256k1_gej rj;
    secp256k1_scalar g;
    verif_mm_data d;
    int ret;
    d.sc = scalars; d.pt = points65; d.fail_at = fail_at; d.calls = 0;
    if (scratch_size != (size_t)-1) {
        scratch = secp256k1_scratch_create(&ctx->error_callback, scratch_size);
        if (scratch == NULL) return -1;
    }
    if (g_sc32 != NULL) secp256k1_scalar_set_b32(&g, g_sc32, NULL);
    secp256k1_gej_set_infinity(&rj);
    ret = secp256k1_ecmult_multi_var(&ctx->error_callback, scratch, &rj, g_sc32 ? &g : NULL, verif_mm_cb, &d, n);
    memset(out65, 0, 65);
    if (ret) verif_gej_outp(out65, &rj);
    if (cb_calls) *cb_calls = d.calls;
    if (scratch != NULL) secp256k1_scratch_destroy(&ctx->error_callback, scratch);
    return ret;
}
VX size_t verif_ecmult_thresholds(int what) {
    switch (what) {
    case 0: return ECMULT_PIPPENGER_THRESHOLD;
    case 1: return secp256k1_strauss_scratch_size(1);
    case 2: return secp256k1_pippenger_scratch_size(1, 1);
    case 3: return ALIGNMENT;
    case 4: return STRAUSS_SCRATCH_OBJECTS;
    case 5: return PIPPENGER_SCRATCH_OBJECTS;
    case 6: return sizeof(secp256k1_scratch);
    default: return 0;
    }
}

/* ---------- hashing ---------- */
/* SHA-256 write-state search: for a message of length L, for every reachable state o (bytes written so far,
 * reached canonically by ONE write of o bytes) and every k in 0..L-o: write k more bytes; the resulting struct
 * (midstate, byte counter, first bytes%64 buffer bytes) must equal the canonical state of one write of o+k bytes,
 * and finalize of both must agree.  Stale buffer bytes are pre-filled with `fill`.  Returns #mismatches. */
static void verif_sha_init_fill(secp256k1_sha256 *h, unsigned char fill) {
    memset(h->buf, fill, sizeof(h->buf));
    secp256k1_sha256_initialize(h);
}
VX long verif_sha256_state_bfs(const secp256k1_context *ctx, const unsigned char *msg, size_t L, int fill, long *transitions) {
    const secp256k1_hash_ctx *hc = secp256k1_get_hash_context(ctx);
    size_t o, k;
    long bad = 0, tr = 0;
    for (o = 0; o <= L; o++) {
        for (k = 0; k + o <= L; k++) {
            secp256k1_sha256 a, c;
            unsigned char ha[32], hcn[32];
            verif_sha_init_fill(&a, (unsigned char)fill);
            secp256k1_sha256_write(hc, &a, msg, o);
            secp256k1_sha256_write(hc, &a, msg + o, k);
            verif_sha_init_fill(&c, (unsigned char)(fill ^ 0xFF));
            secp256k1_sha256_write(hc, &c, msg, o + k);
            tr++;
            if (memcmp(a.s, c.s, sizeof(a.s)) != 0 || a.bytes != c.bytes || memcmp(a.buf, c.buf, (size_t)(a.bytes % 64)) != 0) { bad++; continue; }
            secp256k1_sha256_finalize(hc, &a, ha);
            secp256k1_sha256_finalize(hc, &c, hcn);
            if (memcmp(ha, hcn, 32) != 0) bad++;
        }
    }
    if (transitions) *transitions = tr;
    return bad;
}
/* one-shot SHA-256 (single write) of every prefix of msg: out = 32*(L+1) bytes; compared with hashlib in Python */
VX void verif_sha256_prefixes(const secp256k1_context *ctx, const unsigned char *msg, size_t L, unsigned char *out) {
    const secp256k1_hash_ctx *hc = secp256k1_get_hash_context(ctx);
    size_t o;
    for (o = 0; o <= L; o++) {
        secp256k1_sha256 a;
        secp256k1_sha256_initialize(&a);
        secp256k1_sha256_write(hc, &a, msg, o);
        secp256k1_sha256_finalize(hc, &a, out + 32 * o);
    }
}
VX void verif_sha256_chunks(const secp256k1_context *ctx, const unsigned char *msg, size_t L, size_t chunk, unsigned char *out32) {
    const secp256k1_hash_ctx *hc = secp256k1_get_hash_context(ctx);
    secp256k1_sha256 a;
    size_t o = 0;
    secp256k1_sha256_initialize(&a);
    while (o < L) { size_t k = L - o < chunk ? L - o : chunk; secp256k1_sha256_write(hc, &a, msg + o, k); o += k; }
    secp256k1_sha256_finalize(hc, &a, out32);
}
VX void verif_hmac(const secp256k1_context *ctx, const unsigned char *key, size_t klen, const unsigned char *msg, size_t mlen, size_t split, unsigned char *out32) {
    const secp256k1_hash_ctx *hc = secp256k1_get_hash_context(ctx);
    secp256k1_hmac_sha256 h;
    secp256k1_hmac_sha256_initialize(hc, &h, key, klen);
    if (split > mlen) split = mlen;
    secp256k1_hmac_sha256_write(hc, &h, msg, split);
    secp256k1_hmac_sha256_write(hc, &h, msg + split, mlen - split);
    secp256k1_hmac_sha256_finalize(hc, &h, out32);
}
/* RFC 6979 generator: n generate calls with the given output lengths, outputs concatenated */
VX void verif_rfc6979(const secp256k1_context *ctx, const unsigned char *seed, size_t slen, const size_t *outlens, size_t n, unsigned char *out) {
    const secp256k1_hash_ctx *hc = secp256k1_get_hash_context(ctx);
    secp256k1_rfc6979_hmac_sha256 rng;
    size_t i;
    secp256k1_rfc6979_hmac_sha256_initialize(hc, &rng, seed, slen);
    for (i = 0; i < n; i++) { secp256k1_rfc6979_hmac_sha256_generate(hc, &rng, out, outlens[i]); out += outlens[i]; }
    secp256k1_rfc6979_hmac_sha256_finalize(&rng);
}
VX void verif_sha256_tagged(const secp256k1_context *ctx, const unsigned char *tag, size_t taglen, const unsigned char *msg, size_t mlen, unsigned char *out32) {
    const secp256k1_hash_ctx *hc = secp256k1_get_hash_context(ctx);
    secp256k1_sha256 a;
    secp256k1_sha256_initialize_tagged(hc, &a, tag, taglen);
    secp256k1_sha256_write(hc, &a, msg, mlen);
    secp256k1_sha256_finalize(hc, &a, out32);
}

/* an independent, deliberately plain SHA-256 compression function, installable through the public API */
static uint32_t verif_rotr(uint32_t x, int n) { return (x >> n) | (x << (32 - n)); }
/* the header documents the pluggable compression function as processing "one or more" blocks: calls with n_blocks == 0 are
 * counted (and treated as a no-op, so results stay comparable); a replacement that is correct for n_blocks >= 1 only
 * (e.g. a do/while loop) would silently corrupt every hash if the library made such a call */
static size_t verif_sha_zero_block_calls = 0;
VX size_t verif_sha256_zero_block_calls(void) { return verif_sha_zero_block_calls; }
VX void verif_sha256_compress(uint32_t *s, const unsigned char *blocks, size_t n_blocks) {
    static const uint32_t K[64] = {
        0x428a2f98,0x71374491,0xb5c0fbcf,0xe9b5dba5,0x3956c25b,0x59f111f1,0x923f82a4,0xab1c5ed5,0xd807aa98,0x12835b01,0x243185be,0x550c7dc3,0x72be5d74,0x80deb1fe,0x9bdc06a7,0xc19bf174,
        0xe49b69c1,0xefbe4786,0x0fc19dc6,0x240ca1cc,0x2de92c6f,0x4a7484aa,0x5cb0a9dc,0x76f988da,0x983e5152,0xa831c66d,0xb00327c8,0xbf597fc7,0xc6e00bf3,0xd5a79147,0x06ca6351,0x14292967,
        0x27b70a85,0x2e1b2138,0x4d2c6dfc,0x53380d13,0x650a7354,0x766a0abb,0x81c2c92e,0x92722c85,0xa2bfe8a1,0xa81a664b,0xc24b8b70,0xc76c51a3,0xd192e819,0xd6990624,0xf40e3585,0x106aa070,
        0x19a4c116,0x1e376c08,0x2748774c,0x34b0bcb5,0x391c0cb3,0x4ed8aa4a,0x5b9cca4f,0x682e6ff3,0x748f82ee,0x78a5636f,0x84c87814,0x8cc70208,0x90befffa,0xa4506ceb,0xbef9a3f7,0xc67178f2 };
    if (n_blocks == 0) verif_sha_zero_block_calls++;
    while (n_blocks--) {
        uint32_t w[64], a, b, c, d, e, f, g, h, t1, t2;
        int i;
        for (i = 0; i < 16; i++) w[i] = ((uint32_t)blocks[4*i] << 24) | ((uint32_t)blocks[4*i+1] << 16) | ((uint32_t)blocks[4*i+2] << 8) | blocks[4*i+3];
        for (i = 16; i < 64; i++) {
            uint32_t s0 = verif_rotr(w[i-15], 7) ^ verif_rotr(w[i-15], 18) ^ (w[i-15] >> 3);
            uint32_t s1 = verif_rotr(w[i-2], 17) ^ verif_rotr(w[i-2], 19) ^ (w[i-2] >> 10);
            w[i] = w[i-16] + s0 + w[i-7] + s1;
        }
        a = s[0]; b = s[1]; c = s[2]; d = s[3]; e = s[4]; f = s[5]; g = s[6]; h = s[7];
        for (i = 0; i < 64; i++) {
            t1 = h + (verif_rotr(e, 6) ^ verif_rotr(e, 11) ^ verif_rotr(e, 25)) + ((e & f) ^ (~e & g)) + K[i] + w[i];
            t2 = (verif_rotr(a, 2) ^ verif_rotr(a, 13) ^ verif_rotr(a, 22)) + ((a & b) ^ (a & c) ^ (b & c));
            h = g; g = f; f = e; e = d + t1; d = c; c = b; b = a; a = t1 + t2;
        }
        s[0] += a; s[1] += b; s[2] += c; s[3] += d; s[4] += e; s[5] += f; s[6] += g; s[7] += h;
        blocks += 64;
    }
}
