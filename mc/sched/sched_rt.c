/* Own implementation of the ThreadSanitizer instrumentation ABI (compiled WITHOUT -fsanitize=thread).
 * Every instrumented access outside the running OS stack and outside the current logical thread's private
 * regions is a VISIBLE OPERATION: it is counted and recorded in that logical thread's read / write byte sets.
 * Two logical threads are independent iff no byte written by one is read or written by the other. */
#define _GNU_SOURCE
#include <stdint.h>
#include <stddef.h>
#include <stdlib.h>
#include <string.h>
#include <stdio.h>
#include <pthread.h>

#define MAXT 4
#define HBITS 20
#define HSIZE (1u << HBITS)

typedef struct { uintptr_t key; unsigned char r, w; } cell_t;
typedef struct { cell_t *tab; size_t used; unsigned long nread, nwrite; } tlog_t;

static tlog_t logs[MAXT];
int sched_cur = 0;                    /* 0 = not monitored */
static uintptr_t stack_lo, stack_hi;
typedef struct { uintptr_t lo, hi; int owner; } region_t;
static region_t regions[4096];
static int nregions = 0;
unsigned long sched_overflow = 0;

void sched_init(void) {
    pthread_attr_t a; void *addr; size_t sz; int i;
    pthread_getattr_np(pthread_self(), &a);
    pthread_attr_getstack(&a, &addr, &sz);
    pthread_attr_destroy(&a);
    stack_lo = (uintptr_t)addr; stack_hi = stack_lo + sz;
    for (i = 0; i < MAXT; i++) { logs[i].tab = calloc(HSIZE, sizeof(cell_t)); logs[i].used = 0; }
}
void sched_reset(void) {
    int i;
    for (i = 0; i < MAXT; i++) { if (logs[i].used) memset(logs[i].tab, 0, HSIZE * sizeof(cell_t)); logs[i].used = 0; logs[i].nread = logs[i].nwrite = 0; }
}
void sched_private_add(const void *p, size_t n, int owner) {
    if (nregions < 4096) { regions[nregions].lo = (uintptr_t)p; regions[nregions].hi = (uintptr_t)p + n; regions[nregions].owner = owner; nregions++; }
}
void sched_private_del(const void *p) {
    int i;
    for (i = 0; i < nregions; i++) if (regions[i].lo == (uintptr_t)p) { regions[i] = regions[nregions - 1]; nregions--; return; }
}
void sched_private_clear(void) { nregions = 0; }
void sched_set(int t) { sched_cur = t; }

/* ---- preemption-bounded exploration support: accesses that touch a WATCHED cell are scheduling points ---- */
static uintptr_t watch[64];
static int nwatch = 0;
void (*sched_yield_hook)(void) = 0;
unsigned long sched_points = 0;          /* scheduling points passed in the current execution */
void sched_watch_clear(void) { nwatch = 0; }
void sched_watch_add(uintptr_t cell_addr) { if (nwatch < 64) watch[nwatch++] = cell_addr >> 3; }

static void rec(uintptr_t a, size_t n, int w) {
    tlog_t *l;
    int i;
    if (sched_cur == 0) return;
    if (a >= stack_lo && a < stack_hi) return;
    for (i = 0; i < nregions; i++) if (regions[i].owner == sched_cur && a >= regions[i].lo && a + n <= regions[i].hi) return;
    if (nwatch && sched_yield_hook) {
        uintptr_t k0 = a >> 3, k1 = (a + (n ? n - 1 : 0)) >> 3;
        for (i = 0; i < nwatch; i++) if (watch[i] >= k0 && watch[i] <= k1) { sched_points++; sched_yield_hook(); break; }
    }
    l = &logs[sched_cur];
    if (w) l->nwrite++; else l->nread++;
    while (n) {
        uintptr_t key = a >> 3;
        unsigned off = (unsigned)(a & 7), cnt = 8 - off;
        unsigned char mask;
        size_t h = (size_t)((key * 0x9E3779B97F4A7C15ull) >> (64 - HBITS));
        if (cnt > n) cnt = (unsigned)n;
        mask = (unsigned char)(((1u << cnt) - 1) << off);
        for (;;) {
            cell_t *c = &l->tab[h];
            if (c->key == key) { if (w) c->w |= mask; else c->r |= mask; break; }
            if (c->key == 0) {
                if (l->used * 2 > HSIZE) { sched_overflow++; break; }
                c->key = key; l->used++; if (w) c->w |= mask; else c->r |= mask; break;
            }
            h = (h + 1) & (HSIZE - 1);
        }
        a += cnt; n -= cnt;
    }
}

/* conflicts between logical threads x and y: bytes written by x and read-or-written by y.  Returns the count and
 * fills up to `max` conflicting addresses. */
size_t sched_conflicts(int x, int y, uintptr_t *addrs, int *kinds, size_t max) {
    size_t n = 0, i;
    tlog_t *lx = &logs[x], *ly = &logs[y];
    for (i = 0; i < HSIZE; i++) {
        cell_t *c = &lx->tab[i];
        size_t h;
        if (c->key == 0 || c->w == 0) continue;
        h = (size_t)((c->key * 0x9E3779B97F4A7C15ull) >> (64 - HBITS));
        for (;;) {
            cell_t *d = &ly->tab[h];
            if (d->key == 0) break;
            if (d->key == c->key) {
                unsigned char ww = c->w & d->w, wr = c->w & d->r;
                if (ww | wr) { if (n < max) { addrs[n] = c->key << 3; kinds[n] = ww ? 2 : 1; } n++; }
                break;
            }
            h = (h + 1) & (HSIZE - 1);
        }
    }
    return n;
}
unsigned long sched_nread(int t) { return logs[t].nread; }
unsigned long sched_nwrite(int t) { return logs[t].nwrite; }
size_t sched_cells(int t) { return logs[t].used; }

/* ---- the instrumentation ABI ---- */
void __tsan_init(void) {}
void __tsan_func_entry(void *pc) { (void)pc; }
void __tsan_func_exit(void) {}
#define RW(N) \
  void __tsan_read##N(void *a) { rec((uintptr_t)a, N, 0); } \
  void __tsan_write##N(void *a) { rec((uintptr_t)a, N, 1); } \
  void __tsan_unaligned_read##N(void *a) { rec((uintptr_t)a, N, 0); } \
  void __tsan_unaligned_write##N(void *a) { rec((uintptr_t)a, N, 1); } \
  void __tsan_volatile_read##N(void *a) { rec((uintptr_t)a, N, 0); } \
  void __tsan_volatile_write##N(void *a) { rec((uintptr_t)a, N, 1); }
RW(1) RW(2) RW(4) RW(8) RW(16)
void __tsan_read_range(void *a, unsigned long n) { rec((uintptr_t)a, n, 0); }
void __tsan_write_range(void *a, unsigned long n) { rec((uintptr_t)a, n, 1); }
void __tsan_read_write1(void *a) { rec((uintptr_t)a, 1, 0); rec((uintptr_t)a, 1, 1); }
void __tsan_read_write2(void *a) { rec((uintptr_t)a, 2, 0); rec((uintptr_t)a, 2, 1); }
void __tsan_read_write4(void *a) { rec((uintptr_t)a, 4, 0); rec((uintptr_t)a, 4, 1); }
void __tsan_read_write8(void *a) { rec((uintptr_t)a, 8, 0); rec((uintptr_t)a, 8, 1); }
void __tsan_read_write16(void *a) { rec((uintptr_t)a, 16, 0); rec((uintptr_t)a, 16, 1); }
void *__tsan_memcpy(void *d, const void *s, size_t n) { rec((uintptr_t)s, n, 0); rec((uintptr_t)d, n, 1); return memcpy(d, s, n); }
void *__tsan_memmove(void *d, const void *s, size_t n) { rec((uintptr_t)s, n, 0); rec((uintptr_t)d, n, 1); return memmove(d, s, n); }
void *__tsan_memset(void *d, int c, size_t n) { rec((uintptr_t)d, n, 1); return memset(d, c, n); }
/* library calls of memcpy/memset/memmove/memcmp are routed here by -D redirection on the instrumented TU */
void *sched_memcpy(void *d, const void *s, size_t n) { rec((uintptr_t)s, n, 0); rec((uintptr_t)d, n, 1); return memcpy(d, s, n); }
void *sched_memmove(void *d, const void *s, size_t n) { rec((uintptr_t)s, n, 0); rec((uintptr_t)d, n, 1); return memmove(d, s, n); }
void *sched_memset(void *d, int c, size_t n) { rec((uintptr_t)d, n, 1); return memset(d, c, n); }
int sched_memcmp(const void *a, const void *b, size_t n) { rec((uintptr_t)a, n, 0); rec((uintptr_t)b, n, 0); return memcmp(a, b, n); }
