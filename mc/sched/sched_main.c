/* Schedule-exploration harness for C20 (E4).
 *   mode "acc":  logical threads run the battery ops on ONE shared context under the access monitor
 *                (sched_rt.c); prints one JSON object with programs, visible operations and dependent pairs.
 *   mode "tsan": (built with the real ThreadSanitizer) N OS threads run all ops concurrently, barrier start.
 */
#define _GNU_SOURCE
#include <stdlib.h>
#include <string.h>
#include <stdint.h>
#include <stdio.h>
#include <pthread.h>
#include <dlfcn.h>

#ifndef REAL_TSAN
#define VERIF_SCHED 1
extern int sched_cur;
extern unsigned long sched_overflow;
void sched_init(void); void sched_reset(void); void sched_set(int t);
void sched_private_add(const void *p, size_t n, int owner); void sched_private_del(const void *p); void sched_private_clear(void);
size_t sched_conflicts(int x, int y, uintptr_t *addrs, int *kinds, size_t max);
unsigned long sched_nread(int t); unsigned long sched_nwrite(int t); size_t sched_cells(int t);
void *sched_memcpy(void *d, const void *s, size_t n); void *sched_memmove(void *d, const void *s, size_t n);
void *sched_memset(void *d, int c, size_t n); int sched_memcmp(const void *a, const void *b, size_t n);
#define memcpy sched_memcpy
#define memmove sched_memmove
#define memset sched_memset
#define memcmp sched_memcmp
#endif

#include "shim.c"

#ifndef REAL_TSAN
#undef memcpy
#undef memmove
#undef memset
#undef memcmp
#endif

#define CAPB (1 << 16)
static unsigned char ref_out[VERIF_N_OPS][CAPB];
static size_t ref_len[VERIF_N_OPS];

#ifndef REAL_TSAN
static unsigned char tout[3][CAPB];
static size_t tlen[3];

static const char *symname(uintptr_t a, char *bufp, size_t n) {
    Dl_info di;
    if (dladdr((void *)a, &di) && di.dli_sname) { snprintf(bufp, n, "%s+0x%lx", di.dli_sname, (unsigned long)(a - (uintptr_t)di.dli_saddr)); return bufp; }
    snprintf(bufp, n, "0x%lx", (unsigned long)a);
    return bufp;
}

int main(int argc, char **argv) {
    secp256k1_context *ctx;
    int i, j, k, nthreads = 2, first = 1;
    unsigned long programs = 0, visible = 0, dependent_programs = 0, wrong_output = 0, maxcells = 0;
    unsigned char seed[32];
    int only_i = -1, only_j = -1, triples = 0;
    if (argc > 1) nthreads = atoi(argv[1]);
    if (argc > 2) triples = atoi(argv[2]);
    if (argc > 4) { only_i = atoi(argv[3]); only_j = atoi(argv[4]); }
    sched_init();
    ctx = secp256k1_context_create(SECP256K1_CONTEXT_NONE);
    memset(seed, 0x5a, 32);
    if (!secp256k1_context_randomize(ctx, seed)) return 2;
    if (!verif_shared_init(ctx)) { fprintf(stderr, "shared init failed\n"); return 2; }
    for (i = 0; i < VERIF_N_OPS; i++) verif_battery_op(ctx, i, ref_out[i], CAPB, &ref_len[i]);
    printf("{\"mode\":\"acc\",\"ops\":%d,\"dependent\":[", VERIF_N_OPS);
    if (nthreads == 2) {
        for (i = 0; i < VERIF_N_OPS; i++) for (j = 0; j < VERIF_N_OPS; j++) {
            uintptr_t addrs[8]; int kinds[8]; size_t c12, c21; int ops[2];
            if (only_i >= 0 && (i != only_i || j != only_j)) continue;
            ops[0] = i; ops[1] = j;
            sched_reset(); sched_private_clear();
            for (k = 0; k < 2; k++) {
                sched_private_add(tout[k], CAPB, k + 1); sched_private_add(&tlen[k], sizeof(size_t), k + 1);
                sched_set(k + 1);
                verif_battery_op(ctx, ops[k], tout[k], CAPB, &tlen[k]);
                sched_set(0);
            }
            programs++;
            visible += sched_nread(1) + sched_nwrite(1) + sched_nread(2) + sched_nwrite(2);
            if (sched_cells(1) > maxcells) maxcells = sched_cells(1);
            for (k = 0; k < 2; k++) if (tlen[k] != ref_len[ops[k]] || memcmp(tout[k], ref_out[ops[k]], tlen[k]) != 0) wrong_output++;
            c12 = sched_conflicts(1, 2, addrs, kinds, 8);
            c21 = c12 ? 0 : sched_conflicts(2, 1, addrs, kinds, 8);
            if (c12 + c21) {
                char sb[256];
                dependent_programs++;
                if (dependent_programs <= 40) {
                    printf("%s{\"ops\":[%d,%d],\"bytes_cells\":%lu,\"kind\":\"%s\",\"first\":\"%s\"}", first ? "" : ",", i, j, (unsigned long)(c12 + c21),
                           kinds[0] == 2 ? "write/write" : "write/read", symname(addrs[0], sb, sizeof(sb)));
                    first = 0;
                }
            }
        }
    } else {
        /* triples: op i fixed per argument `triples` count: (i, (i*7+3)%N, (i*11+5)%N) for i in range(triples) */
        for (i = 0; i < triples; i++) {
            int ops[3]; uintptr_t addrs[8]; int kinds[8]; size_t c = 0; int a, b;
            ops[0] = i % VERIF_N_OPS; ops[1] = (i * 7 + 3) % VERIF_N_OPS; ops[2] = (i * 11 + 5 + i / VERIF_N_OPS) % VERIF_N_OPS;
            sched_reset(); sched_private_clear();
            for (k = 0; k < 3; k++) {
                sched_private_add(tout[k], CAPB, k + 1); sched_private_add(&tlen[k], sizeof(size_t), k + 1);
                sched_set(k + 1);
                verif_battery_op(ctx, ops[k], tout[k], CAPB, &tlen[k]);
                sched_set(0);
            }
            programs++;
            for (k = 1; k <= 3; k++) visible += sched_nread(k) + sched_nwrite(k);
            for (k = 0; k < 3; k++) if (tlen[k] != ref_len[ops[k]] || memcmp(tout[k], ref_out[ops[k]], tlen[k]) != 0) wrong_output++;
            for (a = 1; a <= 3 && !c; a++) for (b = 1; b <= 3 && !c; b++) if (a != b) c = sched_conflicts(a, b, addrs, kinds, 8);
            if (c) {
                char sb[256];
                dependent_programs++;
                if (dependent_programs <= 40) {
                    printf("%s{\"ops\":[%d,%d,%d],\"bytes_cells\":%lu,\"kind\":\"%s\",\"first\":\"%s\"}", first ? "" : ",", ops[0], ops[1], ops[2], (unsigned long)c,
                           kinds[0] == 2 ? "write/write" : "write/read", symname(addrs[0], sb, sizeof(sb)));
                    first = 0;
                }
            }
        }
    }
    printf("],\"programs\":%lu,\"visible_operations\":%lu,\"dependent_programs\":%lu,\"wrong_outputs\":%lu,\"max_cells\":%lu,\"log_overflow\":%lu}\n",
           programs, visible, dependent_programs, wrong_output, maxcells, sched_overflow);
    return 0;
}
#else
/* ---- free-running pass under the real ThreadSanitizer ---- */
static secp256k1_context *g_ctx;
static pthread_barrier_t bar;
static int g_rounds = 1;
static volatile unsigned long g_wrong = 0;
static void *worker(void *arg) {
    int id = (int)(intptr_t)arg, r, i;
    unsigned char *o = malloc(CAPB);
    size_t l;
    pthread_barrier_wait(&bar);
    for (r = 0; r < g_rounds; r++) for (i = 0; i < VERIF_N_OPS; i++) {
        int op = (i + id * 3) % VERIF_N_OPS;
        verif_battery_op(g_ctx, op, o, CAPB, &l);
        if (l != ref_len[op] || memcmp(o, ref_out[op], l) != 0) __sync_fetch_and_add(&g_wrong, 1);
    }
    free(o);
    return NULL;
}
int main(int argc, char **argv) {
    int n = argc > 1 ? atoi(argv[1]) : 16, i;
    pthread_t th[64];
    unsigned char seed[32];
    if (argc > 2) g_rounds = atoi(argv[2]);
    if (n > 64) n = 64;
    g_ctx = secp256k1_context_create(SECP256K1_CONTEXT_NONE);
    memset(seed, 0x5a, 32);
    if (!secp256k1_context_randomize(g_ctx, seed)) return 2;
    if (!verif_shared_init(g_ctx)) return 2;
    for (i = 0; i < VERIF_N_OPS; i++) verif_battery_op(g_ctx, i, ref_out[i], CAPB, &ref_len[i]);
    pthread_barrier_init(&bar, NULL, n);
    for (i = 0; i < n; i++) pthread_create(&th[i], NULL, worker, (void *)(intptr_t)i);
    for (i = 0; i < n; i++) pthread_join(th[i], NULL);
    printf("{\"mode\":\"tsan\",\"threads\":%d,\"rounds\":%d,\"ops\":%d,\"wrong_outputs\":%lu}\n", n, g_rounds, VERIF_N_OPS, g_wrong);
    return g_wrong ? 3 : 0;
}
#endif
