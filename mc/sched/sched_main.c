/* Schedule-exploration harness for C20 (E4).
 *   mode "acc":  logical threads run the battery ops on ONE shared context under the access monitor
 *                (sched_rt.c); prints one JSON object with programs, visible operations and dependent pairs.
 *   mode "tsan": (built with the real ThreadSanitizer) N OS threads run all ops concurrently, barrier start.
 */
#define _GNU_SOURCE
#include <stdlib.h>
#include <string.h>
#include <stdint.h>
#include <stdio.h>
#include <pthread.h>
#include <dlfcn.h>

#ifndef REAL_TSAN
#define VERIF_SCHED 1
extern int sched_cur;
extern unsigned long sched_overflow;
void sched_init(void); void sched_reset(void); void sched_set(int t);
void sched_private_add(const void *p, size_t n, int owner); void sched_private_del(const void *p); void sched_private_clear(void);
size_t sched_conflicts(int x, int y, uintptr_t *addrs, int *kinds, size_t max);
unsigned long sched_nread(int t); unsigned long sched_nwrite(int t); size_t sched_cells(int t);
void *sched_memcpy(void *d, const void *s, size_t n); void *sched_memmove(void *d, const void *s, size_t n);
void *sched_memset(void *d, int c, size_t n); int sched_memcmp(const void *a, const void *b, size_t n);
extern void (*sched_yield_hook)(void); extern unsigned long sched_points;
void sched_watch_clear(void); void sched_watch_add(uintptr_t cell_addr);
#define memcpy sched_memcpy
#define memmove sched_memmove
#define memset sched_memset
#define memcmp sched_memcmp
#endif

#include "shim.c"

#ifndef REAL_TSAN
#undef memcpy
#undef memmove
#undef memset
#undef memcmp
#endif

#define CAPB (1 << 16)
static unsigned char ref_out[VERIF_N_OPS][CAPB];
static size_t ref_len[VERIF_N_OPS];

#ifndef REAL_TSAN
static unsigned char tout[3][CAPB];
static size_t tlen[3];

static const char *symname(uintptr_t a, char *bufp, size_t n) {
    Dl_info di;
    if (dladdr((void *)a, &di) && di.dli_sname) { snprintf(bufp, n, "%s+0x%lx", di.dli_sname, (unsigned long)(a - (uintptr_t)di.dli_saddr)); return bufp; }
    snprintf(bufp, n, "0x%lx", (unsigned long)a);
    return bufp;
}

/* ---- preemption-bounded schedule exploration for a DEPENDENT pair (ucontext coroutines, deterministic) ---- */
#include <ucontext.h>
#define CO_STACK (1 << 20)
static ucontext_t co_main, co_ctx[2];
static unsigned char *co_stack[2];
static int co_done[2], co_running;
static secp256k1_context *co_libctx;
static int co_ops[2];
static unsigned long co_preempt[3];      /* scheduling-point indices at which the running thread is preempted */
static int co_npre, co_used;

static void co_body(int k) {
    sched_set(k + 1);
    verif_battery_op(co_libctx, co_ops[k], tout[k], CAPB, &tlen[k]);
    sched_set(0);
    co_done[k] = 1;
    swapcontext(&co_ctx[k], &co_main);
}
static void co_entry0(void) { co_body(0); }
static void co_entry1(void) { co_body(1); }
static void co_yield(void) {
    /* called at a scheduling point of the running logical thread */
    if (co_used < co_npre && sched_points - 1 == co_preempt[co_used]) {
        int me = co_running, other = 1 - me;
        co_used++;
        if (!co_done[other]) {
            co_running = other;
            sched_set(0);
            swapcontext(&co_ctx[me], &co_main);       /* back to the driver, which resumes `other` */
            sched_set(me + 1);
        }
    }
}
/* run one schedule: start with thread `firstt`, preempt at the given points; returns number of wrong outputs */
static int co_run(int firstt) {
    int k, wrong = 0;
    sched_reset(); sched_private_clear();
    for (k = 0; k < 2; k++) {
        co_done[k] = 0;
        getcontext(&co_ctx[k]);
        co_ctx[k].uc_stack.ss_sp = co_stack[k]; co_ctx[k].uc_stack.ss_size = CO_STACK; co_ctx[k].uc_link = &co_main;
        makecontext(&co_ctx[k], k == 0 ? co_entry0 : co_entry1, 0);
        sched_private_add(co_stack[k], CO_STACK, k + 1);
        sched_private_add(tout[k], CAPB, k + 1); sched_private_add(&tlen[k], sizeof(size_t), k + 1);
        memset(tout[k], 0, 64); tlen[k] = 0;
    }
    sched_points = 0; co_used = 0; co_running = firstt;
    while (!co_done[0] || !co_done[1]) {
        int r = co_running;
        if (co_done[r]) { r = 1 - r; co_running = r; }
        swapcontext(&co_main, &co_ctx[r]);
        /* returned: either r finished or r was preempted (co_running already points at the other thread) */
        if (co_done[r] && !co_done[1 - r]) co_running = 1 - r;
    }
    for (k = 0; k < 2; k++) if (tlen[k] != ref_len[co_ops[k]] || memcmp(tout[k], ref_out[co_ops[k]], tlen[k]) != 0) wrong++;
    return wrong;
}
/* enumerate every schedule with at most 2 preemptions; prints a JSON object */
static void co_explore(secp256k1_context *ctx, int opi, int opj, uintptr_t *cells, size_t ncells) {
    unsigned long total_points, schedules = 0, bad = 0, a, b;
    unsigned long first_bad[4] = {0, 0, 0, 0};
    int ft, npre;
    size_t c;
    co_libctx = ctx; co_ops[0] = opi; co_ops[1] = opj;
    co_stack[0] = malloc(CO_STACK); co_stack[1] = malloc(CO_STACK);
    sched_watch_clear();
    for (c = 0; c < ncells && c < 64; c++) sched_watch_add(cells[c]);
    sched_yield_hook = co_yield;
    co_npre = 0;
    (void)co_run(0); schedules++;
    total_points = sched_points;
    for (ft = 0; ft < 2; ft++) for (npre = (ft == 0 ? 1 : 0); npre <= 2; npre++) {
        if (npre == 0) { co_npre = 0; schedules++; if (co_run(ft)) { if (!bad) { first_bad[0] = ft; first_bad[1] = 0; } bad++; } continue; }
        for (a = 0; a < total_points && schedules < 300000; a++) {
            if (npre == 1) { co_npre = 1; co_preempt[0] = a; schedules++; if (co_run(ft)) { if (!bad) { first_bad[0] = ft; first_bad[1] = 1; first_bad[2] = a; } bad++; } continue; }
            for (b = a + 1; b < total_points && schedules < 300000; b++) {
                co_npre = 2; co_preempt[0] = a; co_preempt[1] = b; schedules++;
                if (co_run(ft)) { if (!bad) { first_bad[0] = ft; first_bad[1] = 2; first_bad[2] = a; first_bad[3] = b; } bad++; }
            }
        }
    }
    sched_yield_hook = 0;
    printf("{\"mode\":\"explore\",\"ops\":[%d,%d],\"scheduling_points\":%lu,\"schedules\":%lu,\"preemption_bound\":2,\"capped\":%d,\"wrong_output_schedules\":%lu,\"first_bad\":{\"first_thread\":%lu,\"preemptions\":%lu,\"at\":[%lu,%lu]}}\n",
           opi, opj, total_points, schedules, schedules >= 300000, bad, first_bad[0], first_bad[1], first_bad[2], first_bad[3]);
    free(co_stack[0]); free(co_stack[1]);
}

int main(int argc, char **argv) {
    secp256k1_context *ctx;
    int i, j, k, nthreads = 2, first = 1;
    unsigned long programs = 0, visible = 0, dependent_programs = 0, wrong_output = 0, maxcells = 0;
    unsigned char seed[32];
    int only_i = -1, only_j = -1, triples = 0;
    int shard_k = 0, shard_n = 1;      /* SCHED_SHARD=k/n: this process runs the programs whose index is k mod n */
    if (getenv("SCHED_SHARD")) { if (sscanf(getenv("SCHED_SHARD"), "%d/%d", &shard_k, &shard_n) != 2 || shard_n < 1) { shard_k = 0; shard_n = 1; } }
    if (argc > 1) nthreads = atoi(argv[1]);
    if (argc > 2) triples = atoi(argv[2]);
    if (argc > 4) { only_i = atoi(argv[3]); only_j = atoi(argv[4]); }
    if (argc > 5 && strcmp(argv[5], "explore") == 0) {
        uintptr_t addrs[64]; int kinds[64]; size_t c;
        sched_init();
        ctx = secp256k1_context_create(SECP256K1_CONTEXT_NONE);
        memset(seed, 0x5a, 32);
        if (!secp256k1_context_randomize(ctx, seed)) return 2;
        if (!verif_shared_init(ctx)) return 2;
        for (i = 0; i < VERIF_N_OPS; i++) verif_battery_op(ctx, i, ref_out[i], CAPB, &ref_len[i]);
        sched_reset(); sched_private_clear();
        for (k = 0; k < 2; k++) {
            sched_private_add(tout[k], CAPB, k + 1); sched_private_add(&tlen[k], sizeof(size_t), k + 1);
            sched_set(k + 1); verif_battery_op(ctx, k == 0 ? only_i : only_j, tout[k], CAPB, &tlen[k]); sched_set(0);
        }
        c = sched_conflicts(1, 2, addrs, kinds, 64);
        if (!c) c = sched_conflicts(2, 1, addrs, kinds, 64);
        if (!c) { printf("{\"mode\":\"explore\",\"ops\":[%d,%d],\"dependent\":false}\n", only_i, only_j); return 0; }
        co_explore(ctx, only_i, only_j, addrs, c > 64 ? 64 : c);
        return 0;
    }
    sched_init();
    ctx = secp256k1_context_create(SECP256K1_CONTEXT_NONE);
    memset(seed, 0x5a, 32);
    if (!secp256k1_context_randomize(ctx, seed)) return 2;
    if (!verif_shared_init(ctx)) { fprintf(stderr, "shared init failed\n"); return 2; }
    for (i = 0; i < VERIF_N_OPS; i++) verif_battery_op(ctx, i, ref_out[i], CAPB, &ref_len[i]);
    printf("{\"mode\":\"acc\",\"ops\":%d,\"dependent\":[", VERIF_N_OPS);
    if (nthreads == 2) {
        for (i = 0; i < VERIF_N_OPS; i++) for (j = 0; j < VERIF_N_OPS; j++) {
            uintptr_t addrs[8]; int kinds[8]; size_t c12, c21; int ops[2];
            if (only_i >= 0 && (i != only_i || j != only_j)) continue;
            if (only_i < 0 && (i * VERIF_N_OPS + j) % shard_n != shard_k) continue;
            ops[0] = i; ops[1] = j;
            sched_reset(); sched_private_clear();
            for (k = 0; k < 2; k++) {
                sched_private_add(tout[k], CAPB, k + 1); sched_private_add(&tlen[k], sizeof(size_t), k + 1);
                sched_set(k + 1);
                verif_battery_op(ctx, ops[k], tout[k], CAPB, &tlen[k]);
                sched_set(0);
            }
            programs++;
            visible += sched_nread(1) + sched_nwrite(1) + sched_nread(2) + sched_nwrite(2);
            if (sched_cells(1) > maxcells) maxcells = sched_cells(1);
            for (k = 0; k < 2; k++) if (tlen[k] != ref_len[ops[k]] || memcmp(tout[k], ref_out[ops[k]], tlen[k]) != 0) wrong_output++;
            c12 = sched_conflicts(1, 2, addrs, kinds, 8);
            c21 = c12 ? 0 : sched_conflicts(2, 1, addrs, kinds, 8);
            if (c12 + c21) {
                char sb[256];
                dependent_programs++;
                if (dependent_programs <= 40) {
                    printf("%s{\"ops\":[%d,%d],\"bytes_cells\":%lu,\"kind\":\"%s\",\"first\":\"%s\"}", first ? "" : ",", i, j, (unsigned long)(c12 + c21),
                           kinds[0] == 2 ? "write/write" : "write/read", symname(addrs[0], sb, sizeof(sb)));
                    first = 0;
                }
            }
        }
    } else {
        /* triples: op i fixed per argument `triples` count: (i, (i*7+3)%N, (i*11+5)%N) for i in range(triples) */
        for (i = 0; i < triples; i++) {
            int ops[3]; uintptr_t addrs[8]; int kinds[8]; size_t c = 0; int a, b;
            if (i % shard_n != shard_k) continue;
            ops[0] = i % VERIF_N_OPS; ops[1] = (i * 7 + 3) % VERIF_N_OPS; ops[2] = (i * 11 + 5 + i / VERIF_N_OPS) % VERIF_N_OPS;
            sched_reset(); sched_private_clear();
            for (k = 0; k < 3; k++) {
                sched_private_add(tout[k], CAPB, k + 1); sched_private_add(&tlen[k], sizeof(size_t), k + 1);
                sched_set(k + 1);
                verif_battery_op(ctx, ops[k], tout[k], CAPB, &tlen[k]);
                sched_set(0);
            }
            programs++;
            for (k = 1; k <= 3; k++) visible += sched_nread(k) + sched_nwrite(k);
            for (k = 0; k < 3; k++) if (tlen[k] != ref_len[ops[k]] || memcmp(tout[k], ref_out[ops[k]], tlen[k]) != 0) wrong_output++;
            for (a = 1; a <= 3 && !c; a++) for (b = 1; b <= 3 && !c; b++) if (a != b) c = sched_conflicts(a, b, addrs, kinds, 8);
            if (c) {
                char sb[256];
                dependent_programs++;
                if (dependent_programs <= 40) {
                    printf("%s{\"ops\":[%d,%d,%d],\"bytes_cells\":%lu,\"kind\":\"%s\",\"first\":\"%s\"}", first ? "" : ",", ops[0], ops[1], ops[2], (unsigned long)c,
                           kinds[0] == 2 ? "write/write" : "write/read", symname(addrs[0], sb, sizeof(sb)));
                    first = 0;
                }
            }
        }
    }
    printf("],\"programs\":%lu,\"visible_operations\":%lu,\"dependent_programs\":%lu,\"wrong_outputs\":%lu,\"max_cells\":%lu,\"log_overflow\":%lu}\n",
           programs, visible, dependent_programs, wrong_output, maxcells, sched_overflow);
    return 0;
}
#else
/* ---- free-running pass under the real ThreadSanitizer ---- */
static secp256k1_context *g_ctx;
static pthread_barrier_t bar;
static int g_rounds = 1;
static volatile unsigned long g_wrong = 0;
static void *worker(void *arg) {
    int id = (int)(intptr_t)arg, r, i;
    unsigned char *o = malloc(CAPB);
    size_t l;
    pthread_barrier_wait(&bar);
    for (r = 0; r < g_rounds; r++) for (i = 0; i < VERIF_N_OPS; i++) {
        int op = (i + id * 3) % VERIF_N_OPS;
        verif_battery_op(g_ctx, op, o, CAPB, &l);
        if (l != ref_len[op] || memcmp(o, ref_out[op], l) != 0) __sync_fetch_and_add(&g_wrong, 1);
    }
    free(o);
    return NULL;
}
int main(int argc, char **argv) {
    int n = argc > 1 ? atoi(argv[1]) : 16, i;
    pthread_t th[64];
    unsigned char seed[32];
    if (argc > 2) g_rounds = atoi(argv[2]);
    if (n > 64) n = 64;
    g_ctx = secp256k1_context_create(SECP256K1_CONTEXT_NONE);
    memset(seed, 0x5a, 32);
    if (!secp256k1_context_randomize(g_ctx, seed)) return 2;
    if (!verif_shared_init(g_ctx)) return 2;
    for (i = 0; i < VERIF_N_OPS; i++) verif_battery_op(g_ctx, i, ref_out[i], CAPB, &ref_len[i]);
    pthread_barrier_init(&bar, NULL, n);
    for (i = 0; i < n; i++) pthread_create(&th[i], NULL, worker, (void *)(intptr_t)i);
    for (i = 0; i < n; i++) pthread_join(th[i], NULL);
    printf("{\"mode\":\"tsan\",\"threads\":%d,\"rounds\":%d,\"ops\":%d,\"wrong_outputs\":%lu}\n", n, g_rounds, VERIF_N_OPS, g_wrong);
    return g_wrong ? 3 : 0;
}
#endif
