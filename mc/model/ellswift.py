"""ElligatorSwift reference, written from include/secp256k1_ellswift.h (definition of f(u,t)),
doc/ellswift.md (sections 2.1, 3.5, 4.1) and BIP-324; big integers, one formula per line.
Parametrised by curve (y^2 = x^3 + b over GF(p)): the map is a field-level object, the same
code serves the b=2/4/6 curves of the small-group builds.

  xswiftec(u, t)            forward map f(u,t) -> x               (header / doc 2.1)
  swiftec(u, t)             full point, y parity = parity of t     (doc 4.1)
  xswiftec_inv(x, u, c)     partial inverse G_{c,u}(x), c in 0..7  (doc 3.5, BIP-324 xswiftec_inv)
  xelligatorswift / encode / create   the search loop (doc 3.5) driven by the DRBG that
                            src/modules/ellswift/main_impl.h documents for encode and create
  xdh hashes                bip324 and prefix                      (header)
"""
import os, re
from .curve import SECP, b32, i32, sha256, tagged_hash

# "Let C = 0xa2d2ba93507f1df233770c2a797962cc61f6d15da14ecd47d8d27ae1cd5f852, a square root of -3."
C0 = 0x0a2d2ba93507f1df233770c2a797962cc61f6d15da14ecd47d8d27ae1cd5f852
_P = SECP.p
assert C0 * C0 % _P == _P - 3
_INV2 = pow(2, -1, _P)
C1 = (C0 - 1) * _INV2 % _P      # (sqrt(-3)-1)/2
C2 = (-C0 - 1) * _INV2 % _P     # (-sqrt(-3)-1)/2
C3 = (-C0 + 1) * _INV2 % _P     # (-sqrt(-3)+1)/2
C4 = (C0 + 1) * _INV2 % _P      # (sqrt(-3)+1)/2


def valid_x(x, C=SECP):
    """x is the X coordinate of a curve point: x^3 + b is a square"""
    return C.is_square((x * x * x + C.b) % C.p)


def xswiftec_ex(u, t, C=SECP):
    """f(u,t) with a trace: returns (x, which, remaps); which in {'x3','x2','x1'},
    remaps = subset of {'u0','t0','dbl'} (the three exceptional inputs that are remapped)."""
    p = C.p
    u %= p
    t %= p
    remaps = []
    if u == 0:
        u = 1
        remaps.append("u0")
    if t == 0:
        t = 1
        remaps.append("t0")
    if (u * u * u + t * t + C.b) % p == 0:
        t = 2 * t % p
        remaps.append("dbl")
    X = (u * u * u + C.b - t * t) * pow(2 * t, -1, p) % p
    Y = (X + t) * pow(C0 * u, -1, p) % p
    # Y != 0 after the remaps (Y = 0 <=> u^3 + b + t^2 = 0)
    XoverY = X * pow(Y, -1, p) % p
    cands = (("x3", (u + 4 * Y * Y) % p),
             ("x2", (-XoverY - u) * _INV2 % p),
             ("x1", (XoverY - u) * _INV2 % p))
    for name, x in cands:
        if valid_x(x, C):
            return x, name, tuple(remaps)
    raise AssertionError("f(u,t): none of x3, x2, x1 is on the curve (model or theory broken)")


def xswiftec(u, t, C=SECP):
    return xswiftec_ex(u, t, C)[0]


def swiftec(u, t, C=SECP):
    """decode to a full point: y has the parity of t (t as an integer in [0,p), before any remapping)"""
    x = xswiftec(u, t, C)
    return C.lift_x(x, (t % C.p) & 1)


def decode(ell64, C=SECP):
    """secp256k1_ellswift_decode: u, t are the two big-endian halves, taken modulo p"""
    return swiftec(i32(ell64[:32]), i32(ell64[32:]), C)


def xswiftec_inv(x, u, c, C=SECP):
    """G_{c,u}(x) for odd-order a=0 curves (doc/ellswift.md 3.5); None = bottom.
    sqrt is the principal root a^((p+1)/4) (as in BIP-324's reference)."""
    p = C.p
    x %= p
    u %= p
    if u == 0:
        return None
    g_u = (u * u * u + C.b) % p
    if c & 2 == 0:
        if valid_x((-u - x) % p, C):
            return None
        den = (u * u + u * x + x * x) % p
        if den == 0:
            return None  # cannot happen (doc 3.3), kept so that the model never divides by zero
        s = -g_u * pow(den, -1, p) % p
        v = x
    else:
        s = (x - u) % p
        r = C.sqrt(-s * (4 * g_u + 3 * s * u * u) % p)
        if r is None:
            return None
        if (c & 1) and r == 0:
            return None
        if s == 0:
            return None
        v = (r * pow(s, -1, p) - u) * _INV2 % p
    w = C.sqrt(s)
    if w is None:
        return None
    if c & 5 == 0:
        return w * (C1 * u - v) % p
    if c & 5 == 1:
        return w * (C4 * u + v) % p
    if c & 5 == 4:
        return w * (C3 * u + v) % p
    return w * (C2 * u - v) % p


# ---------------------------------------------------------------- encoding search
def _prng(prefix, cnt):
    return sha256(prefix + cnt.to_bytes(4, "little"))


def xelligatorswift_ex(x, prefix, C=SECP):
    """ElligatorSwift(x) loop of doc 3.5 ("pick u, pick c, t = G_{c,u}(x), restart on bottom") with the
    deterministic randomness the library documents: SHA256(prefix || cnt_le32); cnt 0 (and every 65th)
    fills a pool of 64 three-bit branch values (low nibble of the last byte is used last), the counters
    in between give u.  Returns (u32, t, c, iterations)."""
    cnt = 0
    left = 0
    pool = b""
    it = 0
    while True:
        if left == 0:
            pool = _prng(prefix, cnt)
            cnt += 1
            left = 64
        left -= 1
        c = (pool[left >> 1] >> ((left & 1) << 2)) & 7
        u32 = _prng(prefix, cnt)
        cnt += 1
        it += 1
        t = xswiftec_inv(x, i32(u32), c, C)
        if t is not None:
            return u32, t, c, it


def _fix_parity(t, y, C):
    """doc 4.1: negate t if its parity differs from y's"""
    if (t & 1) != (y & 1):
        t = C.p - t
    return t


class Enc(tuple):
    """(ell64, c, iterations, negated): encoding plus how the search found it"""
    ell64 = property(lambda s: s[0])
    c = property(lambda s: s[1])
    iterations = property(lambda s: s[2])
    negated = property(lambda s: s[3])


def encode_ex(Pt, rnd32, C=SECP):
    """secp256k1_ellswift_encode: DRBG = H_tag("secp256k1_ellswift_encode", ser33(P) || 0^31 || rnd32 || cnt)"""
    th = sha256(b"secp256k1_ellswift_encode")
    prefix = th + th + C.ser_compressed(Pt) + b"\x00" * 31 + rnd32
    u32, t, c, it = xelligatorswift_ex(Pt[0], prefix, C)
    t2 = _fix_parity(t, Pt[1], C)
    return Enc((u32 + b32(t2), c, it, t2 != t))


def encode(Pt, rnd32, C=SECP):
    return encode_ex(Pt, rnd32, C)[0]


def create_ex(seckey32, auxrnd32=None, C=SECP):
    """secp256k1_ellswift_create: None for an invalid key; DRBG = H_tag("secp256k1_ellswift_create",
    seckey32 || 0^32 [|| auxrnd32] || cnt)"""
    d = i32(seckey32)
    if not (1 <= d < C.n):
        return None
    Pt = C.mulG(d) if C is SECP else C.mul(d, C.G)
    th = sha256(b"secp256k1_ellswift_create")
    prefix = th + th + seckey32 + b"\x00" * 32 + (auxrnd32 or b"")
    u32, t, c, it = xelligatorswift_ex(Pt[0], prefix, C)
    t2 = _fix_parity(t, Pt[1], C)
    return Enc((u32 + b32(t2), c, it, t2 != t))


# ---------------------------------------------------------------- x-only ECDH
def hash_bip324(x32, ell_a64, ell_b64):
    return tagged_hash(b"bip324_ellswift_xonly_ecdh", ell_a64 + ell_b64 + x32)


def hash_prefix(x32, ell_a64, ell_b64, prefix64):
    return sha256(prefix64 + ell_a64 + ell_b64 + x32)


def xdh_x(seckey32, ell_a64, ell_b64, party, C=SECP):
    """shared X coordinate (32 bytes) of seckey * decode(their encoding), None for an invalid secret.
    party = 0: we are A, theirs is ell_b64; party != 0: we are B, theirs is ell_a64."""
    d = i32(seckey32)
    if not (1 <= d < C.n):
        return None
    theirs = ell_a64 if party else ell_b64
    x = xswiftec(i32(theirs[:32]), i32(theirs[32:]), C)
    Pt = C.lift_x(x)
    return b32(C.mul(d, Pt)[0])


# ---------------------------------------------------------------- self-test against shipped vectors
def _fe_consts(s):
    return [int("".join("%08x" % int(w, 16) for w in m.split(",")), 16)
            for m in re.findall(r"SECP256K1_FE_CONST\(([^)]*)\)", s)]


def _byte_arrays(s):
    return [bytes(int(b, 16) for b in m.split(",")) for m in re.findall(r"\{((?:\s*0x[0-9a-fA-F]{2}\s*,?)+)\}", s)]


def _array_body(text, name):
    i = text.index(name + "[] = {")
    j = text.index("\n};", i)
    return [ln for ln in text[i:j].split("\n")[1:] if ln.strip().startswith("{")]


def selftest(repo):
    """BIP-324 vectors shipped in src/modules/ellswift/tests_impl.h through the model only.
    Returns (n_inv, n_decode, n_xdh)."""
    text = open(os.path.join(repo, "src", "modules", "ellswift", "tests_impl.h")).read()
    n_inv = 0
    for ln in _array_body(text, "ellswift_xswiftec_inv_tests"):
        bitmap = int(re.match(r"\s*\{(0x[0-9a-fA-F]+),", ln).group(1), 16)
        fes = _fe_consts(ln)
        assert len(fes) == 10
        u, x, encs = fes[0], fes[1], fes[2:]
        for c in range(8):
            t = xswiftec_inv(x, u, c)
            if (t is not None) != bool((bitmap >> c) & 1):
                raise AssertionError("xswiftec_inv vector: success flag differs (u=%x x=%x c=%d)" % (u, x, c))
            if t is not None:
                if t != encs[c]:
                    raise AssertionError("xswiftec_inv vector: t differs (u=%x x=%x c=%d)" % (u, x, c))
                if xswiftec(u, t) != x:
                    raise AssertionError("xswiftec_inv vector: t does not map back")
        n_inv += 1
    n_dec = 0
    for ln in _array_body(text, "ellswift_decode_tests"):
        enc = _byte_arrays(ln)[0]
        x = _fe_consts(ln)[0]
        odd = int(re.search(r",\s*([01])\s*\}\s*,?\s*$", ln).group(1))
        assert len(enc) == 64
        Pt = decode(enc)
        if Pt is None or Pt[0] != x or (Pt[1] & 1) != odd:
            raise AssertionError("decode vector differs for " + enc.hex())
        n_dec += 1
    n_xdh = 0
    for ln in _array_body(text, "ellswift_xdh_tests_bip324"):
        arrs = _byte_arrays(ln)
        assert [len(a) for a in arrs] == [32, 64, 64, 32]
        priv, ours, theirs, secret = arrs
        initiating = int(re.search(r"\},\s*([01])\s*,\s*\{", ln).group(1))
        party = 0 if initiating else 1
        ell_a, ell_b = (theirs, ours) if party else (ours, theirs)
        x32 = xdh_x(priv, ell_a, ell_b, party)
        if x32 is None or hash_bip324(x32, ell_a, ell_b) != secret:
            raise AssertionError("xdh BIP-324 vector differs")
        # 'ours' must be an x-only encoding of priv*G (BIP-324 encodes X only: the parity of t is free)
        if decode(ours)[0] != SECP.mulG(i32(priv))[0]:
            raise AssertionError("xdh vector: ellswift_ours does not decode to the X of priv*G")
        n_xdh += 1
    if n_inv < 20 or n_dec < 60 or n_xdh < 5:
        raise AssertionError("ellswift vectors not found (%d, %d, %d)" % (n_inv, n_dec, n_xdh))
    return n_inv, n_dec, n_xdh
