"""ECDH reference (include/secp256k1_ecdh.h): shared point = secret * PeerPoint by the group law,
output = hash of its affine coordinates.  Parametrised by curve (the small test groups use the
same rule with n = group order: a secret encoding is valid iff 1 <= int(secret) < n)."""
import json, os
from .curve import SECP, b32, i32, sha256


def secret_valid(seckey32, C=SECP):
    s = i32(seckey32)
    return 1 <= s < C.n


def shared_point(seckey32, Q, C=SECP):
    """secret*Q as an affine point, or None when the secret is 0 or >= n (the call must fail)"""
    if not secret_valid(seckey32, C):
        return None
    R = C.mul(i32(seckey32), Q)
    assert R is not None  # prime order: k*Q != infinity for 1 <= k < n
    return R


def hash_sha256(x32, y32):
    """secp256k1_ecdh_hash_function_sha256 / _default: SHA256(compressed encoding of the shared point)"""
    return sha256(bytes([0x02 | (y32[31] & 1)]) + x32)


def ecdh(seckey32, Q, C=SECP):
    """default-hash ECDH: 32 bytes, or None if the call must return 0"""
    R = shared_point(seckey32, Q, C)
    if R is None:
        return None
    return hash_sha256(b32(R[0]), b32(R[1]))


# ---------------------------------------------------------------- self-test against shipped vectors
_SPKI_UNCOMP = bytes.fromhex("3056301006072a8648ce3d020106052b8104000a034200")
_SPKI_COMP = bytes.fromhex("3036301006072a8648ce3d020106052b8104000a032200")


def selftest(repo):
    """Wycheproof ecdh_secp256k1 vectors through the model only.  Returns number of vectors used.
    Only vectors whose SubjectPublicKeyInfo has the plain named-curve header are usable (the model has
    no ASN.1 parser); for those: on-curve key -> x coordinate must equal 'shared'; invalid -> rejected."""
    d = json.load(open(os.path.join(repo, "src", "wycheproof", "ecdh_secp256k1_test.json")))
    used = 0
    for g in d["testGroups"]:
        for t in g["tests"]:
            pub = bytes.fromhex(t["public"])
            if pub.startswith(_SPKI_UNCOMP) and len(pub) == len(_SPKI_UNCOMP) + 65:
                enc = pub[len(_SPKI_UNCOMP):]
            elif pub.startswith(_SPKI_COMP) and len(pub) == len(_SPKI_COMP) + 33:
                enc = pub[len(_SPKI_COMP):]
            else:
                continue
            Q = SECP.parse_pubkey(enc)
            if t["result"] == "invalid":
                if Q is not None and t["shared"]:
                    # an 'invalid' vector with a well-formed header and an on-curve point would contradict the model
                    raise AssertionError("wycheproof tcId %d: model accepts an invalid key" % t["tcId"])
                if Q is None:
                    used += 1
                continue
            if Q is None and t["result"] == "acceptable":
                continue  # e.g. InvalidAsn: a mangled encoding that an implementation may reject or repair
            if Q is None:
                raise AssertionError("wycheproof tcId %d: model rejects a %s key" % (t["tcId"], t["result"]))
            k = int(t["private"], 16)
            R = shared_point(b32(k), Q)
            if R is None or b32(R[0]).hex() != t["shared"]:
                raise AssertionError("wycheproof tcId %d: model shared x differs" % t["tcId"])
            used += 1
    if used < 300:
        raise AssertionError("too few wycheproof vectors usable (%d)" % used)
    # group-law sanity: fast multiplication equals textbook double-and-add
    for k in (1, 2, 3, 15, 16, 17, SECP.n - 1, (SECP.n + 1) // 2, 2**255 % SECP.n):
        assert SECP.mul(k, SECP.G) == SECP.mul_slow(k, SECP.G) == SECP.mulG(k)
    return used
