"""Whitelist (key delegation) ring signature model - src/modules/whitelist/whitelist.md.

Participant j has an online key P_j and an offline key Q_j.  To whitelist W the ring key is
    L_j = P_j + H(Q_j + W) * (Q_j + W),     H(T) = toscalar(SHA256(ser33(T)))
(when Q_j + W is the point at infinity the product is the point at infinity for any scalar, so
L_j = P_j), the message is
    msg = SHA256(ser33(W) || ser33(Q_0) || ser33(P_0) || ser33(Q_1) || ser33(P_1) || ...)
and the proof is a one-ring Borromean signature over L_0..L_{k-1}:  count byte || e0 || s_0..s_{k-1}.
The signer of index i knows  x = p_i + H((q_i+w)G) * (q_i + w)  ("online" secret p_i, "summed"
secret q_i + w).  Nonce and forged scalars are RFC 6979 outputs keyed with x (layout as in
main_impl.h) so that honest signatures can be compared byte for byte."""
from .curve import SECP, b32, i32
from . import borromean as BOR
from .borromean import sha256, sha256_new

MAX_KEYS = 255


def hash_point(T, C=SECP):
    """H(T) in [1, n-1]; None for the (never observed) hash value 0 or >= n"""
    t = i32(sha256(C.ser_compressed(T)))
    if t == 0 or t >= C.n:
        return None
    return t


def ring_key(P_on, Q_off, W, C=SECP):
    T = C.add(Q_off, W)
    if T is None:
        return P_on
    t = hash_point(T, C)
    if t is None:
        raise ArithmeticError("SHA256 of a point serialisation >= n: not modelled")
    return C.add(P_on, C.mul(t, T))


def ring_keys(online, offline, W, C=SECP):
    return [ring_key(p, q, W, C) for p, q in zip(online, offline)]


def message(online, offline, W, C=SECP):
    h = sha256_new(C.ser_compressed(W))
    for p, q in zip(online, offline):
        h.update(C.ser_compressed(q))
        h.update(C.ser_compressed(p))
    return h.digest()


def tweaked_secret(online_sec32, summed_sec32, C=SECP):
    """x = online + H(summed*G)*summed, or None if either secret is 0 or >= n"""
    so, ss = i32(online_sec32), i32(summed_sec32)
    if not (1 <= so < C.n) or not (1 <= ss < C.n):
        return None
    t = hash_point(C.mulG(ss), C)
    if t is None:
        return None
    return (so + ss * t) % C.n


# ---------------------------------------------------------------- RFC 6979 generator
def _hmac(key, msg):
    """HMAC-SHA256 (RFC 2104), key <= 64 bytes"""
    k = bytes(key).ljust(64, b"\0")
    inner = sha256(bytes(b ^ 0x36 for b in k) + msg)
    return sha256(bytes(b ^ 0x5C for b in k) + inner)


def nonce_rfc6979(key32, msg32, counter=0, C=SECP):
    """RFC 6979 section 3.2 HMAC-DRBG seeded with key32 || (msg32 mod n), output number `counter`
    (no extra data, no algorithm tag) - what secp256k1_nonce_function_default computes"""
    seed = bytes(key32) + b32(i32(msg32) % C.n)
    v = b"\x01" * 32
    k = b"\x00" * 32
    k = _hmac(k, v + b"\x00" + seed)
    v = _hmac(k, v)
    k = _hmac(k, v + b"\x01" + seed)
    v = _hmac(k, v)
    for i in range(counter + 1):
        if i:
            k = _hmac(k, v + b"\x00")
            v = _hmac(k, v)
        v = _hmac(k, v)
    return v


# ---------------------------------------------------------------- codec
def parse(data):
    """-> (n_keys, e0, [32-byte scalar strings]) or None; accepted iff len == 1 + 32*(1+count), count <= 255"""
    data = bytes(data)
    if len(data) == 0:
        return None
    k = data[0]
    if k > MAX_KEYS or len(data) != 1 + 32 * (k + 1):
        return None
    return k, data[1:33], [data[33 + 32 * i:65 + 32 * i] for i in range(k)]


def serialize(k, e0, sbytes):
    assert 0 <= k <= MAX_KEYS and len(sbytes) == k
    return bytes([k]) + bytes(e0) + b"".join(bytes(x) for x in sbytes)


def encode(e0, s_ints):
    """signature bytes from e0 and integer scalars (each must fit 32 bytes; values >= n allowed on purpose)"""
    return serialize(len(s_ints), e0, [b32(v) for v in s_ints])


# ---------------------------------------------------------------- verify / sign
def verify(sig, online, offline, W, C=SECP, keys=None, msg=None):
    """sig: serialized bytes.  online/offline: lists of points presented to the verifier."""
    p = parse(sig)
    if p is None:
        return False
    k, e0, sb = p
    if k == 0 or k != len(online) or k != len(offline):
        return False
    s = [i32(x) for x in sb]
    if any(not (1 <= v < C.n) for v in s):
        return False
    if keys is None:
        keys = ring_keys(online, offline, W, C)
    if msg is None:
        msg = message(online, offline, W, C)
    return BOR.verify(e0, s, keys, [k], msg, C)


def derive_nonces(x, msg32, k, C=SECP):
    """the library's deterministic nonce and forged scalars: (nonce int, [s_0..s_{k-1}] ints)"""
    key32 = b32(x)
    count = 0
    while True:
        non = i32(nonce_rfc6979(key32, msg32, count, C))
        if non == 0 or non >= C.n:
            count += 1
            continue
        out = []
        for i in range(k):
            mm = bytearray(msg32)
            mm[0] ^= (i + 1) & 0xFF
            mm[1] ^= ((i + 1) >> 8) & 0xFF
            v = i32(nonce_rfc6979(key32, bytes(mm), count, C))
            if v == 0 or v >= C.n:
                out = None
                break
            out.append(v)
        if out is None:
            count += 1
            continue
        return non, out


def sign(online, offline, W, online_sec32, summed_sec32, index, C=SECP, keys=None, msg=None):
    """honest signer with the library's derivation; serialized signature or None (refused)"""
    k = len(online)
    if not (1 <= k <= MAX_KEYS) or k != len(offline) or not (0 <= index < k):
        return None
    x = tweaked_secret(online_sec32, summed_sec32, C)
    if x is None:
        return None
    if keys is None:
        keys = ring_keys(online, offline, W, C)
    if msg is None:
        msg = message(online, offline, W, C)
    non, s = derive_nonces(x, msg, k, C)
    r = BOR.sign(keys, [k], [index], [x], [non], s, msg, C)
    if r is None:
        return None
    return encode(r[0], r[1])


def sign_chosen(online, offline, W, x, index, nonce, forged, C=SECP, keys=None, msg=None):
    """prover with caller-chosen nonce and forged scalars (list of k ints; entry `index` ignored)"""
    k = len(online)
    if keys is None:
        keys = ring_keys(online, offline, W, C)
    if msg is None:
        msg = message(online, offline, W, C)
    r = BOR.sign(keys, [k], [index], [x], [nonce], list(forged), msg, C)
    if r is None:
        return None
    return r  # (e0, [s ints])


def empty_list_forgery(W, C=SECP):
    """finding F1: 00 || SHA256(SHA256(ser33(W))) - computable from public data alone"""
    return b"\x00" + sha256(sha256(C.ser_compressed(W)))


def selftest():
    """the local RFC 6979 generator equals the ECDSA model's (which is tied to the library by C01)"""
    from . import ecdsa as E
    for key, msg, cnt in ((b32(1), b32(2), 0), (b32(SECP.n - 1), b"\xff" * 32, 0), (b32(12345), b32(SECP.n + 5), 3)):
        assert nonce_rfc6979(key, msg, cnt) == E.nonce_rfc6979(key, msg, None, None, cnt)
    return True
