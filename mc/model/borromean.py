"""Borromean ring signature (Maxwell/Poelstra) reference model.

Written from the verification equation documented in
src/modules/rangeproof/borromean_impl.h and the algebra of ring signatures:

    m        message bytes (callers commit to the public keys in it)
    ring i, position j, public key P_ij, scalar s_ij, flat order (ring after ring)
    e_i0   = toscalar(SHA256(e0      || m || be32(i) || be32(0)))
    R_ij   = e_ij * P_ij + s_ij * G
    e_ij+1 = toscalar(SHA256(ser33(R_ij) || m || be32(i) || be32(j+1)))
    valid  <=>  e0 == SHA256(ser33(R_0,last) || ser33(R_1,last) || ... || m)

toscalar rejects a hash value >= n or == 0 (the signature is then invalid / cannot be
produced); scalars s_ij must lie in [1, n-1]; public keys and every R must be finite.

API (ints for scalars, (x, y) tuples / None = infinity for points, bytes for hashes):

    sha256(data) -> 32 bytes; sha256_new([data]) -> incremental object (fast also under ASan preload)
    chal(prefix, m, ring, idx)                         -> 32 bytes
    verify(e0, s, pubs, rsizes, m, C=SECP)             -> bool
    verify_ex(e0, s, pubs, rsizes, m, C=SECP)          -> (bool, [challenge ints so far])
    sign(pubs, rsizes, secidx, sec, k, s, m, C=SECP)   -> (e0, [s...]) | None

`sign` is a prover in which the caller chooses every free value: the nonce k[i] of each
ring and the scalars s at every position that is not the signer's (entries at signer
positions are ignored and replaced by k - e*sec).  Small values (1, 2, 3) are fine."""
import hashlib
from .curve import SECP, b32, i32

# SHA-256 constructor.  CPython's built-in C implementation is used when present: hashlib's OpenSSL
# path costs ~200 us per call once the ASan runtime is preloaded (needed for the sanitized shim builds).
try:
    from _sha256 import sha256 as sha256_new
except ImportError:  # pragma: no cover
    try:
        from _sha2 import sha256 as sha256_new
    except ImportError:
        sha256_new = hashlib.sha256
assert sha256_new(b"abc").hexdigest() == "ba7816bf8f01cfea414140de5dae2223b00361a396177a9cb410ff61f20015ad"


def sha256(data):
    return sha256_new(bytes(data)).digest()


def be32(v):
    return int(v & 0xFFFFFFFF).to_bytes(4, "big")


def chal(prefix, m, ring, idx):
    """SHA256(prefix || m || be32(ring) || be32(idx)); prefix is e0 (32 bytes) or ser33(R)"""
    return sha256(bytes(prefix) + bytes(m) + be32(ring) + be32(idx))


def _toscalar(h, n):
    """hash bytes -> challenge in [1, n-1], or None (value >= n or zero: unusable)"""
    e = i32(h)
    if e >= n or e == 0:
        return None
    return e


def _step(C, e, Pt, s):
    """R = e*P + s*G (None if infinite)"""
    return C.add(C.mul(e, Pt), C.mulG(s))


def verify_ex(e0, s, pubs, rsizes, m, C=SECP):
    """Returns (ok, evalues): evalues[c] is the challenge used at flat position c for every
    position reached before the verdict (range-proof rewinding reads them)."""
    n = C.n
    e0 = bytes(e0)
    m = bytes(m)
    total = sum(rsizes)
    if len(e0) != 32 or len(s) != total or len(pubs) != total:
        raise ValueError("borromean.verify: inconsistent argument sizes")
    ev = []
    acc = sha256_new()
    c = 0
    for i, rs in enumerate(rsizes):
        e = _toscalar(chal(e0, m, i, 0), n)
        for j in range(rs):
            sc = s[c]
            if e is None or not (1 <= sc < n) or pubs[c] is None:
                return False, ev
            ev.append(e)
            R = _step(C, e, pubs[c], sc)
            if R is None:
                return False, ev
            ser = C.ser_compressed(R)
            if j != rs - 1:
                e = _toscalar(chal(ser, m, i, j + 1), n)
            else:
                acc.update(ser)
            c += 1
    acc.update(m)
    return acc.digest() == e0, ev


def verify(e0, s, pubs, rsizes, m, C=SECP):
    return verify_ex(e0, s, pubs, rsizes, m, C)[0]


def sign(pubs, rsizes, secidx, sec, k, s, m, C=SECP):
    """Prover.  pubs: flat list of points; rsizes[i] ring sizes; secidx[i] the signer's position in
    ring i; sec[i] its secret (int, used as given mod n); k[i] the ring's nonce; s: flat list of ints
    whose entries at non-signer positions are the caller-chosen forged scalars.
    Returns (e0 bytes, flat list of scalars) or None when no signature results (a nonce of 0, an
    unusable challenge, an infinite intermediate point, or a signer scalar of 0)."""
    n = C.n
    m = bytes(m)
    total = sum(rsizes)
    if len(s) != total or len(pubs) != total or not (len(rsizes) == len(secidx) == len(sec) == len(k)):
        raise ValueError("borromean.sign: inconsistent argument sizes")
    out = [int(v) % n for v in s]
    acc = sha256_new()
    base = 0
    for i, rs in enumerate(rsizes):
        if not (0 <= secidx[i] < rs):
            raise ValueError("borromean.sign: signer position outside its ring")
        R = C.mulG(k[i] % n)
        if R is None:
            return None
        ser = C.ser_compressed(R)
        for j in range(secidx[i] + 1, rs):
            e = _toscalar(chal(ser, m, i, j), n)
            if e is None:
                return None
            R = _step(C, e, pubs[base + j], out[base + j])
            if R is None:
                return None
            ser = C.ser_compressed(R)
        acc.update(ser)
        base += rs
    acc.update(m)
    e0 = acc.digest()
    base = 0
    for i, rs in enumerate(rsizes):
        e = _toscalar(chal(e0, m, i, 0), n)
        if e is None:
            return None
        for j in range(secidx[i]):
            R = _step(C, e, pubs[base + j], out[base + j])
            if R is None:
                return None
            e = _toscalar(chal(C.ser_compressed(R), m, i, j + 1), n)
            if e is None:
                return None
        sj = (k[i] - e * sec[i]) % n
        if sj == 0:
            return None
        out[base + secidx[i]] = sj
        base += rs
    return e0, out


def selftest(C=SECP):
    """algebraic self-consistency: prover output verifies; any single change does not"""
    G = C.G
    keys = [5, 7, 11, 13, 17]
    pubs = [C.mulG(x) for x in keys]
    rsizes = [2, 3]
    m = b"borromean-selftest" + bytes(14)
    for si in ((0, 0), (1, 2), (0, 1), (1, 0)):
        sec = [keys[si[0]], keys[2 + si[1]]]
        r = sign(pubs, rsizes, list(si), sec, [3, 2], [1, 2, 3, 1, 2], m, C)
        assert r is not None
        e0, s = r
        assert verify(e0, s, pubs, rsizes, m, C)
        for c in range(5):
            t = list(s)
            t[c] = (t[c] + 1) % C.n
            assert not verify(e0, t, pubs, rsizes, m, C)
            t[c] = s[c] + C.n
            assert not verify(e0, t, pubs, rsizes, m, C)
            t[c] = 0
            assert not verify(e0, t, pubs, rsizes, m, C)
        assert not verify(e0, s, pubs, rsizes, m + b"x", C)
        p2 = list(pubs)
        p2[0], p2[1] = p2[1], p2[0]
        assert not verify(e0, s, p2, rsizes, m, C)
        p2 = list(pubs)
        p2[4] = None
        assert not verify(e0, s, p2, rsizes, m, C)
    return True
