"""ECDSA adaptor signatures (Fournier one-time VES / DLC-spec "ECDSA adaptor") reference model.

Written from the specification (dlcspecs ECDSAAdaptor + the module header), big integers,
parametrised by curve so that the same code serves secp256k1 and the small test groups.

  adaptor signature  = ser33(R) || ser33(R') || s' || e || s           (162 bytes)
  R' = k*G, R = k*Y, s' = k^-1 (m + r*x) with r = R.x mod n,
  (e, s) = DLEQ proof that log_G R' == log_Y R:
           R1 = k2*G, R2 = k2*Y, e = H_DLEQ(R' || Y || R || R1 || R2) mod n, s = k2 + e*k
  verify : DLEQ holds and R' == s'^-1 (m*G + r*X)
  decrypt: s = s' / y, normalised to low-S, signature (r, s)
  recover: y = s' / s, sign fixed so that y*G == Y

Decoder rules (as shipped): R, R' strict 33-byte points; 0 < s' < n; s < n;
e is taken mod n (see DESIGN section 5 "Not findings"); r == 0 is rejected.
"""
from .curve import SECP, b32, i32, sha256, tagged_hash

ALGO_ADAPTOR = b"ECDSAadaptor/non"
ALGO_DLEQ = b"DLEQ"
TAG_AUX = b"ECDSAadaptor/aux"


def xor(a, b):
    return bytes(x ^ y for x, y in zip(a, b))


# ------------------------------------------------------------------ points
def ser33(C, A):
    return C.ser_compressed(A)


def parse33(C, s):
    """strict compressed point; in the small groups the library also insists on the subgroup"""
    if len(s) != 33 or s[0] not in (2, 3):
        return None
    A = C.parse_pubkey(bytes(s))
    if A is None:
        return None
    if C.name != "secp256k1" and C.mul(C.n, A) is not None:
        return None
    return A


# ------------------------------------------------------------------ nonce derivation
def nonce_default(msg32, key32, pk33, algo, aux=None):
    """The module's default nonce function (BIP-340 style): tagged_hash(algo, [masked]key || pk33 || msg32);
    with aux data the key is masked with tagged_hash("ECDSAadaptor/aux", aux).  32 bytes, or None (algo missing)."""
    if algo is None:
        return None
    key = key32
    if aux is not None:
        key = xor(key32, tagged_hash(TAG_AUX, aux))
    return tagged_hash(algo, key + pk33 + msg32)


def default_noncefn(aux=None):
    def fn(msg32, key32, pk33, algo):
        return nonce_default(msg32, key32, pk33, algo, aux)
    return fn


# ------------------------------------------------------------------ DLEQ
def dleq_challenge(C, P1, Y, P2, R1, R2):
    h = tagged_hash(ALGO_DLEQ, ser33(C, P1) + ser33(C, Y) + ser33(C, P2) + ser33(C, R1) + ser33(C, R2))
    return i32(h) % C.n


def dleq_nonce_msg(C, P1, P2):
    return sha256(ser33(C, P1) + ser33(C, P2))


def dleq_prove(C, k, Y, P1, P2, noncefn, trace=None):
    """proof that P1 = k*G and P2 = k*Y.  Returns (e, s) or None when the nonce source fails / gives 0 mod n."""
    args = (dleq_nonce_msg(C, P1, P2), b32(k), ser33(C, Y), ALGO_DLEQ)
    if trace is not None:
        trace.append(args)
    nb = noncefn(*args)
    if nb is None:
        return None
    k2 = i32(nb) % C.n
    if k2 == 0:
        return None
    R1 = C.mulG(k2)
    R2 = C.mul(k2, Y)
    e = dleq_challenge(C, P1, Y, P2, R1, R2)
    return e, (k2 + e * k) % C.n


def dleq_verify(C, e, s, P1, Y, P2):
    """e, s already reduced integers in [0, n)"""
    n = C.n
    R1 = C.add(C.mulG(s), C.mul((n - e) % n, P1))
    R2 = C.add(C.mul(s, Y), C.mul((n - e) % n, P2))
    if R1 is None or R2 is None:
        return False
    return dleq_challenge(C, P1, Y, P2, R1, R2) == e


# ------------------------------------------------------------------ codec
def encode(C, R, Rp, sp, e, s):
    return ser33(C, R) + ser33(C, Rp) + b32(sp) + b32(e) + b32(s)


def decode_r_sp(C, a):
    """the part decrypt / recover need: r from the x bytes of R (no point check), s'.  (r, s') or None"""
    r = i32(a[1:33]) % C.n
    if r == 0:
        return None
    sp = i32(a[66:98])
    if not (0 < sp < C.n):
        return None
    return r, sp


def decode_points(C, a):
    """R, r, R' of the first 66 bytes -> ((R, r, R'), "ok") or (None, reason)"""
    R = parse33(C, a[0:33])
    if R is None:
        return None, "bad-R"
    r = R[0] % C.n
    if r == 0:
        return None, "r=0"
    Rp = parse33(C, a[33:66])
    if Rp is None:
        return None, "bad-R'"
    return (R, r, Rp), "ok"


def decode_scalars(C, a):
    """s', e, s of bytes 66..162 -> ((s', e, s), "ok") or (None, reason)"""
    sp = i32(a[66:98])
    if not (0 < sp < C.n):
        return None, "s'-range"
    e = i32(a[98:130]) % C.n
    s = i32(a[130:162])
    if s >= C.n:
        return None, "s-range"
    return (sp, e, s), "ok"


def decode(C, a):
    """full decoder -> ((R, r, R', s', e, s), "ok") or (None, reason)"""
    a = bytes(a)
    assert len(a) == 162
    pt, why = decode_points(C, a)
    if pt is None:
        return None, why
    sc, why = decode_scalars(C, a)
    if sc is None:
        return None, why
    return pt + sc, "ok"


# ------------------------------------------------------------------ operations
def encrypt(x32, Y, msg32, noncefn, C=SECP, trace=None):
    """Adaptor-sign msg32 under secret key x32 for encryption key Y.
    noncefn(msg32, key32, pk33, algo) -> 32 bytes or None.  Returns the 162 bytes or None (failure)."""
    n = C.n
    args = (bytes(msg32), bytes(x32), ser33(C, Y), ALGO_ADAPTOR)
    if trace is not None:
        trace.append(args)
    nb = noncefn(*args)
    if nb is None:
        return None
    k = i32(nb) % n
    if k == 0:
        return None
    R = C.mul(k, Y)
    Rp = C.mulG(k)
    proof = dleq_prove(C, k, Y, Rp, R, noncefn, trace)
    if proof is None:
        return None
    x = i32(x32)
    if not (0 < x < n):
        return None
    r = R[0] % n
    if r == 0:
        return None
    m = i32(msg32) % n
    sp = pow(k, -1, n) * (m + r * x) % n
    if sp == 0:
        return None
    return encode(C, R, Rp, sp, proof[0], proof[1])


def verify_decoded(d, X, msg32, Y, C=SECP, memo=None):
    """verification of already decoded fields d = (R, r, R', s', e, s)"""
    n = C.n
    R, r, Rp, sp, e, s = d
    key = (R, Rp, Y, e, s)
    if memo is not None and key in memo:
        okd = memo[key]
    else:
        okd = dleq_verify(C, e, s, Rp, Y, R)
        if memo is not None:
            memo[key] = okd
    if not okd:
        return False, "dleq"
    m = i32(msg32) % n
    si = pow(sp, -1, n)
    D = C.add(C.mulG(m * si % n), C.mul(r * si % n, X))
    if D is None:
        return False, "eq-inf"
    if D != Rp:
        return False, "eq"
    return True, "accept"


def verify(a, X, msg32, Y, C=SECP, memo=None):
    """(accepted, reason).  memo: optional dict caching DLEQ verdicts (pure function of its key)."""
    d, why = decode(C, a)
    if d is None:
        return False, why
    return verify_decoded(d, X, msg32, Y, C, memo)


def decrypt(a, deckey32, C=SECP):
    """(r, s) low-S, or None"""
    n = C.n
    y = i32(deckey32)
    if not (0 < y < n):
        return None
    d = decode_r_sp(C, bytes(a))
    if d is None:
        return None
    r, sp = d
    s = sp * pow(y, -1, n) % n
    if s > n // 2:
        s = n - s
    return r, s


def recover(r, s, a, Y, C=SECP):
    """decryption key (int) or None.  (r, s) is the completed ECDSA signature with 0 <= r, s < n."""
    n = C.n
    d = decode_r_sp(C, bytes(a))
    if d is None:
        return None
    ar, sp = d
    if r != ar or s == 0:
        return None
    y = sp * pow(s, -1, n) % n
    T = C.mulG(y)
    if T == Y:
        return y
    if T == C.neg(Y):
        return n - y
    return None


# ------------------------------------------------------------------ self-test on the vectors shipped in the repository
def _c_arrays(block):
    import re
    out = {}
    for m in re.finditer(r"unsigned char (\w+)\[\w*\]\s*=\s*\{(.*?)\}", block, flags=re.S):
        out[m.group(1)] = bytes(int(t, 16) for t in re.findall(r"0x([0-9a-fA-F]{2})", m.group(2)))
    return out


def selftest(repo="/repo"):
    """Replays the DLC spec vectors (and the issue-335 vector) from src/modules/ecdsa_adaptor/tests_impl.h
    through the model only.  Returns the number of assertions checked; raises AssertionError on mismatch."""
    import os, re
    from . import ecdsa as E
    C = SECP
    src = open(os.path.join(repo, "src/modules/ecdsa_adaptor/tests_impl.h")).read()
    body = src[src.index("static void test_ecdsa_adaptor_spec_vectors(void)"):src.index("/* Nonce function that returns constant 0 */")]
    blocks = re.split(r"/\* Test vector (\d+) \*/", body)
    vec = {int(blocks[i]): _c_arrays(blocks[i + 1]) for i in range(1, len(blocks), 2)}
    assert sorted(vec) == list(range(11)), "spec vectors not found"
    cnt = 0

    def chk_verify(v, exp):
        X, Y = C.parse_pubkey(v["pubkey"]), C.parse_pubkey(v["encryption_key"])
        assert verify(v["adaptor_sig"], X, v["message_hash"], Y)[0] == exp

    def chk_decrypt(v, exp):
        rs = decrypt(v["adaptor_sig"], v["decryption_key"])
        assert rs is not None and ((b32(rs[0]) + b32(rs[1]) == v["signature"]) == exp)

    def chk_recover(v, exp):
        Y = C.parse_pubkey(v["encryption_key"])
        y = recover(i32(v["signature"][:32]), i32(v["signature"][32:]), v["adaptor_sig"], Y)
        assert (y is not None) == exp
        if exp and "decryption_key" in v:
            assert b32(y) == v["decryption_key"]

    for i, e in ((0, True), (1, True), (2, False)):
        chk_verify(vec[i], e); chk_decrypt(vec[i], e); chk_recover(vec[i], e); cnt += 3
    # vectors 0/1: the decrypted signature verifies as ECDSA
    for i in (0, 1):
        v = vec[i]
        assert E.verify_rs(i32(v["signature"][:32]), i32(v["signature"][32:]), i32(v["message_hash"]), C.parse_pubkey(v["pubkey"])); cnt += 1
    chk_decrypt(vec[3], True); chk_recover(vec[3], True)
    chk_recover(vec[4], False)
    chk_decrypt(vec[5], False); chk_recover(vec[5], True)
    cnt += 5
    for i, e in ((6, True), (7, True), (8, True), (9, False), (10, False)):
        d, why = decode(C, vec[i]["adaptor_sig"])
        assert (d is not None) == e, (i, why)
        if e:
            assert encode(C, d[0], d[2], d[3], i32(vec[i]["adaptor_sig"][98:130]), d[5]) == vec[i]["adaptor_sig"]
        cnt += 1
    # issue 335: nonce function returning FF..FF for both nonces; e+1 makes R1 infinite
    blk = _c_arrays(src[src.index("static void adaptor_test_issue335(void)"):])
    Y = C.mulG(i32(blk["deckey"]))
    X = C.mulG(i32(blk["seckey"]))
    a = encrypt(blk["seckey"], Y, blk["msg"], lambda *_: b"\xff" * 32)
    assert a is not None and verify(a, X, blk["msg"], Y)[0]
    assert a[:129] + b"\x01" + a[130:] == blk["adaptor_sig"]
    assert verify(blk["adaptor_sig"], X, blk["msg"], Y) == (False, "dleq")
    cnt += 3
    return cnt
