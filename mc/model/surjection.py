"""Asset surjection proof model - src/modules/surjection/surjection.md and include/secp256k1_surjectionproof.h.

A proof for n input asset commitments and one output commitment is
    n (2 bytes little endian, <= 256) || bitmap of ceil(n/8) bytes (bit i%8 of byte i/8 selects input i, no
    bits at positions >= n) || e0 (32) || one 32-byte scalar per selected input
and is valid iff the one-ring Borromean signature holds over the keys  output - input_i  (selected i, in
index order) on the message  SHA256(ser33(input_0) .. ser33(input_{n-1}) ser33(output))  where ser33 is
the ordinary compressed encoding (02/03 by the parity of y).

Initialisation draws the subset with a SHA-256 based generator: state = seed; one byte per draw (two when
the range exceeds 256), the state is replaced by SHA256(state) when fewer than two bytes (resp. three)
remain, i.e. byte 31 of a state is never consumed; a draw is rejected when it is not below the largest multiple
of the range (unbiased), then reduced modulo the range.  Each iteration draws until `n_to_use` distinct
indices are set; every drawn index whose tag equals the output tag is remembered (the last one wins), also
when its bit was already set.  The call returns the iteration count on the first iteration that drew a
matching tag, or 0 after `n_max_iterations` fruitless iterations (at least one iteration is always made).

Points are (x, y) tuples; scalars ints; keys 32-byte strings where the library takes bytes."""
from .curve import SECP, b32, i32
from . import borromean as BOR
from .borromean import sha256, sha256_new

MAX_N_INPUTS = 256
MAX_USED_INPUTS = 256


# ---------------------------------------------------------------- generator codec (33 bytes: 0a/0b || x)
def decode_generator(b33, C=SECP):
    """0x0a: y is the square root of x^3+b that is itself a square; 0x0b: its negation"""
    b33 = bytes(b33)
    if len(b33) != 33 or (b33[0] & 0xFE) != 10:
        return None
    x = i32(b33[1:])
    if x >= C.p:
        return None
    y = C.sqrt(x * x * x + C.b)
    if y is None:
        return None
    if b33[0] & 1:
        y = (C.p - y) % C.p
    return (x, y)


def encode_generator(pt, C=SECP):
    return bytes([11 ^ (1 if C.is_square(pt[1]) else 0)]) + b32(pt[0])


def generator_object(pt):
    """the 64 bytes of a secp256k1_generator holding this point"""
    return b32(pt[0]) + b32(pt[1])


def point_of_object(b64):
    return (i32(b64[:32]), i32(b64[32:64]))


# ---------------------------------------------------------------- codec
def popcount(bitmap):
    return sum(bin(b).count("1") for b in bitmap)


def used_indices(n_inputs, bitmap):
    return [i for i in range(n_inputs) if bitmap[i // 8] >> (i % 8) & 1]


def parse(data):
    """-> (n_inputs, bitmap bytes of ceil(n/8), signature bytes of 32*(1+used)) or None"""
    if len(data) < 2:
        return None
    n = data[0] | (data[1] << 8)
    if n > MAX_N_INPUTS:
        return None
    data = bytes(data[0:len(data)])
    nb = (n + 7) // 8
    if len(data) < 2 + nb:
        return None
    bitmap = data[2:2 + nb]
    if n % 8 and bitmap[-1] >> (n % 8):
        return None
    siglen = 32 * (1 + popcount(bitmap))
    if len(data) != 2 + nb + siglen:
        return None
    return n, bitmap, data[2 + nb:]


def serialize(n_inputs, bitmap, sig):
    nb = (n_inputs + 7) // 8
    assert len(bitmap) >= nb
    return bytes([n_inputs & 0xFF, n_inputs >> 8]) + bytes(bitmap[:nb]) + bytes(sig[:32 * (1 + popcount(bitmap[:nb]))])


def serialized_size(n_inputs, n_used):
    return 2 + (n_inputs + 7) // 8 + 32 * (1 + n_used)


# ---------------------------------------------------------------- subset selection
class Csprng:
    def __init__(self, seed32):
        self.state = bytes(seed32)
        self.i = 0
        self.hashes = 0

    def next(self, rand_max):
        inc = 2 if rand_max > 256 else 1
        span = 0x10000 if rand_max > 256 else 0x100
        limit = (span // rand_max) * rand_max
        while True:
            if self.i + inc >= 32:
                self.state = sha256(self.state)
                self.i = 0
                self.hashes += 1
            v = self.state[self.i]
            if inc == 2:
                v = (v << 8) + self.state[self.i + 1]
            self.i += inc
            if v < limit:
                return v % rand_max


def initialize(input_tags, n_to_use, output_tag, n_max_iterations, seed32):
    """-> (iterations (0 = failure), 32-byte bitmap as left in the proof, input_index or None if never written)"""
    n = len(input_tags)
    assert n <= MAX_N_INPUTS and n_to_use <= n and n_to_use <= MAX_USED_INPUTS
    rng = Csprng(seed32)
    it = 0
    index = None
    while True:
        bitmap = bytearray(32)
        found = False
        for _ in range(n_to_use):
            while True:
                j = rng.next(n)
                if input_tags[j] == output_tag:
                    index = j
                    found = True
                if not (bitmap[j // 8] >> (j % 8)) & 1:
                    bitmap[j // 8] |= 1 << (j % 8)
                    break
        it += 1
        if found:
            return it, bytes(bitmap), index
        if it >= n_max_iterations:
            return 0, bytes(bitmap), index


# ---------------------------------------------------------------- ring, message, forged scalars
def ring_keys(in_pts, n_inputs, bitmap, out_pt, C=SECP):
    return [C.sub(out_pt, in_pts[i]) for i in used_indices(n_inputs, bitmap)]


def message(in_pts, out_pt, C=SECP):
    h = sha256_new()
    for p in in_pts:
        h.update(C.ser_compressed(p))
    h.update(C.ser_compressed(out_pt))
    return h.digest()


def genrand(ns, key, C=SECP):
    """the module's derivation of its ns scalars from the secret (out - in blinding key):
    a 36-byte buffer  le32(i) || key  is hashed; the digest overwrites the first 32 bytes of the buffer, so from
    i = 1 on the input is  le32(i) || digest_{i-1}[4:32] || key[28:32].  None if a digest is >= n."""
    bufr = bytearray(4) + bytearray(b32(key % C.n))
    out = []
    for i in range(ns):
        bufr[0:4] = i.to_bytes(4, "little")
        d = sha256(bytes(bufr))
        bufr[0:32] = d
        v = i32(d)
        if v >= C.n:
            return None
        out.append(v)
    return out


def generate(n_inputs, bitmap, in_pts, out_pt, input_index, in_key32, out_key32, C=SECP):
    """-> 32*(1+used) signature bytes, or None where the library returns 0.  Caller guarantees used > 0."""
    idx = used_indices(n_inputs, bitmap)
    n_used = popcount(bitmap)
    assert n_used > 0
    kin, kout = i32(in_key32), i32(out_key32)
    if kin >= C.n or kout >= C.n:
        return None
    if any(p == out_pt for p in in_pts):
        return None
    if n_used > n_inputs or n_inputs != len(in_pts):
        return None
    sec = (kout - kin) % C.n
    keys = [C.sub(out_pt, in_pts[i]) for i in idx]
    ring_index = idx.index(input_index) if input_index in idx else 0
    msg = message(in_pts, out_pt, C)
    s = genrand(n_used, sec, C)
    if s is None:
        return None
    nonce = s[ring_index]
    s[ring_index] = 0
    r = BOR.sign(keys, [n_used], [ring_index], [sec], [nonce], s, msg, C)
    if r is None:
        return None
    return r[0] + b"".join(b32(v) for v in r[1])


def prove_chosen(n_inputs, bitmap, in_pts, out_pt, input_index, sec, nonce, forged, C=SECP):
    """prover with caller-chosen nonce and forged scalars (one per selected input; the signer's entry is ignored);
    returns (e0, [s ints]) or None"""
    idx = used_indices(n_inputs, bitmap)
    keys = [C.sub(out_pt, in_pts[i]) for i in idx]
    return BOR.sign(keys, [len(idx)], [idx.index(input_index)], [sec], [nonce], list(forged), message(in_pts, out_pt, C), C)


def encode(n_inputs, bitmap, e0, s_ints):
    """serialized proof from integers (values >= n allowed on purpose when they fit 32 bytes)"""
    return serialize(n_inputs, bitmap, bytes(e0) + b"".join(b32(v) for v in s_ints))


def verify(n_inputs, bitmap, sig, in_pts, out_pt, C=SECP):
    n_used = popcount(bitmap[:(n_inputs + 7) // 8])
    if n_used == 0 or n_used > n_inputs or n_inputs != len(in_pts):
        return False
    if n_used > MAX_USED_INPUTS:
        return False
    s = [i32(sig[32 + 32 * i:64 + 32 * i]) for i in range(n_used)]
    if any(v >= C.n for v in s):
        return False
    keys = ring_keys(in_pts, n_inputs, bitmap, out_pt, C)
    return BOR.verify(sig[:32], s, keys, [n_used], message(in_pts, out_pt, C), C)


def verify_serialized(data, in_pts, out_pt, C=SECP):
    """'noparse' | True | False"""
    p = parse(data)
    if p is None:
        return "noparse"
    return verify(p[0], p[1], p[2], in_pts, out_pt, C)


# ---------------------------------------------------------------- fixed vectors of the module's tests
def selftest(tests_impl_path):
    """the five proofs of test_fixed_vectors (src/modules/surjection/tests_impl.h) must verify in the model,
    and the negative cases listed there must not"""
    import re
    text = open(tests_impl_path).read()
    text = text[text.index("static void test_fixed_vectors"):]
    arrs = {}
    for m in re.finditer(r"const unsigned char (\w+)\[\] = \{(.*?)\};", text, flags=re.S):
        arrs[m.group(1)] = bytes(int(x, 16) for x in re.findall(r"0x([0-9a-fA-F]{2})", m.group(2)))
    tags = [decode_generator(arrs["tag%d_ser" % i]) for i in range(5)]
    out = decode_generator(arrs["output_tag_ser"])
    assert all(t is not None and SECP.on_curve(t) for t in tags + [out])
    for t, name in zip(tags, ["tag%d_ser" % i for i in range(5)]):
        assert encode_generator(t) == arrs[name]
    for name, n in (("total1_used1", 1), ("total2_used1", 2), ("total3_used2", 3), ("total5_used3", 5), ("total5_used5", 5)):
        assert verify_serialized(arrs[name], tags[:n], out) is True, name
        p = parse(arrs[name])
        assert serialize(*p) == arrs[name]
    assert verify_serialized(arrs["total5_used5"][:len(arrs["total5_used3"])], tags, out) == "noparse"
    assert verify_serialized(arrs["total1_used1"], tags[1:2], out) is False
    assert verify_serialized(arrs["total1_used1"], tags[:1], tags[0]) is False
    bad = bytearray(arrs["total5_used5"])
    bad[2] = 0x3F
    assert parse(bytes(bad)) is None and parse(bytes(bad) + bytes(32)) is None
    bad[2] = 0x37
    assert parse(bytes(bad)) is None
    return True
