"""Range-proof reference model: header, verification, and a prover in which the caller chooses every free
value (digit blinding factors, ring nonces, forged scalars), so that adversarial-but-valid proofs can be built.

Format (Confidential-Transactions Borromean range proof):
  byte 0   : bit7 reserved (must be 0) | bit6 has_nz_range | bit5 has_min | bits0-4 exponent (only if has_nz_range)
  byte 1   : mantissa-1                                   (only if has_nz_range; mantissa in 1..64)
  8 bytes  : min_value, big endian                        (only if has_min)
  sign bytes: (rings+6)>>3 bytes, bit i = "digit commitment i has the non-residue y"; spare bits must be 0
  rings-1 digit commitments: 32-byte x each (x < p, on curve); the last digit commitment is
             commit - min_value*H - sum(others)
  e0 (32 bytes), then one 32-byte scalar (< n) per ring position; nothing may follow.
  rings = ceil(mantissa/2), radix-4 digits (last ring has 2 positions when mantissa is odd); without
  has_nz_range: a single ring of size 1 (proof of an exact value).
  ring keys: P[i][j] = C_i - j * (10^exp * 4^i) * H
  message: SHA256(ser(commit) || ser(H) || header || (sign_i || x_i)* || extra_commit), ser(P) = [y is non-residue] || x
"""
from .curve import SECP, b32, i32
from . import borromean as BR

U64 = 2**64 - 1


def ser_point(pt, C=SECP):
    return bytes([0 if C.is_square(pt[1]) else 1]) + b32(pt[0])


def header(proof):
    """returns None or dict(offset, exp, mantissa, scale, min_value, max_value, has_nz, has_min)"""
    proof = bytes(proof)
    plen = len(proof)
    if plen < 65 or proof[0] & 128:
        return None
    has_nz = bool(proof[0] & 64)
    has_min = bool(proof[0] & 32)
    off = 0
    exp, mantissa = -1, 0
    if has_nz:
        exp = proof[0] & 31
        off += 1
        if exp > 18:
            return None
        mantissa = proof[off] + 1
        if mantissa > 64:
            return None
        maxv = U64 >> (64 - mantissa)
    else:
        maxv = 0
    off += 1
    scale = 1
    for _ in range(max(exp, 0)):
        if maxv > U64 // 10:
            return None
        maxv *= 10
        scale *= 10
    minv = 0
    if has_min:
        if plen - off < 8:
            return None
        minv = int.from_bytes(proof[off:off + 8], "big")
        off += 8
    if maxv > U64 - minv:
        return None
    return {"offset": off, "exp": exp, "mantissa": mantissa, "scale": scale, "min_value": minv, "max_value": maxv + minv, "has_nz": has_nz, "has_min": has_min}


def ring_layout(mantissa):
    if mantissa == 0:
        return [1]
    rs = [4] * (mantissa >> 1)
    if mantissa & 1:
        rs.append(2)
    return rs


def verify(commit, proof, extra, H, C=SECP, want_internals=False):
    """None (reject) or (min_value, max_value).  commit, H: points."""
    proof = bytes(proof)
    extra = bytes(extra or b"")
    h = header(proof)
    if h is None:
        return None
    off = h["offset"]
    rsizes = ring_layout(h["mantissa"])
    rings = len(rsizes)
    npub = sum(rsizes)
    plen = len(proof)
    if plen - off < 32 * (npub + rings - 1) + 32 + ((rings + 6) >> 3):
        return None
    hdr = proof[:off]
    nsign = (rings + 6) >> 3
    signs = [(proof[off + (i >> 3)] >> (i & 7)) & 1 for i in range(rings - 1)]
    off += nsign
    if (rings - 1) & 7:
        if proof[off - 1] >> ((rings - 1) & 7):
            return None
    mh = BR.sha256_new()
    mh.update(ser_point(commit, C) + ser_point(H, C) + hdr)
    acc = C.mul(h["min_value"], H) if h["min_value"] else None
    firsts = []
    for i in range(rings - 1):
        x = i32(proof[off:off + 32])
        if x >= C.p:
            return None
        y = C.sqrt(x * x * x + C.b)
        if y is None:
            return None
        if not C.is_square(y):
            y = C.p - y
        c = (x, y)
        if signs[i]:
            c = C.neg(c)
        mh.update(bytes([signs[i]]) + proof[off:off + 32])
        firsts.append(c)
        acc = C.add(acc, c)
        off += 32
    last = C.add(commit, C.neg(acc))
    if last is None:
        return None
    firsts.append(last)
    # expand ring keys
    pubs = []
    base = C.neg(C.mul(h["scale"], H))
    for i, rs in enumerate(rsizes):
        p0 = firsts[i]
        pubs.append(p0)
        cur = p0
        for j in range(1, rs):
            cur = C.add(cur, base)
            pubs.append(cur)
        if i < rings - 1:
            base = C.mul(4, base)
    e0 = proof[off:off + 32]
    off += 32
    s = []
    for i in range(npub):
        v = i32(proof[off:off + 32])
        if v >= C.n:
            return None
        s.append(v)
        off += 32
    if off != plen:
        return None
    mh.update(extra)
    m = mh.digest()
    # ring keys at infinity cannot occur in a valid signature (the model's verifier rejects them)
    ok, ev = BR.verify_ex(e0, s, pubs, rsizes, m, C)
    if not ok:
        return None
    if want_internals:
        return (h["min_value"], h["max_value"]), {"pubs": pubs, "rsizes": rsizes, "s": s, "ev": ev, "m": m, "header": h}
    return (h["min_value"], h["max_value"])


def prove(value, blind, H, exp, mantissa, min_value, secs, ks, forged, extra=b"", C=SECP, header_override=None, commit=None, digit_x_override=None):
    """Model prover with caller-chosen free values.
      value      : committed value; value - min_value must equal v * 10^exp with v < 2^mantissa (mantissa 0: exact value, v = 0)
      blind      : blinding factor of the commitment (commit = blind*G + value*H unless `commit` is given)
      secs       : blinding factors of the first rings-1 digit commitments (the last is derived)
      ks         : one nonce per ring;  forged: list of npub scalars used at the non-signer positions
      digit_x_override : {ring index: 32 bytes} written (and hashed) INSTEAD of the x coordinate of that digit commitment
                   - lets the prover emit a non-canonical x+p encoding that a lenient (mod-p reducing) verifier would accept
    Returns (proof bytes, commit point) or None."""
    n = C.n
    scale = 10 ** max(exp, 0)
    rsizes = ring_layout(mantissa)
    rings = len(rsizes)
    npub = sum(rsizes)
    v = (value - min_value) // scale
    assert v * scale + min_value == value
    assert mantissa == 0 and v == 0 or v < (1 << mantissa)
    if commit is None:
        commit = C.add(C.mulG(blind), C.mul(value, H) if value else None)
    if header_override is not None:
        hdr = bytes(header_override)
    else:
        b0 = ((64 | exp) if mantissa else 0) | (32 if min_value else 0)
        hdr = bytes([b0]) + (bytes([mantissa - 1]) if mantissa else b"") + (min_value.to_bytes(8, "big") if min_value else b"")
    secidx = [(v >> (2 * i)) & 3 for i in range(rings)] if mantissa else [0]
    sec = list(secs[:rings - 1])
    sec.append((blind - sum(sec)) % n)
    if sec[-1] == 0:
        return None
    mh = BR.sha256_new()
    mh.update(ser_point(commit, C) + ser_point(H, C) + hdr)
    signbytes = bytearray((rings + 6) >> 3)
    body = b""
    firsts = []
    for i in range(rings):
        digit_val = (secidx[i] * scale) << (2 * i)
        ci = C.add(C.mulG(sec[i]), C.mul(digit_val, H) if digit_val else None)
        if ci is None:
            return None
        firsts.append(ci)
        if i < rings - 1:
            sp = ser_point(ci, C)
            if digit_x_override and i in digit_x_override:
                sp = sp[:1] + bytes(digit_x_override[i])
            signbytes[i >> 3] |= sp[0] << (i & 7)
            mh.update(sp)
            body += sp[1:]
    pubs = []
    base = C.neg(C.mul(scale, H))
    for i, rs in enumerate(rsizes):
        cur = firsts[i]
        pubs.append(cur)
        for j in range(1, rs):
            cur = C.add(cur, base)
            pubs.append(cur)
        if i < rings - 1:
            base = C.mul(4, base)
    mh.update(bytes(extra))
    m = mh.digest()
    res = BR.sign(pubs, rsizes, secidx, sec, ks, forged, m, C)
    if res is None:
        return None
    e0, s = res
    proof = hdr + bytes(signbytes) + body + e0 + b"".join(b32(x) for x in s)
    return proof, commit


def layout(proof):
    """byte offsets of the parts of a structurally valid proof (for mutation alphabets)"""
    h = header(proof)
    rsizes = ring_layout(h["mantissa"])
    rings = len(rsizes)
    off = h["offset"]
    d = {"header_len": off, "rings": rings, "rsizes": rsizes, "signs": (off, (rings + 6) >> 3)}
    off += (rings + 6) >> 3
    d["digits"] = [off + 32 * i for i in range(rings - 1)]
    off += 32 * (rings - 1)
    d["e0"] = off
    off += 32
    d["s"] = [off + 32 * i for i in range(sum(rsizes))]
    d["end"] = off + 32 * sum(rsizes)
    return d
