"""ECDSA reference model (verify, RFC 6979 sign as used by the library, recovery, DER)."""
import hmac, hashlib
from .curve import b32, i32, SECP, sha256_new as _SHA


class RFC6979:
    """HMAC-DRBG exactly as src/hash_impl.h (RFC 6979 3.2 with arbitrary key material)."""

    def __init__(self, key):
        self.v = b"\x01" * 32
        self.k = b"\x00" * 32
        self.k = hmac.new(self.k, self.v + b"\x00" + key, _SHA).digest()
        self.v = hmac.new(self.k, self.v, _SHA).digest()
        self.k = hmac.new(self.k, self.v + b"\x01" + key, _SHA).digest()
        self.v = hmac.new(self.k, self.v, _SHA).digest()
        self.retry = False

    def generate(self, n):
        if self.retry:
            self.k = hmac.new(self.k, self.v + b"\x00", _SHA).digest()
            self.v = hmac.new(self.k, self.v, _SHA).digest()
        out = b""
        while len(out) < n:
            self.v = hmac.new(self.k, self.v, _SHA).digest()
            out += self.v
        self.retry = True
        return out[:n]


def nonce_rfc6979(key32, msg32, extra=None, algo16=None, counter=0, C=SECP):
    m = b32(i32(msg32) % C.n)
    kd = key32 + m + (extra or b"") + (algo16 or b"")
    g = RFC6979(kd)
    out = None
    for _ in range(counter + 1):
        out = g.generate(32)
    return out


def verify_rs(r, s, m, Q, C=SECP, low_s=True):
    """ECDSA equation with 1<=r<n, 1<=s<=n/2 (low_s), message integer m (reduced mod n here), Q point"""
    n = C.n
    if not (1 <= r < n and 1 <= s < n):
        return False
    if low_s and s > n // 2:
        return False
    if Q is None:
        return False
    m %= n
    si = pow(s, -1, n)
    R = C.add(C.mulG(m * si % n), C.mul(r * si % n, Q))
    if R is None:
        return False
    return R[0] % n == r


def sign_with_nonce(d, m, k, C=SECP):
    """core: returns (r, s, recid) or None if r==0 or s==0"""
    n = C.n
    R = C.mulG(k)
    rx = R[0]
    r = rx % n
    recid = (2 if rx >= n else 0) | (R[1] & 1)
    s = pow(k, -1, n) * (m + r * d) % n
    if s > n // 2:
        s = n - s
        recid ^= 1
    if r == 0 or s == 0:
        return None
    return r, s, recid


def sign(key32, msg32, extra=None, C=SECP):
    """library's deterministic signing: returns (r, s, recid) or None for an invalid key"""
    d = i32(key32)
    if not (1 <= d < C.n):
        return None
    m = i32(msg32) % C.n
    cnt = 0
    while True:
        k = i32(nonce_rfc6979(key32, msg32, extra, None, cnt, C))
        if 1 <= k < C.n:
            res = sign_with_nonce(d, m, k, C)
            if res:
                return res
        cnt += 1


def recover(r, s, m, recid, C=SECP):
    n, p = C.n, C.p
    if not (1 <= r < n and 1 <= s < n):
        return None
    x = r
    if recid & 2:
        if x >= p - n:
            return None
        x += n
    R = C.lift_x(x, recid & 1)
    if R is None:
        return None
    ri = pow(r, -1, n)
    Q = C.add(C.mul(s * ri % n, R), C.mulG((-m * ri) % n))
    return Q


# ---------------- strict DER (as the library documents it) -----------------

def der_read_len(s, pos, end):
    """returns (ok, length, newpos) following secp256k1_der_read_len"""
    if pos >= end:
        return False, 0, pos
    b1 = s[pos]
    pos += 1
    if b1 == 0xFF:
        return False, 0, pos
    if (b1 & 0x80) == 0:
        return True, b1, pos
    if b1 == 0x80:
        return False, 0, pos  # indefinite
    lenleft = b1 & 0x7F
    if lenleft > end - pos:
        return False, 0, pos
    if s[pos] == 0:
        return False, 0, pos  # not shortest
    if lenleft > 8:  # sizeof(size_t)
        return False, 0, pos
    ret = 0
    while lenleft > 0:
        ret = (ret << 8) | s[pos]
        pos += 1
        lenleft -= 1
    if ret > end - pos:
        return False, 0, pos
    if ret < 128:
        return False, 0, pos  # not shortest
    return True, ret, pos


def der_parse_integer(s, pos, end, n):
    """returns (ok, value, newpos); negative / oversize / >= n -> value 0 (documented)"""
    if pos == end or s[pos] != 0x02:
        return False, 0, pos
    pos += 1
    ok, rlen, pos = der_read_len(s, pos, end)
    if not ok:
        return False, 0, pos
    if rlen == 0 or rlen > end - pos:
        return False, 0, pos
    if s[pos] == 0x00 and rlen > 1 and (s[pos + 1] & 0x80) == 0:
        return False, 0, pos
    if s[pos] == 0xFF and rlen > 1 and (s[pos + 1] & 0x80) == 0x80:
        return False, 0, pos
    overflow = False
    if s[pos] & 0x80:
        overflow = True
    body = s[pos:pos + rlen]
    if body and body[0] == 0:
        body = body[1:]
    if len(body) > 32:
        overflow = True
    v = 0
    if not overflow:
        v = int.from_bytes(body, "big")
        if v >= n:
            overflow = True
    if overflow:
        v = 0
    return True, v, pos + rlen


def der_parse(s, n=SECP.n):
    """returns None (reject) or (r, s)"""
    s = bytes(s)
    end = len(s)
    pos = 0
    if pos == end or s[pos] != 0x30:
        return None
    pos += 1
    ok, rlen, pos = der_read_len(s, pos, end)
    if not ok:
        return None
    if rlen != end - pos:
        return None
    ok, r, pos = der_parse_integer(s, pos, end, n)
    if not ok:
        return None
    ok, sv, pos = der_parse_integer(s, pos, end, n)
    if not ok:
        return None
    if pos != end:
        return None
    return r, sv


def der_int(v):
    b = v.to_bytes(33, "big").lstrip(b"\x00")
    if not b:
        b = b"\x00"
    if b[0] & 0x80:
        b = b"\x00" + b
    return b"\x02" + bytes([len(b)]) + b


def der_serialize(r, s):
    body = der_int(r) + der_int(s)
    return b"\x30" + bytes([len(body)]) + body
