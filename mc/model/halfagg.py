"""Half-aggregation of BIP-340 signatures: reference model.

Written from the draft specification (BlockstreamResearch/cross-input-aggregation,
half-aggregation.mediawiki: Aggregate / IncAggregate / VerifyAggregate), not from the C code.
Parametrised by curve so that the same model serves secp256k1 and the small test groups.

Data types: public keys are 32-byte x-only serialisations, messages are 32-byte strings,
signatures 64 bytes, an aggregate of u signatures is r_0 || ... || r_{u-1} || bytes(s).

  z_0 = 1
  z_i = int(hash_{HalfAgg/randomizer}(r_0 || pk_0 || m_0 || ... || r_i || pk_i || m_i)) mod n     (i > 0)
  s   = int(aggsig[32v:32(v+1)]) + z_v s_v + ... + z_{v+u-1} s_{v+u-1}  mod n
  verification:  s < n  and  s G = sum_i z_i (R_i + e_i P_i),  R_i = lift_x(r_i), P_i = lift_x(pk_i),
                 e_i = int(hash_{BIP0340/challenge}(r_i || pk_i || m_i)) mod n
"""
from .curve import SECP, b32, i32

# SHA-256: CPython's built-in implementation when present.  (hashlib's OpenSSL binding is ~50x slower
# per call when the ASan runtime is preloaded, which the sanitizer builds of the shim need.)
try:
    from _sha256 import sha256 as _sha256
except ImportError:
    try:
        from _sha2 import sha256 as _sha256
    except ImportError:
        from hashlib import sha256 as _sha256

MAX_SIGS = 2**16  # the draft fails for v + u >= 2^16
_TAG = {}


def tagged_hash(tag, msg):
    """BIP-340 tagged hash: SHA256(SHA256(tag) || SHA256(tag) || msg)"""
    t = _TAG.get(tag)
    if t is None:
        t = _TAG[tag] = _sha256(tag).digest() * 2
    return _sha256(t + msg).digest()


def randomizer(prefix, i, C=SECP):
    """z_i by its definition; `prefix` = r_0 || pk_0 || m_0 || ... || r_i || pk_i || m_i  (96 (i+1) bytes)"""
    assert len(prefix) == 96 * (i + 1)
    if i == 0:
        return 1
    return i32(tagged_hash(b"HalfAgg/randomizer", prefix)) % C.n


class Randomizers:
    """The same z_i computed with one running hash over the growing prefix (linear instead of
    quadratic work; selftest() checks it against randomizer() above)."""

    def __init__(self, C=SECP):
        tagged_hash(b"HalfAgg/randomizer", b"")
        self.h = _sha256(_TAG[b"HalfAgg/randomizer"])
        self.i = 0
        self.n = C.n

    def absorb(self, r32, pk32, m32):
        """append (r_i, pk_i, m_i); returns z_i"""
        assert len(r32) == 32 and len(pk32) == 32 and len(m32) == 32
        self.h.update(r32 + pk32 + m32)
        i = self.i
        self.i += 1
        if i == 0:
            return 1
        return i32(self.h.copy().digest()) % self.n


def challenge(r32, pk32, m32, C=SECP):
    return i32(tagged_hash(b"BIP0340/challenge", r32 + pk32 + m32)) % C.n


def inc_aggregate(aggsig, pm_aggd, pms_to_agg, C=SECP):
    """aggsig: bytes; pm_aggd: list of (pk32, m32); pms_to_agg: list of (pk32, m32, sig64).
    Returns the new aggregate or None (= fail)."""
    v, u = len(pm_aggd), len(pms_to_agg)
    if v + u >= MAX_SIGS:
        return None
    if len(aggsig) != 32 * (v + 1):
        return None
    rs = []
    Z = Randomizers(C)
    for i in range(v):
        pk, m = pm_aggd[i]
        r = aggsig[32 * i:32 * (i + 1)]
        rs.append(r)
        Z.absorb(r, pk, m)
    s = i32(aggsig[32 * v:32 * (v + 1)])
    for i in range(v, v + u):
        pk, m, sig = pms_to_agg[i - v]
        assert len(pk) == 32 and len(m) == 32 and len(sig) == 64
        r = sig[0:32]
        si = i32(sig[32:64])
        z = Z.absorb(r, pk, m)
        s += z * si
        rs.append(r)
    return b"".join(rs) + b32(s % C.n)


def aggregate(pms, C=SECP):
    """pms: list of (pk32, m32, sig64)"""
    return inc_aggregate(b32(0), [], pms, C)


def verify_aggregate_why(aggsig, pm_aggd, C=SECP):
    """(ok, reason) - reason names the first failing step of VerifyAggregate"""
    u = len(pm_aggd)
    if u >= MAX_SIGS:
        return False, "too-many"
    if len(aggsig) != 32 * (u + 1):
        return False, "length"
    acc = None
    Z = Randomizers(C)
    for i in range(u):
        pk, m = pm_aggd[i]
        Pt = C.lift_x(i32(pk))
        if Pt is None:
            return False, "pk-not-on-curve"
        r = aggsig[32 * i:32 * (i + 1)]
        ri = i32(r)
        if ri >= C.p:
            return False, "r>=p"
        R = C.lift_x(ri)
        if R is None:
            return False, "r-not-on-curve"
        e = challenge(r, pk, m, C)
        z = Z.absorb(r, pk, m)
        T = C.add(R, C.mul(e, Pt))
        acc = C.add(acc, C.mul(z, T))
    s = i32(aggsig[32 * u:32 * (u + 1)])
    if s >= C.n:
        return False, "s>=n"
    if C.mulG(s) != acc:
        return False, "equation"
    return True, "accept"


def verify_aggregate(aggsig, pm_aggd, C=SECP):
    return verify_aggregate_why(aggsig, pm_aggd, C)[0]


# ---------------------------------------------------------------- self-test
# verification vectors of the draft (hacspec-halfagg/tests/tests.rs), as shipped in
# /repo/src/modules/schnorrsig_halfagg/tests_impl.h
_PK0 = "1b84c5567b126440995d3ed5aaba0565d71e1834604819ff9c17f5e9d5dd078f"
_PK1 = "462779ad4aad39514614751a71085f2f10e1c7a593e4e030efb5b8721ce55b0b"
_R0 = "b070aafcea439a4f6f1bbfc2eb66d29d24b0cab74d6b745c3cfb009cc8fe4aa8"
VECTORS = [
    ([], [], "00" * 32),
    ([_PK0], ["02" * 32], _R0 + "0e066c34819936549ff49b6fd4d41edfc401a367b87ddd59fee38177961c225f"),
    ([_PK0, _PK1], ["02" * 32, "05" * 32],
     _R0 + "a3afbdb45a6a34bf7c8c00f1b6d7e7d375b54540f13716c87b62e51e2f4f22ff" +
     "bf8913ec53226a34892d60252a7052614ca79ae939986828d81d2311957371ad"),
]


def vectors_from_repo(path):
    """parse the three spec vectors out of tests_impl.h -> same shape as VECTORS (or None if the file is absent)"""
    import re, os
    if not os.path.exists(path):
        return None
    txt = open(path).read()
    out = []
    parts = re.split(r"/\* Test vector \d+ \*/", txt)[1:]
    for part in parts[:3]:
        part = part.split("CHECK(secp256k1_schnorrsig_aggverify")[0]

        def arr(name):
            m = re.search(name + r"\[[^\]]*\]\s*=\s*\{(.*?)\};", part, flags=re.S)
            if not m:
                return ""
            return "".join("%02x" % int(t, 16) for t in re.findall(r"0x[0-9a-fA-F]{2}", m.group(1)))
        pk, ms, ag = arr("pubkeys_ser"), arr("msgs32"), arr("aggsig")
        out.append(([pk[i:i + 64] for i in range(0, len(pk), 64)], [ms[i:i + 64] for i in range(0, len(ms), 64)], ag))
    return out


def selftest(repo_tests_impl=None):
    """Replays the draft vectors through the model only.  Returns a list of problems (empty = fine)."""
    from . import bip340
    from .curve import tagged_hash as th_ref
    bad = []
    for msg in (b"", b"abc", bytes(range(200))):
        if tagged_hash(b"HalfAgg/randomizer", msg) != th_ref(b"HalfAgg/randomizer", msg):
            bad.append("built-in SHA-256 and hashlib disagree")
    Z, prefix = Randomizers(), b""
    for i in range(5):
        r, pk, m = bytes([i]) * 32, bytes([i + 100]) * 32, bytes([i + 200]) * 32
        prefix += r + pk + m
        if Z.absorb(r, pk, m) != randomizer(prefix, i):
            bad.append("running-hash randomizer differs from its definition at i=%d" % i)
    vecs = VECTORS
    if repo_tests_impl:
        rv = vectors_from_repo(repo_tests_impl)
        if rv is not None and rv != VECTORS:
            bad.append("vectors embedded in the model differ from those in %s" % repo_tests_impl)
    for k, (pks, ms, ag) in enumerate(vecs):
        pm = [(bytes.fromhex(p), bytes.fromhex(m)) for p, m in zip(pks, ms)]
        a = bytes.fromhex(ag)
        ok, why = verify_aggregate_why(a, pm)
        if not ok:
            bad.append("spec vector %d rejected by the model (%s)" % (k, why))
        # every vector must fail after a one-bit change of s, of a message, and with a wrong length
        a2 = a[:-1] + bytes([a[-1] ^ 1])
        if verify_aggregate(a2, pm):
            bad.append("spec vector %d: altered s accepted" % k)
        if verify_aggregate(a + b"\x00" * 32, pm) or verify_aggregate(a[:-1], pm):
            bad.append("spec vector %d: wrong length accepted" % k)
        if pm:
            pm2 = [(pm[0][0], bytes([pm[0][1][0] ^ 1]) + pm[0][1][1:])] + pm[1:]
            if verify_aggregate(a, pm2):
                bad.append("spec vector %d: altered message accepted" % k)
    # vector 1 is a plain BIP-340 signature because z_0 = 1
    pks, ms, ag = VECTORS[1]
    if not bip340.verify(bytes.fromhex(pks[0]), bytes.fromhex(ms[0]), bytes.fromhex(ag)):
        bad.append("vector 1 is not a BIP-340 signature under the bip340 model (z_0 must be 1)")
    # aggregate / inc_aggregate / verify agree with each other on model-made signatures, for every split of 4
    sigs = []
    for i in range(4):
        sk = b32(0x1111 * (i + 1))
        m = bytes([i + 1]) * 32
        sg = bip340.sign(sk, m)
        Pt = SECP.mulG(i32(sk))
        sigs.append((b32(Pt[0]), m, sg))
        if not bip340.verify(b32(Pt[0]), m, sg):
            bad.append("bip340 model does not verify its own signature")
    full = aggregate(sigs)
    if full is None or len(full) != 32 * 5 or not verify_aggregate(full, [(p, m) for p, m, _ in sigs]):
        bad.append("model aggregate of 4 model signatures does not verify in the model")
    if aggregate(sigs[:1]) != sigs[0][2]:
        bad.append("aggregate of one signature must be that signature (z_0 = 1)")
    for mask in range(8):
        cuts = [0] + [j + 1 for j in range(3) if mask >> j & 1] + [4]
        a = b32(0)
        for lo, hi in zip(cuts, cuts[1:]):
            a = inc_aggregate(a, [(p, m) for p, m, _ in sigs[:lo]], sigs[lo:hi])
        if a != full:
            bad.append("model: incremental aggregation along cuts %r differs from one-shot" % cuts)
    if verify_aggregate(full, [(p, m) for p, m, _ in sigs[::-1]]):
        bad.append("model accepts reordered pairs")
    return bad
