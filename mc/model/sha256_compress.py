"""FIPS 180-4 SHA-256 block compression in plain Python (used as a 'replaced but correct'
compression callback for secp256k1_context_set_sha256_compression)."""
import struct, hashlib

K = [
    0x428a2f98, 0x71374491, 0xb5c0fbcf, 0xe9b5dba5, 0x3956c25b, 0x59f111f1, 0x923f82a4, 0xab1c5ed5,
    0xd807aa98, 0x12835b01, 0x243185be, 0x550c7dc3, 0x72be5d74, 0x80deb1fe, 0x9bdc06a7, 0xc19bf174,
    0xe49b69c1, 0xefbe4786, 0x0fc19dc6, 0x240ca1cc, 0x2de92c6f, 0x4a7484aa, 0x5cb0a9dc, 0x76f988da,
    0x983e5152, 0xa831c66d, 0xb00327c8, 0xbf597fc7, 0xc6e00bf3, 0xd5a79147, 0x06ca6351, 0x14292967,
    0x27b70a85, 0x2e1b2138, 0x4d2c6dfc, 0x53380d13, 0x650a7354, 0x766a0abb, 0x81c2c92e, 0x92722c85,
    0xa2bfe8a1, 0xa81a664b, 0xc24b8b70, 0xc76c51a3, 0xd192e819, 0xd6990624, 0xf40e3585, 0x106aa070,
    0x19a4c116, 0x1e376c08, 0x2748774c, 0x34b0bcb5, 0x391c0cb3, 0x4ed8aa4a, 0x5b9cca4f, 0x682e6ff3,
    0x748f82ee, 0x78a5636f, 0x84c87814, 0x8cc70208, 0x90befffa, 0xa4506ceb, 0xbef9a3f7, 0xc67178f2]
IV = [0x6a09e667, 0xbb67ae85, 0x3c6ef372, 0xa54ff53a, 0x510e527f, 0x9b05688c, 0x1f83d9ab, 0x5be0cd19]
M = 0xffffffff


def _rotr(x, r):
    return ((x >> r) | (x << (32 - r))) & M


def compress(state, block):
    """state: list of 8 ints, block: 64 bytes -> new state"""
    w = list(struct.unpack(">16I", block))
    for i in range(16, 64):
        s0 = _rotr(w[i - 15], 7) ^ _rotr(w[i - 15], 18) ^ (w[i - 15] >> 3)
        s1 = _rotr(w[i - 2], 17) ^ _rotr(w[i - 2], 19) ^ (w[i - 2] >> 10)
        w.append((w[i - 16] + s0 + w[i - 7] + s1) & M)
    a, b, c, d, e, f, g, h = state
    for i in range(64):
        S1 = _rotr(e, 6) ^ _rotr(e, 11) ^ _rotr(e, 25)
        ch = (e & f) ^ (~e & M & g)
        t1 = (h + S1 + ch + K[i] + w[i]) & M
        S0 = _rotr(a, 2) ^ _rotr(a, 13) ^ _rotr(a, 22)
        mj = (a & b) ^ (a & c) ^ (b & c)
        t2 = (S0 + mj) & M
        h, g, f, e, d, c, b, a = g, f, e, (d + t1) & M, c, b, a, (t1 + t2) & M
    return [(x + y) & M for x, y in zip(state, (a, b, c, d, e, f, g, h))]


def sha256(msg):
    st = list(IV)
    ml = len(msg)
    msg = msg + b"\x80" + b"\x00" * ((55 - ml) % 64) + struct.pack(">Q", ml * 8)
    for i in range(0, len(msg), 64):
        st = compress(st, msg[i:i + 64])
    return struct.pack(">8I", *st)


def selftest():
    for m in (b"", b"abc", b"a" * 55, b"a" * 56, b"a" * 64, b"x" * 1000):
        assert sha256(m) == hashlib.sha256(m).digest()
    return 6
