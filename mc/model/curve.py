"""Reference group law y^2 = x^3 + b over GF(p); affine, big integers.
Parametrised so the same model serves secp256k1 and the small test groups."""
import hashlib

P = 2**256 - 2**32 - 977
N = 0xFFFFFFFFFFFFFFFFFFFFFFFFFFFFFFFEBAAEDCE6AF48A03BBFD25E8CD0364141
GX = 0x79BE667EF9DCBBAC55A06295CE870B07029BFCDB2DCE28D959F2815B16F81798
GY = 0x483ADA7726A3C4655DA4FBFC0E1108A8FD17B448A68554199C47D08FFB10D4B8
BETA = 0x7ae96a2b657c07106e64479eac3434e99cf0497512f58995c1396c28719501ee
LAMBDA = 0x5363ad4cc05c30e0a5261c028812645a122e22ea20816678df02967c1b23bd72


def b32(x):
    return int(x).to_bytes(32, "big")


def i32(b):
    return int.from_bytes(b, "big")


class Curve:
    def __init__(self, p, b, G, n, name="secp256k1"):
        self.p, self.b, self.G, self.n, self.name = p, b, G, n, name
        self._gtab = None

    # ---- field helpers
    def inv(self, x):
        return pow(x, -1, self.p)

    def sqrt(self, a):
        """square root mod p (p = 3 mod 4) or None"""
        a %= self.p
        r = pow(a, (self.p + 1) // 4, self.p)
        return r if r * r % self.p == a else None

    def is_square(self, a):
        a %= self.p
        return a == 0 or pow(a, (self.p - 1) // 2, self.p) == 1

    def on_curve(self, pt):
        if pt is None:
            return True
        x, y = pt
        return (y * y - x * x * x - self.b) % self.p == 0

    # ---- group law; None = infinity
    def add(self, A, Bp):
        if A is None:
            return Bp
        if Bp is None:
            return A
        p = self.p
        x1, y1 = A
        x2, y2 = Bp
        if x1 == x2:
            if (y1 + y2) % p == 0:
                return None
            lam = 3 * x1 * x1 * pow(2 * y1, -1, p) % p
        else:
            lam = (y2 - y1) * pow(x2 - x1, -1, p) % p
        x3 = (lam * lam - x1 - x2) % p
        return (x3, (lam * (x1 - x3) - y1) % p)

    def neg(self, A):
        return None if A is None else (A[0], (-A[1]) % self.p)

    def sub(self, A, Bp):
        return self.add(A, self.neg(Bp))

    # Jacobian helpers (speed only; results are converted back to affine and the
    # affine law above stays the definition - see selftest())
    def _jdbl(self, X, Y, Z):
        p = self.p
        if Y == 0 or Z == 0:
            return (0, 1, 0)
        S = 4 * X * Y * Y % p
        M = 3 * X * X % p
        X3 = (M * M - 2 * S) % p
        Y3 = (M * (S - X3) - 8 * pow(Y, 4, p)) % p
        Z3 = 2 * Y * Z % p
        return (X3, Y3, Z3)

    def _jadd_affine(self, X1, Y1, Z1, x2, y2):
        p = self.p
        if Z1 == 0:
            return (x2, y2, 1)
        Z1Z1 = Z1 * Z1 % p
        U2 = x2 * Z1Z1 % p
        S2 = y2 * Z1 * Z1Z1 % p
        H = (U2 - X1) % p
        R = (S2 - Y1) % p
        if H == 0:
            if R == 0:
                return self._jdbl(X1, Y1, Z1)
            return (0, 1, 0)
        HH = H * H % p
        HHH = H * HH % p
        V = X1 * HH % p
        X3 = (R * R - HHH - 2 * V) % p
        Y3 = (R * (V - X3) - Y1 * HHH) % p
        Z3 = Z1 * H % p
        return (X3, Y3, Z3)

    def _jaff(self, J):
        X, Y, Z = J
        if Z == 0:
            return None
        zi = pow(Z, -1, self.p)
        zi2 = zi * zi % self.p
        return (X * zi2 % self.p, Y * zi2 * zi % self.p)

    def mul(self, k, A):
        """k*A for any integer k (not reduced: callers pass what they mean)"""
        if A is None or k == 0:
            return None
        if k < 0:
            return self.mul(-k, self.neg(A))
        if k < 16:
            R = None
            for _ in range(k):
                R = self.add(R, A)
            return R
        # 4-bit fixed window, affine table
        tab = [None, A]
        for j in range(2, 16):
            tab.append(self.add(tab[-1], A))
        J = (0, 1, 0)
        nib = []
        while k:
            nib.append(k & 15)
            k >>= 4
        for d in reversed(nib):
            J = self._jdbl(*self._jdbl(*self._jdbl(*self._jdbl(*J))))
            if d and tab[d] is not None:
                J = self._jadd_affine(J[0], J[1], J[2], tab[d][0], tab[d][1])
        return self._jaff(J)

    def mulG(self, k):
        k %= self.n
        if self._gtab is None:
            tab = []
            base = self.G
            for w in range(64):
                row = [None]
                for j in range(1, 16):
                    row.append(self.add(row[-1], base))
                tab.append(row)
                base = self.add(row[15], base)
            self._gtab = tab
        J = (0, 1, 0)
        w = 0
        while k:
            d = k & 15
            if d:
                e = self._gtab[w][d]
                if e is not None:
                    J = self._jadd_affine(J[0], J[1], J[2], e[0], e[1])
            k >>= 4
            w += 1
        return self._jaff(J)

    def mul_slow(self, k, A):
        """textbook double-and-add with the affine law (used by the model self-test)"""
        R = None
        Q = A
        while k:
            if k & 1:
                R = self.add(R, Q)
            Q = self.add(Q, Q)
            k >>= 1
        return R

    def lift_x(self, x, odd=None):
        """point with this x (x already < p); y even unless odd=1; None if not on curve"""
        if x >= self.p:
            return None
        y = self.sqrt(x * x * x + self.b)
        if y is None:
            return None
        if odd is None:
            odd = 0
        if (y & 1) != odd:
            y = self.p - y
        return (x, y)

    # ---- codecs
    def ser_compressed(self, A):
        return bytes([2 + (A[1] & 1)]) + b32(A[0])

    def ser_uncompressed(self, A):
        return b"\x04" + b32(A[0]) + b32(A[1])

    def ser_xonly(self, A):
        return b32(A[0])

    def parse_pubkey(self, s):
        """strict SEC1 parser incl. hybrid; returns point or None"""
        if len(s) == 33 and s[0] in (2, 3):
            x = i32(s[1:])
            if x >= self.p:
                return None
            return self.lift_x(x, s[0] & 1)
        if len(s) == 65 and s[0] in (4, 6, 7):
            x, y = i32(s[1:33]), i32(s[33:])
            if x >= self.p or y >= self.p:
                return None
            if not self.on_curve((x, y)):
                return None
            if s[0] in (6, 7) and (y & 1) != (s[0] & 1):
                return None
            return (x, y)
        return None


SECP = Curve(P, 7, (GX, GY), N)


def small_curve(order, G):
    b = {7: 6, 13: 2, 199: 4}[order]
    c = Curve(P, b, G, order, name="sg%d" % order)
    assert c.on_curve(G) and c.mul(order, G) is None and c.mul(1, G) is not None
    return c


try:  # CPython's built-in SHA-256: hashlib's OpenSSL binding is ~50x slower under the preloaded ASan runtime
    from _sha256 import sha256 as _sha256_new
except ImportError:  # pragma: no cover
    _sha256_new = hashlib.sha256


def sha256(b):
    return _sha256_new(b).digest()


def sha256_new(b=b""):
    return _sha256_new(b)


def tagged_hash(tag, msg):
    t = sha256(tag)
    return sha256(t + t + msg)
