"""Reference model of the Bulletproofs++ norm argument and of the NUMS generator lists.

Written from the protocol description (Eagen, Kanjalkar, Ruffing, Nick: "Bulletproofs++", the
norm-linear argument; the conventions this module documents in bppp_norm_product_impl.h: weights
mu = rho^2, even/odd index split, points X and R per round, 65-byte pair encoding) -- NOT from the
verifier's flattened s_g/s_h computation: the model verifier *folds* generators round by round, the
way the protocol is defined, and only at the end compares one group equation.

Relation proved:    C = v*G + <n, Gv> + <l, Hv>,     v = |n|^2_mu + <c, l>,   |n|^2_mu = sum mu^(i+1) n_i^2
One round (vectors split into even-index half "0" and odd-index half "1"; a side of length 1 is not
folded and its rho/mu stay put):
    X  = (2 rho^-1 <n0,n1>_{mu^2} + <c0,l1> + <c1,l0>) G + <rho n1, G0> + <rho^-1 n0, G1> + <l1,H0> + <l0,H1>
    R  = (|n1|^2_{mu^2} + <c1,l1>) G + <n1,G1> + <l1,H1>
    gamma = H(transcript || ser65(X,R) || le64(0))  mod order
    n' = rho^-1 n0 + gamma n1,  l' = l0 + gamma l1,  c' = c0 + gamma c1
    G' = rho G0 + gamma G1,     H' = H0 + gamma H1,  C' = C + gamma X + (gamma^2 - 1) R
    rho' = rho^2 (= mu), mu' = mu^2
Final: proof carries n, l (one scalar each);  accept iff  C_final = (mu_final n^2 + c l) G + n G_0 + l H_0.

Group elements are handled as `LP` pairs (k, P) meaning k*G + P (P affine or None): generators with a
known discrete logarithm make the whole model scalar arithmetic; unknown points fall back to the
affine group law of model/curve.py.  Both representations denote the same group element -- selftest()
replays the stored vectors through both.
"""
import hashlib, re, struct
from .curve import SECP, Curve, b32, i32, sha256
from .ecdsa import RFC6979

TAG = b"Bulletproofs_pp/v0/commitment"


# ------------------------------------------------------------------ lazy group elements k*G + P
class LP:
    __slots__ = ("k", "P")

    def __init__(self, k=0, P=None):
        self.k, self.P = k, P


def lp_dl(k):
    return LP(k, None)


def lp_pt(P):
    return LP(0, P)


INF = LP(0, None)


def lp_add(C, A, B):
    return LP((A.k + B.k) % C.n, C.add(A.P, B.P) if (A.P is not None and B.P is not None) else (A.P or B.P))


def lp_mul(C, s, A):
    s %= C.n
    return LP(s * A.k % C.n, C.mul(s, A.P) if A.P is not None else None)


def lp_neg(C, A):
    return LP((-A.k) % C.n, C.neg(A.P))


def lp_affine(C, A):
    """the affine point (or None) this element denotes"""
    return C.add(C.mulG(A.k) if A.k % C.n else None, A.P)


def lp_eq(C, A, B):
    return lp_affine(C, lp_add(C, A, lp_neg(C, B))) is None


def lp_sum(C, terms):
    """sum of s_i * A_i for (s_i, A_i) in terms"""
    k, P = 0, None
    for s, A in terms:
        s %= C.n
        k += s * A.k
        if A.P is not None and s:
            P = C.add(P, C.mul(s, A.P))
    return LP(k % C.n, P)


# ------------------------------------------------------------------ transcript
class Transcript:
    """running SHA-256 over the bytes the parent protocol and the rounds have written"""

    def __init__(self, prefix=b"", tagged=False):
        self.h = hashlib.sha256()
        if tagged:
            t = sha256(TAG)
            self.h.update(t + t)
        self.h.update(bytes(prefix))

    def write(self, data):
        self.h.update(bytes(data))

    def challenge(self, order, idx=0):
        h = self.h.copy()
        h.update(struct.pack("<Q", idx))
        return i32(h.digest()) % order

    def copy(self):
        t = Transcript()
        t.h = self.h.copy()
        return t


# ------------------------------------------------------------------ 65-byte encoding of two points
def ser_two_points(X, R):
    """byte 0 = 2*parity(X.y) + parity(R.y); then X.x, R.x; infinity = 32 zero bytes with parity 0"""
    b0 = 0
    out = b""
    for i, Q in enumerate((X, R)):
        if Q is None:
            out += b"\x00" * 32
        else:
            b0 |= (Q[1] & 1) << (1 - i)
            out += b32(Q[0])
    return bytes([b0]) + out


def parse_one_of_points(in65, idx, C=SECP, lenient=()):
    """(ok, point).  Strict rules: byte 0 <= 3; x all-zero means infinity and then its parity bit must be 0;
    otherwise x < p and on the curve.  `lenient` (a set of names) switches single rules off -- used only to
    CONSTRUCT inputs a sloppy decoder would accept; the real verdict is always the strict one."""
    b0 = in65[0]
    if b0 > 3:
        if "sign" not in lenient:
            return False, None
        b0 &= 3
    xb = bytes(in65[1 + 32 * idx: 33 + 32 * idx])
    par = (b0 >> (1 - idx)) & 1
    if xb == b"\x00" * 32:
        if par and "infsign" not in lenient:
            return False, None
        return True, None
    x = i32(xb)
    if x >= C.p:
        if "xmod" not in lenient:
            return False, None
        x -= C.p
    Q = C.lift_x(x, par)
    if Q is None:
        return False, None
    return True, Q


# ------------------------------------------------------------------ arithmetic of the relation
def wnorm(nv, mu, q):
    """|n|^2_mu = sum_{i>=0} mu^(i+1) n_i^2"""
    acc, w = 0, mu % q
    for x in nv:
        acc += w * x * x
        w = w * mu % q
    return acc % q


def wip(a, b, mu, q):
    acc, w = 0, mu % q
    for x, y in zip(a, b):
        acc += w * x * y
        w = w * mu % q
    return acc % q


def ip(a, b, q):
    return sum(x * y for x, y in zip(a, b)) % q


def commit(C, gens, nv, lv, cv, mu):
    """v*G + <n,G> + <l,H> with v = |n|^2_mu + <c,l>; gens = list of LP (first len(nv) are the G side)"""
    q = C.n
    assert len(gens) == len(nv) + len(lv) and len(cv) == len(lv)
    v = (wnorm(nv, mu, q) + ip(cv, lv, q)) % q
    return lp_add(C, lp_dl(v), lp_sum(C, list(zip(list(nv) + list(lv), gens))))


def rounds(g_len, h_len):
    return max(g_len.bit_length(), h_len.bit_length()) - 1


def proof_len(g_len, h_len):
    return 65 * rounds(g_len, h_len) + 64


def is_pow2(k):
    return k > 0 and k & (k - 1) == 0


# ------------------------------------------------------------------ prover
def prove(C, transcript, rho, gens, nv, lv, cv):
    """proof bytes for power-of-two |n|, |l| = |c|, rho != 0.  `transcript` is advanced."""
    q = C.n
    nv, lv, cv = [x % q for x in nv], [x % q for x in lv], [x % q for x in cv]
    G, H = list(gens[:len(nv)]), list(gens[len(nv):])
    assert is_pow2(len(nv)) and is_pow2(len(lv)) and len(cv) == len(lv) == len(H) and rho % q
    rho %= q
    out = b""
    while len(nv) > 1 or len(lv) > 1:
        mu = rho * rho % q
        mu2 = mu * mu % q
        rinv = pow(rho, -1, q)
        fn, fl = len(nv) > 1, len(lv) > 1
        n0, n1, G0, G1 = (nv[0::2], nv[1::2], G[0::2], G[1::2]) if fn else ([], [], [], [])
        l0, l1, c0, c1, H0, H1 = (lv[0::2], lv[1::2], cv[0::2], cv[1::2], H[0::2], H[1::2]) if fl else ([], [], [], [], [], [])
        xv = (2 * rinv * wip(n0, n1, mu2, q) + ip(c0, l1, q) + ip(c1, l0, q)) % q
        X = lp_add(C, lp_dl(xv), lp_sum(C, [(rho * a, g) for a, g in zip(n1, G0)] + [(rinv * a, g) for a, g in zip(n0, G1)] +
                                           list(zip(l1, H0)) + list(zip(l0, H1))))
        rv = (wnorm(n1, mu2, q) + ip(c1, l1, q)) % q
        R = lp_add(C, lp_dl(rv), lp_sum(C, list(zip(n1, G1)) + list(zip(l1, H1))))
        chunk = ser_two_points(lp_affine(C, X), lp_affine(C, R))
        out += chunk
        transcript.write(chunk)
        gamma = transcript.challenge(q)
        if fn:
            nv = [(rinv * a + gamma * b) % q for a, b in zip(n0, n1)]
            G = [lp_add(C, lp_mul(C, rho, a), lp_mul(C, gamma, b)) for a, b in zip(G0, G1)]
            rho = mu
        if fl:
            lv = [(a + gamma * b) % q for a, b in zip(l0, l1)]
            cv = [(a + gamma * b) % q for a, b in zip(c0, c1)]
            H = [lp_add(C, a, lp_mul(C, gamma, b)) for a, b in zip(H0, H1)]
    return out + b32(nv[0]) + b32(lv[0])


# ------------------------------------------------------------------ verifier
_ROUND_MEMO = {}


def _fold(C, proof, transcript, rho, gens, g_len, cv, lenient):
    """Common part of verify / commitment_for: returns None if the statement or the proof is malformed,
    else (D, T): D = sum_i gamma_i X_i + (gamma_i^2 - 1) R_i and T = right-hand side of the final equation."""
    q = C.n
    h_len = len(cv)
    if g_len == 0 or h_len == 0:
        return None
    if not is_pow2(g_len) or not is_pow2(h_len):
        return None
    if len(gens) != g_len + h_len:
        return None
    r = rounds(g_len, h_len)
    if len(proof) != 65 * r + 64:
        if not ("trail" in lenient and len(proof) > 65 * r + 64):
            return None
    nf, lf = i32(proof[65 * r: 65 * r + 32]), i32(proof[65 * r + 32: 65 * r + 64])
    if nf >= q or lf >= q:
        if "scmod" not in lenient:
            return None
        nf, lf = nf % q, lf % q
    rho %= q
    G, H, cv = list(gens[:g_len]), list(gens[g_len:]), [x % q for x in cv]
    if rho == 0:
        if "rho0-inv0" in lenient:      # a verifier computing with 0^-1 := 0 loses the whole G side and the norm term
            G = [INF] * g_len
        elif "rho0-spec" not in lenient:
            return None
    D = INF
    for i in range(r):
        chunk = proof[65 * i: 65 * i + 65]
        okx, X = parse_one_of_points(chunk, 0, C, lenient)
        okr, R = parse_one_of_points(chunk, 1, C, lenient)
        if not (okx and okr):
            return None
        transcript.write(chunk)
        gamma = transcript.challenge(q)
        key = (C.name, C.G, gamma, X, R)          # pure-function cache: neighbouring cases share rounds
        Di = _ROUND_MEMO.get(key)
        if Di is None:
            Di = lp_add(C, lp_mul(C, gamma, lp_pt(X)), lp_mul(C, gamma * gamma - 1, lp_pt(R)))
            if len(_ROUND_MEMO) >= 4096:
                _ROUND_MEMO.clear()
            _ROUND_MEMO[key] = Di
        D = lp_add(C, D, Di)
        if len(G) > 1:
            G = [lp_add(C, lp_mul(C, rho, a), lp_mul(C, gamma, b)) for a, b in zip(G[0::2], G[1::2])]
            rho = rho * rho % q
        if len(H) > 1:
            H = [lp_add(C, a, lp_mul(C, gamma, b)) for a, b in zip(H[0::2], H[1::2])]
            cv = [(a + gamma * b) % q for a, b in zip(cv[0::2], cv[1::2])]
    mu = rho * rho % q
    v = (mu * nf * nf + cv[0] * lf) % q
    T = lp_add(C, lp_dl(v), lp_add(C, lp_mul(C, nf, G[0]), lp_mul(C, lf, H[0])))
    return D, T


def verify(C, proof, transcript, rho, gens, g_len, cv, commitment, lenient=()):
    """True iff the proof is well-formed for the statement and the final equation holds.
    commitment: LP.  `transcript` is advanced.  rho is an integer already reduced by the caller (a
    secp256k1_scalar argument in the library); rho = 0 is rejected."""
    ft = _fold(C, proof, transcript, rho, gens, g_len, cv, lenient)
    if ft is None:
        return False
    D, T = ft
    return lp_eq(C, lp_add(C, commitment, D), T)


def commitment_for(C, proof, transcript, rho, gens, g_len, cv, lenient=()):
    """The unique commitment (LP) for which `proof` satisfies the final equation, or None if the proof is
    malformed (under the given leniency).  Lets the checks build accepting instances around chosen bytes."""
    ft = _fold(C, proof, transcript, rho, gens, g_len, cv, lenient)
    if ft is None:
        return None
    D, T = ft
    return lp_add(C, T, lp_neg(C, D))


def verifier_scratch_need(g_len, h_len, scalar_size, alignment):
    """bytes of scratch the verifier reserves before its multi-exponentiations: one scalar per round, per G
    generator, per H generator and per rho^-1 power (log2 |G|), each block rounded up to the alignment"""
    def up(x):
        return -(-x // alignment) * alignment
    lg = g_len.bit_length() - 1
    return up(rounds(g_len, h_len) * scalar_size) + up(g_len * scalar_size) + up(h_len * scalar_size) + up(lg * scalar_size)


# ------------------------------------------------------------------ NUMS generators
def _svdw(t, C=SECP):
    """Shallue-van de Woestijne map as specified for the generator module (Fouque-Tibouchi 2012):
       c = sqrt(-3) (the root that is itself a square; pinned by the fixed generator vector: with -c the
       candidates x1 and x2 swap), d = (c-1)/2, w = c t/(1+b+t^2),
       x1 = d - t w, x2 = -(x1+1), x3 = 1 + 1/w^2, with 1/0 := 0; first x_i on the curve, y = the root that
       is itself a square, negated iff t is odd."""
    p, b = C.p, C.b
    c = C.sqrt(p - 3)
    d = (c - 1) * pow(2, -1, p) % p
    inv0 = lambda a: pow(a, -1, p) if a % p else 0
    w = c * t * inv0(1 + b + t * t) % p
    x1 = (d - t * w) % p
    for x in (x1, (-x1 - 1) % p, (1 + inv0(w * w)) % p):
        y = C.sqrt(x * x * x + b)
        if y is not None:
            return (x, (p - y) % p if t & 1 else y)
    raise AssertionError("svdw: no candidate on the curve")


def generator_generate(seed32, C=SECP):
    """svdw(SHA256("1st generation: "||seed)) + svdw(SHA256("2nd generation: "||seed))"""
    pts = []
    for pre in (b"1st generation: ", b"2nd generation: "):
        t = i32(sha256(pre + bytes(seed32)))
        assert t < C.p, "hash >= p (negligible)"
        pts.append(_svdw(t, C))
    Q = C.add(pts[0], pts[1])
    assert Q is not None
    return Q


def generators(count, C=SECP):
    """The first `count` NUMS generators: seeds are consecutive 32-byte outputs of the RFC 6979 HMAC-SHA256
    generator keyed with G.x||G.y (secp256k1's G)."""
    rng = RFC6979(b32(C.G[0]) + b32(C.G[1]))
    return [generator_generate(rng.generate(32), C) for _ in range(count)]


def generator_ser(Q, C=SECP):
    """33 bytes: 0x0a if y is a square, 0x0b otherwise; then x"""
    return bytes([10 if C.is_square(Q[1]) else 11]) + b32(Q[0])


def generator_parse(b33, C=SECP):
    """point or None: prefix 0x0a/0x0b, x < p, on the curve; y = the square root, negated for 0x0b"""
    if len(b33) != 33 or (b33[0] & 0xFE) != 10:
        return None
    x = i32(b33[1:])
    if x >= C.p:
        return None
    y = C.sqrt(x * x * x + C.b)
    if y is None:
        return None
    return (x, (C.p - y) % C.p if b33[0] & 1 else y)


def generators_parse(data, C=SECP):
    """list of points or None (length not a multiple of 33, or any entry invalid)"""
    if len(data) % 33:
        return None
    out = []
    for i in range(0, len(data), 33):
        Q = generator_parse(data[i:i + 33], C)
        if Q is None:
            return None
        out.append(Q)
    return out


# ------------------------------------------------------------------ self test on the vectors shipped in /repo
def _arrays(text):
    """name -> bytes (flat) for every `static const unsigned char NAME[..]... = {...};` and name -> int for size_t/int"""
    arr, val = {}, {}
    for m in re.finditer(r"static const unsigned char (\w+)((?:\[\d*\])+) = \{(.*?)\};", text, flags=re.S):
        arr[m.group(1)] = bytes(int(t, 16) for t in re.findall(r"0x([0-9A-Fa-f]{2})", m.group(3)))
    for m in re.finditer(r"static const (?:size_t|int) (\w+) = (\d+);", text):
        val[m.group(1)] = int(m.group(2))
    return arr, val


def _split32(b):
    return [i32(b[i:i + 32]) for i in range(0, len(b), 32)]


def selftest(repo="/repo"):
    """Replays the stored prove / verify vectors and the fixed generator vector through the MODEL ONLY.
    Returns the number of assertions made; raises AssertionError on any disagreement."""
    C = SECP
    d = repo + "/src/modules/bppp/"
    cnt = 0
    # --- verify vectors (generators are plain compressed points; transcript = empty SHA-256)
    arr, val = _arrays(open(d + "test_vectors/verify.h").read())
    gens = [C.parse_pubkey(arr["verify_vector_gens"][i:i + 33]) for i in range(0, 264, 33)]
    assert all(g is not None for g in gens)
    nvec = 0
    while "verify_vector_%d_proof" % nvec in arr:
        k = "verify_vector_%d_" % nvec
        cv = _split32(arr[k + "c_vec32"])
        g_len = val[k + "n_vec_len"]
        c33 = arr[k + "commit33"]
        cm = None if c33 == b"\x00" * 33 else C.parse_pubkey(c33)
        assert c33 == b"\x00" * 33 or cm is not None
        rho = i32(arr[k + "r32"])
        assert rho < C.n and all(x < C.n for x in cv)
        gl = [lp_pt(g) for g in gens[:g_len + len(cv)]]
        got = verify(C, arr[k + "proof"], Transcript(), rho, gl, g_len, cv, lp_pt(cm))
        assert got == bool(val[k + "result"]), "verify vector %d: model %r, stored %d" % (nvec, got, val[k + "result"])
        if got:
            cf = commitment_for(C, arr[k + "proof"], Transcript(), rho, gl, g_len, cv)
            assert lp_affine(C, cf) == cm, "commitment_for differs on verify vector %d" % nvec
            cnt += 1
        cnt += 1
        nvec += 1
    assert nvec == 13
    # --- prove vectors: byte-identical proofs, and they verify against the model commitment
    arr, val = _arrays(open(d + "test_vectors/prove.h").read())
    gens = [C.parse_pubkey(arr["prove_vector_gens"][i:i + 33]) for i in range(0, 264, 33)]
    nvec = 0
    while "prove_vector_%d_proof" % nvec in arr:
        k = "prove_vector_%d_" % nvec
        nv, lv, cv = _split32(arr[k + "n_vec32"]), _split32(arr[k + "l_vec32"]), _split32(arr[k + "c_vec32"])
        rho = i32(arr[k + "r32"])
        assert val[k + "result"] == 1
        gl = [lp_pt(g) for g in gens[:len(nv) + len(lv)]]
        pf = prove(C, Transcript(), rho, gl, nv, lv, cv)
        assert pf == arr[k + "proof"], "prove vector %d: model proof differs" % nvec
        assert len(pf) == proof_len(len(nv), len(lv))
        cm = commit(C, gl, nv, lv, cv, rho * rho % C.n)
        assert verify(C, pf, Transcript(), rho, gl, len(nv), cv, cm)
        cnt += 3
        nvec += 1
    assert nvec == 5
    # --- known-discrete-log representation agrees with the point representation
    q = C.n
    ks = [3, 5, q - 2, 7, 11, 2**200 + 1]
    gp = [lp_pt(C.mulG(k)) for k in ks]
    gd = [lp_dl(k) for k in ks]
    nv, lv, cv, rho = [q - 1, 2], [5, 0, q - 3, 9], [1, q - 1, 2**128, 4], 2**64 + 3
    p1 = prove(C, Transcript(b"ab"), rho, gp, nv, lv, cv)
    p2 = prove(C, Transcript(b"ab"), rho, gd, nv, lv, cv)
    assert p1 == p2 and len(p1) == 65 * 2 + 64
    c1 = commit(C, gp, nv, lv, cv, rho * rho % q)
    c2 = commit(C, gd, nv, lv, cv, rho * rho % q)
    assert lp_affine(C, c1) == lp_affine(C, c2)
    assert verify(C, p1, Transcript(b"ab"), rho, gp, 2, cv, c2) and verify(C, p1, Transcript(b"ab"), rho, gd, 2, cv, c1)
    bad = bytearray(p1)
    bad[-1] ^= 1
    assert not verify(C, bytes(bad), Transcript(b"ab"), rho, gd, 2, cv, c1)
    assert not verify(C, p1, Transcript(b"ac"), rho, gd, 2, cv, c1)      # another transcript, other challenges
    assert lp_affine(C, commitment_for(C, bytes(bad), Transcript(b"ab"), rho, gd, 2, cv)) != lp_affine(C, c1)
    cnt += 7
    # --- transcript: the two challenge vectors of test_bppp_tagged_hash
    t = Transcript(tagged=True)
    assert b32(t.challenge(q)) == bytes.fromhex("212FB64F9D8C3BC5F69115EE74F512678A41C6851A7914FC4815C72DF8638F1B")
    t.write(bytes([0, 1, 2]))
    assert b32(t.challenge(q)) == bytes.fromhex("8DAAB77E3C6A9EEC727E3EB71003F0E9694DAA96CE98BB391C2F7C2E1C17786D")
    cnt += 2
    # --- generators: first three, fixed in test_bppp_generators_fixed
    txt = open(d + "tests_impl.h").read()
    seg = txt[txt.index("fixed_first_3[99]"):]
    seg = seg[:seg.index("};")]
    fixed = bytes(int(x, 16) for x in re.findall(r"0x([0-9a-fA-F]{2})", seg))
    assert len(fixed) == 99
    g3 = generators(3)
    assert b"".join(generator_ser(g) for g in g3) == fixed, "model generators differ from the fixed vector"
    assert generators_parse(fixed) == g3 and generators_parse(fixed[:-1]) is None
    cnt += 2
    # --- the 34 Shallue-van de Woestijne vectors of the generator module (t = i, -i for i = 0..16)
    txt = open(repo + "/src/modules/generator/tests_impl.h").read()
    seg = txt[txt.index("test_shallue_van_de_woestijne"):txt.index("static void test_generator_generate")]
    vec = []
    for m in re.finditer(r"SECP256K1_GE_STORAGE_CONST\(([^)]*)\)", seg):
        w = [int(t, 16) for t in m.group(1).replace(" ", "").replace("\n", "").split(",")]
        vec.append((int("".join("%08x" % x for x in w[:8]), 16), int("".join("%08x" % x for x in w[8:]), 16)))
    assert len(vec) == 34
    for i in range(17):
        assert _svdw(i) == vec[2 * i] and _svdw((-i) % C.p) == vec[2 * i + 1], "svdw vector %d" % i
        cnt += 2
    return cnt
