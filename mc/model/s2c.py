"""ECDSA sign-to-contract and the ECDSA anti-exfil protocol: reference model (secp256k1 only).

Written from the module header (include/secp256k1_ecdsa_s2c.h) and the scheme it cites:

  original nonce   k0 = RFC6979(key || msg mod n || H_data(data))          (library's default nonce function, first value in [1, n-1])
  opening          R0 = k0*G
  commitment tweak t  = H_point(ser33(R0) || data)                         (refused when t >= n or k0 + t == 0)
  signing nonce    k  = k0 + t,  signature = ECDSA(key, msg, k), low-S
  verify_commit(sig, data, P):  (P + H_point(ser33(P) || data)*G).x mod n == sig.r
  anti-exfil: host_commit(rho) = H_data(rho); signer_commit(msg, key, c) = RFC6979(key || msg mod n || c)*G;
              sign(msg, key, rho) = s2c_sign with data = rho; host_verify = verify_commit and ecdsa_verify

H_data / H_point are BIP-340 style tagged SHA-256 with tags "s2c/ecdsa/data" / "s2c/ecdsa/point".
"""
from .curve import SECP, b32, i32, tagged_hash
from . import ecdsa as E

TAG_DATA = b"s2c/ecdsa/data"
TAG_POINT = b"s2c/ecdsa/point"
C = SECP


def data_hash(data32):
    return tagged_hash(TAG_DATA, bytes(data32))


def commit_tweak(P, data32):
    return tagged_hash(TAG_POINT, C.ser_compressed(P) + bytes(data32))


def ec_commit(P, data32):
    """P + H(P, data)*G, or None (tweak out of range / result at infinity)"""
    if P is None:
        return None
    t = i32(commit_tweak(P, data32))
    if t >= C.n:
        return None
    return C.add(P, C.mulG(t))


def original_nonce(key32, msg32, extra32):
    """first RFC 6979 output in [1, n-1] for (key, msg mod n, extra)"""
    cnt = 0
    while True:
        k = i32(E.nonce_rfc6979(bytes(key32), bytes(msg32), bytes(extra32), None, cnt))
        if 0 < k < C.n:
            return k
        cnt += 1


# ------------------------------------------------------------------ opening codec
def opening_parse(b):
    """33-byte compressed point or None"""
    b = bytes(b)
    if len(b) != 33 or b[0] not in (2, 3):
        return None
    return C.parse_pubkey(b)


def opening_serialize(P):
    return C.ser_compressed(P)


# ------------------------------------------------------------------ sign to contract
def s2c_sign(key32, msg32, data32):
    """(r, s, opening point) or None (invalid key / tweak refused)"""
    d = i32(key32)
    if not (0 < d < C.n):
        return None
    k0 = original_nonce(key32, msg32, data_hash(data32))
    R0 = C.mulG(k0)
    t = i32(commit_tweak(R0, data32))
    if t >= C.n:
        return None
    k = (k0 + t) % C.n
    if k == 0:
        return None
    res = E.sign_with_nonce(d, i32(msg32) % C.n, k)
    if res is None:
        raise RuntimeError("r == 0 or s == 0 (cryptographically unreachable) - not modelled")
    return res[0], res[1], R0


def verify_commit(r, data32, P):
    """r: the signature's r as integer in [0, n); P: opening point"""
    Q = ec_commit(P, data32)
    if Q is None:
        return False
    return Q[0] % C.n == r


# ------------------------------------------------------------------ anti-exfil protocol
def host_commit(rand32):
    return data_hash(rand32)


def signer_commit(msg32, key32, rand_commitment32):
    """the signer's original public nonce for this (message, key, host commitment)"""
    return C.mulG(original_nonce(key32, msg32, rand_commitment32))


def anti_exfil_sign(key32, msg32, host_data32):
    res = s2c_sign(key32, msg32, host_data32)
    return None if res is None else res[:2]


def host_verify(r, s, msg32, Q, host_data32, P):
    return verify_commit(r, host_data32, P) and E.verify_rs(r, s, i32(msg32), Q)


# ------------------------------------------------------------------ self-test on the vectors shipped in the repository
def selftest(repo="/repo"):
    import os, re
    src = open(os.path.join(repo, "src/modules/ecdsa_s2c/tests_impl.h")).read()
    tab = src[src.index("static ecdsa_s2c_test ecdsa_s2c_tests[] = {"):src.index("static void test_ecdsa_s2c_fixed_vectors(void)")]
    arrs = [bytes(int(t, 16) for t in re.findall(r"0x([0-9a-fA-F]{2})", g)) for g in re.findall(r"\{((?:\s*0x[0-9a-fA-F]{2},?)+)\s*\}", tab)]
    assert len(arrs) == 6 and [len(a) for a in arrs] == [32, 33, 33] * 2, "s2c fixture table not found"
    key, msg = b"\x55" * 32, b"\x88" * 32
    cnt = 0
    for i in range(0, 6, 3):
        data, op, exfil = arrs[i:i + 3]
        r, s, R0 = s2c_sign(key, msg, data)
        assert opening_serialize(R0) == op
        assert verify_commit(r, data, R0) and s <= C.n // 2 and E.verify_rs(r, s, i32(msg), C.mulG(i32(key)))
        assert opening_serialize(signer_commit(msg, key, data)) == exfil
        assert opening_parse(op) == R0 and not verify_commit(r, exfil[1:], R0) and not verify_commit(r, data, C.neg(R0))
        # protocol: the signer's commitment for host_commit(rho) is the opening of the signature for rho
        assert signer_commit(msg, key, host_commit(data)) == R0
        cnt += 5
    return cnt
