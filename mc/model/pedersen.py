"""Reference model of the generator / Pedersen-commitment module.

Written from the module's specification (include/secp256k1_generator.h, the construction described in
the comments of src/modules/generator/main_impl.h, sage/shallue_van_de_woestijne.sage and the paper
Fouque-Tibouchi, "Indifferentiable Hashing to Barreto-Naehrig Curves", Latincrypt 2012), on top of the
affine group law of model/curve.py.  Everything is parametrised by a `Curve` so the small test groups
(y^2 = x^3 + b over the same field, subgroup of order 7/13/199) are served by the same code.

Conventions: scalars and values are Python ints, points are (x, y) tuples or None (= infinity),
encodings are bytes.  A function returns None where the library call is specified to fail.

Square roots: p = 3 mod 4, so every square a has exactly one root that is itself a square,
a^((p+1)/4) ("the quadratic-residue root", Curve.sqrt).  Both codecs are defined through it:
prefix bit 0 <=> y is that root.
"""
import re
from .curve import P, N, SECP, Curve, b32, i32, sha256

PREFIX1 = b"1st generation: "
PREFIX2 = b"2nd generation: "

# The historical generator 'h': x = SHA256 of the uncompressed encoding of G, lifted to the curve (see the
# sage snippet in main_impl.h); the derivation of x is checked in selftest().
GENERATOR_H = (0x50929b74c1a04954b78b4b6035e97a5e078a5a0f28ec96d547bfee9ace803ac0,
               0x31d3c6863973926e049e637cb1b5f40a36dac28af1766968c30c2313f3a38904)


# ------------------------------------------------------------------ Shallue - van de Woestijne
def _inv0(a, p):
    """field inverse with 1/0 := 0 (the convention the module specifies for t = 0)"""
    a %= p
    return 0 if a == 0 else pow(a, -1, p)


def svdw_constants(C=SECP):
    """(c, d): c = sqrt(-3), the quadratic-residue root (this is the root the module's constants use; pinned
    by the published test vectors), d = (c - 1)/2"""
    p = C.p
    c = C.sqrt(-3 % p)
    assert c is not None
    d = (c - 1) * pow(2, -1, p) % p
    return c, d


def svdw(t, C=SECP):
    """Map a field element t (0 <= t < p) to a curve point.
         w  = c*t / (1 + b + t^2)
         x1 = d - t*w,  x2 = -(x1 + 1),  x3 = 1 + 1/w^2          (division by zero yields zero)
       The result has x = the first x_i for which x_i^3 + b is a square; y = its quadratic-residue root,
       negated when t is odd.  Returns None if no candidate is on the curve (impossible on secp256k1)."""
    p, b = C.p, C.b
    assert 0 <= t < p
    c, d = svdw_constants(C)
    w = c * t % p * _inv0(1 + b + t * t, p) % p
    x1 = (d - t * w) % p
    x2 = (-(x1 + 1)) % p
    x3 = (1 + _inv0(w * w, p)) % p
    for x in (x1, x2, x3):
        y = C.sqrt(x * x * x + b)
        if y is not None:
            if t & 1:
                y = (p - y) % p
            return (x, y)
    return None


def hash_to_field(prefix, seed32, C=SECP):
    """SHA256(prefix || seed) read as a big-endian integer; None if it is not a field element (>= p)"""
    assert len(prefix) == 16 and len(seed32) == 32
    t = i32(sha256(prefix + bytes(seed32)))
    return t if t < C.p else None


def generator_generate(seed32, C=SECP):
    """svdw(H("1st generation: "||seed)) + svdw(H("2nd generation: "||seed)); None on the (negligible)
    failures: a hash >= p, or the sum being infinity"""
    return generator_generate_blinded(seed32, 0, C)


def generator_generate_blinded(seed32, blind, C=SECP):
    """generator_generate(seed) + blind*G; None if blind >= n (or on generator_generate's failures)"""
    if not 0 <= blind < C.n:
        return None
    t1 = hash_to_field(PREFIX1, seed32, C)
    t2 = hash_to_field(PREFIX2, seed32, C)
    if t1 is None or t2 is None:
        return None
    A1, A2 = svdw(t1, C), svdw(t2, C)
    if A1 is None or A2 is None:
        return None
    return C.add(C.add(C.mulG(blind), A1), A2)


# ------------------------------------------------------------------ codecs
def _y_is_qr_root(pt, C):
    return C.is_square(pt[1])


def _parse(b33, base, C):
    b33 = bytes(b33)
    if len(b33) != 33 or (b33[0] & 0xFE) != base:
        return None
    x = i32(b33[1:])
    if x >= C.p:
        return None
    y = C.sqrt(x * x * x + C.b)
    if y is None:
        return None
    if b33[0] & 1:
        y = (C.p - y) % C.p
    return (x, y)


def generator_serialize(pt, C=SECP):
    """33 bytes: 10 if y is the quadratic-residue root, 11 otherwise, then x"""
    return bytes([10 if _y_is_qr_root(pt, C) else 11]) + b32(pt[0])


def generator_parse(b33, C=SECP):
    """point or None; accepts exactly prefix 10/11, x < p, x on the curve"""
    return _parse(b33, 10, C)


def commitment_serialize(pt, C=SECP):
    """33 bytes: 8 if y is the quadratic-residue root, 9 otherwise, then x"""
    return bytes([8 if _y_is_qr_root(pt, C) else 9]) + b32(pt[0])


def commitment_parse(b33, C=SECP):
    """point or None; accepts exactly prefix 8/9, x < p, x on the curve"""
    return _parse(b33, 8, C)


# ------------------------------------------------------------------ commitments
def pedersen_commit(blind, value, H, C=SECP):
    """blind*G + value*H; None if blind >= n or the point is infinity.  value is a 64-bit unsigned integer."""
    assert 0 <= value < 2**64 and 0 <= blind < 2**256 and H is not None
    if blind >= C.n:
        return None
    return C.add(C.mulG(blind), C.mul(value % C.n, H))


def pedersen_commit_bytes(blind, value, H, C=SECP):
    """serialized commitment (33 bytes) or None"""
    pt = pedersen_commit(blind, value, H, C)
    return None if pt is None else commitment_serialize(pt, C)


def point_sum(pts, C=SECP):
    R = None
    for A in pts:
        R = C.add(R, A)
    return R


def verify_tally(pos, neg, C=SECP):
    """True iff sum(pos) - sum(neg) is the point at infinity (lists of points, may be empty)"""
    return C.add(point_sum(pos, C), C.neg(point_sum(neg, C))) is None


def blind_sum(blinds, npositive, C=SECP):
    """sum of the first npositive blinds minus the rest, mod n; None if any blind >= n"""
    assert 0 <= npositive <= len(blinds)
    acc = 0
    for i, b in enumerate(blinds):
        if not 0 <= b < C.n:
            return None
        acc += b if i < npositive else -b
    return acc % C.n


def blind_generator_blind_sum(values, generator_blinds, blinding_factors, n_inputs, C=SECP):
    """New value of the last blinding factor: r'_last - sum_i sign_i*(v_i*r_i + r'_i) with sign_i = -1 for the
    first n_inputs entries (inputs) and +1 for the others, so that afterwards the signed sum of all
    (v_i*r_i + r'_i) is 0 mod n.  None if a generator blind or blinding factor is >= n.
    Requires n_inputs < n_total = len(values)."""
    k = len(values)
    assert k == len(generator_blinds) == len(blinding_factors) and 0 <= n_inputs < k
    tot = 0
    for i in range(k):
        if not (0 <= generator_blinds[i] < C.n and 0 <= blinding_factors[i] < C.n):
            return None
        s = values[i] * generator_blinds[i] + blinding_factors[i]
        tot += -s if i < n_inputs else s
    return (blinding_factors[-1] - tot) % C.n


# ------------------------------------------------------------------ self test against the vectors in /repo
def _storage_consts(text):
    out = []
    for m in re.finditer(r"SECP256K1_GE_STORAGE_CONST\(([^)]*)\)", text):
        w = [int(t, 16) for t in m.group(1).replace(" ", "").split(",")]
        assert len(w) == 16
        x = y = 0
        for i in range(8):
            x = (x << 32) | w[i]
            y = (y << 32) | w[8 + i]
        out.append((x, y))
    return out


def selftest(tests_impl_path):
    """Replay the fixed vectors of src/modules/generator/tests_impl.h through the model only.
    Returns the number of vectors checked; raises AssertionError if the model disagrees with any."""
    text = open(tests_impl_path).read()
    C = SECP
    n = 0
    # 34 svdw vectors: t = i and t = -i for i = 0..16
    seg = text[text.index("test_shallue_van_de_woestijne"):text.index("static void test_generator_generate")]
    vec = _storage_consts(seg)
    assert len(vec) == 34
    for i in range(17):
        for s in range(2):
            t = (-i) % C.p if s else i
            pt = svdw(t, C)
            assert pt == vec[2 * i + s], "svdw vector t=%s%d" % ("-" if s else "", i)
            assert C.on_curve(pt)
            n += 1
    # 32 generate vectors: seed = 0..0||i, i = 1..32 (blinded with 0 gives the same)
    seg = text[text.index("static void test_generator_generate"):text.index("static void test_generator_fixed_vector")]
    vec = _storage_consts(seg)
    assert len(vec) == 32
    for i in range(1, 33):
        seed = b"\x00" * 31 + bytes([i])
        assert generator_generate(seed, C) == vec[i - 1], "generate vector %d" % i
        assert generator_generate_blinded(seed, 0, C) == vec[i - 1]
        n += 2
    assert generator_generate(b"\xff" * 32, C) is not None
    assert generator_generate_blinded(b"\xff" * 32, 2**256 - 1, C) is None
    # fixed encodings of 2G
    twoG = C.add(C.G, C.G)
    x2 = bytes.fromhex("c6047f9441ed7d6d3045406e95c07cd85c778e4b8cef3ca7abac09b95c709ee5")
    for base, par, ser in ((10, generator_parse, generator_serialize), (8, commitment_parse, commitment_serialize)):
        a = par(bytes([base + 1]) + x2, C)
        b = par(bytes([base]) + x2, C)
        assert a is not None and b is not None and a == C.neg(b) and twoG in (a, b)
        assert ser(a, C) == bytes([base + 1]) + x2 and ser(b, C) == bytes([base]) + x2
        assert par(bytes([base ^ 2]) + x2, C) is None and par(bytes([0x0c]) + x2, C) is None
        n += 4
    # generator h: x = SHA256(uncompressed G), on the curve
    assert GENERATOR_H[0] == i32(sha256(C.ser_uncompressed(C.G))) and C.on_curve(GENERATOR_H)
    n += 1
    # d constant published in the module (x of svdw(0)) and algebraic sanity of the model itself
    c, d = svdw_constants(C)
    assert (c * c + 3) % C.p == 0 and (2 * d + 1 - c) % C.p == 0
    assert d == 0x851695d49a83f8ef919bb86153cbcb16630fb68aed0a766a3ec693d68e6afa40
    for k in (1, 2, 5, N - 1):
        for v in (0, 1, 2**64 - 1):
            pt = pedersen_commit(k, v, GENERATOR_H, C)
            assert pt == C.add(C.mul_slow(k, C.G), C.mul_slow(v, GENERATOR_H) if v else None)
            assert commitment_parse(commitment_serialize(pt, C), C) == pt
            n += 1
    assert pedersen_commit(N, 1, GENERATOR_H, C) is None and pedersen_commit(0, 0, GENERATOR_H, C) is None
    assert verify_tally([], [], C) and not verify_tally([C.G], [], C) and verify_tally([C.G, C.G], [twoG], C)
    assert blind_sum([], 0, C) == 0 and blind_sum([1, 2], 1, C) == N - 1 and blind_sum([N], 1, C) is None
    assert blind_generator_blind_sum([3], [5], [7], 0, C) == (7 - (3 * 5 + 7)) % N
    return n
