"""BIP-340 reference (sign / verify), parametrised by curve for the small groups."""
from .curve import SECP, b32, i32, tagged_hash


def xor(a, b):
    return bytes(x ^ y for x, y in zip(a, b))


def challenge(r32, pk32, msg, C=SECP):
    return i32(tagged_hash(b"BIP0340/challenge", r32 + pk32 + msg)) % C.n


def nonce(d_even32_masked_input, aux, pk32, msg, C=SECP):
    raise NotImplementedError


def sign(seckey32, msg, aux=None, C=SECP):
    """BIP-340 default signing; aux None behaves as 32 zero bytes. Returns 64 bytes or None."""
    d0 = i32(seckey32)
    if not (1 <= d0 < C.n):
        return None
    Pt = C.mulG(d0)
    d = d0 if Pt[1] % 2 == 0 else C.n - d0
    if aux is None:
        aux = b"\x00" * 32
    t = xor(b32(d), tagged_hash(b"BIP0340/aux", aux))
    k0 = i32(tagged_hash(b"BIP0340/nonce", t + b32(Pt[0]) + msg)) % C.n
    if k0 == 0:
        return None
    R = C.mulG(k0)
    k = k0 if R[1] % 2 == 0 else C.n - k0
    e = challenge(b32(R[0]), b32(Pt[0]), msg, C)
    return b32(R[0]) + b32((k + e * d) % C.n)


def sign_with_k(d0, k0, msg, C=SECP):
    """signing core with an externally supplied nonce k0 (custom nonce function)"""
    n = C.n
    if not (1 <= d0 < n) or k0 % n == 0:
        return None
    k0 %= n
    Pt = C.mulG(d0)
    d = d0 if Pt[1] % 2 == 0 else n - d0
    R = C.mulG(k0)
    k = k0 if R[1] % 2 == 0 else n - k0
    e = challenge(b32(R[0]), b32(Pt[0]), msg, C)
    return b32(R[0]) + b32((k + e * d) % n)


def verify(pk32, msg, sig, C=SECP):
    if len(pk32) != 32 or len(sig) != 64:
        return False
    Pt = C.lift_x(i32(pk32))
    r, s = i32(sig[:32]), i32(sig[32:])
    if Pt is None or r >= C.p or s >= C.n:
        return False
    e = challenge(sig[:32], pk32, msg, C)
    R = C.add(C.mulG(s), C.mul(C.n - e, Pt))
    if R is None or R[1] % 2 != 0 or R[0] != r:
        return False
    return True
