"""BIP-327 (MuSig2) reference, written from the BIP text, parametrised by curve so that the same
model serves secp256k1 and the small test groups.  Points are affine tuples, None = infinity.

Beyond the BIP it models what the *library* adds on top (include/secp256k1_musig.h, doc/musig.md):
  * nonce_gen_counter: NonceGen with rand' = counter as 8 big-endian bytes followed by 24 zero bytes
    and sk = the keypair's secret key (which is therefore always present);
  * adaptor signatures: nonce_process with an adaptor point T uses the aggregate nonce
    (R1 + T, R2) in place of (R1, R2); nonce_parity, adapt, extract_adaptor.
Failures are reported by raising Fail (the BIP's "fail")."""
import re
from .curve import SECP, b32, i32, tagged_hash
from . import bip340


class Fail(Exception):
    pass


ZERO33 = b"\x00" * 33


# ----------------------------------------------------------------- conversions (BIP-327 "Notation")
def has_even_y(P):
    return P[1] % 2 == 0


def xbytes(P):
    return b32(P[0])


def cbytes(P, C=SECP):
    return C.ser_compressed(P)


def cbytes_ext(P, C=SECP):
    return ZERO33 if P is None else cbytes(P, C)


def cpoint(x, C=SECP):
    if len(x) != 33 or x[0] not in (2, 3):
        raise Fail("cpoint")
    P = C.parse_pubkey(x)
    if P is None:
        raise Fail("cpoint")
    if C is not SECP and C.mul(C.n, P) is not None:
        raise Fail("cpoint: not in the group")  # small test curves have cofactor > 1
    return P


def cpoint_ext(x, C=SECP):
    return None if x == ZERO33 else cpoint(x, C)


def hash_int(tag, data, C=SECP):
    return i32(tagged_hash(tag, data)) % C.n


# ----------------------------------------------------------------- key aggregation
class KeyAggCtx:
    """(Q, gacc, tacc) of the BIP plus the inputs needed for coefficients"""

    def __init__(self, Q, gacc, tacc, pks, pk2, L):
        self.Q, self.gacc, self.tacc, self.pks, self.pk2, self.L = Q, gacc, tacc, pks, pk2, L

    def copy(self):
        return KeyAggCtx(self.Q, self.gacc, self.tacc, self.pks, self.pk2, self.L)


def hash_keys(pks):
    return tagged_hash(b"KeyAgg list", b"".join(pks))


def get_second_key(pks):
    for pk in pks:
        if pk != pks[0]:
            return pk
    return ZERO33


def key_agg_coeff_internal(L, pk, pk2, C=SECP):
    if pk == pk2:
        return 1
    return hash_int(b"KeyAgg coefficient", L + pk, C)


def key_agg_coeff(pks, pk, C=SECP):
    return key_agg_coeff_internal(hash_keys(pks), pk, get_second_key(pks), C)


def key_agg(pks, C=SECP):
    """pks: list of 33-byte plain public keys (u >= 1)"""
    if len(pks) < 1:
        raise Fail("no keys")
    pk2 = get_second_key(pks)
    L = hash_keys(pks)
    Q = None
    for pk in pks:
        P = cpoint(pk, C)
        a = key_agg_coeff_internal(L, pk, pk2, C)
        Q = C.add(Q, C.mul(a, P))
    if Q is None:
        raise Fail("aggregate key is infinity")
    return KeyAggCtx(Q, 1, 0, list(pks), pk2, L)


def apply_tweak(ctx, tweak32, is_xonly, C=SECP):
    n = C.n
    g = n - 1 if (is_xonly and not has_even_y(ctx.Q)) else 1
    t = i32(tweak32)
    if t >= n:
        raise Fail("tweak out of range")
    gQ = ctx.Q if g == 1 else C.neg(ctx.Q)  # g*Q with g in {1, n-1 = -1}
    Q2 = C.add(gQ, C.mulG(t))
    if Q2 is None:
        raise Fail("tweaked key is infinity")
    return KeyAggCtx(Q2, g * ctx.gacc % n, (t + g * ctx.tacc) % n, ctx.pks, ctx.pk2, ctx.L)


def key_agg_and_tweak(pks, tweaks, C=SECP):
    """tweaks: list of (tweak32, is_xonly)"""
    ctx = key_agg(pks, C)
    for t, x in tweaks:
        ctx = apply_tweak(ctx, t, x, C)
    return ctx


# ----------------------------------------------------------------- nonce generation
def _xor(a, b):
    return bytes(x ^ y for x, y in zip(a, b))


def nonce_gen_internal(rand_, sk, pk, aggpk, msg, extra_in, C=SECP):
    """BIP-327 NonceGen with rand' given.  sk, aggpk, msg, extra_in may be None.
    Returns (secnonce 97 bytes, pubnonce 66 bytes)."""
    if sk is not None:
        rand = _xor(sk, tagged_hash(b"MuSig/aux", rand_))
    else:
        rand = rand_
    if aggpk is None:
        aggpk = b""
    if msg is None:
        msg_prefixed = b"\x00"
    else:
        msg_prefixed = b"\x01" + len(msg).to_bytes(8, "big") + msg
    if extra_in is None:
        extra_in = b""
    ks = []
    for i in range(2):
        ks.append(hash_int(b"MuSig/nonce", rand + bytes([len(pk)]) + pk + bytes([len(aggpk)]) + aggpk + msg_prefixed
                           + len(extra_in).to_bytes(4, "big") + extra_in + bytes([i]), C))
    if ks[0] == 0 or ks[1] == 0:
        raise Fail("zero nonce")
    R1, R2 = C.mulG(ks[0]), C.mulG(ks[1])
    return b32(ks[0]) + b32(ks[1]) + pk, cbytes(R1, C) + cbytes(R2, C)


def lib_nonce_gen(session_secrand32, seckey, pk33, msg32, aggpk32, extra32, C=SECP):
    """secp256k1_musig_nonce_gen as documented: fails for all-zero randomness and for a seckey
    that is present but not in [1, n-1]; otherwise NonceGen."""
    if session_secrand32 == b"\x00" * 32:
        raise Fail("zero session randomness")
    if seckey is not None and not (1 <= i32(seckey) < C.n):
        raise Fail("invalid seckey")
    return nonce_gen_internal(session_secrand32, seckey, pk33, aggpk32, msg32, extra32, C)


def counter_rand(cnt):
    if not (0 <= cnt < 2**64):
        raise ValueError
    return cnt.to_bytes(8, "big") + b"\x00" * 24


def lib_nonce_gen_counter(cnt, seckey, pk33, msg32, aggpk32, extra32, C=SECP):
    """secp256k1_musig_nonce_gen_counter: rand' = the 64-bit counter, big endian, zero padded to 32 bytes."""
    if not (1 <= i32(seckey) < C.n):
        raise Fail("invalid seckey")
    return nonce_gen_internal(counter_rand(cnt), seckey, pk33, aggpk32, msg32, extra32, C)


# ----------------------------------------------------------------- nonce aggregation
def nonce_agg(pubnonces, C=SECP):
    out = b""
    for j in (0, 1):
        R = None
        for pn in pubnonces:
            R = C.add(R, cpoint(pn[33 * j:33 * j + 33], C))
        out += cbytes_ext(R, C)
    return out


# ----------------------------------------------------------------- session
class Session:
    pass


def session_values(aggnonce, pks, tweaks, msg, C=SECP, adaptor=None, keyctx=None):
    """GetSessionValues.  adaptor: optional point T (library extension): R1 is replaced by R1 + T first."""
    kc = keyctx if keyctx is not None else key_agg_and_tweak(pks, tweaks, C)
    R1 = cpoint_ext(aggnonce[0:33], C)
    R2 = cpoint_ext(aggnonce[33:66], C)
    if adaptor is not None:
        R1 = C.add(R1, adaptor)
        aggnonce = cbytes_ext(R1, C) + cbytes_ext(R2, C)
    S = Session()
    S.kc = kc
    S.Q, S.gacc, S.tacc = kc.Q, kc.gacc, kc.tacc
    S.b = hash_int(b"MuSig/noncecoef", aggnonce + xbytes(kc.Q) + msg, C)
    Rp = C.add(R1, C.mul(S.b, R2))
    S.R = C.G if Rp is None else Rp
    S.r_was_infinity = Rp is None
    S.e = hash_int(b"BIP0340/challenge", xbytes(S.R) + xbytes(kc.Q) + msg, C)
    S.msg = msg
    S.g = 1 if has_even_y(kc.Q) else C.n - 1
    return S


def session_key_agg_coeff(S, pk, C=SECP):
    if pk not in S.kc.pks:
        raise Fail("signer key not in the key list")
    return key_agg_coeff_internal(S.kc.L, pk, S.kc.pk2, C)


def sign(secnonce, sk, S, C=SECP):
    """Sign (without the optional self-verification).  secnonce = k1 || k2 || pk (97 bytes)."""
    n = C.n
    k1_, k2_ = i32(secnonce[0:32]), i32(secnonce[32:64])
    if not (1 <= k1_ < n) or not (1 <= k2_ < n):
        raise Fail("secnonce out of range")
    k1 = k1_ if has_even_y(S.R) else n - k1_
    k2 = k2_ if has_even_y(S.R) else n - k2_
    d_ = i32(sk)
    if not (1 <= d_ < n):
        raise Fail("seckey out of range")
    P = C.mulG(d_)
    pk = cbytes(P, C)
    if pk != secnonce[64:97]:
        raise Fail("secnonce is for another key")
    a = session_key_agg_coeff(S, pk, C)
    d = S.g * S.gacc * d_ % n
    s = (k1 + S.b * k2 + S.e * a * d) % n
    return b32(s)


def partial_sig_verify(psig, pubnonce, pk, S, C=SECP):
    """PartialSigVerifyInternal: True / False; raises Fail on unparsable input"""
    n = C.n
    s = i32(psig)
    if s >= n:
        return False
    Rs1 = cpoint(pubnonce[0:33], C)
    Rs2 = cpoint(pubnonce[33:66], C)
    Re_ = C.add(Rs1, C.mul(S.b, Rs2))
    Re = Re_ if has_even_y(S.R) else C.neg(Re_)
    P = cpoint(pk, C)
    a = session_key_agg_coeff(S, pk, C)
    g_ = S.g * S.gacc % n
    return C.mulG(s) == C.add(Re, C.mul(S.e * a * g_ % n, P))


def partial_sig_verify_dlog(s, k1, k2, d, a, S, C=SECP):
    """The same equation when the discrete logs of the signer's nonce (k1, k2) and key (d) are known:
    s*G == +-(k1 + b*k2)*G + e*a*g*gacc*d*G  <=>  equality of the scalars mod n (G has order n)."""
    n = C.n
    if s >= n:
        return False
    re = (k1 + S.b * k2) % n
    if not has_even_y(S.R):
        re = (n - re) % n
    return s % n == (re + S.e * a * (S.g * S.gacc % n) * d) % n


def partial_sig_agg(psigs, S, C=SECP):
    n = C.n
    s = 0
    for ps in psigs:
        si = i32(ps)
        if si >= n:
            raise Fail("partial signature out of range")
        s = (s + si) % n
    s = (s + S.e * S.g * S.tacc) % n
    return xbytes(S.R) + b32(s)


# ----------------------------------------------------------------- adaptor extension (library)
def nonce_parity(S):
    return 0 if has_even_y(S.R) else 1


def adapt(pre_sig64, sec_adaptor32, parity, C=SECP):
    """final s = pre-signature s + t (nonce parity 0) or - t (parity 1); fails on overflowing inputs"""
    n = C.n
    s, t = i32(pre_sig64[32:]), i32(sec_adaptor32)
    if s >= n or t >= n:
        raise Fail("overflow")
    if parity:
        t = (n - t) % n
    return pre_sig64[:32] + b32((s + t) % n)


def extract_adaptor(sig64, pre_sig64, parity, C=SECP):
    n = C.n
    s, sp = i32(sig64[32:]), i32(pre_sig64[32:])
    if s >= n or sp >= n:
        raise Fail("overflow")
    t = (s - sp) % n
    if parity:
        t = (n - t) % n
    return b32(t)


# ----------------------------------------------------------------- self-test against the BIP-327 vectors in /repo
def _parse_c_initialisers(text):
    """{name: nested lists} for every 'static const struct T name = {...};' in a C header"""
    text = re.sub(r"/\*.*?\*/", "", text, flags=re.S)
    out = {}
    for m in re.finditer(r"static const struct \w+ (\w+) = ", text):
        i = m.end()
        toks = re.finditer(r"[{},;]|0[xX][0-9a-fA-F]+|\d+|[A-Za-z_]\w*", text[i:])
        stack = []
        cur = None
        for t in toks:
            s = t.group(0)
            if s == "{":
                new = []
                if cur is not None:
                    cur.append(new)
                    stack.append(cur)
                cur = new
            elif s == "}":
                if not stack:
                    break
                cur = stack.pop()
            elif s == ",":
                continue
            elif s == ";":
                break
            elif s[0].isdigit():
                cur.append(int(s, 0))
            else:
                cur.append(s)
        out[m.group(1)] = cur
    return out


def selftest(repo="/repo"):
    """Replay the BIP-327 test vectors shipped in src/modules/musig/vectors.h through the MODEL only.
    Returns the number of vector cases checked; raises AssertionError on a model bug."""
    import os
    V = _parse_c_initialisers(open(os.path.join(repo, "src/modules/musig/vectors.h")).read())
    B = bytes
    done = 0

    def fails(fn):
        try:
            fn()
        except Fail:
            return True
        return False

    # --- key aggregation
    pubkeys, tweaks, valid, err = V["musig_key_agg_vector"]
    pubkeys = [B(p) for p in pubkeys]
    tweaks = [B(t) for t in tweaks]
    for ln, idx, exp in valid:
        assert xbytes(key_agg([pubkeys[i] for i in idx[:ln]]).Q) == B(exp), "key_agg vector"
        done += 1
    for ln, idx, tl, tidx, xo, kind in err:
        assert fails(lambda: key_agg_and_tweak([pubkeys[i] for i in idx[:ln]],
                                               [(tweaks[tidx[j]], bool(xo[j])) for j in range(tl)])), "key_agg error vector"
        done += 1
    # --- nonce generation
    for c in V["musig_nonce_gen_vector"][0]:
        rand_, has_sk, sk, pk, has_ag, ag, has_m, m, has_e, e, exp_sec, exp_pub = c
        sec, pub = nonce_gen_internal(B(rand_), B(sk) if has_sk else None, B(pk), B(ag) if has_ag else None,
                                      B(m) if has_m else None, B(e) if has_e else None)
        assert sec == B(exp_sec) and pub == B(exp_pub), "nonce_gen vector"
        done += 1
    # --- nonce aggregation
    pn, valid, err = V["musig_nonce_agg_vector"]
    pn = [B(p) for p in pn]
    for idx, exp, _ in valid:
        assert nonce_agg([pn[i] for i in idx]) == B(exp), "nonce_agg vector"
        done += 1
    for idx, _, bad in err:
        assert fails(lambda: nonce_agg([pn[i] for i in idx])), "nonce_agg error vector"
        done += 1
    # --- sign / verify
    sk, pubkeys, secn, pubn, aggn, msgs, valid, serr, vfail, verr = V["musig_sign_verify_vector"]
    sk = B(sk)
    pubkeys = [B(p) for p in pubkeys]
    secn = [B(s)[:97] for s in secn]
    pubn = [B(p)[:66] for p in pubn]
    aggn = [B(a) for a in aggn]
    msgs = [B(m) for m in msgs]
    for ln, idx, ai, mi, si, exp in valid:
        pks = [pubkeys[i] for i in idx[:ln]]
        S = session_values(aggn[ai], pks, [], msgs[mi])
        ps = sign(secn[0], sk, S)
        assert ps == B(exp), "sign vector"
        assert partial_sig_verify(ps, pubn[0], pubkeys[0], S) is True, "verify of sign vector"
        # the scalar form of the verification equation agrees with the point form
        a = session_key_agg_coeff(S, pubkeys[0])
        assert partial_sig_verify_dlog(i32(ps), i32(secn[0][:32]), i32(secn[0][32:64]), i32(sk), a, S)
        assert not partial_sig_verify_dlog((i32(ps) + 1) % SECP.n, i32(secn[0][:32]), i32(secn[0][32:64]), i32(sk), a, S)
        done += 1
    for ln, idx, ai, mi, sni, kind in serr:
        assert fails(lambda: sign(secn[sni], sk, session_values(aggn[ai], [pubkeys[i] for i in idx[:ln]], [], msgs[mi]))), "sign error vector"
        done += 1
    for sig, kl, kidx, nl, nidx, mi, si, kind in vfail:
        pks = [pubkeys[i] for i in kidx[:kl]]
        pns = [pubn[i] for i in nidx[:nl]]
        S = session_values(nonce_agg(pns), pks, [], msgs[mi])
        assert partial_sig_verify(B(sig), pns[si], pks[si], S) is False, "verify-fail vector"
        done += 1
    for sig, kl, kidx, nl, nidx, mi, si, kind in verr:
        def f():
            pks = [pubkeys[i] for i in kidx[:kl]]
            pns = [pubn[i] for i in nidx[:nl]]
            S = session_values(nonce_agg(pns), pks, [], msgs[mi])
            partial_sig_verify(B(sig), pns[si], pks[si], S)
        assert fails(f), "verify error vector"
        done += 1
    # --- tweaks
    sk, secnonce, aggnonce, msg, pubkeys, pubn, tweaks, valid, err = V["musig_tweak_vector"]
    sk, secnonce, aggnonce, msg = B(sk), B(secnonce), B(aggnonce), B(msg)
    pubkeys = [B(p) for p in pubkeys]
    pubn = [B(p)[:66] for p in pubn]
    tweaks = [B(t) for t in tweaks]
    for kl, kidx, nl, nidx, tl, tidx, xo, si, exp in valid:
        pks = [pubkeys[i] for i in kidx[:kl]]
        tw = [(tweaks[tidx[j]], bool(xo[j])) for j in range(tl)]
        assert nonce_agg([pubn[i] for i in nidx[:nl]]) == aggnonce
        S = session_values(aggnonce, pks, tw, msg)
        ps = sign(secnonce, sk, S)
        assert ps == B(exp), "tweak vector"
        assert partial_sig_verify(ps, pubn[nidx[si]], pks[si], S) is True
        done += 1
    for kl, kidx, nl, nidx, tl, tidx, xo, si, exp in err:
        assert fails(lambda: session_values(aggnonce, [pubkeys[i] for i in kidx[:kl]],
                                            [(tweaks[tidx[j]], bool(xo[j])) for j in range(tl)], msg)), "tweak error vector"
        done += 1
    # --- signature aggregation (final signature must be a valid BIP-340 signature)
    pubkeys, tweaks, psigs, msg, valid, err = V["musig_sig_agg_vector"]
    pubkeys = [B(p) for p in pubkeys]
    tweaks = [B(t) for t in tweaks]
    psigs = [B(p) for p in psigs]
    msg = B(msg)
    for c in valid + err:
        kl, kidx, tl, tidx, xo, aggnonce, pl, pidx, exp = c[:9]
        pks = [pubkeys[i] for i in kidx[:kl]]
        tw = [(tweaks[tidx[j]], bool(xo[j])) for j in range(tl)]
        S = session_values(B(aggnonce), pks, tw, msg)
        if c in err:
            assert fails(lambda: partial_sig_agg([psigs[i] for i in pidx[:pl]], S)), "sig_agg error vector"
        else:
            sig = partial_sig_agg([psigs[i] for i in pidx[:pl]], S)
            assert sig == B(exp), "sig_agg vector"
            assert bip340.verify(xbytes(S.Q), msg, sig), "sig_agg vector is not a valid BIP-340 signature"
        done += 1
    # --- adaptor algebra: adapt / extract are inverse, and an adapted pre-signature is a valid signature
    C = SECP
    d1, d2, t = 0x1111, 0x2222, 0x3333
    pks = [cbytes(C.mulG(d1)), cbytes(C.mulG(d2))]
    T = C.mulG(t)
    m = b"\x07" * 32
    for tw in ([], [(b32(5), True)], [(b32(9), True), (b32(6), True)]):
        for kk in range(1, 5):
            sn = [b32(kk) + b32(kk + 10) + pks[0], b32(kk + 20) + b32(kk + 30) + pks[1]]
            pn = [cbytes(C.mulG(i32(x[:32]))) + cbytes(C.mulG(i32(x[32:64]))) for x in sn]
            S = session_values(nonce_agg(pn), pks, tw, m, adaptor=T)
            ps = [sign(sn[0], b32(d1), S), sign(sn[1], b32(d2), S)]
            assert partial_sig_verify(ps[0], pn[0], pks[0], S) and partial_sig_verify(ps[1], pn[1], pks[1], S)
            assert not partial_sig_verify(ps[0], pn[1], pks[0], S)
            pre = partial_sig_agg(ps, S)
            par = nonce_parity(S)
            sig = adapt(pre, b32(t), par)
            assert bip340.verify(xbytes(S.Q), m, sig), "adapted signature invalid"
            assert not bip340.verify(xbytes(S.Q), m, adapt(pre, b32(t), 1 - par))
            assert extract_adaptor(sig, pre, par) == b32(t)
            done += 1
    return done
