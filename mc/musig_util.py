"""Helpers shared by the MuSig checks (C12, C13): object construction through the real API."""
import ctypes
from ctypes import c_void_p, c_int, c_uint64, byref
from .lib import buf
from .model.curve import SECP, b32, i32
from .util import pubkey_from_point, is_zero

SZ_CACHE, SZ_SECNONCE, SZ_PUBNONCE, SZ_AGGNONCE, SZ_SESSION, SZ_PSIG, SZ_KEYPAIR = 197, 132, 132, 132, 133, 36, 96


def check_sizes(L):
    exp = [SZ_CACHE, SZ_SECNONCE, SZ_PUBNONCE, SZ_AGGNONCE, SZ_SESSION, SZ_PSIG, SZ_KEYPAIR, 64, 64]
    got = [L.verif_musig_sizeof(i) for i in range(9)]
    assert got == exp, "opaque object sizes changed: %r" % got


def ptrs(objs):
    """array of pointers to ctypes buffers (keeps nothing alive: the caller holds objs)"""
    return (c_void_p * len(objs))(*[ctypes.addressof(o) for o in objs])


def keypair(L, d, C=SECP, pts=None):
    """keypair object for secret key d via the real constructor"""
    kp = buf(SZ_KEYPAIR)
    ok = L.keypair_create(L.ctx, kp, b32(d))
    assert ok == 1, "keypair_create failed for a valid key"
    return kp


def pubnonce_ser(L, pn):
    out = buf(66)
    assert L.musig_pubnonce_serialize(L.ctx, out, pn) == 1
    return out.raw


def aggnonce_ser(L, an):
    out = buf(66)
    assert L.musig_aggnonce_serialize(L.ctx, out, an) == 1
    return out.raw


def psig_ser(L, ps):
    out = buf(32)
    assert L.musig_partial_sig_serialize(L.ctx, out, ps) == 1
    return out.raw


def pubnonce_parse(L, ser66):
    pn = buf(SZ_PUBNONCE)
    assert L.musig_pubnonce_parse(L.ctx, pn, ser66) == 1, "model pubnonce rejected by the parser"
    return pn


def cache_read(L, cache):
    """dict of the keyagg cache internals via the library's own load function"""
    o = buf(194)
    assert L.verif_musig_keyagg_cache_read(L.ctx, o, cache) == 1
    r = o.raw
    return {"Q": (i32(r[0:32]), i32(r[32:64])),
            "second": None if r[64] else (i32(r[65:97]), i32(r[97:129])),
            "L": r[129:161], "parity_acc": r[161], "tweak": i32(r[162:194])}


def session_read(L, session):
    o = buf(129)
    assert L.verif_musig_session_read(L.ctx, o, session) == 1
    r = o.raw
    return {"parity": r[0], "rx": r[1:33], "b": i32(r[33:65]), "e": i32(r[65:97]), "s_part": i32(r[97:129])}


def secnonce_read(L, sn):
    """None if the magic is absent, else (k1, k2, (x, y))"""
    o = buf(128)
    if not L.verif_musig_secnonce_read(o, sn):
        return None
    r = o.raw
    return (i32(r[0:32]), i32(r[32:64]), (i32(r[64:96]), i32(r[96:128])))


def secnonce_write(L, k1, k2, pk_obj):
    sn = buf(SZ_SECNONCE)
    assert L.verif_musig_secnonce_write(L.ctx, sn, b32(k1), b32(k2), pk_obj) == 1
    return sn
