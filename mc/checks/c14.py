"""C14 ECDSA adaptor signatures are consistent end-to-end and verified exactly.
E1: encrypt -> verify -> decrypt -> ecdsa_verify -> recover (both s twins) over boundary keys / messages /
nonce sources on secp256k1, byte-compared with the adaptor model; E5: every single-bit flip and structured
substitution of the 162-byte adaptor signature, message, keys and completed signature, each decided by the
model; E2: the whole scalar / point space of the order-13 group (all honest pipelines, all (s', e, s) triples
incl. non-canonical encodings, all decrypt / recover inputs)."""
import sys, os, ctypes, itertools
from ctypes import c_int, c_void_p, c_size_t, c_uint32, byref, CFUNCTYPE, POINTER, string_at, memmove
from ..core import Run, run_phase, hx, seeded_fillers
from ..util import *
from ..model import adaptor as A
from ..model import ecdsa as E
from ..model import sha256_compress as SC
from ..model.curve import Curve
from .. import build as B

PID = "C14"
_L = {}
HN = CFUNCTYPE(c_int, c_void_p, c_void_p, c_void_p, c_void_p, c_void_p, c_size_t, c_void_p)
COMPRESS_FN = CFUNCTYPE(None, POINTER(c_uint32), c_void_p, c_size_t)
M256 = 2**256 - 1


def lib(cfg):
    if cfg not in _L:
        _L[cfg] = Lib(cfg)
    return _L[cfg]


def build_retry(names, tries=4):
    """build_many, retried: a concurrent builder whose view of mc/shim differs (someone just added a wrap_cNN.h)
    may remove the directory being written ('drop stale builds' in build.py)"""
    import time, os
    for t in range(tries):
        try:
            B._src_hash_cache = None
            B.build_many(names)
            for c in names:
                lib(c)      # dlopen in the parent: forked workers keep the mapping even if the cache directory is removed meanwhile
            return
        except (SystemExit, OSError):
            if t == tries - 1:
                raise
            if t == tries - 2:   # last resort: a cache directory nobody else cleans
                B.BUILD = os.path.join(B.BUILD, "own-" + PID.lower())
                os.makedirs(B.BUILD, exist_ok=True)
            time.sleep(2 + 3 * t)


def is_verify_build(L):
    return "verify=1" in L.config_str


def _py_compress(state, blocks, nblocks):
    st = [state[i] for i in range(8)]
    data = string_at(blocks, 64 * nblocks)
    for i in range(nblocks):
        st = SC.compress(st, data[64 * i:64 * i + 64])
    for i in range(8):
        state[i] = st[i]


_PYC = COMPRESS_FN(_py_compress)


def extra_contexts(L):
    """[(name, ctx)]: the plain context, a randomised one, one with a replaced (correct) SHA-256 compression"""
    if not hasattr(L, "_c14ctx"):
        c1 = L.context_create(1)
        assert L.context_randomize(c1, seeded_fillers(1, b"c14ctx")[0]) == 1
        c2 = L.context_create(1)
        L.context_set_sha256_compression(c2, _PYC)
        assert L.illegal == 0
        L._c14ctx = [("plain", L.ctx), ("randomized", c1), ("pysha", c2)]
    return L._c14ctx


# ------------------------------------------------------------------ nonce sources
class NonceCB:
    """hardened nonce callback backed by a Python function fn(msg32, key32, pk33, algo) -> 32 bytes | None; records its arguments"""

    def __init__(self, fn):
        self.calls = []
        self.err = None

        def raw(nonce32, msg32, key32, pk33, algo, algolen, data):
            try:
                al = string_at(algo, algolen) if algo else None
                c = (string_at(msg32, 32), string_at(key32, 32), string_at(pk33, 33), al)
                self.calls.append(c + (data,))
                out = fn(*c)
                if out is None:
                    return 0
                memmove(nonce32, out, 32)
                return 1
            except BaseException as e:  # never let an exception be swallowed by ctypes
                self.err = repr(e)
                return 0
        self.cb = HN(raw)


def mode_fn(mode):
    """model-side nonce function of a mode descriptor"""
    kind = mode[0]
    if kind in ("default", "defptr"):
        return A.default_noncefn(mode[1])
    if kind == "const":
        k1, k2 = mode[1], mode[2]
        return lambda msg, key, pk, algo: k1 if algo == A.ALGO_ADAPTOR else k2
    if kind == "fail":  # callback returns 0 for this algo
        bad = mode[1]
        return lambda msg, key, pk, algo: None if algo == bad else b32(7 if algo == A.ALGO_ADAPTOR else 9)
    raise ValueError(mode)


def lib_nonce_args(L, mode):
    """(noncefp, ndata, keepalive, NonceCB or None) for the real call"""
    kind = mode[0]
    if kind == "default":
        nd = buf(mode[1]) if mode[1] is not None else None
        return None, nd, nd, None
    if kind == "defptr":
        nd = buf(mode[1]) if mode[1] is not None else None
        return L.var_ptr("secp256k1_nonce_function_ecdsa_adaptor"), nd, nd, None
    cb = NonceCB(mode_fn(mode))
    nd = buf(b"ndata-passthrough")
    return cb.cb, nd, (cb, nd), cb


# ------------------------------------------------------------------ E1 pipeline
def pipe_setup(cfgs):
    def f():
        return [lib(c) for c in cfgs]
    return f


def do_encrypt(L, ctx, x, pkY, m32, mode):
    fp, nd, keep, cb = lib_nonce_args(L, mode)
    out = buf(b"\xa5" * 162)
    key = buf(b32(x))
    ret = L.ecdsa_adaptor_encrypt(ctx, out, key, pkY, m32, fp, nd)
    return ret, out.raw, cb, (ctypes.addressof(nd) if nd is not None else None), key.raw


def pipeline_case(libs, case, st):
    x, y, m32, mode = case
    C, n = SECP, N
    Y = C.mulG(y)
    trace = []
    exp = A.encrypt(b32(x), Y, m32, mode_fn(mode), C, trace)
    X = C.mulG(x) if 0 < x < n else None
    info = {"x": hex(x), "y": hex(y), "msg": hx(m32), "mode": [mode[0]] + [hx(v) if isinstance(v, bytes) else v for v in mode[1:]]}
    st.count("encrypt-ok" if exp else "encrypt-refused")
    if exp:
        st.nt(("enc", x, y, m32, mode))
        ok, why = A.verify(exp, X, m32, Y, C)
        rs = A.decrypt(exp, b32(y), C)
        if not ok or rs is None or rs[1] > n // 2 or not E.verify_rs(rs[0], rs[1], i32(m32), X) or \
                A.recover(rs[0], rs[1], exp, Y) != y or A.recover(rs[0], n - rs[1], exp, Y) != y:
            raise RuntimeError("model inconsistent with itself on %r" % (info,))
    for L in libs:
        info["cfg"] = L.config
        pkY = pubkey_from_point(L, Y)
        for cname, ctx in extra_contexts(L):
            if cname != "plain" and mode[0] == "fail":
                continue
            ret, out, cb, ndaddr, keyafter = do_encrypt(L, ctx, x, pkY, m32, mode)
            st.calls += 1
            if cb is not None and cb.err:
                raise RuntimeError("nonce callback raised " + cb.err)
            if keyafter != b32(x):
                st.fail("encrypt modified the caller's secret key buffer", dict(info, ctx=cname))
            if exp is None:
                if ret != 0 or not is_zero(out):
                    st.fail("encrypt must fail with an all-zero adaptor signature: ret=%d out=%s" % (ret, hx(out)[:40]), dict(info, ctx=cname))
                if cb is not None and (not cb.calls or cb.calls[0][:4] != trace[0]):
                    st.fail("nonce callback arguments of the first call differ from the specification", dict(info, ctx=cname))
                continue
            if ret != 1 or out != exp:
                st.fail("encrypt differs from model: ret=%d got=%s model=%s" % (ret, hx(out), hx(exp)), dict(info, ctx=cname))
                continue
            if cb is not None:
                if [c[:4] for c in cb.calls] != trace:
                    st.fail("nonce callback called with other arguments / another number of times than specified (%d calls, model %d)"
                            % (len(cb.calls), len(trace)), dict(info, ctx=cname))
                if any(c[4] != ndaddr for c in cb.calls):
                    st.fail("ndata pointer not passed through to the nonce callback", dict(info, ctx=cname))
            pkX = pubkey_from_point(L, X)
            v = L.ecdsa_adaptor_verify(ctx, out, pkX, m32, pkY)
            st.calls += 1
            if v != 1:
                st.fail("own adaptor signature does not verify", dict(info, ctx=cname))
            sig = buf(b"\x5a" * 64)
            d = L.ecdsa_adaptor_decrypt(ctx, sig, b32(y), out)
            comp = sig_compact(L, sig)
            st.calls += 2
            if d != 1 or comp != b32(rs[0]) + b32(rs[1]):
                st.fail("decrypt differs from model: ret=%d sig=%s model=%s" % (d, hx(comp), hx(b32(rs[0]) + b32(rs[1]))), dict(info, ctx=cname))
                continue
            if i32(comp[32:]) > n // 2:
                st.fail("decrypted signature is not low-S", dict(info, ctx=cname))
            if L.ecdsa_verify(ctx, sig, m32, pkX) != 1:
                st.fail("decrypted signature does not pass ecdsa_verify", dict(info, ctx=cname))
            st.calls += 1
            for nm, sg in (("low", sig), ("twin", sig_from_rs(L, rs[0], n - rs[1]))):
                dk = buf(b"\x77" * 32)
                r = L.ecdsa_adaptor_recover(ctx, dk, sg, out, pkY)
                st.calls += 1
                if r != 1 or dk.raw != b32(y):
                    st.fail("recover from the %s-s signature: ret=%d key=%s, expected the decryption key" % (nm, r, hx(dk.raw)), dict(info, ctx=cname))
            if cname != "plain":
                continue
            # decrypt with unusable keys -> 0 and zeroed signature
            for bad in (0, n, n + 1, M256):
                sig2 = buf(b"\x5a" * 64)
                d = L.ecdsa_adaptor_decrypt(ctx, sig2, b32(bad), out)
                st.calls += 1
                if d != 0 or not is_zero(sig2.raw):
                    st.fail("decrypt with key %s must return 0 and a zeroed signature (ret=%d)" % (hex(bad), d), info)
            # decrypt with another valid key: still a (r, s'), but not a valid signature and not recoverable
            y2 = y + 1 if y + 1 < n else 1
            sig2 = buf(64)
            d = L.ecdsa_adaptor_decrypt(ctx, sig2, b32(y2), out)
            e2 = A.decrypt(exp, b32(y2))
            st.calls += 3
            c2 = sig_compact(L, sig2)
            if d != 1 or c2 != b32(e2[0]) + b32(e2[1]):
                st.fail("decrypt with a foreign key differs from model", info)
            else:
                ev = 1 if E.verify_rs(e2[0], e2[1], i32(m32), X) else 0
                if L.ecdsa_verify(ctx, sig2, m32, pkX) != ev:
                    st.fail("signature decrypted with a foreign key: ecdsa_verify differs from model %d" % ev, info)
                dk = buf(32)
                r = L.ecdsa_adaptor_recover(ctx, dk, sig2, out, pkY)
                er = A.recover(e2[0], e2[1], exp, Y)
                if (r == 1) != (er is not None) or (er is not None and dk.raw != b32(er)):
                    st.fail("recover from a signature decrypted with a foreign key: ret=%d model=%r" % (r, er), info)
                st.count("foreign-key-recover-%s" % ("ok" if er is not None else "refused"))
            # recover against other encryption keys
            for nm, Y2 in (("-Y", C.neg(Y)), ("Y+G", C.add(Y, C.G)), ("X", X)):
                if Y2 is None:
                    continue
                dk = buf(32)
                r = L.ecdsa_adaptor_recover(ctx, dk, sig, out, pubkey_from_point(L, Y2))
                er = A.recover(rs[0], rs[1], exp, Y2)
                st.calls += 1
                st.count("recover-enckey%s-%s" % (nm, "ok" if er is not None else "refused"))
                if (r == 1) != (er is not None) or (er is not None and dk.raw != b32(er)):
                    st.fail("recover with encryption key %s: ret=%d key=%s model=%r" % (nm, r, hx(dk.raw), er), info)
        if L.illegal or L.errors:
            st.fail("callback fired on legal input", info)
            L.cb_reset()
    st.sample(dict(info, adaptor_sig=hx(exp)))


# ------------------------------------------------------------------ E5 mutations
def adaptor_mutants(a, C=SECP):
    n, p = C.n, C.p
    out = []
    for i in range(1296):
        b = bytearray(a)
        b[i >> 3] ^= 1 << (i & 7)
        out.append(("flip", bytes(b)))
    for off, nm in ((66, "s'"), (98, "e"), (130, "s")):
        v = i32(a[off:off + 32])
        for tag, w in (("0", 0), ("1", 1), ("n-1", n - 1), ("n", n), ("n+1", n + 1), ("+n", v + n), ("neg", (n - v) % n), ("max", M256),
                       ("+1", (v + 1) % n), ("-1", (v - 1) % n), ("half", (n - 1) // 2), ("p", p)):
            if 0 <= w <= M256 and w != v:
                out.append((nm + ":=" + tag, a[:off] + b32(w) + a[off + 32:]))
    for off, nm in ((0, "R"), (33, "R'")):
        pref, x = a[off], i32(a[off + 1:off + 33])
        for pf in (0, 1, 4, 5, 6, 7, 0x82, 0x83, 0xff, pref ^ 1):
            out.append((nm + ":prefix", a[:off] + bytes([pf]) + a[off + 1:]))
        xs = [0, 1, p - 1, p, p + 1, M256, C.G[0], n]
        if x + p <= M256:
            xs.append(x + p)
        t = x + 1
        while C.lift_x(t % p) is not None:
            t += 1
        xs.append(t % p)          # nearest off-curve x
        t = x + 1
        while C.lift_x(t % p) is None:
            t += 1
        xs.append(t % p)          # nearest other on-curve x
        for xx in xs:
            for pf in (pref, pref ^ 1):
                out.append((nm + ":x", a[:off] + bytes([pf]) + b32(xx) + a[off + 33:]))
        out.append((nm + ":zero", a[:off] + bytes(33) + a[off + 33:]))
    R, Rp, sp, e, s = a[:33], a[33:66], a[66:98], a[98:130], a[130:]
    G33 = C.ser_compressed(C.G)
    for tag, b in (("swapRR'", Rp + R + sp + e + s), ("R:=R'", Rp + Rp + sp + e + s), ("R':=R", R + R + sp + e + s), ("swap-e-s", R + Rp + sp + s + e),
                   ("swap-s'-s", R + Rp + s + e + sp), ("swap-s'-e", R + Rp + e + sp + s), ("R:=G", G33 + Rp + sp + e + s), ("R':=G", R + G33 + sp + e + s),
                   ("zero", bytes(162)), ("ones", b"\xff" * 162)):
        out.append((tag, b))
    return out


def mut_ops(x, y, m32, a, rs):
    """operation list for one honest adaptor signature (deterministic order; sharded by index)"""
    C, n = SECP, N
    ops = []
    for tag, b in adaptor_mutants(a):
        ops.append(("V", tag, b, "X", m32, "Y"))
        ops.append(("D", tag, b, b32(y)))
        ops.append(("R", tag, b, rs, "Y"))
        if tag != "flip":
            ops.append(("R", tag + "/twin", b, (rs[0], n - rs[1]), "Y"))
    m = i32(m32)
    for i in range(256):
        ops.append(("V", "msgflip", a, "X", b32(m ^ (1 << i)), "Y"))
    for alt in (m + n, m - n, (m % n), (m % n) + n, (m + 1) & M256, (n - m % n) % n):
        if 0 <= alt <= M256 and alt != m:
            ops.append(("V", "msg-alt", a, "X", b32(alt), "Y"))
    for xs in ("-X", "X+G", "Y", "G"):
        ops.append(("V", "pubkey:=" + xs, a, xs, m32, "Y"))
    for ys in ("-Y", "Y+G", "X", "G"):
        ops.append(("V", "enckey:=" + ys, a, "X", m32, ys))
        ops.append(("R", "enckey:=" + ys, a, rs, ys))
    # completed signature: every single-bit flip, boundary substitutions
    comp = b32(rs[0]) + b32(rs[1])
    for i in range(512):
        b = bytearray(comp)
        b[i >> 3] ^= 1 << (i & 7)
        ops.append(("R", "sigflip", a, (i32(b[:32]), i32(b[32:])), "Y"))
    for r2 in (0, 1, n - 1, (rs[0] + 1) % n, n - rs[0]):
        ops.append(("R", "sig-r", a, (r2, rs[1]), "Y"))
    for s2 in (0, 1, n - 1, (rs[1] + 1) % n, (n - rs[1] + 1) % n, (n - 1) // 2, (n + 1) // 2):
        ops.append(("R", "sig-s", a, (rs[0], s2), "Y"))
    for dk in (0, 1, n - 1, n, n + y, M256, n - y, (y + 1) % n):
        if 0 <= dk <= M256:
            ops.append(("D", "deckey", a, b32(dk)))
    # unrelated but perfectly valid signatures: an ordinary ECDSA signature of the same key and message, and the completed
    # signature of another adaptor signature (other nonce) for the same keys and message
    u = E.sign(b32(x), m32)
    ops.append(("R", "unrelated-ecdsa", a, (u[0], u[1]), "Y"))
    ops.append(("R", "unrelated-ecdsa/twin", a, (u[0], n - u[1]), "Y"))
    a2 = A.encrypt(b32(x), SECP.mulG(y), m32, lambda msg, key, pk, algo: b32(3 if algo == A.ALGO_ADAPTOR else 4))
    if a2 is not None and a2 != a:
        rs2 = A.decrypt(a2, b32(y))
        ops.append(("R", "other-adaptor-signature", a, rs2, "Y"))
        ops.append(("R", "other-adaptor/this-signature", a2, rs, "Y"))
        ops.append(("R", "other-adaptor/own-signature", a2, rs2, "Y"))
    return ops


def mut_case(libs, case, st):
    x, y, m32, mode, shard, nshards = case
    C, n = SECP, N
    Y, X = C.mulG(y), C.mulG(x)
    a = A.encrypt(b32(x), Y, m32, mode_fn(mode), C)
    assert a is not None
    rs = A.decrypt(a, b32(y))
    pts = {"X": X, "Y": Y, "-X": C.neg(X), "-Y": C.neg(Y), "X+G": C.add(X, C.G), "Y+G": C.add(Y, C.G), "G": C.G}
    ops = mut_ops(x, y, m32, a, rs)[shard::nshards]
    memo = {}
    pk = [{k: pubkey_from_point(L, v) for k, v in pts.items() if v is not None} for L in libs]
    if shard == 0:
        for li, L in enumerate(libs):   # anchor: the library produces this very adaptor signature
            ret, out, _, _, _ = do_encrypt(L, L.ctx, x, pk[li]["Y"], m32, mode)
            st.calls += 1
            if ret != 1 or out != a:
                st.fail("encrypt differs from model", {"cfg": L.config, "x": hex(x), "y": hex(y), "msg": hx(m32)})
    for op in ops:
        kind, tag = op[0], op[1]
        if kind == "V":
            _, _, b, xs, mm, ys = op
            if pts[xs] is None or pts[ys] is None:
                continue
            ok, why = A.verify(b, pts[xs], mm, pts[ys], C, memo)
            st.count("verify/%s/%s" % (tag if tag == "flip" or tag.startswith("msg") else "subst", why))
            if ok:
                st.nt(("V", b, xs, mm, ys))
            for li, L in enumerate(libs):
                got = L.ecdsa_adaptor_verify(L.ctx, b, pk[li][xs], mm, pk[li][ys])
                st.calls += 1
                if got != (1 if ok else 0):
                    st.fail("adaptor_verify=%d model=%s (%s) on mutation %s" % (got, ok, why, tag),
                            {"cfg": L.config, "adaptor_sig": hx(b), "honest": hx(a), "msg": hx(mm), "pubkey": xs, "enckey": ys,
                             "x": hex(x), "y": hex(y)})
        elif kind == "D":
            _, _, b, dk = op
            e = A.decrypt(b, dk)
            st.count("decrypt/%s" % ("ok" if e else "refused"))
            if e:
                st.nt(("D", b, dk))
            for L in libs:
                sig = buf(b"\x5a" * 64)
                got = L.ecdsa_adaptor_decrypt(L.ctx, sig, dk, b)
                st.calls += 1
                if e is None:
                    if got != 0 or not is_zero(sig.raw):
                        st.fail("decrypt must refuse (ret 0, zeroed signature) on mutation %s: ret=%d" % (tag, got),
                                {"cfg": L.config, "adaptor_sig": hx(b), "deckey": hx(dk)})
                else:
                    comp = sig_compact(L, sig)
                    if got != 1 or comp != b32(e[0]) + b32(e[1]):
                        st.fail("decrypt differs from model on mutation %s: ret=%d sig=%s model=%s" % (tag, got, hx(comp), hx(b32(e[0]) + b32(e[1]))),
                                {"cfg": L.config, "adaptor_sig": hx(b), "deckey": hx(dk)})
        else:
            _, _, b, (r2, s2), ys = op
            if pts[ys] is None:
                continue
            e = A.recover(r2, s2, b, pts[ys])
            st.count("recover/%s" % ("ok" if e is not None else "refused"))
            if e is not None:
                st.nt(("R", b, r2, s2, ys))
            for li, L in enumerate(libs):
                if s2 == 0 and is_verify_build(L):
                    continue  # s == 0 trips a VERIFY_CHECK in test-only builds (reported separately); production returns 0
                dk = buf(b"\x77" * 32)
                got = L.ecdsa_adaptor_recover(L.ctx, dk, sig_from_rs(L, r2, s2), b, pk[li][ys])
                st.calls += 1
                if (got == 1) != (e is not None) or (e is not None and dk.raw != b32(e)):
                    st.fail("recover: ret=%d key=%s, model %s on mutation %s" % (got, hx(dk.raw), hex(e) if e is not None else None, tag),
                            {"cfg": L.config, "adaptor_sig": hx(b), "honest": hx(a), "sig": hx(b32(r2) + b32(s2)), "enckey": ys, "y": hex(y)})
    for L in libs:
        if L.illegal or L.errors:
            st.fail("callback fired on legal input", {"cfg": L.config, "x": hex(x), "y": hex(y), "msg": hx(m32), "shard": shard})
            L.cb_reset()
    if shard == 0:
        st.sample({"x": hex(x), "y": hex(y), "msg": hx(m32), "honest_adaptor_sig": hx(a), "operations": len(ops) * nshards})


# ------------------------------------------------------------------ synthetic r / s' / key products for decrypt + recover
def synth_case(libs, case, st):
    rb, sp, dk = case
    C, n = SECP, N
    a = b"\x02" + b32(rb) + b"\x03" + b32(7) + b32(sp) + b32(1) + b32(2)
    e = A.decrypt(a, b32(dk))
    st.count("decrypt-ok" if e else "decrypt-refused")
    info = {"r_bytes": hex(rb), "s'": hex(sp), "deckey": hex(dk)}
    for L in libs:
        sig = buf(b"\x5a" * 64)
        got = L.ecdsa_adaptor_decrypt(L.ctx, sig, b32(dk), a)
        st.calls += 1
        if e is None:
            if got != 0 or not is_zero(sig.raw):
                st.fail("decrypt must refuse with a zeroed signature: ret=%d" % got, dict(info, cfg=L.config))
            continue
        comp = sig_compact(L, sig)
        if got != 1 or comp != b32(e[0]) + b32(e[1]) or e[1] > n // 2:
            st.fail("decrypt differs from model: ret=%d sig=%s" % (got, hx(comp)), dict(info, cfg=L.config))
            continue
        Y = C.mulG(dk)
        pkY = pubkey_from_point(L, Y)
        for r2, s2, want in ((e[0], e[1], dk), (e[0], n - e[1], dk), ((e[0] + 1) % n, e[1], None), (e[0], (e[1] + 1) % n, "model")):
            if s2 == 0 and is_verify_build(L):
                continue
            if want == "model":
                want = A.recover(r2, s2, a, Y)
            elif A.recover(r2, s2, a, Y) != want:
                raise RuntimeError("model inconsistent: recover")
            out = buf(32)
            got = L.ecdsa_adaptor_recover(L.ctx, out, sig_from_rs(L, r2, s2), a, pkY)
            st.calls += 1
            if (got == 1) != (want is not None) or (want is not None and out.raw != b32(want)):
                st.fail("recover: ret=%d key=%s expected %r" % (got, hx(out.raw), want), dict(info, cfg=L.config, sig=hx(b32(r2) + b32(s2))))
        if L.illegal or L.errors:
            st.fail("callback fired on legal input", dict(info, cfg=L.config))
            L.cb_reset()
    if e:
        st.nt(case)


# ------------------------------------------------------------------ crafted near-misses
def crafted_case(libs, case, st):
    """(a) recover against every valid encryption key whose X differs from the real one only in its first or last byte;
       (b) adaptor signatures whose R has X == n (r = X mod n = 0) with an honest DLEQ proof for a crafted encryption key:
           the adaptor equation then holds for EVERY signer key, so only the r != 0 rule rejects them"""
    kind = case[0]
    C, n = SECP, N
    if kind == "near-key":
        _, x, y, m32 = case
        Y = C.mulG(y)
        for L in libs:
            a = buf(162)
            if L.ecdsa_adaptor_encrypt(L.ctx, a, buf(b32(x)), pubkey_from_point(L, Y), m32, None, None) != 1:
                st.fail("encrypt failed on valid input", {"cfg": L.config})
                continue
            sig = buf(64)
            assert L.ecdsa_adaptor_decrypt(L.ctx, sig, b32(y), a.raw) == 1
            comp = sig_compact(L, sig)
            r_, s_ = i32(comp[:32]), i32(comp[32:])
            xb = bytearray(b32(Y[0]))
            for pos in (31, 0, 15):
                for d in range(1, 256):
                    xb2 = bytearray(xb)
                    xb2[pos] ^= d
                    x2 = i32(bytes(xb2))
                    for odd in (0, 1):
                        Y2 = C.lift_x(x2, odd) if x2 < C.p else None
                        if Y2 is None:
                            continue
                        want = A.recover(r_, s_, a.raw, Y2)
                        out = buf(32)
                        got = L.ecdsa_adaptor_recover(L.ctx, out, sig, a.raw, pubkey_from_point(L, Y2))
                        st.calls += 1
                        st.count("near-key-%s" % ("recover" if want is not None else "refuse"))
                        if (got == 1) != (want is not None):
                            st.fail("recover with an encryption key differing from the real one in byte %d of X: ret=%d, expected %s" % (pos, got, "key" if want is not None else "refusal"),
                                    {"cfg": L.config, "x": hex(x), "y": hex(y), "enckey_x": hex(x2)})
            # positive control
            out = buf(32)
            if L.ecdsa_adaptor_recover(L.ctx, out, sig, a.raw, pubkey_from_point(L, Y)) != 1 or out.raw != b32(y):
                st.fail("recover with the real encryption key failed", {"cfg": L.config})
            st.nt(case[1:3])
            if L.illegal or L.errors:
                st.fail("callback fired on legal input", {"cfg": L.config})
                L.cb_reset()
    else:
        _, k, m, odd = case
        R = C.lift_x(n, odd)                       # X == n is on the curve; r = X mod n = 0
        Y = C.mul(pow(k, -1, n), R)
        Rp = C.mulG(k)
        sp = m * pow(k, -1, n) % n
        pr = A.dleq_prove(C, k, Y, Rp, R, lambda *a_: b32(12345))
        if pr is None or sp == 0:
            return
        a = A.encode(C, R, Rp, sp, pr[0], pr[1])
        for L in libs:
            for xk in (1, 2, 77, n - 1):
                X = C.mulG(xk)
                ok, why = A.verify(a, X, b32(m), Y)
                got = L.ecdsa_adaptor_verify(L.ctx, a, pubkey_from_point(L, X), b32(m), pubkey_from_point(L, Y))
                st.calls += 1
                st.count("r=0-forgery-%s" % ("model-accept" if ok else "model-reject"))
                if (got == 1) != ok:
                    st.fail("adaptor_verify=%d on a signature whose R has X == n (r = 0), valid DLEQ for a crafted encryption key; model: %s" % (got, why),
                            {"cfg": L.config, "adaptor": hx(a), "signer": hex(xk), "msg": hex(m)})
            # decrypt / recover on it must refuse as well (r = 0)
            sig = buf(b"\x5a" * 64)
            if L.ecdsa_adaptor_decrypt(L.ctx, sig, b32(5), a) != 0:
                st.fail("adaptor_decrypt accepted an adaptor signature with r = 0", {"cfg": L.config, "adaptor": hx(a)})
            # ENCRYPT side of the same boundary: with the constant nonce k and this encryption key Y = k^-1 * R the signer's own
            # R = k*Y has X == n, i.e. r = 0: encryption must refuse and zero its output, for every signing key
            mode = ("const", b32(k), b32(9))
            for xk in (1, 77):
                expE = A.encrypt(b32(xk), Y, b32(m), mode_fn(mode), C, [])
                ret, out, cb, _, _ = do_encrypt(L, L.ctx, xk, pubkey_from_point(L, Y), b32(m), mode)
                st.calls += 1
                st.count("encrypt-r=0-%s" % ("model-refuses" if expE is None else "model-accepts"))
                if (ret == 1) != (expE is not None) or (expE is None and not is_zero(out)) or (expE is not None and out != expE):
                    st.fail("encrypt with a nonce for which R.x mod n == 0: ret=%d, model %s" % (ret, "refuses (all-zero output)" if expE is None else "accepts"),
                            {"cfg": L.config, "signer": hex(xk), "k": hex(k), "out": hx(out)[:60]})
        # a signer key chosen so that m*G + r*X is the point at infinity for an HONEST adaptor signature of another key: the derived
        # R' is infinity, which must be rejected (never compared / serialised as a point)
        y2, x2 = 0x1234567, 0x89abcd
        Y2 = C.mulG(y2)
        hon = A.encrypt(b32(x2), Y2, b32(m), A.default_noncefn(None), C, [])
        if hon is not None:
            dec = A.decode(C, hon) if hasattr(A, "decode") else None
            Rh = C.parse_pubkey(hon[:33])
            r_ = Rh[0] % n if Rh else 0
            if r_:
                Xinf = C.mul((-m * pow(r_, -1, n)) % n, C.G)
                for L in libs:
                    okm, why = A.verify(hon, Xinf, b32(m), Y2)
                    got = L.ecdsa_adaptor_verify(L.ctx, hon, pubkey_from_point(L, Xinf), b32(m), pubkey_from_point(L, Y2))
                    st.calls += 1
                    st.count("derived-R-at-infinity")
                    if (got == 1) != okm:
                        st.fail("adaptor_verify=%d for a public key with m*G + r*X = infinity; model: %s" % (got, why), {"cfg": L.config, "adaptor": hx(hon)})
                    if L.illegal or L.errors:
                        st.fail("callback fired on legal input", {"cfg": L.config})
                        L.cb_reset()
            if L.illegal or L.errors:
                st.fail("callback fired on legal input", {"cfg": L.config})
                L.cb_reset()
        st.nt(case)
    st.sample({"case": [str(c)[:40] for c in case]})


# ------------------------------------------------------------------ exported default nonce function
def nonce_case(libs, case, st):
    msg, key, pk, algo, aux = case
    exp = A.nonce_default(msg, key, pk, algo, aux)
    for L in libs:
        fn = HN(L.var_ptr("secp256k1_nonce_function_ecdsa_adaptor"))
        out = buf(b"\xa5" * 32)
        nd = buf(aux) if aux is not None else None
        al = buf(algo) if algo is not None else None
        m_, k_, p_ = buf(msg), buf(key), buf(pk)
        ret = fn(ctypes.addressof(out), ctypes.addressof(m_), ctypes.addressof(k_), ctypes.addressof(p_),
                 ctypes.addressof(al) if al is not None else None, len(algo) if algo is not None else 0,
                 ctypes.addressof(nd) if nd is not None else None)
        st.calls += 1
        if exp is None:
            st.count("nonce-refused")
            if ret != 0:
                st.fail("default nonce function must return 0 without algo", {"cfg": L.config})
        else:
            st.count("nonce-ok")
            st.nt(case)
            if ret != 1 or out.raw != exp:
                st.fail("default nonce function differs from model: %s vs %s" % (hx(out.raw), hx(exp)),
                        {"cfg": L.config, "msg": hx(msg), "key": hx(key), "pk": hx(pk), "algo": hx(algo), "aux": hx(aux)})


# ------------------------------------------------------------------ API-level argument checks
def api_case(libs, case, st):
    C = SECP
    for L in libs:
        Y = C.mulG(3)
        pkY, pkX = pubkey_from_point(L, Y), pubkey_from_point(L, C.mulG(5))
        m = b32(9)
        a = A.encrypt(b32(5), Y, m, A.default_noncefn())
        sig = sig_from_rs(L, *A.decrypt(a, b32(3)))
        zero_pk = buf(64)
        o162, o64, o32 = buf(162), buf(64), buf(32)
        calls = [
            ("encrypt sig NULL", lambda: L.ecdsa_adaptor_encrypt(L.ctx, None, buf(b32(5)), pkY, m, None, None)),
            ("encrypt seckey NULL", lambda: L.ecdsa_adaptor_encrypt(L.ctx, o162, None, pkY, m, None, None)),
            ("encrypt enckey NULL", lambda: L.ecdsa_adaptor_encrypt(L.ctx, o162, buf(b32(5)), None, m, None, None)),
            ("encrypt msg NULL", lambda: L.ecdsa_adaptor_encrypt(L.ctx, o162, buf(b32(5)), pkY, None, None, None)),
            ("encrypt static ctx", lambda: L.ecdsa_adaptor_encrypt(L.static_ctx, o162, buf(b32(5)), pkY, m, None, None)),
            ("encrypt zeroed enckey", lambda: L.ecdsa_adaptor_encrypt(L.ctx, o162, buf(b32(5)), zero_pk, m, None, None)),
            ("verify sig NULL", lambda: L.ecdsa_adaptor_verify(L.ctx, None, pkX, m, pkY)),
            ("verify pubkey NULL", lambda: L.ecdsa_adaptor_verify(L.ctx, a, None, m, pkY)),
            ("verify msg NULL", lambda: L.ecdsa_adaptor_verify(L.ctx, a, pkX, None, pkY)),
            ("verify enckey NULL", lambda: L.ecdsa_adaptor_verify(L.ctx, a, pkX, m, None)),
            ("verify zeroed enckey", lambda: L.ecdsa_adaptor_verify(L.ctx, a, pkX, m, zero_pk)),
            ("verify zeroed pubkey", lambda: L.ecdsa_adaptor_verify(L.ctx, a, zero_pk, m, pkY)),
            ("decrypt sig NULL", lambda: L.ecdsa_adaptor_decrypt(L.ctx, None, b32(3), a)),
            ("decrypt deckey NULL", lambda: L.ecdsa_adaptor_decrypt(L.ctx, o64, None, a)),
            ("decrypt adaptor NULL", lambda: L.ecdsa_adaptor_decrypt(L.ctx, o64, b32(3), None)),
            ("recover deckey NULL", lambda: L.ecdsa_adaptor_recover(L.ctx, None, sig, a, pkY)),
            ("recover sig NULL", lambda: L.ecdsa_adaptor_recover(L.ctx, o32, None, a, pkY)),
            ("recover adaptor NULL", lambda: L.ecdsa_adaptor_recover(L.ctx, o32, sig, None, pkY)),
            ("recover enckey NULL", lambda: L.ecdsa_adaptor_recover(L.ctx, o32, sig, a, None)),
            ("recover static ctx", lambda: L.ecdsa_adaptor_recover(L.static_ctx, o32, sig, a, pkY)),
            ("recover zeroed enckey", lambda: L.ecdsa_adaptor_recover(L.ctx, o32, sig, a, zero_pk)),
        ]
        for name, f in calls:
            L.cb_reset()
            ret = f()
            st.calls += 1
            st.count("illegal-arg")
            if ret != 0 or L.illegal < 1:
                st.fail("%s: expected illegal-argument callback and return 0, got ret=%d callbacks=%d" % (name, ret, L.illegal), {"cfg": L.config})
            L.cb_reset()
        # static context is fine for verify and decrypt (no ecmult_gen needed)
        if L.ecdsa_adaptor_verify(L.static_ctx, a, pkX, m, pkY) != 1 or L.ecdsa_adaptor_decrypt(L.static_ctx, o64, b32(3), a) != 1 or L.illegal:
            st.fail("verify / decrypt on the static context", {"cfg": L.config})
        st.calls += 2


# ------------------------------------------------------------------ E2 small group
class TableCurve(Curve):
    """the order-N group as a table over discrete logs (built with the affine law by util.small_group)"""

    def __init__(self, C, pts):
        Curve.__init__(self, C.p, C.b, C.G, C.n, C.name)
        self.pts = pts
        self.idx = {pt: i for i, pt in enumerate(pts)}
        for i in range(C.n):          # table == affine law (complete check, N^2 additions)
            for j in range(C.n):
                assert C.add(pts[i], pts[j]) == pts[(i + j) % C.n]

    def add(self, A_, B_):
        if A_ in self.idx and B_ in self.idx:
            return self.pts[(self.idx[A_] + self.idx[B_]) % self.n]
        return Curve.add(self, A_, B_)

    def neg(self, A_):
        return self.pts[(-self.idx[A_]) % self.n] if A_ in self.idx else Curve.neg(self, A_)

    def mul(self, k, A_):
        if A_ in self.idx:
            return self.pts[(k * self.idx[A_]) % self.n]
        return Curve.mul(self, k, A_)

    def mulG(self, k):
        return self.pts[k % self.n]


def sg_setup(cfg):
    def f():
        L = lib(cfg)
        C0, pts = small_group(L)
        C = TableCurve(C0, pts)
        pk = [None] + [pubkey_from_point(L, pts[i], C0) for i in range(1, C.n)]
        return L, C, pts, pk
    return f


def sg_pipeline_case(env, case, st):
    """case = (x, y): every message, every pair of nonces (k for the signature, k2 for the proof) through a custom
    nonce function, plus the default nonce function"""
    L, C, pts, pk = env
    x, y = case
    n = C.n
    Y, X = pts[y], pts[x]
    kk = [0]

    def fn(msg, key, pk33, algo):
        return b32(kk[0] if algo == A.ALGO_ADAPTOR else kk[1])
    cb = NonceCB(fn)
    nd = buf(8)
    for m in range(n):
        for menc in ((m, m + n * (2**250 // n)) if m in (0, 5) else (m,)):
            m32 = b32(menc)
            for k, k2 in itertools.chain(itertools.product(range(n + 1), range(n + 1)), [(None, None)]):
                if k is None:
                    exp = A.encrypt(b32(x), Y, m32, A.default_noncefn(), C)
                    out = buf(b"\xa5" * 162)
                    ret = L.ecdsa_adaptor_encrypt(L.ctx, out, buf(b32(x)), pk[y], m32, None, None)
                else:
                    kk[:] = [k, k2]
                    cb.calls.clear()
                    trace = []
                    exp = A.encrypt(b32(x), Y, m32, fn, C, trace)
                    out = buf(b"\xa5" * 162)
                    ret = L.ecdsa_adaptor_encrypt(L.ctx, out, buf(b32(x)), pk[y], m32, cb.cb, nd)
                st.calls += 1
                info = {"cfg": L.config, "x": x, "y": y, "m": menc, "k": k, "k2": k2}
                if exp is None:
                    st.count("encrypt-refused")
                    if ret != 0 or not is_zero(out.raw):
                        st.fail("encrypt must fail with zero output: ret=%d" % ret, info)
                    continue
                st.count("encrypt-ok")
                st.nt((x, y, m, k, k2))
                if ret != 1 or out.raw != exp:
                    st.fail("encrypt differs from model: ret=%d %s vs %s" % (ret, hx(out.raw), hx(exp)), info)
                    continue
                if k is not None and [c[:4] for c in cb.calls] != trace:
                    st.fail("nonce callback arguments differ from the specification", info)
                if L.ecdsa_adaptor_verify(L.ctx, exp, pk[x], m32, pk[y]) != 1 or not A.verify(exp, X, m32, Y, C)[0]:
                    st.fail("own adaptor signature does not verify (library / model)", info)
                sig = buf(b"\x5a" * 64)
                d = L.ecdsa_adaptor_decrypt(L.ctx, sig, b32(y), exp)
                rs = A.decrypt(exp, b32(y), C)
                comp = sig_compact(L, sig)
                st.calls += 3
                if d != 1 or comp != b32(rs[0]) + b32(rs[1]) or rs[1] > n // 2:
                    st.fail("decrypt differs from model / not low-S: ret=%d %s" % (d, hx(comp)), info)
                    continue
                ev = E.verify_rs(rs[0], rs[1], m, X, C)
                if not ev or L.ecdsa_verify(L.ctx, sig, m32, pk[x]) != 1:
                    st.fail("decrypted signature does not verify (model %s)" % ev, info)
                for s2 in (rs[1], n - rs[1]):
                    dk = buf(b"\x77" * 32)
                    r = L.ecdsa_adaptor_recover(L.ctx, dk, sig_from_rs(L, rs[0], s2), exp, pk[y])
                    st.calls += 1
                    # in a group this small y and n-y can both map to x-equal points only as Y / -Y, so the key is exact
                    if r != 1 or dk.raw != b32(y):
                        st.fail("recover(s=%d): ret=%d key=%s expected %d" % (s2, r, hx(dk.raw), y), info)
    if cb.err:
        raise RuntimeError("nonce callback raised " + cb.err)
    if L.illegal or L.errors:
        st.fail("callback fired on legal input", {"cfg": L.config, "x": x, "y": y})
        L.cb_reset()
    st.sample({"group_order": n, "x": x, "y": y, "messages": n, "nonce_pairs": (n + 1) ** 2})


def sg_encodings(n):
    top = n * ((2**256 - 1) // n)        # largest multiple of n below 2^256: top - n + v is the highest encoding of residue v
    sp = list(range(n)) + [n, n + 1, top - n + 3, M256]
    e = list(range(n)) + [n, n + 1, top - n + 3, top - 1, M256]
    s = list(range(n)) + [n, n + 1, top - n + 4, M256]
    assert all(0 <= v <= M256 for v in sp + e + s)
    return sp, e, s


def sg_verify_case(env, case, st):
    """case = (R, R', Y, X as discrete logs, m): every (s', e, s) incl. non-canonical encodings"""
    L, C, pts, pk = env
    ri, rpi, yi, xi, m = case
    n = C.n
    R33, Rp33 = C.ser_compressed(pts[ri]), C.ser_compressed(pts[rpi])
    m32 = b32(m)
    SP, EE, SS = sg_encodings(n)
    memo = {}
    head = R33 + Rp33
    dpts, pwhy = A.decode_points(C, head)      # the point part is the same for the whole cube: decode it once
    X, Y = pts[xi], pts[yi]
    for sp in SP:
        for e in EE:
            mid = head + b32(sp) + b32(e)
            for s in SS:
                a = mid + b32(s)
                if dpts is None:
                    ok, why = False, pwhy
                else:
                    dsc, why = A.decode_scalars(C, a)
                    ok = False
                    if dsc is not None:
                        ok, why = A.verify_decoded(dpts + dsc, X, m32, Y, C, memo)
                got = L.ecdsa_adaptor_verify(L.ctx, a, pk[xi], m32, pk[yi])
                st.calls += 1
                st.count(why)
                if ok:
                    st.nt((case, sp, e, s))
                if got != (1 if ok else 0):
                    st.fail("adaptor_verify=%d model=%s (%s)" % (got, ok, why),
                            {"cfg": L.config, "R": ri, "R'": rpi, "Y": yi, "X": xi, "m": m, "s'": sp, "e": e, "s": s, "adaptor_sig": hx(a)})
    if L.illegal or L.errors:
        st.fail("callback fired on legal input", {"cfg": L.config, "case": list(case)})
        L.cb_reset()
    st.sample({"group_order": n, "R": ri, "R'": rpi, "Y": yi, "X": xi, "m": m, "triples": len(SP) * len(EE) * len(SS)})


def sg_decrec_case(env, case, st):
    """case = (R as discrete log, prefix): decrypt for every (s', key) encoding; recover for every (r, s, s', Y)"""
    L, C, pts, pk = env
    ri, variant = case
    n = C.n
    SP, EE, SS = sg_encodings(n)
    if variant == "point":
        R33 = C.ser_compressed(pts[ri])
    else:   # raw x bytes that are not a point: decrypt / recover only look at r = bytes mod n
        R33 = b"\x02" + b32(ri if variant == "small" else n * (2**255 // n) + ri)
    tail = b32(1) + b32(1)
    for sp in SP:
        a = R33 + C.ser_compressed(pts[1]) + b32(sp) + tail
        for dk in SP:
            e = A.decrypt(a, b32(dk), C)
            sig = buf(b"\x5a" * 64)
            got = L.ecdsa_adaptor_decrypt(L.ctx, sig, b32(dk), a)
            st.calls += 1
            st.count("decrypt-ok" if e else "decrypt-refused")
            if e is None:
                if got != 0 or not is_zero(sig.raw):
                    st.fail("decrypt must refuse with zeroed signature: ret=%d" % got, {"cfg": L.config, "adaptor_sig": hx(a), "deckey": dk})
            else:
                st.nt(("D", case, sp, dk))
                comp = sig_compact(L, sig)
                if got != 1 or comp != b32(e[0]) + b32(e[1]) or e[1] > n // 2:
                    st.fail("decrypt differs from model: ret=%d %s model %r" % (got, hx(comp), e), {"cfg": L.config, "adaptor_sig": hx(a), "deckey": dk})
        for r2 in range(n):
            for s2 in range(n):
                sg = sig_from_rs(L, r2, s2)
                for yi in range(1, n):
                    e = A.recover(r2, s2, a, pts[yi], C)
                    out = buf(b"\x77" * 32)
                    got = L.ecdsa_adaptor_recover(L.ctx, out, sg, a, pk[yi])
                    st.calls += 1
                    st.count("recover-ok" if e is not None else "recover-refused")
                    if e is not None:
                        st.nt(("R", case, sp, r2, s2, yi))
                    if (got == 1) != (e is not None) or (e is not None and out.raw != b32(e)):
                        st.fail("recover: ret=%d key=%s model=%r" % (got, hx(out.raw), e),
                                {"cfg": L.config, "adaptor_sig": hx(a), "r": r2, "s": s2, "Y": yi})
    if L.illegal or L.errors:
        st.fail("callback fired on legal input", {"cfg": L.config, "case": list(case)})
        L.cb_reset()


# ------------------------------------------------------------------ main
def main():
    a = args()
    run = Run(PID, a.tier)
    thorough = a.tier == "thorough"
    try:
        nvec = A.selftest(B.REPO) + SC.selftest()
    except Exception as e:
        print("C14: model self-test failed (machinery broken): %r" % (e,))
        sys.exit(2)
    run.cov["model_selftest_assertions"] = nvec
    prods = ["prod-san", "prod-verify"] + (["cfg-int64-noasm-w8-c22", "cfg-i128struct-noasm-w2-c2"] if thorough else [])
    sgs = ["sg13"] + (["sg13-san", "sg7"] if thorough else [])
    # development knobs (mutation runs): restrict phases by name / production configurations; a restricted run is not exhaustive
    only = [t for t in os.environ.get("VERIF_ONLY", "").split(",") if t]
    if os.environ.get("VERIF_PRODS"):
        prods = os.environ["VERIF_PRODS"].split(",")
    if only:
        run.cov["exhaustive"] = False
        if not any(t.startswith("sg") or "sg".startswith(t) for t in only):
            sgs = []

    def phase(name, fn, cases, **kw):
        if only and not any(t in name for t in only):
            return
        if run.out_of_time():
            run.cov["exhaustive"] = False
            return
        run_phase(run, name, fn, cases, **kw)
    build_retry(prods + sgs)
    for b in prods + sgs:
        run.cov["builds"][b] = B.source_hash()[:16]
    n = N
    f = seeded_fillers(8, b"c14")
    fk = [i32(v) % (n - 1) + 1 for v in f[:3]]

    # ---- E1 pipeline
    xs = [1, 2, n - 2, n - 1, fk[0]]
    ys = [1, 2, n - 2, n - 1, fk[1]]
    msgs = [b32(0), b32(1), b32(n - 1), b32(n), b32(n + 1), b32(M256), f[3]]
    modes = [("default", None), ("default", bytes(32)), ("default", b"\xff" * 32), ("default", f[4]), ("defptr", None), ("defptr", f[4]),
             ("const", b32(1), b32(2)), ("const", b32(n - 1), b32(n - 2)), ("const", b32(7), b32(7)), ("const", b"\xff" * 32, b"\xff" * 32),
             ("const", f[5], f[6]), ("const", b32(n + 5), b32(n + 6)),
             # failures: callback returns 0 / nonce 0 / nonce == n, for either derivation
             ("fail", A.ALGO_ADAPTOR), ("fail", A.ALGO_DLEQ), ("const", b32(0), b32(5)), ("const", b32(n), b32(5)),
             ("const", b32(5), b32(0)), ("const", b32(5), b32(n))]
    cases = [(x, y, m, md) for x in xs for y in ys for m in msgs for md in modes]
    cases += [(x, y, m, md) for x in (0, n, n + 1, M256) for y in (1, fk[1]) for m in msgs[:4] for md in (modes[0], modes[3], modes[6], modes[10])]
    # s' == 0 : message chosen as -r*x for a constant nonce
    for x in xs:
        for y in ys[1:4]:
            for kb in (b32(3), f[5]):
                R = SECP.mul(i32(kb) % n, SECP.mulG(y))
                m0 = (-(R[0] % n) * x) % n
                cases.append((x, y, b32(m0), ("const", kb, b32(11))))
                if m0 + n <= M256:
                    cases.append((x, y, b32(m0 + n), ("const", kb, b32(11))))
    phase("prod/pipeline", pipeline_case, cases, setup=pipe_setup(prods),
              rule="signing key {1,2,n-2,n-1,filler}(+invalid 0,n,n+1,2^256-1) x decryption key {1,2,n-2,n-1,filler} x msg {0,1,n-1,n,n+1,2^256-1,filler} x "
                   "18 nonce sources (default, default+aux{00,FF,filler}, exported pointer, custom constants incl. k>=n, equal nonces, callback failing / "
                   "returning 0 / n for either derivation) + messages built so that s'=0; on each build x {plain, randomised, replaced-SHA256-compression} context: "
                   "162 bytes == model, callback arguments == specification, verify=1, decrypt == model and low-S, ecdsa_verify=1, recover(low s)=recover(n-s)=key, "
                   "refusals return 0 with zeroed output; non-trivial = successful encryptions")

    # ---- E5 mutations
    nsh = 8
    if thorough:
        base = [(x, y, m, modes[0]) for x in xs for y in ys for m in (msgs[0], msgs[3], msgs[5], msgs[6])]
        base += [(xs[i % 5], ys[(i + 2) % 5], msgs[i % 7], md) for i, md in enumerate(modes[1:12])]
    else:
        base = [(1, n - 1, msgs[0], modes[0]), (n - 1, 1, msgs[5], modes[0]), (2, n - 2, msgs[3], modes[3]), (n - 2, 2, msgs[6], modes[8]),
                (fk[0], fk[1], msgs[6], modes[0]), (fk[0], 1, msgs[2], modes[10]), (1, fk[1], msgs[4], modes[7])]
    mcases = [b + (s, nsh) for b in base for s in range(nsh)]
    phase("prod/mutations", mut_case, mcases, setup=pipe_setup(prods),
              rule="%d honest adaptor signatures, each: all 1296 single-bit flips; s', e, s <- {0,1,n-1,n,n+1,v+n,n-v,v+-1,(n-1)/2,p,2^256-1}; R, R' <- other prefix bytes, "
                   "negation, x in {0,1,p-1,p,p+1,2^256-1,n,G.x,nearest off-curve,nearest on-curve} x both parities, zero bytes; field swaps; all 256 message bit "
                   "flips, m+-n; pubkey / enckey <- {-P, P+G, the other key, G}; verify, decrypt and recover (both twins) decided by the model for every mutant; "
                   "completed signature: all 512 bit flips, boundary r / s, an ordinary ECDSA signature and another adaptor's completed signature for recover; decryption keys {0,1,n-1,n,n+y,n-y,y+1,2^256-1}; non-trivial = accepted" % len(base))

    # ---- synthetic products for decrypt / recover
    rbs = [0, 1, n - 1, n, n + 1, P - 1, P, M256, i32(f[7])]
    sps = [0, 1, 2, (n - 1) // 2, (n + 1) // 2, n - 1, n, M256, fk[2]]
    dks = [0, 1, 2, n - 2, n - 1, n, fk[1]]
    phase("prod/decrypt-recover-product", synth_case, [(r, s, d) for r in rbs for s in sps for d in dks], setup=pipe_setup(prods),
              rule="R.x bytes {0,1,n-1,n,n+1,p-1,p,2^256-1,filler} x s' {0,1,2,(n-1)/2,(n+1)/2,n-1,n,2^256-1,filler} x key {0,1,2,n-2,n-1,n,filler}: "
                   "decrypt == model; recover from result, twin, r+1, s+1")

    # ---- exported default nonce function
    algos = [A.ALGO_ADAPTOR, A.ALGO_DLEQ, b"", b"x", b"ECDSAadaptor/noN", b"DLEq", b"a" * 63, b"a" * 64, b"a" * 65, None]
    G33 = SECP.ser_compressed(SECP.G)
    ncases = [(m, k, pk, al, aux) for m in (bytes(32), f[3]) for k in (b32(1), f[0]) for pk in (G33, b"\x03" + f[1])
              for al in algos for aux in (None, bytes(32), f[4])]
    phase("prod/default-nonce-function", nonce_case, ncases, setup=pipe_setup(prods),
              rule="exported secp256k1_nonce_function_ecdsa_adaptor == BIP-340-style tagged hash model for 2 msgs x 2 keys x 2 pubkeys x 9 algo tags (+NULL) x aux {NULL,00,filler}")
    ccases = [("near-key", x, y, m) for (x, y) in ((1, 2), (fk[0], fk[1]), (n - 1, n - 2)) for m in (b32(1), f[3])]
    ccases += [("r=0", k, m, odd) for k in (2, 3, fk[2]) for m in (1, 2, n - 1) for odd in (0, 1)]
    phase("prod/crafted-near-misses", crafted_case, ccases, setup=pipe_setup(prods),
          rule="recover against EVERY valid encryption key whose X differs from the real key in one byte (first, middle or last byte x 255 values x both parities); adaptor signatures with R.x == n (r = 0) carrying an honest DLEQ proof for a crafted encryption key (valid for every signer key unless r = 0 is rejected)")
    phase("prod/api-arguments", api_case, [0], setup=pipe_setup(prods), nproc=1,
              rule="every pointer argument NULL, static context where a signing context is required, zeroed pubkey objects: illegal callback >= 1 and return 0")

    # ---- E2 small group
    for sg in sgs:
        nn = int(sg[2:].split("-")[0])
        phase("%s/pipeline-total" % sg, sg_pipeline_case, [(x, y) for x in range(1, nn) for y in range(1, nn)], setup=sg_setup(sg),
                  rule="every (x, y, m, k, k2) in [1,N)^2 x Z_N x [0,N]^2 through a custom nonce callback, plus the default nonce function: 162 bytes == model or "
                       "refusal with zero output; verify, decrypt, ecdsa_verify, recover from both twins")
        full = thorough and sg == "sg13"
        Ysel = range(1, nn) if full else sorted({1, 5 % nn or 1, nn - 1})
        Xsel = sorted({1, 2, nn // 2, nn - 1}) if full else sorted({2, nn - 2})
        msel = (0, 1, nn // 2, nn - 1) if full else (0, nn // 2)
        vc = [(r, rp, y, x, m) for r in range(1, nn) for rp in range(1, nn) for y in Ysel for x in Xsel for m in msel]
        phase("%s/verify-total" % sg, sg_verify_case, vc, setup=sg_setup(sg),
                  rule="every (R, R') pair of group points x Y in %s x X in %s x m in %s: every (s', e, s) in Z_N^3 plus encodings >= N "
                       "(s', s must be rejected, e is reduced); model = DLEQ + adaptor equation; non-trivial = accepted" % (list(Ysel), list(Xsel), list(msel)))
        dc = [(r, "point") for r in range(1, nn)] + [(r, v) for r in range(nn) for v in ("small", "big")]
        phase("%s/decrypt-recover-total" % sg, sg_decrec_case, dc, setup=sg_setup(sg),
                  rule="R.x from every point and raw byte patterns for every residue: decrypt for every (s', key) encoding; recover for every (r, s) in Z_N^2 x "
                       "every s' encoding x every encryption key")
    run.assumptions += ["secp256k1: values outside the stated alphabets are not explored; the order-13 (thorough: also 7) group is explored totally",
                        "the decoder reduces the DLEQ challenge e mod n (DESIGN section 5); the model follows",
                        "recover() is not driven with s == 0 on VERIFY builds (test-only VERIFY_CHECK in eckey_pubkey_serialize33); non-VERIFY builds cover it",
                        "an adaptor signature whose R or R' has x >= n, or x + p < 2^256, cannot be constructed honestly (needs a discrete log); covered at decoder level only"]
    sys.exit(run.finish())


if __name__ == "__main__":
    main()
