"""C06 Secret-dependent data never steers branches or memory addresses (level: exploration).
E6: exhaustive enumeration of the PUBLIC configuration space of every constant-time entry point
(mc/ct/ct_main.c), each configuration executed once per build under valgrind memcheck with its secret
arguments marked undefined and the library's own declassification points live."""
import sys, os, subprocess, re, time, hashlib
from ..core import Run, VERIF, hx
from ..util import args
from .. import build as B

PID = "C06"
SRC = os.path.join(VERIF, "mc", "ct", "ct_main.c")

BUILDS = {
    "ct-default": ["-O2", "-DUSE_ASM_X86_64=1"],
    "ct-int64": ["-O2", "-DUSE_FORCE_WIDEMUL_INT64=1"],
    "ct-int128struct": ["-O2", "-DUSE_FORCE_WIDEMUL_INT128_STRUCT=1"],
    "ct-noasm": ["-O2"],
    "ct-noasm-O1-clang": ["-O1"],
    "ct-default-O2-clang": ["-O2", "-DUSE_ASM_X86_64=1"],    # the second installed compiler at the shipped optimisation level
}


def build_all(names):
    h = hashlib.sha256((B.source_hash() + open(SRC).read()).encode()).hexdigest()[:16]
    d = os.path.join(B.BUILD, "ct-" + h)
    os.makedirs(d, exist_ok=True)
    base = [f for f in B.COMMON if f not in ("-fPIC", "-shared")] + B._tables() + ["-g", "-DVALGRIND=1"]
    inc = ["-I", B.REPO, "-I", os.path.join(B.REPO, "src"), "-I", B.SHIM_DIR, "-I", os.path.join(B.REPO, "contrib"), "-I", os.path.join(B.REPO, "include")]
    jobs, res = [], {}
    for n in names:
        exe = os.path.join(d, n)
        res[n] = exe
        if os.path.exists(exe):
            continue
        tmp = exe + ".%d" % os.getpid()
        cc = "clang" if n.endswith("clang") else "gcc"
        jobs.append((n, exe, tmp, subprocess.Popen([cc] + base + BUILDS[n] + inc + [SRC, "-o", tmp], stdout=subprocess.DEVNULL, stderr=subprocess.PIPE, text=True)))
    for n, exe, tmp, p in jobs:
        _, err = p.communicate()
        if p.returncode != 0:
            sys.stderr.write("CT BUILD FAILED (%s):\n%s\n" % (n, (err or "")[-3000:]))
            raise SystemExit(2)
        os.rename(tmp, exe)
    return res


CASE_RE = re.compile(r"^CASE (\d+) (\d+) (\S+) \[(.*)\] ret=(-?\d+) errors=(\d+)$")


def main():
    a = args()
    run = Run(PID, a.tier, level="exploration")
    thorough = a.tier == "thorough"
    # quick: the shipped configuration, the 32-bit-limb one and the 64-bit C (no asm) one - the three scalar/field code bases
    names = ["ct-default", "ct-int64", "ct-noasm", "ct-default-O2-clang"] + (["ct-int128struct", "ct-noasm-O1-clang"] if thorough else [])
    exes = build_all(names)
    env = dict(os.environ)
    env.pop("LD_PRELOAD", None)
    procs = {n: subprocess.Popen(["valgrind", "-q", "--error-exitcode=0", "--num-callers=12", exes[n]], stdout=subprocess.PIPE, stderr=subprocess.PIPE, text=True, env=env) for n in names}
    for n in names:
        t0 = time.time()
        out, err = procs[n].communicate()
        cases, bad, eps, okc = [], [], set(), 0
        total_line = ""
        for line in out.splitlines():
            m = CASE_RE.match(line.strip())
            if m:
                ep, cfg, name, desc, ret, errs = int(m.group(1)), int(m.group(2)), m.group(3), m.group(4), int(m.group(5)), int(m.group(6))
                cases.append((ep, cfg, name, desc, ret, errs))
                eps.add(name)
                if ret == 1:
                    okc += 1
                if errs:
                    bad.append((ep, cfg, name, desc, errs))
            elif line.startswith("TOTAL"):
                total_line = line
        if procs[n].returncode != 0 or not total_line:
            raise RuntimeError("ct driver %s failed (rc=%s): %s" % (n, procs[n].returncode, err[-800:]))
        hist = {}
        for c in cases:
            hist[c[2]] = hist.get(c[2], 0) + 1
        d = {"cases": len(cases), "calls": len(cases), "states": len(cases), "nontrivial": okc, "hist": hist, "wall": time.time() - t0,
             "samples": [{"entry_point": c[2], "public_configuration": c[3], "ret": c[4], "memcheck_errors": c[5]} for c in cases[:2] + cases[200:201]]}
        run.phase("%s/valgrind" % n, d,
                  rule="every public configuration (context state x optional-argument presence x signer count / tweak sequence / adaptor x public tweak and message-length alphabets x 2 secret values) of %d constant-time entry points; secrets marked undefined; non-trivial = configuration whose call succeeded (ret=1) and therefore ran the full secret-dependent path" % len(eps))
        for ep, cfg, name, desc, errs in bad[:10]:
            # attribute: first memcheck report of that configuration
            r = subprocess.run(["valgrind", "-q", "--error-exitcode=0", "--num-callers=8", exes[n], str(ep), str(cfg)], capture_output=True, text=True, env=env)
            first = "\n".join(r.stderr.splitlines()[:9])
            run.violation("[%s/valgrind] %s [%s]: %d memcheck error(s): control flow or an address depends on secret data\n%s" % (n, name, desc, errs, first),
                          {"build": n, "entry_point": name, "configuration": desc, "replay": "valgrind %s %d %d" % (exes[n], ep, cfg)}, None, None)
        if "illegal_callbacks=0 error_callbacks=0" not in total_line:
            run.violation("[%s/valgrind] a callback fired in the driver: %s" % (n, total_line), {"build": n}, None, None)
    run.assumptions += ["secret values are not enumerated: per executed path memcheck's bit-precise definedness propagation stands for all secret values (the enumerated, exhaustively covered dimension is the public one)",
                        "the secret/public role of each argument follows the maintainers' src/ctime_tests.c (e.g. the keypair passed to musig_nonce_gen_counter and ellswift's auxrnd32 are public there)",
                        "micro-architectural timing and compilers other than the installed gcc 12 / clang 14 are out of scope"]
    sys.exit(run.finish())


if __name__ == "__main__":
    main()
