"""C13 A MuSig secret nonce can sign at most once, whatever happens.
E3 history search on the real objects: every sequence of operations over a pool of two secnonce
slots up to a depth WITHOUT state merging, then BFS with merging on the canonical state.  A state is
the operation history replayed on fresh objects; the abstract single-use machine (per slot
ZERO | LIVE(key, id)) advances in lock-step and the invariants are evaluated after every call."""
import sys, hashlib
from ctypes import c_uint64
from .. import core
from ..core import Run, run_phase, hx, seeded_fillers
from ..util import *
from ..lib import api_decls
from ..musig_util import *
from ..model import bip327 as M
from .. import build as B

PID = "C13"
C = SECP

# ----------------------------------------------------------------------------- alphabet
GEN_VARIANTS = [("ok", "A"), ("ok", "B"), ("nosk", "B"), ("rand0", "A"), ("rand0nosk", "A"), ("sk0", "A"), ("skn", "B"),
                ("pk0", "A"), ("pnnull", "A"), ("badcache", "B"), ("reuse", "A"),
                # the same refusals with the optional key-aggregation cache ABSENT, and a valid call without it
                ("sk0nc", "A"), ("sknnc", "B"), ("oknc", "A"), ("rand0nc", "B")]
# keypair objects whose secret half is 0 / n while the public half is valid (e.g. a secret erased in place): must be refused
CNT_VARIANTS = [("ok", "A"), ("ok", "B"), ("zerokp", "A"), ("kpsec0", "A"), ("kpsecn", "B")]
SIGN_VARIANTS = [("own", "ok"), ("other", "ok"), ("neg", "ok"), ("zero", "ok"), ("null", "ok"),
                 ("own", "outnull"), ("own", "cachenull"), ("own", "cachebad"), ("own", "sessnull"),
                 ("own", "sessbad"), ("own", "sessother")]
OPS = []
for _s in (0, 1):
    OPS += [("gen", _s, k, v) for (v, k) in GEN_VARIANTS]
    OPS += [("cnt", _s, k, v) for (v, k) in CNT_VARIANTS]
    OPS += [("sign", _s, k, v) for (k, v) in SIGN_VARIANTS]
OPS.append(("signnull", -1, "A", "ok"))
NOPS = len(OPS)
COUNTERS = [0, 2**32, 1, 2**64 - 1, 2**63, 2**32 + 1, 7, 8, 9, 10]


def opname(i):
    o = OPS[i]
    return "%s[slot%d,%s,%s]" % o if o[1] >= 0 else "partial_sign[secnonce=NULL]"


def hist_names(h):
    return [opname(i) for i in h]


# ----------------------------------------------------------------------------- world
class World:
    def __init__(self, cfg):
        L = self.L = Lib(cfg)
        check_sizes(L)
        fill = seeded_fillers(3, b"c13")
        self.d = {"A": 0x1F3C5A7E9B2D4F6081A3C5E7092B4D6F8A1C3E507294B6D8FA1C3E5072940B6D % N,
                  "B": 0x0B7D3F1A9C5E2084A6C8EA0C2E4F60718293A4B5C6D7E8F9010203040506A7C9 % N}
        self.d["A-"] = N - self.d["A"]
        self.d["B-"] = N - self.d["B"]
        self.pt = {k: C.mulG(v) for k, v in self.d.items()}
        self.pk33 = {k: C.ser_compressed(p) for k, p in self.pt.items()}
        self.pkobj = {k: pubkey_from_point(L, p) for k, p in self.pt.items()}
        self.kp = {k: keypair(L, v) for k, v in self.d.items()}
        self.kp_zero = buf(SZ_KEYPAIR)
        self.pk_zero = buf(64)
        self.cache = buf(SZ_CACHE)
        assert L.musig_pubkey_agg(L.ctx, None, self.cache, ptrs([self.pkobj["A"], self.pkobj["B"]]), 2) == 1
        self.kc = M.key_agg([self.pk33["A"], self.pk33["B"]])
        assert cache_read(L, self.cache)["Q"] == self.kc.Q
        self.aggpk32 = M.xbytes(self.kc.Q)
        bad = bytearray(self.cache.raw)
        bad[0] ^= 0xFF
        self.cache_bad = buf(bytes(bad))
        self.msg = [b"\x5a" * 32, fill[0]]
        self.extra = fill[1]
        # the other party's public nonce (fixed) and a default nonce for slots that never held one
        self.pn_other = M.cbytes(C.mulG(7)) + M.cbytes(C.mulG(11))
        self.pn_default = M.cbytes(C.mulG(3)) + M.cbytes(C.mulG(5))
        self.pn_other_obj = pubnonce_parse(L, self.pn_other)
        one = buf(SZ_PSIG)
        assert L.musig_partial_sig_parse(L.ctx, one, b32(1)) == 1
        self.psig_magic = one.raw[:4]
        self._gen = {}
        self._sess = {}
        assert L.illegal == 0 and L.errors == 0

    def secrand(self, pos):
        return hashlib.sha256(b"c13-secrand" + bytes([pos])).digest()

    def model_gen(self, rand, sk, key, with_cache):
        k = (rand, sk, key, with_cache)
        r = self._gen.get(k)
        if r is None:
            r = self._gen[k] = M.nonce_gen_internal(rand, sk, self.pk33[key], self.aggpk32 if with_cache else None,
                                                    self.msg[0], self.extra)
        return r

    def session(self, pn66, mi, st):
        """(real session object, bad-magic copy, model session) for the aggregate of pn66 and the other party's nonce"""
        k = (pn66, mi)
        r = self._sess.get(k)
        if r is None:
            L = self.L
            an = buf(SZ_AGGNONCE)
            sess = buf(SZ_SESSION)
            mine = pubnonce_parse(L, pn66)
            ok = L.musig_nonce_agg(L.ctx, an, ptrs([mine, self.pn_other_obj]), 2)
            ok2 = L.musig_nonce_process(L.ctx, sess, an, self.msg[mi], self.cache, None)
            st.calls += 3
            assert ok == 1 and ok2 == 1
            S = M.session_values(M.nonce_agg([pn66, self.pn_other]), None, None, self.msg[mi], keyctx=self.kc)
            sr = session_read(L, sess)
            assert sr["b"] == S.b and sr["e"] == S.e, "session differs from the BIP-327 model (C12 territory)"
            bad = bytearray(sess.raw)
            bad[0] ^= 0xFF
            r = self._sess[k] = (sess, buf(bytes(bad)), S)
        return r


def setup(cfg):
    def f():
        return World(cfg)
    return f


# ----------------------------------------------------------------------------- lock-step execution
class Hist:
    """real objects + abstract model for one history"""

    def __init__(self, W):
        self.W = W
        self.slots = [buf(SZ_SECNONCE), buf(SZ_SECNONCE)]
        self.model = [None, None]          # None = ZERO, else dict(key, id, sec97, pn66)
        self.zkind = ["Z0", "Z0"]          # why a slot is ZERO: never live / consumed by a signature / wiped by a failure
        self.pn = [None, None]             # model bytes of the last public nonce generated into the slot
        self.pnobj = [None, None]
        self.rand = None                   # caller's session_secrand32 buffer of the last nonce_gen call
        self.issued = {}
        self.next_id = 0
        self.done = []
        self.last_canon = None

    def canon(self):
        """canonical state built from the REAL object bytes (plus the model's reason for ZERO)"""
        W = self.W
        parts = []
        for i in (0, 1):
            raw = self.slots[i].raw
            if is_zero(raw):
                parts.append(self.zkind[i])
            else:
                r = secnonce_read(W.L, self.slots[i])
                who = "?"
                if r is not None:
                    for k in ("A", "B", "A-", "B-"):
                        if r[2] == W.pt[k]:
                            who = k
                parts.append("L" + who)
        parts.append("r-" if self.rand is None else ("r0" if is_zero(self.rand.raw) else "r1"))
        return "|".join(parts)


def bad(st, H, what, extra=None):
    d = {"cfg": H.W.L.config, "history": hist_names(H.done), "problem_after_op": len(H.done)}
    if extra:
        d.update(extra)
    st.fail(what + " after history " + " ; ".join(hist_names(H.done)), d)


def check_invariants(H, st):
    W, L = H.W, H.W.L
    for i in (0, 1):
        raw = H.slots[i].raw
        m = H.model[i]
        if m is None:
            if not is_zero(raw):
                bad(st, H, "slot %d must be all-zero (model ZERO) but holds non-zero bytes" % i, {"bytes": hx(raw)})
        else:
            if is_zero(raw):
                bad(st, H, "slot %d is all-zero but the model says LIVE" % i)
                continue
            r = secnonce_read(L, H.slots[i])
            exp = (i32(m["sec97"][:32]), i32(m["sec97"][32:64]), W.pt[m["key"]])
            if r != exp:
                bad(st, H, "live secnonce in slot %d differs from NonceGen of the model or is not bound to the supplied public key" % i)
    for nid, cnt in H.issued.items():
        if cnt > 1:
            bad(st, H, "nonce id %d issued %d partial signatures" % (nid, cnt))


def do_gen(H, op, pos, st):
    W, L = H.W, H.W.L
    _, s, key, v = op
    sn = H.slots[s]
    pnobj = buf(SZ_PUBNONCE)
    if v == "reuse":
        rnd = H.rand if H.rand is not None else buf(W.secrand(pos))
    elif v in ("rand0", "rand0nosk", "rand0nc"):
        rnd = buf(32)
    else:
        rnd = buf(W.secrand(pos))
    rand_in = rnd.raw
    sk = b32(W.d[key])
    if v in ("nosk", "rand0nosk"):      # all-zero randomness must be refused whether or not a secret key is given
        sk = None
    elif v in ("sk0", "sk0nc"):
        sk = b32(0)
    elif v in ("skn", "sknnc"):
        sk = b32(N)
    pk = W.pk_zero if v == "pk0" else W.pkobj[key]
    cache = W.cache_bad if v == "badcache" else (None if v.endswith("nc") else W.cache)
    ret = L.musig_nonce_gen(L.ctx, sn, None if v == "pnnull" else pnobj, rnd, sk, pk, W.msg[0], cache, W.extra)
    ill, err = L.cb_take()
    st.calls += 1
    H.rand = rnd
    illegal_variant = v in ("pk0", "pnnull", "badcache")
    plain_fail = v in ("sk0", "skn", "sk0nc", "sknnc") or is_zero(rand_in)
    if err:
        bad(st, H, "error callback fired in nonce_gen")
    if illegal_variant or plain_fail:
        # property: the secret nonce is zeroed on EVERY failure; rule 2: illegal variants -> callback >= 1 and return 0
        H.model[s] = None
        H.zkind[s] = "Zf"
        if ret != 0:
            bad(st, H, "nonce_gen(%s) returned %d, must fail" % (v, ret))
        if illegal_variant and not plain_fail:
            if ill < 1:
                bad(st, H, "nonce_gen(%s): illegal-argument callback did not fire" % v)
            st.count("gen-illegal")
        else:
            if ill and not illegal_variant:
                bad(st, H, "nonce_gen(%s): callback fired on a plain failure" % v)
            st.count("gen-refused-zero-rand" if is_zero(rand_in) else "gen-refused-seckey")
        return (ret, ill > 0)
    # success expected
    exp_sec, exp_pn = W.model_gen(rand_in, sk, key, not v.endswith("nc"))
    if ret != 1 or ill:
        bad(st, H, "valid nonce_gen(%s) returned %d with %d illegal callbacks" % (v, ret, ill))
        H.model[s] = None if is_zero(sn.raw) else H.model[s]
        return (ret, ill > 0)
    if not is_zero(rnd.raw):
        bad(st, H, "nonce_gen succeeded but did not wipe the caller's session_secrand32 buffer", {"left": hx(rnd.raw)})
    if pubnonce_ser(L, pnobj) != exp_pn:
        bad(st, H, "pubnonce differs from the BIP-327 NonceGen model")
    st.calls += 1
    H.model[s] = {"key": key, "id": H.next_id, "sec97": exp_sec, "pn66": exp_pn}
    H.next_id += 1
    H.pn[s], H.pnobj[s] = exp_pn, pnobj
    st.count("gen-ok")
    st.nt(("gen", v, key, pos))
    return (ret, False)


def do_cnt(H, op, pos, st):
    W, L = H.W, H.W.L
    _, s, key, v = op
    sn = H.slots[s]
    pnobj = buf(SZ_PUBNONCE)
    cnt = COUNTERS[pos]
    kp = W.kp_zero if v == "zerokp" else W.kp[key]
    if v == "kpsec0":
        kp = buf(b"\x00" * 32 + W.kp[key].raw[32:])
    elif v == "kpsecn":
        kp = buf(b32(N) + W.kp[key].raw[32:])
    ret = L.musig_nonce_gen_counter(L.ctx, sn, pnobj, c_uint64(cnt), kp, W.msg[0], None, W.extra)
    ill, err = L.cb_take()
    st.calls += 1
    if err:
        bad(st, H, "error callback fired in nonce_gen_counter")
    if v == "zerokp":
        H.model[s] = None
        H.zkind[s] = "Zf"
        if ret != 0 or ill < 1:
            bad(st, H, "nonce_gen_counter(zeroed keypair) returned %d with %d callbacks" % (ret, ill))
        st.count("cnt-illegal")
        return (ret, ill > 0)
    if v in ("kpsec0", "kpsecn"):
        # invalid secret key inside an otherwise valid keypair object: refused, and the secnonce is zeroed like on every failure
        H.model[s] = None
        H.zkind[s] = "Zf"
        if ret != 0:
            bad(st, H, "nonce_gen_counter(keypair with secret key %s) returned %d, must fail" % ("0" if v == "kpsec0" else "n", ret))
        st.count("cnt-refused-seckey")
        return (ret, ill > 0)
    exp_sec, exp_pn = W.model_gen(M.counter_rand(cnt), b32(W.d[key]), key, False)
    if ret != 1 or ill:
        bad(st, H, "valid nonce_gen_counter returned %d with %d illegal callbacks" % (ret, ill))
        return (ret, ill > 0)
    if pubnonce_ser(L, pnobj) != exp_pn:
        bad(st, H, "pubnonce of nonce_gen_counter differs from the model", {"counter": cnt})
    st.calls += 1
    H.model[s] = {"key": key, "id": H.next_id, "sec97": exp_sec, "pn66": exp_pn}
    H.next_id += 1
    H.pn[s], H.pnobj[s] = exp_pn, pnobj
    st.count("cnt-ok")
    st.nt(("cnt", key, pos))
    return (ret, False)


NEG = {"A": "A-", "B": "B-"}
OTHER = {"A": "B", "B": "A"}


def do_sign(H, op, pos, st):
    W, L = H.W, H.W.L
    _, s, ksel, v = op
    out = buf(SZ_PSIG)
    if s < 0:
        # secnonce == NULL: nothing may change
        sess, sess_bad, S = W.session(W.pn_default, 0, st)
        ret = L.musig_partial_sign(L.ctx, out, None, W.kp["A"], W.cache, sess)
        ill, err = L.cb_take()
        st.calls += 1
        if ret != 0 or ill < 1 or err:
            bad(st, H, "partial_sign(secnonce=NULL) returned %d with %d callbacks" % (ret, ill))
        st.count("sign-null-secnonce")
        return (ret, ill > 0)
    sn = H.slots[s]
    m = H.model[s]
    own = m["key"] if m is not None else "A"
    kname = {"own": own, "other": OTHER[own], "neg": NEG[own]}.get(ksel)
    kp = W.kp[kname] if kname else (W.kp_zero if ksel == "zero" else None)
    pn_self = H.pn[s] if H.pn[s] is not None else W.pn_default
    if v == "sessother":
        o = 1 - s
        sess, sess_bad, S = W.session(H.pn[o] if H.pn[o] is not None else W.pn_other, 1 - (s & 1), st)
    else:
        sess, sess_bad, S = W.session(pn_self, s & 1, st)
    a_out = None if v == "outnull" else out
    a_cache = None if v == "cachenull" else (W.cache_bad if v == "cachebad" else W.cache)
    a_sess = None if v == "sessnull" else (sess_bad if v == "sessbad" else sess)
    ret = L.musig_partial_sign(L.ctx, a_out, sn, kp, a_cache, a_sess)
    ill, err = L.cb_take()
    st.calls += 1
    if err:
        bad(st, H, "error callback fired in partial_sign")
    # the abstract machine: ANY partial_sign that is handed a secnonce consumes it
    H.model[s] = None
    legal = m is not None and ksel == "own" and v in ("ok", "sessother")
    if not is_zero(sn.raw):
        bad(st, H, "partial_sign[%s,%s] was handed the secnonce of slot %d and left it non-zero (ret=%d)" % (ksel, v, s, ret),
            {"left": hx(sn.raw)})
    if legal:
        H.zkind[s] = "Zs"
        if ret != 1 or ill:
            bad(st, H, "partial_sign with a live nonce and its own keypair returned %d (%d callbacks)" % (ret, ill))
            return (ret, ill > 0)
        H.issued[m["id"]] = H.issued.get(m["id"], 0) + 1
        exp = M.sign(m["sec97"], b32(W.d[own]), S)
        if psig_ser(L, out) != exp:
            bad(st, H, "partial signature differs from the BIP-327 model")
        if H.pnobj[s] is not None and L.musig_partial_sig_verify(L.ctx, out, H.pnobj[s], W.pkobj[own], W.cache, sess) != 1:
            bad(st, H, "issued partial signature does not verify")
        st.calls += 2
        st.count("sign-issued")
        st.nt(("sign", own, v, m["id"], pos))
        return (ret, False)
    # must produce no signature
    H.zkind[s] = "Zf"
    if ret != 0:
        if ret == 1:
            nid = m["id"] if m is not None else -1
            H.issued[nid] = H.issued.get(nid, 0) + 1
        bad(st, H, "partial_sign[%s,%s] on a %s slot returned %d: a signature was produced where none may be" % (
            ksel, v, "ZERO (used/zeroed)" if m is None else "LIVE(%s)" % m["key"], ret), {"out": hx(out.raw)})
    if ill < 1:
        bad(st, H, "partial_sign[%s,%s] failed without the illegal-argument callback" % (ksel, v))
    st.count("sign-refused-%s" % ("zero-nonce" if m is None else ksel + "/" + v))
    # return 0 never leaves bytes that partial_sig_verify accepts
    if a_out is not None and out.raw[:4] == W.psig_magic:
        pn = H.pnobj[s]
        if pn is not None:
            for k in ("A", "B", "A-", "B-"):
                if L.musig_partial_sig_verify(L.ctx, out, pn, W.pkobj[k], W.cache, sess) != 0:
                    bad(st, H, "partial_sign returned %d but left a partial signature that verifies for key %s" % (ret, k))
                st.calls += 1
            L.cb_take()
        st.count("refused-but-sig-object-written")
        # "signing with a zeroed, already-used or foreign-keyed secret nonce produces no signature": a refused call that
        # nevertheless stores a well-formed partial-signature object (magic + scalar, accepted by partial_sig_serialize /
        # partial_sig_agg) HAS produced one - computed from the live nonce - whatever its return value says
        bad(st, H, "partial_sign[%s,%s] returned %d but wrote a well-formed partial-signature object into the output (s = %s): a signature was produced from the secret nonce by a call that must produce none"
            % (ksel, v, ret, hx(out.raw[4:36])))
    elif a_out is not None:
        if not is_zero(out.raw):
            st.count("refused-output-touched")
    return (ret, ill > 0)


def apply_op(H, opi, st):
    op = OPS[opi]
    pos = len(H.done)
    before = H.last_canon if H.last_canon is not None else H.canon()
    H.done.append(opi)
    if op[0] == "gen":
        o = do_gen(H, op, pos, st)
    elif op[0] == "cnt":
        o = do_cnt(H, op, pos, st)
    else:
        o = do_sign(H, op, pos, st)
    check_invariants(H, st)
    after = H.last_canon = H.canon()
    return before, o, after


def replay(W, hist, st, record=None):
    H = Hist(W)
    for opi in hist:
        b, o, a = apply_op(H, opi, st)
        if record is not None:
            record.add((b, opi, o, a))
    return H


def unmerged_case(W, prefix, st):
    """prefix: tuple of op indices; every extension by one more operation is replayed from scratch"""
    rec = set()
    for last in range(NOPS):
        replay(W, tuple(prefix) + (last,), st, rec)
        st.count("sequences")
    for r in rec:
        st.states.add(r)
    if W.L.illegal or W.L.errors:
        W.L.cb_reset()
    if not prefix or prefix[-1] == 0:
        st.sample({"sequence": hist_names(tuple(prefix) + (NOPS - 2,))})


def bfs_all(W, depth, st):
    """BFS with merging, executed in one process: level k applies every operation to one representative
    history (the smallest first-found one) of each canonical state first reached at level k-1."""
    c0 = Hist(W).canon()
    seen = {c0: ()}
    frontier = {c0: ()}
    levels = []
    for lvl in range(1, depth + 1):
        if not frontier:
            break
        new = {}
        tr = 0
        for c, hist in sorted(frontier.items()):
            for opi in range(NOPS):
                H = Hist(W)
                for o in hist:
                    apply_op(H, o, st)
                b_, o_, a_ = apply_op(H, opi, st)
                if b_ != c:
                    bad(st, H, "replaying the representative history of state %s reached %s: not deterministic" % (c, b_))
                st.states.add((b_, opi, o_, a_))
                tr += 1
                st.count("transitions-level-%d" % lvl)
                if a_ not in seen and a_ not in new:
                    new[a_] = tuple(hist) + (opi,)
        levels.append((lvl, len(frontier), len(new), tr))
        seen.update(new)
        frontier = new
    st.states.add(("BFS-SUMMARY", tuple(levels), tuple(sorted(seen)), len(frontier)))
    st.sample({"bfs_levels(level,frontier,new_states,transitions)": levels})


def functional(run, phase, tuples):
    """differential oracle for merging: (canonical state, op) must determine (ret, callback?, next state)"""
    seen = {}
    for t in tuples:
        b, opi, o, a = t[:4]
        k = (b, opi)
        if k in seen and seen[k] != (o, a):
            run.violation("[%s] canonical state %s + %s has two different outcomes %r / %r: state merging is unsound or the library keeps hidden state"
                          % (phase, b, opname(opi), seen[k], (o, a)), {"state": b, "op": opname(opi)}, None, phase)
        seen[k] = (o, a)
    return seen


def main():
    a = args()
    run = Run(PID, a.tier)
    thorough = a.tier == "thorough"
    try:
        nv = M.selftest(B.REPO)
    except AssertionError as e:
        print("MACHINERY BROKEN: BIP-327 model fails its own vectors: %s" % e)
        sys.exit(2)
    api_decls()  # parse the headers once in the parent (inherited by the forked workers)
    cfgs = ["prod-san", "prod-verify"]
    B.build_many(cfgs)
    for b in cfgs:
        run.cov["builds"][b] = B.source_hash()[:16]
    run.cov["model_selftest_vectors"] = nv
    run.cov["alphabet"] = [opname(i) for i in range(NOPS)]
    depth_un = {"prod-san": 4 if thorough else 3, "prod-verify": 3 if thorough else 2}
    bfs_depth = 6 if thorough else 5
    alltuples = set()
    for cfg in cfgs:
        d = depth_un[cfg]
        prefixes = [()]
        for _ in range(d - 1):
            prefixes = [p + (i,) for p in prefixes for i in range(NOPS)]
        sym = ""
        if d >= 4:
            # symmetry reduction for the deepest level only: the two secnonce slots are interchangeable (a history that starts on
            # slot 1 is the mirror image of one that starts on slot 0, with the two fixed messages exchanged), so the first
            # operation is taken from slot 0 (or the slot-less partial_sign(NULL)); all histories up to depth 3 are enumerated in full on prod-verify
            prefixes = [p for p in prefixes if OPS[p[0]][1] != 1]
            sym = " [depth-%d histories start on slot 0: slot symmetry]" % d
        name = "%s/unmerged-depth-%d" % (cfg, d)
        st = run_phase(run, name, unmerged_case, prefixes, setup=setup(cfg), nproc=(None if len(prefixes) > 400 else 4),
                       rule="ALL %d^%d operation sequences (and, as prefixes, all shorter ones) over 2 secnonce slots, %d-operation alphabet, no state merging, each sequence replayed on fresh objects; after every call: slot all-zero <=> model ZERO, live bytes = NonceGen model bound to the supplied key, any partial_sign handed a secnonce leaves it all-zero, <=1 signature per nonce id, return 0 leaves no verifying signature, secrand wiped on success, zero secrand refused; non-trivial = nonces generated / signatures issued"
                       % (NOPS, d, NOPS) + sym,
                       extra={"bounds": {"depth": d, "alphabet": NOPS, "sequences": len(prefixes) * NOPS, "merging": False}})
        seen = functional(run, name, st.states)
        if name in run.cov["phases"]:
            run.cov["phases"][name]["states"] = len({k[0] for k in seen})
            run.cov["phases"][name]["distinct_state_op_pairs"] = len(seen)
        alltuples |= {t[:4] for t in st.states}
        if run.out_of_time():
            run.cov["exhaustive"] = False
            break
    # ---- BFS with merging on the canonical state (one process: the frontier lives in the worker)
    cfg = "prod-san"
    name = "%s/bfs-merged" % cfg
    st = run_phase(run, name, bfs_all, [bfs_depth], setup=setup(cfg), nproc=1,
                   rule="BFS to depth %d with merging: every operation applied to one representative history of each canonical state (canonical state = per slot ZERO-never/ZERO-consumed/ZERO-wiped/LIVE(key) read from the real bytes, plus none/zero/non-zero of the last secrand buffer); stops early at a fixpoint" % bfs_depth)
    summ = [t for t in st.states if t[0] == "BFS-SUMMARY"]
    alltuples |= {t for t in st.states if t[0] != "BFS-SUMMARY"}
    levels, seen_states, open_frontier = (summ[0][1], summ[0][2], summ[0][3]) if summ else ((), (), -1)
    total_tr = sum(l[3] for l in levels)
    fix = None
    for l in levels:
        if l[2] == 0:
            fix = l[0]
    if name in run.cov["phases"]:
        run.cov["phases"][name]["states"] = len(seen_states)
        run.cov["phases"][name]["bounds"] = {"depth": bfs_depth, "levels(level,frontier,new_states,transitions)": [list(l) for l in levels],
                                             "fixpoint_at_level": fix, "merging": True}
    functional(run, "merging-soundness", alltuples)
    run.cov["history_search"] = {"canonical_states": len(seen_states), "bfs_transitions": total_tr,
                                 "bfs_depth_bound": bfs_depth, "bfs_fixpoint_at_level": fix,
                                 "unmerged_depth": depth_un, "unmerged_sequences": {c: NOPS ** d for c, d in depth_un.items()},
                                 "states_list": sorted(seen_states)}
    run.cov["states"] = len(seen_states)
    run.assumptions += ["a state is an operation history replayed on fresh objects; secnonce objects are never copied",
                        "histories longer than the unmerged depth are covered only through the canonical-state abstraction (checked for functional consistency on all explored (state, op) pairs)",
                        "keys, messages and randomness are fixed representatives (+ VERIF_SEED fillers); the property quantifies over histories, which are enumerated completely up to the bound"]
    sys.exit(run.finish())


if __name__ == "__main__":
    main()
