"""C09 Every range proof the library creates verifies, bounds the value and rewinds.
E1: full product of the four interacting clamp dimensions (value x min_value x exp x min_bits) plus single
deviations in message / extra-commit / blind / nonce / buffer / generator; oracle = documented success and
failure classes + soundness obligations on every success (verify, info, rewind, size bound, determinism,
model verifier agreement)."""
import sys, ctypes
from ctypes import c_int, c_size_t, c_uint64, byref
from ..core import Run, run_phase, hx, seeded_fillers
from ..util import *
from ..model import rangeproof as RP
from ..model import pedersen as PD
from .. import build as B

PID = "C09"
_L = {}


def lib(cfg):
    if cfg not in _L:
        _L[cfg] = Lib(cfg)
    return _L[cfg]


def u64_alphabet():
    v = [0, 1, 2, 3, 9, 10, 11]
    for k in range(2, 20):
        v += [10**k - 1, 10**k, 10**k + 1]
    for k in (1, 2, 8, 31, 32, 33, 61, 62, 63):
        v += [2**k - 1, 2**k, 2**k + 1]
    v += [2**63 - 2, 2**63 - 1, 2**63, 2**64 - 2, 2**64 - 1]
    out = []
    for x in v:
        if 0 <= x < 2**64 and x not in out:
            out.append(x)
    return sorted(out)


U64A = u64_alphabet()
U64S = [0, 1, 3, 10, 255, 256, 10**6, 2**32 - 1, 2**32, 10**18, 2**62, 2**63 - 2, 2**63 - 1, 2**63, 2**64 - 2, 2**64 - 1]
BLIND = b32(0x1F2E3D4C5B6A79880112233445566778899AABBCCDDEEFF00123456789ABCDEF)
NONCE = b32(0x0A0B0C0D0E0F101112131415161718191A1B1C1D1E1F20212223242526272829)


class Env:
    def __init__(self, cfg):
        self.L = L = lib(cfg)
        c = L.ctx
        self.gens = []
        hptr = L.var_ptr("secp256k1_generator_h")
        hobj = (ctypes.c_ubyte * 64).from_address(hptr)
        for kind in ("h", "gen", "blinded"):
            g = buf(64)
            if kind == "h":
                ctypes.memmove(g, hobj, 64)
            elif kind == "gen":
                assert L.generator_generate(c, g, b32(1)) == 1
            else:
                assert L.generator_generate_blinded(c, g, b32(2), b32(77)) == 1
            o = buf(33)
            L.generator_serialize(c, o, g)
            self.gens.append((g, PD.generator_parse(o.raw)))


def setup(cfg):
    return lambda: Env(cfg)


def classify(value, minv, exp, min_bits, blind_int, msglen, buflen):
    """'fail' (documented-invalid), 'ok' (inside every documented range), 'either' (grey zone)"""
    if exp < -1 or exp > 18 or min_bits < 0 or min_bits > 64 or minv > value or buflen < 65 or blind_int >= N:
        return "fail"
    if msglen == 0 and buflen >= 5134 and 0 < blind_int < N:
        if value <= 2**63 - 2:
            return "ok"
        if minv == 0 and exp in (0, -1):
            return "ok"
    return "either"


def one_proof(env, st, value, minv, exp, min_bits, blind=BLIND, nonce=NONCE, msg=b"", extra=b"", gi=0, buflen=5134, full_model=True):
    L, c = env.L, env.L.ctx
    gobj, H = env.gens[gi]
    bi = i32(blind)
    cm = buf(64)
    have_commit = L.pedersen_commit(c, cm, blind if bi < N else b32(1), value, gobj) == 1
    if not have_commit:
        return
    proof = exact(b"\xcc" * max(buflen, 1))
    pl = c_size_t(buflen)
    r = L.rangeproof_sign(c, proof, byref(pl), minv, cm, blind, nonce, exp, min_bits, value, msg if msg else None, len(msg), extra if extra else None, len(extra), gobj)
    st.calls += 1
    cls = classify(value, minv, exp, min_bits, bi, len(msg), buflen)
    desc = {"cfg": L.config, "value": value, "min_value": minv, "exp": exp, "min_bits": min_bits, "blind": hx(blind), "msglen": len(msg), "extralen": len(extra), "gen": gi, "buflen": buflen}
    if r not in (0, 1):
        st.fail("rangeproof_sign returned %r" % r, desc)
        return
    st.count("%s-%s" % (cls, "success" if r else "refused"))
    if cls == "fail" and r == 1:
        st.fail("rangeproof_sign succeeded on documented-invalid parameters", desc)
    if cls == "ok" and r == 0:
        st.fail("rangeproof_sign refused parameters inside every documented range", desc)
    if r == 0:
        return
    st.nt((value, minv, exp, min_bits, len(msg), gi))
    plen = pl.value
    pbytes = bytes(proof[:plen])
    desc["proof_len"] = plen
    # size bound
    ms = L.rangeproof_max_size(c, value, min_bits)
    if plen > ms or plen > buflen:
        st.fail("proof length %d exceeds rangeproof_max_size(value, min_bits) = %d (or the buffer)" % (plen, ms), desc)
    # verify
    mn, mx = c_uint64(0), c_uint64(0)
    v = L.rangeproof_verify(c, byref(mn), byref(mx), cm, pbytes, plen, extra if extra else None, len(extra), gobj)
    st.calls += 1
    if v != 1:
        st.fail("a proof created by the library does not verify", desc)
        return
    if not (mn.value <= value <= mx.value):
        st.fail("verified range [%d,%d] does not contain the committed value %d" % (mn.value, mx.value, value), desc)
    # info agrees
    e_, m_ = c_int(0), c_int(0)
    imn, imx = c_uint64(0), c_uint64(0)
    ri = L.rangeproof_info(c, byref(e_), byref(m_), byref(imn), byref(imx), pbytes, plen)
    st.calls += 1
    if ri != 1 or (imn.value, imx.value) != (mn.value, mx.value):
        st.fail("rangeproof_info reports [%d,%d], verify reports [%d,%d]" % (imn.value, imx.value, mn.value, mx.value), desc)
    # rewind with the creator's nonce
    bo, mo = buf(32), buf(4096)
    ml = c_size_t(4096)
    vo = c_uint64(0)
    rmn, rmx = c_uint64(0), c_uint64(0)
    rw = L.rangeproof_rewind(c, bo, byref(vo), mo, byref(ml), nonce, byref(rmn), byref(rmx), cm, pbytes, plen, extra if extra else None, len(extra), gobj)
    st.calls += 1
    if rw != 1 or vo.value != value or bo.raw != blind or (rmn.value, rmx.value) != (mn.value, mx.value):
        st.fail("rewind with the creator's nonce: ret=%d value=%d (expected %d) blind %s" % (rw, vo.value, value, "ok" if bo.raw == blind else "WRONG"), desc)
    elif msg:
        got = mo.raw[:ml.value]
        if got[:len(msg)] != msg or any(got[len(msg):]):
            st.fail("rewind does not return the embedded message zero-padded", desc)
    # rewind with another nonce fails
    ml = c_size_t(4096)
    other = bytes([nonce[0] ^ 1]) + nonce[1:]
    rw2 = L.rangeproof_rewind(c, bo, byref(vo), mo, byref(ml), other, byref(rmn), byref(rmx), cm, pbytes, plen, extra if extra else None, len(extra), gobj)
    st.calls += 1
    if rw2 != 0:
        st.fail("rewind succeeded with a different nonce", desc)
    # determinism
    proof2 = buf(5134)
    pl2 = c_size_t(5134)
    r2 = L.rangeproof_sign(c, proof2, byref(pl2), minv, cm, blind, nonce, exp, min_bits, value, msg if msg else None, len(msg), extra if extra else None, len(extra), gobj)
    st.calls += 1
    if r2 != 1 or proof2.raw[:pl2.value] != pbytes:
        st.fail("proof bytes are not a deterministic function of the inputs", desc)
    # the specified verifier (model) accepts the same proof with the same range
    if full_model:
        o = buf(33)
        L.pedersen_commitment_serialize(c, o, cm)
        cpt = PD.commitment_parse(o.raw)
        mres = RP.verify(cpt, pbytes, extra, H)
        st.count("model-verified")
        if mres is None or mres != (mn.value, mx.value):
            st.fail("the specified verifier disagrees on a library-made proof: model %s, library [%d,%d]" % (mres, mn.value, mx.value), desc)
    if L.illegal or L.errors:
        st.fail("callback fired", desc)
        L.cb_reset()


def grid_case(env, case, st):
    value, exps, bits, thorough = case
    k = 0
    for minv in U64S:
        if minv > value and minv != value + 1:
            continue
        for exp in exps:
            for mb in bits:
                k += 1
                # the model verifier is expensive on wide proofs: always for narrow ones, every 5th otherwise
                wide = value - min(minv, value) > 2**20 or mb > 20
                one_proof(env, st, value, minv, exp, mb, full_model=(not wide) or k % 5 == 0)
    st.sample({"value": value, "min_values": len(U64S), "exps": list(exps), "min_bits": list(bits)})


def deviation_case(env, case, st):
    """single deviations from a default parameter set on a core of parameter points"""
    value, minv, exp, mb = case
    # baseline to know the ring count
    L, c = env.L, env.L.ctx
    for gi in (0, 1, 2):
        one_proof(env, st, value, minv, exp, mb, gi=gi)
    gobj = env.gens[0][0]
    cm = buf(64)
    L.pedersen_commit(c, cm, BLIND, value, gobj)
    proof = buf(5134)
    pl = c_size_t(5134)
    if L.rangeproof_sign(c, proof, byref(pl), minv, cm, BLIND, NONCE, exp, mb, value, None, 0, None, 0, gobj) != 1:
        return
    h = RP.header(proof.raw[:pl.value])
    rings = len(RP.ring_layout(h["mantissa"]))
    cap = 128 * (rings - 1)
    need = pl.value
    for ml in sorted(set([0, 1, 31, 32, 33, 127, 128, 129, max(cap - 1, 0), cap, cap + 1, 3968, 4000])):
        msg = bytes(((i * 5 + 1) & 0xFF) or 1 for i in range(ml))
        L2 = env.L
        # message longer than the capacity must be refused
        cmo = buf(64)
        L2.pedersen_commit(c, cmo, BLIND, value, gobj)
        pr = buf(5134)
        pl2 = c_size_t(5134)
        r = L2.rangeproof_sign(c, pr, byref(pl2), minv, cmo, BLIND, NONCE, exp, mb, value, msg if ml else None, ml, None, 0, gobj)
        st.calls += 1
        if ml > cap and ml > 0 and r != 0:
            st.fail("rangeproof_sign accepted a %d-byte message although the proof has room for %d" % (ml, cap), {"cfg": L.config, "value": value, "min_value": minv, "exp": exp, "min_bits": mb})
        if 0 < ml <= cap:
            one_proof(env, st, value, minv, exp, mb, msg=msg)
        st.count("msg-%s" % ("fits" if ml <= cap else "too-long"))
    for el in (0, 1, 32, 33, 100):
        one_proof(env, st, value, minv, exp, mb, extra=bytes(range(el)))
    for bl in (b32(1), b32(N - 1), b32(0), b32(N), b32(2**256 - 1)):
        if i32(bl) == 0:
            continue     # blind 0 cannot make a commitment with value 0; grey zone otherwise
        one_proof(env, st, value, minv, exp, mb, blind=bl)
    for nn in (b32(0), b32(2**256 - 1), b32(N)):
        one_proof(env, st, value, minv, exp, mb, nonce=nn)
    for bl in (0, 64, 65, need - 1, need, need + 1, 5134):
        if bl < 0:
            continue
        # buffers shorter than needed must be refused; exactly `need` must work
        L.cb_reset()
        pr = exact(b"\xee" * max(bl, 1))
        pl3 = c_size_t(bl)
        r = L.rangeproof_sign(c, pr, byref(pl3), minv, cm, BLIND, NONCE, exp, mb, value, None, 0, None, 0, gobj)
        st.calls += 1
        st.count("buffer-%s" % ("short" if bl < need else "enough"))
        if bl < need and r != 0:
            st.fail("rangeproof_sign succeeded with a %d-byte buffer (proof needs %d)" % (bl, need), {"cfg": L.config, "value": value, "exp": exp, "min_bits": mb})
        if bl >= need + 32 and r != 1:
            st.fail("rangeproof_sign refused a sufficient %d-byte buffer (proof needs %d)" % (bl, need), {"cfg": L.config, "value": value, "exp": exp, "min_bits": mb})
        if r == 1 and (pl3.value != need or bytes(pr[:need]) != proof.raw[:need]):
            st.fail("proof written into a %d-byte buffer differs" % bl, {"cfg": L.config, "value": value})
    # ---- rewind: every combination of the optional outputs x {creator's nonce, another nonce}, with and without an embedded message
    for msg in ([b"", bytes(range(1, 41))] if cap >= 40 else [b""]):
        pr = buf(5134)
        plx = c_size_t(5134)
        if L.rangeproof_sign(c, pr, byref(plx), minv, cm, BLIND, NONCE, exp, mb, value, msg if msg else None, len(msg), None, 0, gobj) != 1:
            continue
        pb = pr.raw[:plx.value]
        for want_blind in (0, 1):
            for want_value in (0, 1):
                for want_msg in (0, 1):
                    for nonce, good in ((NONCE, True), (bytes([NONCE[0] ^ 0x80]) + NONCE[1:], False), (BLIND, False)):
                        bo, mo = buf(b"\xa5" * 32), buf(b"\xa5" * 4096)
                        mlen = c_size_t(4096)
                        vo = c_uint64(0xA5A5)
                        rmn, rmx = c_uint64(0), c_uint64(0)
                        rw = L.rangeproof_rewind(c, bo if want_blind else None, byref(vo) if want_value else None, mo if want_msg else None, byref(mlen) if want_msg else None,
                                                 nonce, byref(rmn), byref(rmx), cm, exact(pb), len(pb), None, 0, gobj)
                        st.calls += 1
                        st.count("rewind-optional-%s" % ("creator" if good else "foreign"))
                        d_ = {"cfg": L.config, "value": value, "min_value": minv, "exp": exp, "min_bits": mb, "msglen": len(msg),
                              "blind_out": bool(want_blind), "value_out": bool(want_value), "message_out": bool(want_msg), "creator_nonce": good}
                        if rw != (1 if good else 0):
                            st.fail("rangeproof_rewind returned %d with %s nonce (optional outputs: blind %d, value %d, message %d)" % (rw, "the creator's" if good else "a foreign", want_blind, want_value, want_msg), d_)
                        elif good:
                            if (want_blind and bo.raw != BLIND) or (want_value and vo.value != value):
                                st.fail("rangeproof_rewind returned a wrong value / blinding factor for an optional-output combination", d_)
                            if want_msg and msg and (mo.raw[:len(msg)] != msg or any(mo.raw[len(msg):mlen.value])):
                                st.fail("rangeproof_rewind returned a wrong embedded message for an optional-output combination", d_)
    # ---- crafted messages: a block chosen so that (stream block XOR message block) is >= n; creation may refuse (documented), but a
    #      proof that IS created must rewind to exactly this message (checked by one_proof)
    if cap >= 128:
        pr = buf(5134)
        plx = c_size_t(5134)
        zero = b"\x00" * cap
        if L.rangeproof_sign(c, pr, byref(plx), minv, cm, BLIND, NONCE, exp, mb, value, zero, cap, None, 0, gobj) == 1:
            lay = RP.layout(pr.raw[:plx.value])
            for t in range(min(4, cap // 32)):
                stream = pr.raw[lay["s"][t]:lay["s"][t] + 32]
                for target in (2**256 - 1, N + 1, N):
                    blk = bytes(x ^ y for x, y in zip(stream, b32(target)))
                    m2 = zero[:32 * t] + blk + zero[32 * (t + 1):]
                    one_proof(env, st, value, minv, exp, mb, msg=m2)
                    st.count("crafted-message")
    if L.illegal or L.errors:
        st.fail("callback fired", {"cfg": L.config})
        L.cb_reset()
    st.sample({"core_point": list(case), "rings": rings, "message_capacity": cap, "needed_bytes": need})


def main():
    a = args()
    run = Run(PID, a.tier)
    thorough = a.tier == "thorough"
    cfgs = ["prod-san", "prod-verify"]
    B.build_many(cfgs)
    for b in cfgs:
        run.cov["builds"][b] = B.source_hash()[:16]
    exps = list(range(-2, 20)) if thorough else [-2, -1, 0, 1, 2, 9, 17, 18, 19]
    bits = [-1, 0, 1, 2, 3, 7, 8, 15, 16, 31, 32, 33, 47, 48, 60, 61, 62, 63, 64, 65] if thorough else [-1, 0, 1, 2, 31, 32, 33, 61, 62, 63, 64, 65]
    core = [(0, 0, 0, 0), (1, 0, 0, 1), (5, 0, -1, 0), (1000, 0, 0, 12), (1000, 100, 2, 0), (123456789, 0, 3, 8), (2**32, 1, 0, 33), (10**18, 0, 18, 0),
            (2**62, 0, 0, 63), (2**63 - 2, 2**63 - 2, 0, 0), (2**64 - 1, 0, 0, 64), (255, 0, 0, 8)]
    for cfg in cfgs:
        first = cfg == cfgs[0]
        vals = U64A if thorough else U64S
        cases = [(v, exps if (first or thorough) else exps[::2], bits if (first or thorough) else bits[::2], thorough) for v in vals]
        # split by exponent for parallelism
        split = []
        for (v, ee, bb, t) in cases:
            for e in ee:
                split.append((v, (e,), bb, t))
        run_phase(run, "%s/clamp-product" % cfg, grid_case, split, setup=setup(cfg),
                  rule="full product value (U64 alphabet%s) x min_value (16 boundary values, min_value <= value plus min_value = value+1) x exp %s x min_bits %s; documented-invalid parameters must be refused, documented-valid ones must succeed, the grey zone may do either; every success must verify with min <= value <= max, agree with info, rewind to (value, blind) with the creator's nonce only, respect max_size, be deterministic, and be accepted with the same range by the specified (model) verifier" % (
                      "" if thorough else " (16 values)", exps, bits))
        run_phase(run, "%s/single-deviations" % cfg, deviation_case, core if (first or thorough) else core[::3], setup=setup(cfg),
                  rule="12 core parameter points x {3 generators, message lengths 0,1,31,32,33,127,128,129,capacity-1/0/+1,3968,4000, extra-commit lengths 0,1,32,33,100, blinds 1,n-1,n,2^256-1, nonces 0,n,2^256-1, output buffers 0,64,65,needed-1,needed,needed+1,5134}; rewind with EVERY combination of the optional outputs (blind, value, message) x {creator's nonce, two foreign nonces} x {no message, 40-byte message}; messages crafted block-wise so that stream XOR message is n, n+1 or 2^256-1 (creation may refuse, a created proof must rewind to exactly that message)")
        if run.out_of_time():
            run.cov["exhaustive"] = False
            break
    run.assumptions += ["parameter values outside the stated alphabets are not explored",
                        "the header is looser than the code for value >= 2^63 with non-zero min_value/exp: that zone may refuse or succeed (then all soundness obligations apply)"]
    sys.exit(run.finish())


if __name__ == "__main__":
    main()
