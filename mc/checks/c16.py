"""C16 Whitelist proofs verify only for a real member of a non-empty key list.
E1: key counts x every signer index x secret variants, honest signatures byte-compared with the
model (RFC 6979 derivation + Borromean prover) and verified by library and model.
E5: every single mutation of signatures (bit flips, scalar replacements on model-built signatures
with small forged scalars) and of the key lists; total parser; the public-data forgery against the
empty list (finding F1, fixed in e5a3e7d) as a permanent must-reject case."""
import sys
from ctypes import c_size_t, c_ubyte, byref, memset
from ..core import Run, run_phase, hx, seeded_fillers
from ..util import *
from ..model import whitelist as WL
from ..model import borromean as BOR
from .. import build as B

PID = "C16"
_L = {}
NFAM = 257  # key pairs in the family (256 usable + 1 spare "foreign" key)


def lib(cfg):
    if cfg not in _L:
        _L[cfg] = Lib(cfg)
    return _L[cfg]


def phase(run, name, fn, cases, **kw):
    import time, os, re
    if os.environ.get("VERIF_PHASES") and not re.search(os.environ["VERIF_PHASES"], name):
        run.cov["exhaustive"] = False  # development aid: a filtered run never counts as complete
        return None
    t0 = time.time()
    c0 = os.times()
    st = run_phase(run, name, fn, cases, **kw)
    if os.environ.get("VERIF_VERBOSE"):
        c1 = os.times()
        sys.stderr.write("%-40s %7d cases %7.1fs wall %7.1f core-s\n" % (name, len(cases), time.time() - t0,
                         c1.children_user + c1.children_system - c0.children_user - c0.children_system))
    return st


def _sec(tag, i):
    v = i32(BOR.sha256(b"verif-c16-" + tag + i.to_bytes(2, "big"))) % (N - 1) + 1
    return v


class Family:
    """A fixed family of (online, offline) key pairs and one whitelisted key, all with known secrets.
    The list of size k is the first k pairs.  Everything the model needs is cached per worker."""

    def __init__(self, L, wtag=b"w"):
        self.L = L
        self.on_sec = [_sec(b"on", i) for i in range(NFAM)]
        self.off_sec = [_sec(b"off", i) for i in range(NFAM)]
        # a few boundary secrets among the first pairs
        self.on_sec[0], self.off_sec[0] = 1, N - 1
        self.on_sec[1], self.off_sec[1] = N - 1, 2
        self.on_sec[2], self.off_sec[2] = (N - 1) // 2, (N + 1) // 2
        self.w = _sec(wtag, 0)
        self.on_pt = [SECP.mulG(x) for x in self.on_sec]
        self.off_pt = [SECP.mulG(x) for x in self.off_sec]
        self.W = SECP.mulG(self.w)
        self.on_obj = b"".join(pubkey_from_point(L, p).raw for p in self.on_pt)
        self.off_obj = b"".join(pubkey_from_point(L, p).raw for p in self.off_pt)
        self.W_obj = pubkey_from_point(L, self.W).raw
        self._keys = []
        self._msg = {}
        self._arr = {}

    def summed(self, i):
        return (self.off_sec[i] + self.w) % N

    def keys(self, k):
        while len(self._keys) < k:
            i = len(self._keys)
            self._keys.append(WL.ring_key(self.on_pt[i], self.off_pt[i], self.W))
        return self._keys[:k]

    def msg(self, k):
        if k not in self._msg:
            self._msg[k] = WL.message(self.on_pt[:k], self.off_pt[:k], self.W)
        return self._msg[k]

    def arrays(self, k):
        """exactly sized heap copies of the first k pubkey objects"""
        if k not in self._arr:
            self._arr[k] = (exact(self.on_obj[:64 * k]), exact(self.off_obj[:64 * k]))
        return self._arr[k]


def setup(cfg):
    def f():
        L = lib(cfg)
        return L, Family(L)
    return f


_SIG = {}


def sigobj(L, slot=0):
    """an exactly sized heap object for a secp256k1_whitelist_signature, refilled with 0x5a (allocating a
    fresh 8 KB ctypes buffer per call costs milliseconds under the ASan runtime, so two slots are reused)"""
    key = (L.config, slot)
    if key not in _SIG:
        _SIG[key] = (c_ubyte * L.verif_sizeof(11))()
    o = _SIG[key]
    memset(o, 0x5A, len(o))
    return o


def lib_serialize(L, sig, room=None):
    k = L.whitelist_signature_n_keys(sig)
    need = 1 + 32 * (k + 1)
    out = buf(b"\xee" * (need if room is None else room))
    ln = c_size_t(need if room is None else room)
    ok = L.whitelist_signature_serialize(L.ctx, out, byref(ln), sig)
    return ok, out.raw[:ln.value] if ok else None, ln.value


def lib_parse(L, data, slot=1):
    sig = sigobj(L, slot)
    ok = L.whitelist_signature_parse(L.ctx, sig, exact(data), len(data))
    return ok, sig


def lib_verify_bytes(L, data, on_obj, off_obj, k_arg, W_obj):
    """parse + verify; returns 'noparse' or 0/1"""
    ok, sig = lib_parse(L, data)
    if not ok:
        return "noparse"
    return L.whitelist_verify(L.ctx, sig, exact(on_obj), exact(off_obj), k_arg, W_obj)


def model_verdict(data, on_pts, off_pts, W, keys=None, msg=None):
    if WL.parse(data) is None:
        return "noparse"
    return 1 if WL.verify(data, on_pts, off_pts, W, keys=keys, msg=msg) else 0


def cb_check(L, st, where):
    if L.illegal or L.errors:
        st.fail("callback fired on legal input (%s): illegal=%d error=%d" % (where, L.illegal, L.errors), {"cfg": L.config})
        L.cb_reset()


# ------------------------------------------------------------------ E1 sign / verify
VARIANTS = {
    "valid": (None, None),
    "online=0": (0, None), "online=n": (N, None), "online=n+1": (N + 1, None), "online=2^256-1": (2**256 - 1, None),
    "summed=0": (None, 0), "summed=n": (None, N), "summed=n+1": (None, N + 1), "summed=2^256-1": (None, 2**256 - 1),
    "both=0": (0, 0),
}


def sign_case(env, case, st):
    L, F = env
    k, idx, var, level = case
    on_arr, off_arr = F.arrays(k)
    o, s = VARIANTS[var]
    on32 = b32(F.on_sec[idx] if o is None else o)
    sum32 = b32(F.summed(idx) if s is None else s)
    sig = sigobj(L)
    ret = L.whitelist_sign(L.ctx, sig, on_arr, off_arr, k, F.W_obj, on32, sum32, idx)
    st.calls += 1
    cd = {"cfg": L.config, "n_keys": k, "index": idx, "secrets": var}
    if var != "valid":
        st.count("sign-refused:" + var)
        if ret != 0:
            st.fail("whitelist_sign returned %d for an invalid secret key (%s); it must refuse" % (ret, var), cd)
        cb_check(L, st, "sign/invalid secret")
        return
    if ret != 1:
        st.fail("whitelist_sign refused valid secrets", cd)
        return
    if L.whitelist_signature_n_keys(sig) != k:
        st.fail("signature_n_keys != n_keys after signing", cd)
    ok, ser, ln = lib_serialize(L, sig)
    st.calls += 2
    if not ok or len(ser) != 1 + 32 * (k + 1) or ser[0] != k:
        st.fail("serialized signature has the wrong framing", cd)
        return
    if level >= 1:
        exp = WL.sign(F.on_pt[:k], F.off_pt[:k], F.W, on32, sum32, idx, keys=F.keys(k), msg=F.msg(k))
        st.count("model-signed")
        if ser != exp:
            st.fail("signature differs from the model (RFC 6979 derivation + Borromean prover)",
                    dict(cd, got=hx(ser)[:200] if ser else None, model=hx(exp)[:200]))
            return
    v = L.whitelist_verify(L.ctx, sig, on_arr, off_arr, k, F.W_obj)
    v0 = L.whitelist_verify(L.ctx, sig, on_arr, off_arr, k - 1, F.W_obj)
    st.calls += 2
    if v != 1:
        st.fail("own signature does not verify against the same list and whitelisted key", cd)
    if v0 != 0:
        st.fail("signature verifies against a list one key shorter", cd)
    if level >= 2:
        if not WL.verify(ser, F.on_pt[:k], F.off_pt[:k], F.W, keys=F.keys(k), msg=F.msg(k)):
            st.fail("model verifier rejects the library's signature", cd)
        st.count("model-verified")
    # round trip
    ok2, sig2 = lib_parse(L, ser)
    ok3, ser2, _ = lib_serialize(L, sig2) if ok2 else (0, None, 0)
    st.calls += 2
    if not ok2 or not ok3 or ser2 != ser or L.whitelist_signature_n_keys(sig2) != k:
        st.fail("serialize/parse round trip fails", cd)
    elif L.whitelist_verify(L.ctx, sig2, on_arr, off_arr, k, F.W_obj) != 1:
        st.fail("re-parsed signature does not verify", cd)
    # serialize into every declared length 0..needed+1 on an exactly sized heap buffer (short => 0, nothing written past it)
    if k <= 8:
        for room in range(0, len(ser) + 2):
            ob_ = exact(b"\xee" * max(room, 1))
            ln_ = c_size_t(room)
            r_ = L.whitelist_signature_serialize(L.ctx, ob_, byref(ln_), sig)
            st.calls += 1
            if r_ != (1 if room >= len(ser) else 0) or (r_ == 1 and (ln_.value != len(ser) or bytes(ob_[:len(ser)]) != ser)):
                st.fail("whitelist_signature_serialize into a %d-byte buffer (needs %d) returned %d / length %d" % (room, len(ser), r_, ln_.value), cd)
                break
    # serialize into a buffer one byte short / longer
    okS, _, _ = lib_serialize(L, sig, room=len(ser) - 1)
    okL, serL, lnL = lib_serialize(L, sig, room=len(ser) + 9)
    st.calls += 3
    if okS != 0 or okL != 1 or lnL != len(ser) or serL != ser:
        st.fail("serialize: short buffer must give 0, longer buffer the exact length", cd)
    st.count("sign-ok")
    st.nt((k, idx))
    if idx == 0:
        st.sample({"n_keys": k, "index": idx, "signature_head": hx(ser[:65])})
    cb_check(L, st, "sign/verify")


def secret_alphabet_case(env, case, st):
    """k in {1,2}: the signer's secrets range over the SC alphabet (valid and invalid values)."""
    L, F = env
    k, idx, so, ss = case
    valid = 1 <= so < N and 1 <= ss < N
    # the signer's public keys follow from the secrets: online = so*G, offline = (ss - w)*G
    on_pts = list(F.on_pt[:k])
    off_pts = list(F.off_pt[:k])
    if valid:
        qsec = (ss - F.w) % N
        if qsec == 0:
            return
        on_pts[idx] = SECP.mulG(so)
        off_pts[idx] = SECP.mulG(qsec)
    on_obj = b"".join(pubkey_from_point(L, p).raw for p in on_pts)
    off_obj = b"".join(pubkey_from_point(L, p).raw for p in off_pts)
    sig = sigobj(L)
    ret = L.whitelist_sign(L.ctx, sig, exact(on_obj), exact(off_obj), k, F.W_obj, b32(so), b32(ss), idx)
    st.calls += 1
    cd = {"cfg": L.config, "n_keys": k, "index": idx, "online_secret": hex(so), "summed_secret": hex(ss)}
    if not valid:
        st.count("refused")
        if ret != 0:
            st.fail("whitelist_sign returned %d for secrets outside [1,n-1]; it must refuse" % ret, cd)
        cb_check(L, st, "secret alphabet")
        return
    exp = WL.sign(on_pts, off_pts, F.W, b32(so), b32(ss), idx)
    ok, ser, _ = lib_serialize(L, sig) if ret == 1 else (0, None, 0)
    if ret != 1 or ser != exp:
        st.fail("signature differs from the model", dict(cd, got=hx(ser), model=hx(exp)))
        return
    v = L.whitelist_verify(L.ctx, sig, exact(on_obj), exact(off_obj), k, F.W_obj)
    mv = WL.verify(ser, on_pts, off_pts, F.W)
    st.calls += 2
    if v != 1 or not mv:
        st.fail("honest signature: verify=%d model=%s" % (v, mv), cd)
    st.count("sign-ok")
    st.nt((k, idx, so, ss))
    cb_check(L, st, "secret alphabet")


# ------------------------------------------------------------------ E5 signature mutations
def compare(L, F, st, data, on_pts, off_pts, on_obj, off_obj, k_arg, W, W_obj, what, cd, keys=None, msg=None, must=None):
    got = lib_verify_bytes(L, data, on_obj, off_obj, k_arg, W_obj)
    exp = model_verdict(data, on_pts, off_pts, W, keys=keys, msg=msg)
    st.calls += 2
    st.count("%s:%s" % (what, {"noparse": "noparse", 0: "reject", 1: "ACCEPT"}[exp]))
    if exp == 1:
        st.nt((what, data))
    if got != exp:
        st.fail("%s: library %r, model %r" % (what, got, exp), dict(cd, what=what, signature=hx(data)))
    if must == 0 and exp == 1:
        st.fail("%s: model accepts a case that the property says must be rejected (model anomaly)" % what, dict(cd, signature=hx(data)))
    return got


def bitflip_case(env, case, st):
    """k <= 4: every single-bit flip of an honest signature (case = one 64-bit window of the flips)"""
    L, F = env
    k, idx, lo = case
    on_arr, off_arr = F.arrays(k)
    sig = sigobj(L)
    assert L.whitelist_sign(L.ctx, sig, on_arr, off_arr, k, F.W_obj, b32(F.on_sec[idx]), b32(F.summed(idx)), idx) == 1
    ok, ser, _ = lib_serialize(L, sig)
    cd = {"cfg": L.config, "n_keys": k, "index": idx}
    on_obj, off_obj = F.on_obj[:64 * k], F.off_obj[:64 * k]
    keys, msg = F.keys(k), F.msg(k)
    if lo == 0 and compare(L, F, st, ser, F.on_pt[:k], F.off_pt[:k], on_obj, off_obj, k, F.W, F.W_obj, "unmodified", cd, keys, msg) != 1:
        return
    for bit in range(lo, min(lo + 64, 8 * len(ser))):
        d = bytearray(ser)
        d[bit // 8] ^= 1 << (bit % 8)
        compare(L, F, st, bytes(d), F.on_pt[:k], F.off_pt[:k], on_obj, off_obj, k, F.W, F.W_obj,
                "bitflip-count" if bit < 8 else ("bitflip-e0" if bit < 8 * 33 else "bitflip-s"), cd, keys, msg, must=0)
    cb_check(L, st, "bit flips")


SMALL = [1, 2, 3]


def scalar_case(env, case, st):
    """model-built signature with small forged scalars and small nonce; each scalar <- 0 / n / s+n / s+1 / n-s / 2^256-1"""
    L, F = env
    k, idx, nonce = case
    forged = [SMALL[(c + idx) % 3] for c in range(k)]
    x = WL.tweaked_secret(b32(F.on_sec[idx]), b32(F.summed(idx)))
    keys, msg = F.keys(k), F.msg(k)
    r = WL.sign_chosen(F.on_pt[:k], F.off_pt[:k], F.W, x, idx, nonce, forged, keys=keys, msg=msg)
    assert r is not None
    e0, s = r
    cd = {"cfg": L.config, "n_keys": k, "index": idx, "nonce": nonce, "forged": forged}
    on_obj, off_obj = F.on_obj[:64 * k], F.off_obj[:64 * k]
    base = WL.encode(e0, s)
    args = (F.on_pt[:k], F.off_pt[:k], on_obj, off_obj, k, F.W, F.W_obj)
    got = compare(L, F, st, base, *args, "model-built", cd, keys, msg)
    if got != 1:
        st.fail("model-built signature (forged scalars 1,2,3) is not accepted by the library", dict(cd, signature=hx(base)))
        return
    st.sample({"n_keys": k, "index": idx, "model_built_signature": hx(base)})
    for c in range(k):
        for what, v in (("s<-0", 0), ("s<-n", N), ("s<-s+n", s[c] + N), ("s<-s+1", (s[c] + 1) % N), ("s<-n-s", N - s[c]),
                        ("s<-2^256-1", 2**256 - 1), ("s<-s+2n", s[c] + 2 * N)):
            if v >= 2**256:
                st.count(what + ":unencodable")
                continue
            t = list(s)
            t[c] = v
            compare(L, F, st, WL.encode(e0, t), *args, what, cd, keys, msg, must=0)
    # the equation-valid signature whose forged scalar is 0 must be rejected as well
    for c in range(k):
        if c == idx:
            continue
        f2 = list(forged)
        f2[c] = 0
        r2 = WL.sign_chosen(F.on_pt[:k], F.off_pt[:k], F.W, x, idx, nonce, f2, keys=keys, msg=msg)
        if r2 is None:
            continue
        compare(L, F, st, WL.encode(r2[0], r2[1]), *args, "prover-with-forged-scalar-0", cd, keys, msg, must=0)
    # swapped scalars, e0 <- hash of something else
    if k >= 2:
        t = list(s)
        t[0], t[1] = t[1], t[0]
        compare(L, F, st, WL.encode(e0, t), *args, "scalars-swapped", cd, keys, msg, must=0)
    compare(L, F, st, WL.encode(BOR.sha256(e0), s), *args, "e0-replaced", cd, keys, msg, must=0)
    cb_check(L, st, "scalar replacement")


def keylist_case(env, case, st):
    """honest signature for (k, idx); the verifier is given altered key lists / whitelisted keys / counts"""
    L, F = env
    k, idx, full = case
    on_arr, off_arr = F.arrays(k)
    sig = sigobj(L)
    assert L.whitelist_sign(L.ctx, sig, on_arr, off_arr, k, F.W_obj, b32(F.on_sec[idx]), b32(F.summed(idx)), idx) == 1
    ok, ser, _ = lib_serialize(L, sig)
    cd = {"cfg": L.config, "n_keys": k, "index": idx}
    on, off = F.on_pt[:k], F.off_pt[:k]

    def obj(pts):
        return b"".join(pubkey_from_point(L, p).raw for p in pts)

    def present(what, on2, off2, W2, k_arg=None):
        kk = len(on2) if k_arg is None else k_arg
        # arrays are as long as the caller claims (k_arg) or longer
        compare(L, F, st, ser, on2[:kk], off2[:kk], obj(on2), obj(off2), kk, W2, pubkey_from_point(L, W2).raw, what, cd, must=None)

    present("same-list", on, off, F.W)
    foreign_on, foreign_off = F.on_pt[NFAM - 1], F.off_pt[NFAM - 1]
    for i in range(k):
        for j in range(i + 1, k):
            if not full and not (j == i + 1 or (i == 0 and j == k - 1)):
                continue
            a, b_ = list(on), list(off)
            a[i], a[j] = a[j], a[i]
            b_[i], b_[j] = b_[j], b_[i]
            present("pairs-swapped", a, b_, F.W)
            a2 = list(on)
            a2[i], a2[j] = a2[j], a2[i]
            present("online-swapped", a2, off, F.W)
            b2 = list(off)
            b2[i], b2[j] = b2[j], b2[i]
            present("offline-swapped", on, b2, F.W)
        for what, lst in (("online", 0), ("offline", 1)):
            for repl, tag in ((foreign_on, "foreign"), (SECP.neg((on, off)[lst][i]), "negated"), (SECP.add((on, off)[lst][i], SECP.G), "+G")):
                if repl is None:
                    continue
                a, b_ = list(on), list(off)
                (a, b_)[lst][i] = repl
                present("%s-key-%s" % (what, tag), a, b_, F.W)
        # online and offline of one pair exchanged
        a, b_ = list(on), list(off)
        a[i], b_[i] = b_[i], a[i]
        present("online-offline-exchanged", a, b_, F.W)
    if k >= 3:
        present("rotated", on[1:] + on[:1], off[1:] + off[:1], F.W)
        present("reversed", on[::-1], off[::-1], F.W)
    for W2, tag in ((SECP.add(F.W, SECP.G), "+G"), (SECP.neg(F.W), "negated"), (F.on_pt[idx], "online-key"), (SECP.G, "G")):
        present("whitelisted-key-" + tag, on, off, W2)
    # count mismatch: one key fewer, one more (a real extra pair), zero
    present("count-1", F.on_pt[:k], F.off_pt[:k], F.W, k_arg=k - 1)
    present("count+1", F.on_pt[:k + 1], F.off_pt[:k + 1], F.W)
    present("count=0", F.on_pt[:k], F.off_pt[:k], F.W, k_arg=0)
    # counts that agree with the signature's count only modulo 256 / 2^16 (a narrowed count parameter): real, longer lists
    for extra in (256, 512, 65536):
        if extra == 65536 and not (full and k == 1):
            continue
        n2 = k + extra
        present("count+%d" % extra, [on[i % k] for i in range(n2)], [off[i % k] for i in range(n2)], F.W)
    if k > 1:
        present("first-key-dropped", F.on_pt[1:k], F.off_pt[1:k], F.W)
    cb_check(L, st, "key list")


def degenerate_case(env, case, st):
    """ring key at infinity: online_j = -H(offline_j+W)(offline_j+W), computable from public data.
    Nobody owns that key; a 'signature' whose scalar at j is the bare nonce satisfies the ring equation
    with the infinite key and must be rejected.  Also offline_j = -W (tweak of the point at infinity)."""
    L, F = env
    k, j, idx = case
    on, off = list(F.on_pt[:k]), list(F.off_pt[:k])
    T = SECP.add(off[j], F.W)
    on[j] = SECP.neg(SECP.mul(WL.hash_point(T), T))
    keys = WL.ring_keys(on, off, F.W)
    assert keys[j] is None
    msg = WL.message(on, off, F.W)
    on_obj = b"".join(pubkey_from_point(L, p).raw for p in on)
    off_obj = b"".join(pubkey_from_point(L, p).raw for p in off)
    cd = {"cfg": L.config, "n_keys": k, "infinite_ring_key_at": j, "signer": idx}
    args = (on, off, on_obj, off_obj, k, F.W, F.W_obj)
    if idx == j:
        # "signer" of the infinite key: secret 0, s_j = nonce
        r = BOR.sign(keys, [k], [j], [0], [2], [SMALL[c % 3] for c in range(k)], msg)
        if r is not None:
            compare(L, F, st, WL.encode(r[0], r[1]), *args, "infinite-ring-key-signed-with-secret-0", cd, keys, msg, must=0)
    else:
        # an honest member signs a list that contains the infinite key: whatever sign does, verification must not accept
        sig = sigobj(L)
        ret = L.whitelist_sign(L.ctx, sig, exact(on_obj), exact(off_obj), k, F.W_obj, b32(F.on_sec[idx]), b32(F.summed(idx)), idx)
        st.calls += 1
        st.count("sign-with-infinite-foreign-ring-key:ret=%d" % ret)
        if ret == 1:
            ok, ser, _ = lib_serialize(L, sig)
            compare(L, F, st, ser, *args, "list-with-infinite-ring-key", cd, keys, msg, must=0)
    if idx == j:
        # through the API: online secret = -(H(S)*summed) makes the signer's own ring key infinite
        ss = F.summed(j)
        t = WL.hash_point(SECP.mulG(ss))
        so = (-t * ss) % N
        on2 = list(F.on_pt[:k])
        on2[j] = SECP.mulG(so)
        on2_obj = b"".join(pubkey_from_point(L, p).raw for p in on2)
        off2_obj = F.off_obj[:64 * k]
        sig = sigobj(L)
        ret = L.whitelist_sign(L.ctx, sig, exact(on2_obj), exact(off2_obj), k, F.W_obj, b32(so), b32(ss), j)
        st.calls += 1
        st.count("sign-own-ring-key-infinite:ret=%d" % ret)
        if ret == 1:
            ok, ser, _ = lib_serialize(L, sig)
            compare(L, F, st, ser, on2, F.off_pt[:k], on2_obj, off2_obj, k, F.W, F.W_obj, "own-ring-key-infinite", cd, must=0)
        # offline_j = -W : tweaked part vanishes, ring key = online_j; an honest signature with x = online secret
        off3 = list(F.off_pt[:k])
        off3[j] = SECP.neg(F.W)
        keys3 = WL.ring_keys(F.on_pt[:k], off3, F.W)
        assert keys3[j] == F.on_pt[j]
        msg3 = WL.message(F.on_pt[:k], off3, F.W)
        r = BOR.sign(keys3, [k], [j], [F.on_sec[j]], [3], [SMALL[c % 3] for c in range(k)], msg3)
        off3_obj = b"".join(pubkey_from_point(L, p).raw for p in off3)
        compare(L, F, st, WL.encode(r[0], r[1]), F.on_pt[:k], off3, F.on_obj[:64 * k], off3_obj, k, F.W, F.W_obj,
                "offline=-W", cd, keys3, msg3)
    cb_check(L, st, "degenerate keys")


# ------------------------------------------------------------------ parser (total over count byte x lengths)
def parse_case(env, case, st):
    L, F = env
    c, fillbyte = case
    exact_len = 1 + 32 * (c + 1)
    lens = sorted(set(l for l in [0, 1, 2, 32, 33, 34, 64, 65, 66, 8193, 8194, 8225] +
                      [exact_len + d for d in (-33, -32, -31, -1, 0, 1, 31, 32, 33)] if l >= 0))
    for ln in lens:
        data = (bytes([c]) + bytes([fillbyte]) * (ln - 1)) if ln else b""
        ok, sig = lib_parse(L, data)
        exp = WL.parse(data)
        st.calls += 1
        st.count("accept" if exp is not None else "reject")
        if (ok == 1) != (exp is not None):
            st.fail("signature_parse=%d, model %s" % (ok, "accepts" if exp else "rejects"),
                    {"cfg": L.config, "count_byte": c, "length": ln, "exact_length": exact_len})
            continue
        if exp is not None:
            st.nt((c, ln))
            ok2, ser, ln2 = lib_serialize(L, sig)
            st.calls += 2
            if L.whitelist_signature_n_keys(sig) != c or not ok2 or ser != data:
                st.fail("parse/serialize round trip differs", {"cfg": L.config, "count_byte": c, "length": ln})
            # never verifies against a list of the wrong size / garbage scalars
    cb_check(L, st, "parse")


def parse_real_case(env, case, st):
    """honest signature of size k re-sent at length +-1, +-32, with every count byte 0..255"""
    L, F = env
    k, idx = case
    if k == 0:
        ser = WL.empty_list_forgery(F.W)
    else:
        on_arr, off_arr = F.arrays(k)
        sig = sigobj(L)
        assert L.whitelist_sign(L.ctx, sig, on_arr, off_arr, k, F.W_obj, b32(F.on_sec[idx]), b32(F.summed(idx)), idx) == 1
        ok, ser, _ = lib_serialize(L, sig)
    cands = [ser[:-1], ser + b"\x00", ser[:-32], ser + ser[-32:], ser[1:], b"\x00" + ser]
    for c in range(256):
        cands.append(bytes([c]) + ser[1:])
    on_obj, off_obj = F.on_obj[:64 * k], F.off_obj[:64 * k]
    for d in cands:
        ok, sig2 = lib_parse(L, d)
        exp = WL.parse(d)
        st.calls += 1
        st.count("accept" if exp is not None else "reject")
        if (ok == 1) != (exp is not None):
            st.fail("signature_parse=%d, model %s" % (ok, "accepts" if exp else "rejects"),
                    {"cfg": L.config, "n_keys": k, "data_head": hx(d[:40]), "length": len(d)})
        elif ok == 1:
            v = L.whitelist_verify(L.ctx, sig2, exact(on_obj), exact(off_obj), k, F.W_obj)
            mv = 1 if WL.verify(d, F.on_pt[:k], F.off_pt[:k], F.W, keys=F.keys(k), msg=F.msg(k)) else 0
            st.calls += 1
            if v != mv:
                st.fail("verify=%d model=%d on a re-framed signature" % (v, mv), {"cfg": L.config, "n_keys": k, "length": len(d), "count": d[0]})
            if mv:
                st.nt((k, len(d)))
    cb_check(L, st, "parse real")


# ------------------------------------------------------------------ empty list / F1 / API-level illegal calls
def empty_case(env, case, st):
    L, F = env
    wsec, = case
    Wp = SECP.mulG(wsec)
    W_obj = pubkey_from_point(L, Wp).raw
    forged = WL.empty_list_forgery(Wp)
    cd = {"cfg": L.config, "whitelisted_secret": hex(wsec), "signature": hx(forged)}
    ok, sig = lib_parse(L, forged)
    st.calls += 1
    if ok != 1:
        st.count("forgery-rejected-by-parser")
    dummy = F.on_obj[:64]
    for k_arg, arrs in ((0, (b"", b"")), (0, (dummy, dummy)), (1, (dummy, dummy)), (255, (F.on_obj[:64 * 255], F.off_obj[:64 * 255]))):
        if ok != 1:
            break
        v = L.whitelist_verify(L.ctx, sig, exact(arrs[0]), exact(arrs[1]), k_arg, W_obj)
        st.calls += 1
        st.count("forgery-vs-%d-keys:%s" % (k_arg, "reject" if v == 0 else "ACCEPT"))
        if v != 0:
            st.fail("F1 regression: the 33-byte string 00||SHA256(SHA256(ser33(W))), computable from public data, "
                    "verifies against a key list of size %d (whitelist_verify returned %d; must be 0)" % (k_arg, v), dict(cd, n_keys=k_arg))
    # every other 33-byte "empty" signature is rejected too: e0 in a small alphabet
    for e0 in (bytes(32), b"\xff" * 32, BOR.sha256(SECP.ser_compressed(Wp)), forged[1:][::-1]):
        ok2, sig2 = lib_parse(L, b"\x00" + e0)
        if ok2 == 1:
            v = L.whitelist_verify(L.ctx, sig2, exact(dummy), exact(dummy), 0, W_obj)
            st.calls += 2
            st.count("empty-other:%s" % ("reject" if v == 0 else "ACCEPT"))
            if v != 0:
                st.fail("a signature with count 0 verifies against the empty key list", dict(cd, e0=hx(e0)))
    if WL.verify(forged, [], [], Wp):
        st.fail("model anomaly: model accepts the empty list", cd)
    cb_check(L, st, "empty list")
    st.sample({"forged_signature": hx(forged), "whitelisted_key": hx(SECP.ser_compressed(Wp)), "verify": 0})


def illegal_case(env, case, st):
    """API-level argument checks that return straight after the callback: only 'callback >= 1 and return 0'"""
    L, F = env
    k, idx = case
    on_arr, off_arr = exact(F.on_obj[:64 * max(k, 1)]), exact(F.off_obj[:64 * max(k, 1)])
    sig = sigobj(L)
    L.cb_reset()
    ret = L.whitelist_sign(L.ctx, sig, on_arr, off_arr, k, F.W_obj, b32(F.on_sec[0]), b32(F.summed(0)), idx)
    ill, err = L.cb_take()
    st.calls += 1
    st.count("illegal-call-refused")
    if ret != 0 or ill < 1:
        st.fail("whitelist_sign(n_keys=%d, index=%d) must fire the illegal-argument callback and return 0 (ret=%d, callbacks=%d)"
                % (k, idx, ret, ill), {"cfg": L.config, "n_keys": k, "index": idx})


def main():
    a = args()
    run = Run(PID, a.tier)
    thorough = a.tier == "thorough"
    assert BOR.selftest() and WL.selftest()
    cfgs = ["prod-san", "prod-verify"] + (["cfg-int64-noasm-w8-c22", "cfg-i128struct-noasm-w2-c2"] if thorough else [])
    B.build_many(cfgs)
    for b in cfgs:
        run.cov["builds"][b] = B.source_hash()[:16]
        lib(b)  # load in the parent: forked workers inherit the mapping even if the build cache is pruned meanwhile
    counts = list(range(1, 9)) + [254, 255] + ([16, 64, 128] if thorough else [])
    fill = seeded_fillers(2, b"c16")
    for ci, cfg in enumerate(cfgs):
        first = ci == 0
        big_ok = first or cfg == "prod-verify"
        cs = [k for k in counts if k <= 16 or big_ok]
        cases = []
        for k in cs:
            for idx in range(k):
                if k == 254 and not first and not thorough and idx not in (0, 1, k // 2, k - 2, k - 1):
                    continue  # quick tier, 2nd build: 254 keys at the edge indices only (every index on prod-san)
                for var in VARIANTS:
                    if var != "valid" and k > 8 and idx not in (0, k // 2, k - 1):
                        continue
                    edge = idx in (0, 1, k // 2, k - 2, k - 1)
                    if k <= 16 or edge:
                        level = 2
                    elif thorough or (cfg == "prod-verify" and idx % 8 == 0):
                        level = 1
                    else:
                        level = 0
                    cases.append((k, idx, var, level))
        # big rings first (longest cases) for load balance
        cases.sort(key=lambda c: -c[0])
        phase(run, "%s/sign-verify" % cfg, sign_case, cases, setup=setup(cfg),
                  rule="key counts %s x every signer index x secrets {valid; online, summed in 0, n, n+1, 2^256-1; both 0} (invalid secrets at "
                       "counts > 8 for first/middle/last index): sign -> verify=1 (and 0 against the list shortened by one), serialize/parse round trip, "
                       "short/long output buffer; signature byte-compared with the model (tweaked secret, RFC 6979 nonce and forged scalars, Borromean "
                       "prover) and model verifier for counts <= 16 at every index, for larger counts at %s (see outcomes model-signed / model-verified); "
                       "non-trivial = accepted honest signature per (count, index)" % (cs, "every index (byte comparison), 5 indices (model verifier)" if thorough else
                       "indices 0,1,k/2,k-2,k-1" + (" and every 8th index (byte comparison)" if cfg == "prod-verify" else "")))
        sc = sc_alphabet()
        vals = sc + [i32(f) for f in fill]
        sa = [(k, idx, so, ss) for k in (1, 2) for idx in range(k) for so in vals for ss in (1, 2, N - 1, 0, N, i32(fill[0]) % N)]
        sa += [(k, idx, so, ss) for k in (1, 2) for idx in range(k) for ss in vals for so in (1, N - 1, 0, N)]
        if not first and not thorough:
            sa = sa[::3]
        phase(run, "%s/secret-alphabet" % cfg, secret_alphabet_case, sorted(set(sa)), setup=setup(cfg),
                  rule="key counts 1,2 x index x (online secret in SC alphabet x summed in {1,2,n-1,0,n,filler}) u (summed in SC x online in {1,n-1,0,n}): "
                       "values outside [1,n-1] refused, others byte-compared and verified")
        small = [k for k in range(1, 9)]
        bf = [(k, idx) for k in range(1, 5) for idx in range(k)]
        if not thorough:
            # quick tier: the ten (count, index) signatures are split between the two builds
            bf = [c for c in bf if (c[1] in (0, c[0] - 1)) == first] + ([] if first else [(1, 0), (2, 1)])
        phase(run, "%s/bit-flips" % cfg, bitflip_case,
              [(k, idx, lo) for (k, idx) in bf for lo in range(0, 8 * (1 + 32 * (k + 1)), 64)], setup=setup(cfg),
                  rule="key counts 1..4 x signer index " + ("(every index)" if thorough else "(quick: first/last index on prod-san, inner indices + (1,0),(2,1) on prod-verify)") + ": every single-bit flip of the serialized honest signature (count byte, e0, every scalar): parse+verify vs model")
        sc_cases = [(k, idx, nonce) for k in small for idx in range(k) for nonce in ((1, 2) if (first or thorough) else (2,))]
        phase(run, "%s/scalar-replacement" % cfg, scalar_case, sc_cases, setup=setup(cfg),
                  rule="key counts 1..8 x every signer index x nonce {1,2}: Borromean signature built by the model with forged scalars 1,2,3 must be accepted; "
                       "then each scalar <- 0, n, s+n, s+2n, s+1, n-s, 2^256-1 (when encodable), scalars swapped, e0 replaced, and the equation-valid "
                       "signature with a forged scalar 0: all must be rejected")
        if thorough:
            kl = [(k, idx, 1) for k in small for idx in range(k)]
        elif first:
            kl = [(k, idx, 1) for k in (1, 2, 3, 4) for idx in range(k)] + [(k, idx, 0) for k in (5, 6, 7, 8) for idx in (0, k - 1)]
        else:
            kl = [(k, idx, 1) for k in (1, 2, 3) for idx in range(k)] + [(8, 4, 0)]
        kl.sort(key=lambda c: -c[0])
        phase(run, "%s/key-lists" % cfg, keylist_case, kl, setup=setup(cfg),
                  rule="key counts 1..8 x signer index (quick: counts <= 4 (<= 3 on the 2nd build) every index and every transposition; counts 5..8 first/last index, adjacent transpositions): every transposition of pairs / of online keys only / of offline keys only, rotation, reversal, each key replaced "
                       "(foreign, negated, +G), online<->offline, whitelisted key replaced (4 ways), count -1, +1, 0, first key dropped")
        dg = [(k, j, idx) for k in (1, 2, 3) for j in range(k) for idx in range(k)]
        phase(run, "%s/degenerate-keys" % cfg, degenerate_case, dg, setup=setup(cfg),
                  rule="key counts 1..3: ring key at infinity at each position (built from public data; via the API with online secret = -H(S)*summed), "
                       "offline key = -W: ring equation satisfied with the infinite key must be rejected; list with offline=-W follows the model")
        pc = [(c, fb) for c in range(256) for fb in ((0x00, 0x01, 0xff) if thorough else ((0x01, 0xff) if first else (0x00,)))]
        phase(run, "%s/parse-total" % cfg, parse_case, pc, setup=setup(cfg),
                  rule="count byte 0..255 x lengths {0,1,2,32..34,64..66,8193,8194,8225, exact+{-33,-32,-31,-1,0,1,31,32,33}} x fill bytes; accepted iff length == 1+32(count+1); "
                       "round trip; inputs are exactly sized heap copies")
        pr = [(k, 0) for k in [0] + small + [254, 255]] + [(k, k - 1) for k in (2, 8, 255)]
        phase(run, "%s/parse-reframed" % cfg, parse_real_case, pr, setup=setup(cfg),
                  rule="honest signatures of sizes 0..8,254,255 at length -1,+1,-32,+32, shifted, and with every count byte 0..255: parse vs model, verify vs model")
        ws = [1, 2, N - 1, (N - 1) // 2, _sec(b"w", 0), _sec(b"w", 1)] + [i32(f) % (N - 1) + 1 for f in fill]
        phase(run, "%s/empty-list-forgery" % cfg, empty_case, [(w,) for w in ws], setup=setup(cfg), nproc=4,
                  rule="finding F1 (fixed e5a3e7d) kept as a permanent case: 00||SHA256(SHA256(ser33(W))) for 8 whitelisted keys against n_keys 0 (empty and dummy arrays), 1, 255: "
                       "verify must return 0; other count-0 strings likewise")
        phase(run, "%s/illegal-arguments" % cfg, illegal_case, [(0, 0), (1, 1), (3, 3), (255, 255), (256, 0), (256, 255), (2, 2**31)], setup=setup(cfg), nproc=2,
                  rule="sign with index >= n_keys (incl. the empty list) and n_keys = 256: illegal-argument callback and return 0")
        if run.out_of_time():
            run.cov["exhaustive"] = False
            break
    run.assumptions += ["key pairs come from one fixed family of 257 pairs with known secrets (first three pairs use boundary secrets 1, n-1, (n+-1)/2); "
                        "other key values are covered by the secret-alphabet phase at sizes 1 and 2",
                        "hash values >= n or == 0 (probability 2^-128) cannot be produced and are not explored; the model rejects them as the library does",
                        "a key list whose ring key is the point at infinity (needs a key built from the whitelisted key) cannot be signed for validly: "
                        "only rejection by the verifier is asserted there"]
    sys.exit(run.finish())


if __name__ == "__main__":
    main()
