"""C12 MuSig2 computes BIP-327 and honest sessions always yield valid signatures.
E1/E3: complete honest sessions on secp256k1 over enumerated signer counts, key-list shapes, tweak
words, messages, adaptor use, nonce sources and step orders, every public intermediate compared byte
for byte with the BIP-327 model (and the cache / session internals through the library's own load
functions).  E2: total enumeration of two-signer sessions in the group of order 13 (non-VERIFY build)."""
import sys, os, hashlib, itertools
from ctypes import c_int, c_uint64, byref
from .. import core
from ..core import Run, run_phase, hx, seeded_fillers
from ..util import *
from ..model.curve import Curve
from ..lib import api_decls
from ..musig_util import *
from ..model import bip327 as M
from ..model import bip340
from .. import build as B

PID = "C12"
C = SECP
ONE, NM1, FILL, ODD, T_N, T_MAX, T_CANCEL, ZERO = range(8)
KIND = ["1", "n-1", "filler", "odd-maker", "n(invalid)", "2^256-1(invalid)", "cancel(Q'=inf)", "0"]
COUNTERS = [0, 1, 2**32, 2**32 + 1, 2**63, 2**64 - 1]


def Hh(tag, i):
    return hashlib.sha256(tag + bytes([i])).digest()


def word_name(w):
    return [("xonly" if x else "plain") + ":" + KIND[k] for x, k in w]


# ----------------------------------------------------------------------------- production world
class Key:
    pass


class PW:
    def __init__(self, cfg):
        L = self.L = Lib(cfg)
        check_sizes(L)
        fill = seeded_fillers(4, b"c12")
        ds = [i32(Hh(b"c12-key", i)) % (N - 1) + 1 for i in range(16)]
        ds[2], ds[4], ds[5] = 1, (N - 1) // 2, N - 2
        ds[15] = i32(fill[0]) % (N - 1) + 1
        self.d = ds
        self._keys = {}
        self.msgs = [b"\x00" * 32, fill[1], hashlib.sha256(b"c12-alt-message").digest()]
        self.t_fill = i32(fill[2]) % (N - 1) + 1
        self.extra = fill[3]
        self.t_ad = i32(Hh(b"c12-adaptor", 0)) % (N - 1) + 1
        self.T = C.mulG(self.t_ad)
        self._ka = {}
        self._ng = {}
        self._pkobj_pt = {}

    def key(self, kid):
        k = self._keys.get(kid)
        if k is None:
            k = Key()
            k.d = self.d[kid] if kid >= 0 else N - self.d[-kid - 1]
            k.pt = C.mulG(k.d)
            k.pk33 = C.ser_compressed(k.pt)
            k.obj = pubkey_from_point(self.L, k.pt)
            k.kp = keypair(self.L, k.d)
            self._keys[kid] = k
        return k

    def secrand(self, i):
        return Hh(b"c12-secrand", i)

    def model_keyagg(self, kids):
        r = self._ka.get(kids)
        if r is None:
            ks = [self.key(k) for k in kids]
            kc = M.key_agg([k.pk33 for k in ks])
            q = 0
            for k in ks:
                q = (q + M.key_agg_coeff_internal(kc.L, k.pk33, kc.pk2) * k.d) % N
            assert C.mulG(q) == kc.Q
            r = self._ka[kids] = (kc, q)
        return r

    def tweak_value(self, kc, q, xonly, kind):
        g = N - 1 if (xonly and not M.has_even_y(kc.Q)) else 1
        if kind == ONE:
            return 1
        if kind == ZERO:
            return 0          # a zero tweak is legal: the key is unchanged, but x-only tweaking still normalises to even y
        if kind == NM1:
            return N - 1
        if kind == FILL:
            return self.t_fill
        if kind == T_N:
            return N
        if kind == T_MAX:
            return 2**256 - 1
        if kind == T_CANCEL:
            return (-(g * q)) % N
        gq = kc.Q if g == 1 else C.neg(kc.Q)
        t = 2
        while True:
            Q2 = C.add(gq, C.mulG(t))
            if Q2 is not None and Q2[1] & 1:
                return t
            t += 1

    def model_noncegen(self, rand, sk, pk33, msg, aggpk, extra):
        k = (rand, sk, pk33, msg, aggpk, extra)
        r = self._ng.get(k)
        if r is None:
            r = self._ng[k] = M.nonce_gen_internal(rand, sk, pk33, aggpk, msg, extra)
        return r

    def point_obj(self, pt):
        o = self._pkobj_pt.get(pt)
        if o is None:
            o = self._pkobj_pt[pt] = pubkey_from_point(self.L, pt)
        return o


def psetup(cfg):
    def f():
        return PW(cfg)
    return f


def shapes(u):
    """key-list shapes for u signers: lists of key ids (>=0 base key, <0 negation of base key -id-1); 'S'/'R' sorted / reverse sorted"""
    out = [("distinct", list(range(u)))]
    if u >= 2:
        for j in range(1, u):
            out.append(("first-repeated@%d" % j, [0 if i == j else i for i in range(u)]))
        out.append(("all-equal", [0] * u))
        out.append(("sorted", "S"))
        out.append(("reversed", "R"))
        out.append(("negation-of-first", [0, -1] + list(range(2, u))))
    if u >= 3:
        out.append(("second-repeated", [0, 1, 1] + list(range(3, u))))
        out.append(("first-twice-then-rest", [0, 0] + list(range(1, u - 1))))
    if u >= 4:
        out.append(("pairs", [i // 2 for i in range(u)]))
    seen, res = set(), []
    for name, l in out:
        key = l if isinstance(l, str) else tuple(l)
        if key not in seen:
            seen.add(key)
            res.append((name, l))
    return res


def resolve_shape(W, u, l):
    if l in ("S", "R"):
        ids = sorted(range(u), key=lambda i: W.key(i).pk33)
        if l == "R":
            ids.reverse()
        return tuple(ids)
    return tuple(l)


def cache_matches(cr, kc):
    second = None if kc.pk2 == M.ZERO33 else M.cpoint(kc.pk2)
    return (cr["Q"] == kc.Q and cr["second"] == second and cr["L"] == kc.L and
            cr["parity_acc"] == (0 if kc.gacc == 1 else 1) and cr["tweak"] == kc.tacc)


class Stop(Exception):
    pass


def run_session(W, case, st):
    """case = (shape (u, list), word, msg index, adaptor kind, nonce source, order, fixed nonces or None, matrix)
    adaptor kind: 0 none, 1 generic T, 2 T = -(aggregate R1) (first component cancels through the adaptor)
    nonce source: ("gen", mask sk|msg<<1|cache<<2|extra<<3) / ("cnt", counter, mask msg|cache<<1|extra<<2) / ("fix",)
    order: 0 key aggregation and tweaks first, 1 nonces first (no cache available to nonce generation)"""
    (u, shape), word, mi, ad, src, order, ks, matrix = case
    L = W.L
    n = N
    kids = resolve_shape(W, u, shape)
    keys = [W.key(k) for k in kids]
    pks = [k.pk33 for k in keys]
    pkobjs = [k.obj for k in keys]
    msg = W.msgs[mi]
    desc = {"cfg": L.config, "signers": u, "key_ids": list(kids), "tweaks": word_name(word), "msg": hx(msg), "adaptor": ad,
            "nonce_source": list(src), "order": "nonces-first" if order else "keyagg-first"}

    def fail(what, **kw):
        d = dict(desc)
        d.update(kw)
        st.fail(what, d)
        raise Stop()

    kc0, q0 = W.model_keyagg(kids)
    state = {}

    def keyagg_and_tweaks():
        cache = buf(SZ_CACHE)
        agg = buf(64)
        ret = L.musig_pubkey_agg(L.ctx, agg, cache, ptrs(pkobjs), u)
        st.calls += 1
        x = buf(32)
        L.xonly_pubkey_serialize(L.ctx, x, agg)
        if ret != 1 or x.raw != M.xbytes(kc0.Q):
            fail("pubkey_agg differs from KeyAgg", got=hx(x.raw), model=hx(M.xbytes(kc0.Q)))
        if not cache_matches(cache_read(L, cache), kc0):
            fail("keyagg cache after pubkey_agg differs from (Q, second key, L, gacc=1, tacc=0)")
        # both outputs are optional: each alone must give what the pair gave
        agg1, cache1 = buf(64), buf(SZ_CACHE)
        ra = L.musig_pubkey_agg(L.ctx, agg1, None, ptrs(pkobjs), u)
        rc = L.musig_pubkey_agg(L.ctx, None, cache1, ptrs(pkobjs), u)
        st.calls += 2
        if ra != 1 or rc != 1 or agg1.raw != agg.raw or cache1.raw != cache.raw:
            fail("pubkey_agg with only one of the optional outputs (agg_pk / keyagg_cache) differs from the call with both")
        kc, q = kc0, q0
        for step, (xo, kind) in enumerate(word):
            t = W.tweak_value(kc, q, xo, kind)
            out = buf(b"\x77" * 64)
            fn = L.musig_pubkey_xonly_tweak_add if xo else L.musig_pubkey_ec_tweak_add
            ret = fn(L.ctx, out, cache, b32(t))
            st.calls += 1
            try:
                kc2 = M.apply_tweak(kc, b32(t), bool(xo))
            except M.Fail:
                if ret != 0:
                    fail("tweak step %d must fail (%s) but returned %d" % (step, KIND[kind], ret))
                if not is_zero(out.raw):
                    st.count("failed-tweak-left-nonzero-output")
                st.count("tweak-refused-" + KIND[kind])
                raise Stop()
            if ret != 1:
                fail("valid tweak step %d returned %d" % (step, ret), t=hex(t))
            if pubkey_ser(L, out) != M.cbytes(kc2.Q):
                fail("tweak step %d: output key differs from ApplyTweak" % step, t=hex(t))
            if not cache_matches(cache_read(L, cache), kc2):
                fail("tweak step %d: cache (Q, gacc, tacc) differs from ApplyTweak" % step, t=hex(t),
                     model_gacc=kc2.gacc == 1, model_tacc=hex(kc2.tacc))
            g = n - 1 if (xo and not M.has_even_y(kc.Q)) else 1
            q = (g * q + t) % n
            if g != 1:
                st.count("tweak-negated-key")
            kc = kc2
        full = buf(64)
        if L.musig_pubkey_get(L.ctx, full, cache) != 1 or pubkey_ser(L, full) != M.cbytes(kc.Q):
            fail("musig_pubkey_get differs from the model Q")
        st.calls += 1
        state.update(cache=cache, kc=kc, q=q)

    sns, pns, msec = [None] * u, [None] * u, [None] * u

    def gen_nonces(cache, aggpk):
        for i, k in enumerate(keys):
            sn = buf(b"\xa5" * SZ_SECNONCE)
            pn = buf(SZ_PUBNONCE)
            if src[0] == "gen":
                mask = src[1]
                sk = b32(k.d) if mask & 1 else None
                m_ = msg if mask & 2 else None
                c_ = cache if mask & 4 else None
                e_ = W.extra if mask & 8 else None
                rb = W.secrand(i)
                rnd = buf(rb)
                ret = L.musig_nonce_gen(L.ctx, sn, pn, rnd, sk, k.obj, m_, c_, e_)
                st.calls += 1
                exp = W.model_noncegen(rb, sk, k.pk33, m_, aggpk if c_ is not None else None, e_)
                if ret != 1 or not is_zero(rnd.raw):
                    fail("nonce_gen returned %d / did not wipe session_secrand32" % ret, signer=i)
            elif src[0] == "cnt":
                cnt, mask = src[1], src[2]
                m_ = msg if mask & 1 else None
                c_ = cache if mask & 2 else None
                e_ = W.extra if mask & 4 else None
                ret = L.musig_nonce_gen_counter(L.ctx, sn, pn, c_uint64(cnt), k.kp, m_, c_, e_)
                st.calls += 1
                exp = W.model_noncegen(M.counter_rand(cnt), b32(k.d), k.pk33, m_, aggpk if c_ is not None else None, e_)
                if ret != 1:
                    fail("nonce_gen_counter returned %d" % ret, signer=i)
            else:
                k1, k2 = ks[i]
                exp = (b32(k1) + b32(k2) + k.pk33, M.cbytes(C.mulG(k1)) + M.cbytes(C.mulG(k2)))
                sn = secnonce_write(L, k1, k2, k.obj)
                pn = pubnonce_parse(L, exp[1])
            r = secnonce_read(L, sn)
            if r != (i32(exp[0][:32]), i32(exp[0][32:64]), k.pt):
                fail("secret nonce differs from NonceGen of the model", signer=i)
            if pubnonce_ser(L, pn) != exp[1]:
                fail("public nonce differs from NonceGen of the model", signer=i)
            st.calls += 1
            sns[i], pns[i], msec[i] = sn, pn, exp

    try:
        if order == 0:
            keyagg_and_tweaks()
            gen_nonces(state["cache"], M.xbytes(state["kc"].Q))
        else:
            gen_nonces(None, None)
            keyagg_and_tweaks()
        cache, kc = state["cache"], state["kc"]
        # ---- nonce aggregation
        an = buf(SZ_AGGNONCE)
        if L.musig_nonce_agg(L.ctx, an, ptrs(pns), u) != 1:
            fail("nonce_agg failed")
        st.calls += 1
        man = M.nonce_agg([m[1] for m in msec])
        if aggnonce_ser(L, an) != man:
            fail("aggregate nonce differs from NonceAgg", got=hx(aggnonce_ser(L, an)), model=hx(man))
        inf1, inf2 = man[:33] == M.ZERO33, man[33:] == M.ZERO33
        # the serialised aggregate nonce parses back to the same object contents
        an2 = buf(SZ_AGGNONCE)
        if L.musig_aggnonce_parse(L.ctx, an2, man) != 1 or aggnonce_ser(L, an2) != man:
            fail("aggnonce serialisation does not round-trip")
        st.calls += 2
        # ---- sessions (main, and one for another message)
        T = None
        if ad == 1:
            T = W.T
            t_ad = W.t_ad
        elif ad == 2:
            t_ad = (-sum(i32(m[0][:32]) for m in msec)) % n
            T = C.mulG(t_ad)
        Tobj = W.point_obj(T) if T is not None else None
        sess, S = [], []
        for mm in (msg, W.msgs[2]):
            s_ = buf(SZ_SESSION)
            if L.musig_nonce_process(L.ctx, s_, an, mm, cache, Tobj) != 1:
                fail("nonce_process failed")
            st.calls += 1
            S_ = M.session_values(man, None, None, mm, adaptor=T, keyctx=kc)
            sr = session_read(L, s_)
            exp = {"parity": M.nonce_parity(S_), "rx": M.xbytes(S_.R), "b": S_.b, "e": S_.e, "s_part": S_.e * S_.g * S_.tacc % n}
            if sr != exp:
                fail("session values differ from GetSessionValues: " + ",".join(k for k in exp if exp[k] != sr[k]),
                     aggnonce=hx(man))
            sess.append(s_)
            S.append(S_)
        st.count("R-is-G(final nonce at infinity)" if S[0].r_was_infinity else "R-regular")
        st.count("aggnonce-inf-%d%d" % (inf1, inf2))
        # ---- partial signatures
        psig, mps = [], []
        for i, k in enumerate(keys):
            ps = buf(SZ_PSIG)
            ret = L.musig_partial_sign(L.ctx, ps, sns[i], k.kp, cache, sess[0])
            st.calls += 1
            if ret != 1 or not is_zero(sns[i].raw):
                fail("partial_sign returned %d / secnonce not zeroed" % ret, signer=i)
            exp = M.sign(msec[i][0], b32(k.d), S[0])
            if psig_ser(L, ps) != exp:
                fail("partial signature differs from Sign", signer=i, got=hx(psig_ser(L, ps)), model=hx(exp))
            psig.append(ps)
            mps.append(exp)
        # ---- verification matrix: own triple accepts, every other (key, pubnonce, session) as the model says
        coeff = [M.key_agg_coeff_internal(kc.L, k.pk33, kc.pk2) for k in keys]
        idx = list(range(u))
        for i in idx:
            others = idx if matrix else sorted({i, (i + 1) % u, 0})
            for j in others:
                for l in others:
                    for si in (0, 1):
                        got = L.musig_partial_sig_verify(L.ctx, psig[i], pns[l], pkobjs[j], cache, sess[si])
                        st.calls += 1
                        exp = M.partial_sig_verify_dlog(i32(mps[i]), i32(msec[l][0][:32]), i32(msec[l][0][32:64]), keys[j].d,
                                                        coeff[j], S[si])
                        own = (j == i and l == i and si == 0)
                        if own and got != 1:
                            fail("partial signature does not verify for its own signer", signer=i)
                        if got != (1 if exp else 0):
                            fail("partial_sig_verify=%d, model %s" % (got, exp), sig_of=i, key_of=j, nonce_of=l, session=si)
                        st.count("psig-verify-accept" if exp else "psig-verify-reject")
        if not M.partial_sig_verify(mps[0], msec[0][1], pks[0], S[0]):
            fail("model inconsistency: point-form PartialSigVerify rejects the model's own signature")
        # ---- aggregation
        sig = buf(64)
        if L.musig_partial_sig_agg(L.ctx, sig, sess[0], ptrs(psig), u) != 1:
            fail("partial_sig_agg failed")
        st.calls += 1
        msig = M.partial_sig_agg(mps, S[0])
        if sig.raw != msig:
            fail("aggregate signature differs from PartialSigAgg", got=hx(sig.raw), model=hx(msig))
        xo = buf(64)
        if L.xonly_pubkey_parse(L.ctx, xo, M.xbytes(kc.Q)) != 1:
            fail("aggregate key does not parse as x-only key")
        v = L.schnorrsig_verify(L.ctx, sig, msg, 32, xo)
        st.calls += 2
        mv = bip340.verify(M.xbytes(kc.Q), msg, msig)
        if v != (1 if mv else 0):
            fail("schnorrsig_verify=%d on the aggregate, BIP-340 model %s" % (v, mv))
        if T is None:
            if not S[0].r_was_infinity and v != 1:
                fail("honest session produced an invalid signature")
            st.count("final-valid" if v else "final-invalid(R was infinity)")
            if v:
                st.nt(("sig", kids, word, mi, src, order))
        else:
            par = c_int(-1)
            if L.musig_nonce_parity(L.ctx, byref(par), sess[0]) != 1 or par.value != M.nonce_parity(S[0]):
                fail("nonce_parity differs from the parity of the final nonce")
            fin = buf(64)
            if L.musig_adapt(L.ctx, fin, sig, b32(t_ad), par.value) != 1 or fin.raw != M.adapt(msig, b32(t_ad), par.value):
                fail("adapt differs from the model")
            v2 = L.schnorrsig_verify(L.ctx, fin, msg, 32, xo)
            mv2 = bip340.verify(M.xbytes(kc.Q), msg, fin.raw)
            if v2 != (1 if mv2 else 0):
                fail("schnorrsig_verify=%d on the adapted signature, BIP-340 model %s" % (v2, mv2))
            if not S[0].r_was_infinity and v2 != 1:
                fail("adapting the pre-signature with the adaptor secret does not give a valid signature", parity=par.value)
            ex = buf(32)
            if L.musig_extract_adaptor(L.ctx, ex, fin, sig, par.value) != 1 or ex.raw != b32(t_ad):
                fail("extract_adaptor(adapt(pre, t)) != t", parity=par.value, got=hx(ex.raw))
            wrong = buf(64)
            L.musig_adapt(L.ctx, wrong, sig, b32(t_ad), 1 - par.value)
            v3 = L.schnorrsig_verify(L.ctx, wrong, msg, 32, xo)
            if v3 != (1 if bip340.verify(M.xbytes(kc.Q), msg, wrong.raw) else 0):
                fail("adapted signature with the wrong parity: verify differs from the model")
            st.calls += 6
            st.count("adaptor-parity-%d-%s" % (par.value, "valid" if v2 else "invalid(R was infinity)"))
            if v2:
                st.nt(("adapt", kids, word, mi, src, order, par.value))
    except Stop:
        pass
    if L.illegal or L.errors:
        st.fail("callback fired in an honest session", desc)
        L.cb_reset()
    st.sample(desc)


# ----------------------------------------------------------------------------- nonce generation product
def noncegen_case(W, case, st):
    """case = ("gen", key id, mask, randomness index, msg index, with tweak) or ("cnt", key id, mask, msg index, with tweak):
    nonce generation alone against NonceGen; all counters in one case so that their outputs can be compared pairwise"""
    L = W.L
    kind, kid, mask, = case[0], case[1], case[2]
    k = W.key(kid)
    kids = (kid, 1)
    kc, q = W.model_keyagg(kids)
    cache = buf(SZ_CACHE)
    assert L.musig_pubkey_agg(L.ctx, None, cache, ptrs([k.obj, W.key(1).obj]), 2) == 1
    if case[-1]:
        t = W.tweak_value(kc, q, 1, ODD)
        assert L.musig_pubkey_xonly_tweak_add(L.ctx, None, cache, b32(t)) == 1
        kc = M.apply_tweak(kc, b32(t), True)
    aggpk = M.xbytes(kc.Q)
    desc = {"cfg": L.config, "case": list(case)}
    if kind == "gen":
        rb = [b32(1), b"\xff" * 32, b"\x80" + b"\x00" * 31, W.extra, W.secrand(0)][case[3]]
        msg = W.msgs[case[4]]
        sk = b32(k.d) if mask & 1 else None
        m_ = msg if mask & 2 else None
        c_ = cache if mask & 4 else None
        e_ = W.extra if mask & 8 else None
        sn, pn, rnd = buf(b"\xa5" * SZ_SECNONCE), buf(SZ_PUBNONCE), buf(rb)
        ret = L.musig_nonce_gen(L.ctx, sn, pn, rnd, sk, k.obj, m_, c_, e_)
        st.calls += 1
        exp = W.model_noncegen(rb, sk, k.pk33, m_, aggpk if c_ is not None else None, e_)
        if ret != 1 or not is_zero(rnd.raw) or secnonce_read(L, sn) != (i32(exp[0][:32]), i32(exp[0][32:64]), k.pt) or \
                pubnonce_ser(L, pn) != exp[1]:
            st.fail("nonce_gen differs from NonceGen (ret=%d)" % ret, desc)
        st.nt(exp[1])
        st.count("gen-mask-%d" % mask)
    else:
        msg = W.msgs[case[3]]
        m_ = msg if mask & 1 else None
        c_ = cache if mask & 2 else None
        e_ = W.extra if mask & 4 else None
        seen = {}
        for cnt in COUNTERS:
            sn, pn = buf(b"\xa5" * SZ_SECNONCE), buf(SZ_PUBNONCE)
            ret = L.musig_nonce_gen_counter(L.ctx, sn, pn, c_uint64(cnt), k.kp, m_, c_, e_)
            st.calls += 1
            exp = W.model_noncegen(M.counter_rand(cnt), b32(k.d), k.pk33, m_, aggpk if c_ is not None else None, e_)
            r = secnonce_read(L, sn)
            if ret != 1 or r != (i32(exp[0][:32]), i32(exp[0][32:64]), k.pt) or pubnonce_ser(L, pn) != exp[1]:
                st.fail("nonce_gen_counter(%d) differs from NonceGen with rand' = be64(counter)||0^24 (ret=%d)" % (cnt, ret),
                        dict(desc, counter=cnt))
            if r is not None and r[:2] in seen:
                st.fail("nonce_gen_counter: counters %d and %d give the SAME secret nonce" % (seen[r[:2]], cnt), dict(desc, counter=cnt))
            if r is not None:
                seen[r[:2]] = cnt
            st.nt(exp[1])
            st.count("cnt-mask-%d" % mask)
    if L.illegal or L.errors:
        st.fail("callback fired in nonce generation", desc)
        L.cb_reset()
    st.sample(desc)


# ----------------------------------------------------------------------------- adapt / extract algebra
def adaptor_case(W, case, st):
    """case = (s, t, parity): adapt / extract_adaptor on boundary scalars (incl. overflowing ones)"""
    L = W.L
    s, t, par = case
    r32 = M.xbytes(W.T)
    pre = r32 + b32(s)
    desc = {"cfg": L.config, "s": hex(s), "t": hex(t), "parity": par}
    out = buf(b"\x66" * 64)
    ret = L.musig_adapt(L.ctx, out, pre, b32(t), par)
    ill, err = L.cb_take()
    st.calls += 1
    if par not in (0, 1):
        if ret != 0 or ill < 1:
            st.fail("adapt with nonce_parity=%d must be an illegal argument" % par, desc)
        st.count("adapt-illegal-parity")
        return
    if ill or err:
        st.fail("callback fired in adapt", desc)
    try:
        exp = M.adapt(pre, b32(t), par)
    except M.Fail:
        exp = None
    if exp is None:
        if ret != 0:
            st.fail("adapt must fail on overflowing input", desc)
        st.count("adapt-overflow")
        return
    if ret != 1 or out.raw != exp:
        st.fail("adapt differs from the model", desc)
    ex = buf(32)
    ret = L.musig_extract_adaptor(L.ctx, ex, out, pre, par)
    st.calls += 1
    if ret != 1 or ex.raw != b32(t) or ex.raw != M.extract_adaptor(exp, pre, par):
        st.fail("extract_adaptor is not the inverse of adapt", desc)
    # extract on an overflowing final signature fails
    ret = L.musig_extract_adaptor(L.ctx, ex, r32 + b32(N), pre, par)
    ret2 = L.musig_extract_adaptor(L.ctx, ex, out, r32 + b"\xff" * 32, par)
    st.calls += 2
    if ret != 0 or ret2 != 0:
        st.fail("extract_adaptor must fail on overflowing s", desc)
    if L.illegal or L.errors:
        st.fail("callback fired in extract_adaptor", desc)
        L.cb_reset()
    st.count("adapt-ok")
    st.nt((s, t, par))


# ----------------------------------------------------------------------------- E2 small group
class TabCurve(Curve):
    """The small group as tables: pts[i] = i*G was built with the generic affine law (util.small_group); every
    operation on group members is then index arithmetic mod n.  Anything outside the tables falls back to the law."""

    def __init__(self, base, pts):
        Curve.__init__(self, base.p, base.b, base.G, base.n, base.name)
        self.base, self.pts = base, pts
        self.idx = {pt: i for i, pt in enumerate(pts)}
        self.byx = {}
        for pt in pts[1:]:
            self.byx.setdefault(pt[0], {})[pt[1] & 1] = pt

    def add(self, A, Bp):
        i, j = self.idx.get(A), self.idx.get(Bp)
        if i is None or j is None:
            return self.base.add(A, Bp)
        return self.pts[(i + j) % self.n]

    def neg(self, A):
        i = self.idx.get(A)
        return self.base.neg(A) if i is None else self.pts[(-i) % self.n]

    def mul(self, k, A):
        i = self.idx.get(A)
        return self.base.mul(k, A) if i is None else self.pts[(k * i) % self.n]

    def mulG(self, k):
        return self.pts[k % self.n]

    def lift_x(self, x, odd=None):
        e = self.byx.get(x)
        if e is None or len(e) != 2:
            return self.base.lift_x(x, odd)
        return e[odd or 0]


class SW:
    def __init__(self, cfg):
        L = self.L = Lib(cfg)
        check_sizes(L)
        base, self.pts = small_group(L)
        self.C = TabCurve(base, self.pts)
        for i in range(L.order):      # the tables agree with the law
            for j in range(L.order):
                assert self.C.add(self.pts[i], self.pts[j]) == base.add(self.pts[i], self.pts[j])
            assert self.pts[i] is None or self.C.lift_x(self.pts[i][0], self.pts[i][1] & 1) == base.lift_x(self.pts[i][0], self.pts[i][1] & 1) == self.pts[i]
        n = self.n = L.order
        Cs = self.C
        self.pk33 = [None] + [Cs.ser_compressed(self.pts[d]) for d in range(1, n)]
        self.pkobj = [None] + [pubkey_from_point(L, self.pts[d], Cs) for d in range(1, n)]
        self.kp = [None] + [keypair(L, d) for d in range(1, n)]
        self.msgs = [b"\x00" * 32, hashlib.sha256(b"c12-sg-msg").digest()]
        self.pn66 = {}
        self.pnobj = {}
        for k1 in range(1, n):
            for k2 in range(1, n):
                s = Cs.ser_compressed(self.pts[k1]) + Cs.ser_compressed(self.pts[k2])
                self.pn66[(k1, k2)] = s
                self.pnobj[(k1, k2)] = pubnonce_parse(L, s)
        assert L.illegal == 0 and L.errors == 0


def ssetup(cfg):
    def f():
        return SW(cfg)
    return f


def sg_case(W, case, st):
    """case = (d1, d2, word, k11 values, k12 values, k21/k22 values, msg indices): 2 signers, every (k11,k12,k21,k22) in
    the given ranges; word = tuple of (is_xonly, t)"""
    L, Cs, n, pts = W.L, W.C, W.n, W.pts
    d1, d2, word, k11s, k12s, kvals, mis = case
    nsess = len(k11s) * len(k12s) * len(kvals) ** 2 * len(mis)
    ds = (d1, d2)
    pks = [W.pk33[d1], W.pk33[d2]]
    objs = [W.pkobj[d1], W.pkobj[d2]]
    kps = [W.kp[d1], W.kp[d2]]
    desc = {"cfg": L.config, "group_order": n, "keys": [d1, d2], "tweaks": [("xonly" if x else "plain", t) for x, t in word]}
    try:
        kc = M.key_agg(pks, Cs)
    except M.Fail:
        st.count("skipped-aggregate-key-at-infinity", nsess)
        return
    cache = buf(SZ_CACHE)
    agg = buf(64)
    ret = L.musig_pubkey_agg(L.ctx, agg, cache, ptrs(objs), 2)
    st.calls += 1
    if ret != 1 or not cache_matches_sg(cache_read(L, cache), kc, Cs):
        st.fail("pubkey_agg differs from KeyAgg in the small group", desc)
        return
    for (xo, t) in word:
        fn = L.musig_pubkey_xonly_tweak_add if xo else L.musig_pubkey_ec_tweak_add
        ret = fn(L.ctx, None, cache, b32(t))
        st.calls += 1
        try:
            kc = M.apply_tweak(kc, b32(t), bool(xo), Cs)
        except M.Fail:
            if ret != 0:
                st.fail("tweak that maps the key to infinity must fail", desc)
            st.count("skipped-tweaked-key-at-infinity", nsess)
            return
        if ret != 1 or not cache_matches_sg(cache_read(L, cache), kc, Cs):
            st.fail("tweak differs from ApplyTweak in the small group", desc)
            return
    xq = M.xbytes(kc.Q)
    xo_obj = buf(64)
    if L.xonly_pubkey_parse(L.ctx, xo_obj, xq) != 1:
        st.fail("aggregate key does not parse as an x-only key", desc)
        return
    coeff = [M.key_agg_coeff_internal(kc.L, pk, kc.pk2, Cs) for pk in pks]
    an = buf(SZ_AGGNONCE)
    sess = buf(SZ_SESSION)
    sig = buf(64)
    ps = [buf(SZ_PSIG), buf(SZ_PSIG)]
    for mi in mis:
        msg = W.msgs[mi]
        for k11 in k11s:
            for k12 in k12s:
                for k21 in kvals:
                    for k22 in kvals:
                        kk = ((k11, k12), (k21, k22))
                        pn = [W.pnobj[kk[0]], W.pnobj[kk[1]]]
                        L.musig_nonce_agg(L.ctx, an, ptrs(pn), 2)
                        man = M.cbytes_ext(pts[(k11 + k21) % n], Cs) + M.cbytes_ext(pts[(k12 + k22) % n], Cs)
                        if aggnonce_ser(L, an) != man:
                            st.fail("aggregate nonce differs from NonceAgg", dict(desc, nonces=kk))
                            continue
                        L.musig_nonce_process(L.ctx, sess, an, msg, cache, None)
                        S = M.session_values(man, None, None, msg, Cs, keyctx=kc)
                        sr = session_read(L, sess)
                        if (sr["parity"], sr["rx"], sr["b"], sr["e"], sr["s_part"]) != (
                                M.nonce_parity(S), M.xbytes(S.R), S.b, S.e, S.e * S.g * S.tacc % n):
                            st.fail("session values differ from GetSessionValues", dict(desc, nonces=kk, msg=mi))
                            continue
                        mps = []
                        bad = False
                        for i in (0, 1):
                            sn = secnonce_write(L, kk[i][0], kk[i][1], objs[i])
                            ret = L.musig_partial_sign(L.ctx, ps[i], sn, kps[i], cache, sess)
                            exp = M.sign(b32(kk[i][0]) + b32(kk[i][1]) + pks[i], b32(ds[i]), S, Cs)
                            if ret != 1 or psig_ser(L, ps[i]) != exp or not is_zero(sn.raw):
                                st.fail("partial signature differs from Sign (ret=%d)" % ret, dict(desc, nonces=kk, msg=mi, signer=i))
                                bad = True
                            mps.append(exp)
                        if bad:
                            continue
                        for i in (0, 1):
                            for j in (0, 1):
                                for l in (0, 1):
                                    got = L.musig_partial_sig_verify(L.ctx, ps[i], pn[l], objs[j], cache, sess)
                                    exp = M.partial_sig_verify_dlog(i32(mps[i]), kk[l][0], kk[l][1], ds[j], coeff[j], S, Cs)
                                    if got != (1 if exp else 0) or (i == j == l and got != 1):
                                        st.fail("partial_sig_verify=%d, model %s" % (got, exp),
                                                dict(desc, nonces=kk, msg=mi, sig_of=i, key_of=j, nonce_of=l))
                        L.musig_partial_sig_agg(L.ctx, sig, sess, ptrs(ps), 2)
                        msig = M.partial_sig_agg(mps, S, Cs)
                        v = L.schnorrsig_verify(L.ctx, sig, msg, 32, xo_obj)
                        mv = bip340.verify(xq, msg, msig, Cs)
                        st.calls += 20
                        if sig.raw != msig or v != (1 if mv else 0):
                            st.fail("aggregate signature / schnorrsig_verify=%d differ from the model (%s)" % (v, mv),
                                    dict(desc, nonces=kk, msg=mi))
                        elif not S.r_was_infinity and v != 1:
                            st.fail("honest session produced an invalid signature", dict(desc, nonces=kk, msg=mi))
                        if S.r_was_infinity:
                            st.count("final-nonce-at-infinity(R=G),sig-" + ("valid" if v else "invalid"))
                        else:
                            st.count("final-valid")
                            st.nt((d1, d2, word, k11, k12, mi))   # per (k11,k12) block; per-session numbers are in the histogram
                        st.count("sessions")
    if L.illegal or L.errors:
        st.fail("callback fired in an honest small-group session", desc)
        L.cb_reset()
    st.sample(desc)


def cache_matches_sg(cr, kc, Cs):
    second = None if kc.pk2 == M.ZERO33 else Cs.parse_pubkey(kc.pk2)
    return (cr["Q"] == kc.Q and cr["second"] == second and cr["L"] == kc.L and
            cr["parity_acc"] == (0 if kc.gacc == 1 else 1) and cr["tweak"] == kc.tacc)


# ----------------------------------------------------------------------------- object codecs (cpoint / cpoint_ext / scalar)
def codec_halves():
    """33-byte strings for one half of a public / aggregate nonce"""
    out = []
    xs_on, xs_off = [], []
    x = 1
    while len(xs_on) < 2 or len(xs_off) < 2:
        (xs_on if C.lift_x(x) is not None else xs_off).append(x)
        x += 1
    xs_on, xs_off = xs_on[:2], xs_off[:2]
    big_on = P - 1
    while C.lift_x(big_on) is None:
        big_on -= 1
    gx = C.G[0]
    for x in [gx, C.mulG(7)[0], xs_on[0], xs_on[1], big_on, xs_off[0], xs_off[1], 0, P - 1, P, P + xs_on[0], 2**256 - 1]:
        for pre in (0, 1, 2, 3, 4, 5, 6, 7, 0x82, 0xFF):
            out.append(bytes([pre]) + b32(x % 2**256))
    # the infinity encoding and its near misses: 33 zero bytes with ONE byte set, at every position
    out.append(bytes(33))
    for pos in range(33):
        for v in (1, 2, 3, 0x80, 0xFF):
            z = bytearray(33)
            z[pos] = v
            out.append(bytes(z))
    seen, res = set(), []
    for h in out:
        if h not in seen:
            seen.add(h)
            res.append(h)
    return res


def codec_case(W, case, st):
    """case = (kind, half index, 33-byte half): the other half is a valid point; model = cpoint (pubnonce) / cpoint_ext (aggnonce)"""
    L = W.L
    kind, hi, half = case
    good = M.cbytes(C.mulG(11))
    ser = (half + good) if hi == 0 else (good + half)
    obj = buf(b"\x33" * (SZ_PUBNONCE if kind == "pubnonce" else SZ_AGGNONCE))
    fn = L.musig_pubnonce_parse if kind == "pubnonce" else L.musig_aggnonce_parse
    ret = fn(L.ctx, obj, exact(ser))
    st.calls += 1
    try:
        (M.cpoint if kind == "pubnonce" else M.cpoint_ext)(half)
        want = 1
    except M.Fail:
        want = 0
    st.count("%s-%s" % (kind, "accept" if want else "reject"))
    if ret != want:
        st.fail("musig_%s_parse returned %d for a half %s; BIP-327 %s says %s" % (kind, ret, hx(half), "cpoint" if kind == "pubnonce" else "cpoint_ext", "accept" if want else "reject"),
                {"cfg": L.config, "kind": kind, "half": hi, "bytes": hx(ser)})
    elif want:
        st.nt((kind, hi, half))
        out = buf(66)
        r2 = (L.musig_pubnonce_serialize if kind == "pubnonce" else L.musig_aggnonce_serialize)(L.ctx, out, obj)
        st.calls += 1
        if r2 != 1 or out.raw != ser:
            st.fail("musig_%s: serialize(parse(bytes)) is not the identity" % kind, {"cfg": L.config, "bytes": hx(ser), "got": hx(out.raw)})
    if L.illegal or L.errors:
        st.fail("callback fired while parsing bytes", {"cfg": L.config, "bytes": hx(ser)})
        L.cb_reset()
    if half == bytes(33):
        st.sample({"kind": kind, "half": hi, "bytes": "00*33", "accepted": bool(ret)})


def psig_codec_case(W, s, st):
    L = W.L
    obj = buf(b"\x33" * SZ_PSIG)
    ret = L.musig_partial_sig_parse(L.ctx, obj, exact(b32(s)))
    st.calls += 1
    st.count("psig-%s" % ("accept" if s < N else "reject"))
    if ret != (1 if s < N else 0):
        st.fail("musig_partial_sig_parse(%s) returned %d" % (hex(s), ret), {"cfg": L.config, "s": hex(s)})
    elif ret:
        st.nt(s)
        out = buf(32)
        if L.musig_partial_sig_serialize(L.ctx, out, obj) != 1 or out.raw != b32(s):
            st.fail("partial_sig: serialize(parse(s)) is not the identity", {"cfg": L.config, "s": hex(s)})
    if L.illegal or L.errors:
        st.fail("callback fired while parsing bytes", {"cfg": L.config, "s": hex(s)})
        L.cb_reset()


# ----------------------------------------------------------------------------- case generators
def all_words(maxlen, kinds=(ONE, NM1, FILL, ODD)):
    letters = [(x, k) for x in (0, 1) for k in kinds]
    out = []
    for ln in range(maxlen + 1):
        out += list(itertools.product(letters, repeat=ln))
    return out


GEN_ALL = ("gen", 15)


def phase(run, name, fn, cases, **kw):
    """run_phase with fewer workers for small phases (each worker pays the library load)"""
    only = os.environ.get("VERIF_ONLY")  # development aid: comma-separated substrings of phase names to run
    if only and not any(x in name for x in only.split(",")):
        return core.Stats()
    n = len(cases)
    return run_phase(run, name, fn, cases, nproc=(None if n >= 256 else max(1, n // 24)), **kw)


def main():
    a = args()
    run = Run(PID, a.tier)
    thorough = a.tier == "thorough"
    try:
        nv = M.selftest(B.REPO)
    except AssertionError as e:
        print("MACHINERY BROKEN: BIP-327 model fails its own vectors: %s" % e)
        sys.exit(2)
    run.cov["model_selftest_vectors"] = nv
    api_decls()  # parse the headers once in the parent (inherited by the forked workers)
    prods = ["prod-san", "prod-verify"]
    B.build_many(prods + ["sg13"])
    for b in prods + ["sg13"]:
        run.cov["builds"][b] = B.source_hash()[:16]
    words3 = all_words(4 if thorough else 3)
    us = [1, 2, 3] + ([4, 5] if thorough else [])
    shp = [((u, l), name) for u in us for name, l in shapes(u)]

    for cfg in prods:
        main_cfg = cfg == "prod-san"
        # ---- P1 every tweak word on two key lists, full sessions
        if main_cfg or thorough:
            cases = [(s, w, 1, adp, GEN_ALL, 0, None, True)
                     for s in ((2, (0, 1)), (3, (0, 1, 0))) for w in words3 for adp in (0, 1)]
            phase(run, "%s/sessions-x-tweak-words" % cfg, run_session, cases, setup=psetup(cfg),
                      rule="signers {2 distinct, 3 with the first key repeated} x ALL tweak words of length 0..%d over {plain,xonly} x t in {1, n-1, filler, the t that makes y odd} x adaptor {absent,present}; aggregate key, cache (Q, second key, L, gacc, tacc), nonces, aggnonce, session (b, R, e, tweak term), partial sigs, final sig byte-compared with the model; full verification matrix; non-trivial = valid final / adapted signature" % (4 if thorough else 3))
        # ---- P1b zero tweaks (legal): every word of length 1..3 over {plain,xonly} x {0, odd-maker}
        cases = [(s, w, 1, adp, GEN_ALL, 0, None, True)
                 for s in ((2, (0, 1)),) for w in all_words(3, kinds=(ZERO, ODD)) for adp in ((0, 1) if main_cfg else (0,))
                 if any(k == ZERO for _, k in w)]
        phase(run, "%s/zero-tweak-words" % cfg, run_session, cases, setup=psetup(cfg),
              rule="ALL tweak words of length 1..3 over {plain,xonly} x {0, the t that makes y odd} containing at least one zero tweak (zero x-only tweak on an odd-y key, followed by plain / x-only tweaks); same byte-exact comparison as above")
        # ---- P2 every shape
        cases = [(s, w, mi, adp, src, order, None, True)
                 for (s, _) in shp for w in all_words(1) for mi in (0, 1) for adp in (0, 1)
                 for src, order in ((GEN_ALL, 0), (("gen", 11), 1), (("cnt", 2**32, 7), 0), (("cnt", 2**63, 5), 1))]
        if not main_cfg and not thorough:
            cases = [c for c in cases if c[2] == 1 and len(c[1]) <= 1 and (len(c[1]) == 0 or c[1][0][1] == ODD)]
        phase(run, "%s/sessions-x-shapes" % cfg, run_session, cases, setup=psetup(cfg),
                  rule="signers %s x key-list shapes {distinct, first repeated at each position, all equal, sorted, reversed, second key = negation of first, second repeated, first twice, pairs} x tweak words of length 0..1 x 2 messages x adaptor {absent,present} x {nonce_gen before/after key aggregation, nonce_gen_counter before/after}" % us)
        # ---- P3 nonce sources
        cases = []
        for w in ((), ((1, ODD),)):
            for mi in (0, 1):
                for mask in range(16):
                    cases.append(((2, (0, 1)), w, mi, 0, ("gen", mask), 0, None, True))
                    if not mask & 4:
                        cases.append(((2, (0, 1)), w, mi, 0, ("gen", mask), 1, None, True))
                for cnt in COUNTERS:
                    for mask in range(8):
                        cases.append(((2, (0, 1)), w, mi, 0, ("cnt", cnt, mask), 0, None, True))
                        if not mask & 2:
                            cases.append(((2, (0, 1)), w, mi, 0, ("cnt", cnt, mask), 1, None, True))
        phase(run, "%s/sessions-x-nonce-sources" % cfg, run_session, cases, setup=psetup(cfg),
                  rule="2 signers x tweak words {none, xonly odd-maker} x 2 messages x nonce_gen with each of the 16 optional-argument combinations (seckey, msg, cache, extra) and nonce_gen_counter with counters {0,1,2^32,2^32+1,2^63,2^64-1} x 8 optional-argument combinations, before and after key aggregation where the API allows")
        ng = [("gen", kid, mask, ri, mi, tw) for kid in (0, 2, 5) for mask in range(16) for ri in range(5) for mi in (0, 1) for tw in (0, 1)]
        ng += [("cnt", kid, mask, mi, tw) for kid in (0, 2, 5, -1) for mask in range(8) for mi in (0, 1) for tw in (0, 1)]
        phase(run, "%s/nonce-generation" % cfg, noncegen_case, ng, setup=psetup(cfg),
                  rule="nonce_gen: keys {generic, d=1, d=n-2} x 16 optional-argument combinations x randomness {1, FF.., 80 00.., fillers} x 2 messages x {plain, tweaked} cache; nonce_gen_counter: 4 keys x 8 combinations x all 6 counters, byte-compared with NonceGen(rand' = be64(counter)||0^24) and pairwise distinct")
        # ---- P4 aggregate nonces at infinity
        cases = []
        k = [5, 9, 13, 17, 21, 25]
        for u in (2, 3):
            for cancel in ("none", "R1", "R2", "both"):
                ks = [(k[0], k[1]), (k[2], k[3])] + ([(k[4], k[5])] if u == 3 else [])
                if cancel in ("R1", "both"):
                    ks[-1] = ((-sum(x[0] for x in ks[:-1])) % N, ks[-1][1])
                if cancel in ("R2", "both"):
                    ks[-1] = (ks[-1][0], (-sum(x[1] for x in ks[:-1])) % N)
                for adp in (0, 1, 2):
                    if adp == 2 and cancel in ("R1", "both"):
                        continue
                    for w in ((), ((1, ODD),), ((0, ODD), (1, FILL)), ((1, ODD), (1, ODD), (1, ONE))):
                        for mi in (0, 1):
                            cases.append(((u, tuple(range(u))), w, mi, adp, ("fix",), 0, tuple(ks), True))
        phase(run, "%s/aggregate-nonce-at-infinity" % cfg, run_session, cases, setup=psetup(cfg),
                  rule="signers {2,3} with secnonces written with chosen k so that the first / second / both components of the aggregate nonce cancel (or none) x adaptor {absent, generic T, T = -R1 so that R1+T cancels} x 4 tweak words x 2 messages; infinity encoding of the aggnonce, b, final nonce = G branch, partial sigs and aggregate compared with the model; final signature validity as the BIP-340 model says")
        # ---- P4b object codecs
        halves = codec_halves()
        cases = [(kind, hi, h) for kind in ("pubnonce", "aggnonce") for hi in (0, 1) for h in halves]
        phase(run, "%s/object-codecs" % cfg, codec_case, cases, setup=psetup(cfg),
              rule="pubnonce / aggnonce parsers on each half in turn: 10 prefix bytes x 12 x values (on-curve, off-curve, 0, p-1, p, x+p, 2^256-1) and the 33-zero-byte infinity encoding with ONE byte set at every position (5 values); verdict = BIP-327 cpoint / cpoint_ext; accepted strings must round-trip")
        scs = sc_alphabet()
        for v_ in limb_boundaries([N]):
            if v_ not in scs:
                scs.append(v_)
        phase(run, "%s/partial-sig-codec" % cfg, psig_codec_case, scs, setup=psetup(cfg),
              rule="partial_sig_parse over the SC alphabet and the limb-boundary neighbours of n: accepted iff s < n, round trip")
        # ---- P5 tweak errors
        cases = [((2, (0, 1)), pre + ((x, kind),), 1, 0, GEN_ALL, 0, None, True)
                 for pre in ((), ((1, ODD),), ((0, FILL), (1, ODD))) for x in (0, 1) for kind in (T_N, T_MAX, T_CANCEL)]
        phase(run, "%s/invalid-tweaks" % cfg, run_session, cases, setup=psetup(cfg),
                  rule="after 0..2 valid tweaks: tweak = n, 2^256-1, and the tweak that maps the key to infinity (plain and x-only) must return 0 with an invalid output key")
        # ---- P6 adaptor algebra
        sc = sc_alphabet()
        cases = [(s, t, p) for s in sc for t in sc for p in (0, 1)] + [(1, 1, 2), (1, 1, -1)]
        phase(run, "%s/adapt-extract-algebra" % cfg, adaptor_case, cases, setup=psetup(cfg),
                  rule="adapt / extract_adaptor over SC x SC (incl. scalars >= n) x both parities: model equality, extract(adapt(pre,t)) = t, overflow rejected, parity outside {0,1} is an illegal argument")
        if thorough:
            # parity-flipping words of length 6, larger signer sets
            flip = [tuple((x, ODD) for x in bits) for bits in itertools.product((0, 1), repeat=6)]
            cases = [((2, (0, 1)), w, 1, adp, GEN_ALL, 0, None, True) for w in flip for adp in (0, 1)]
            cases += [((u, l), w, 1, adp, src, order, None, u <= 5)
                      for u in (16,) for name, l in shapes(u) if name in ("distinct", "first-repeated@1", "first-repeated@15", "all-equal", "sorted", "reversed", "negation-of-first", "pairs")
                      for w in ((), ((1, ODD),), ((1, ODD), (0, NM1), (1, ODD))) for adp in (0, 1)
                      for src, order in ((GEN_ALL, 0), (("cnt", 2**64 - 1, 1), 1))]
            phase(run, "%s/flip-words-and-16-signers" % cfg, run_session, cases, setup=psetup(cfg),
                      rule="all 64 words of length 6 over {plain,xonly} whose every tweak makes the key's y odd (parity flips at every x-only step); 16 signers x 8 shapes x 3 tweak words x adaptor x 2 nonce sources (verification matrix restricted to own/next/first for 16 signers)")
        if run.out_of_time():
            run.cov["exhaustive"] = False
            break

    # ---- E2 group of order 13, non-VERIFY build
    n = 13
    allk = tuple(range(1, n))
    pairs = [(d1, d2) for d1 in range(1, n) for d2 in range(1, n)]
    full_pairs = pairs if thorough else [(3, 7)]
    cases = [(d1, d2, (), (k11,), (k12,) if not thorough else allk, allk, (0, 1)) for (d1, d2) in full_pairs for k11 in allk
             for k12 in (allk if not thorough else (0,))]
    phase(run, "sg13/total-nonces", sg_case, cases, setup=ssetup("sg13"),
              rule="group of order 13 (same source, non-VERIFY): 2 signers, key pairs %s, EVERY (k11,k12,k21,k22) in [1,12]^4 written into secnonces, 2 messages: aggnonce (incl. infinity), b, R (incl. R=G), e, both partial sigs, all 8 (sig,key,nonce) verifications, aggregate, schnorrsig_verify compared with the model mod 13; aggregate-key-at-infinity pairs skipped and counted; non-trivial = (keys, k11, k12, msg) blocks containing valid final signatures, per-session counts in the outcome histogram" % ("all 144" if thorough else "(3,7)"))
    sub = (1, 6, 12)
    words = [()] + [((x, t),) for x in (0, 1) for t in range(1, n)] + [((x, t1), (1, t2)) for x in (0, 1) for t1 in sub for t2 in sub]
    tp = pairs if thorough else [(d1, d2) for d1 in (1, 5, 12) for d2 in range(1, n)]
    cases = [(d1, d2, w, sub, sub, sub, (1,)) for (d1, d2) in tp for w in words]
    phase(run, "sg13/tweaks-x-keys", sg_case, cases, setup=ssetup("sg13"),
              rule="group of order 13: key pairs %s x tweak words {none, plain/xonly t for every t in 1..12, two-step words ending in an x-only tweak with t in {1,6,12}} x nonces in {1,6,12}^4: every parity combination of Q, of the intermediate keys (gacc) and of R" % ("all 144" if thorough else "d1 in {1,5,12} x all d2"))
    run.assumptions += ["production group: keys, randomness, messages are fixed representatives (+ VERIF_SEED fillers); the enumerated dimensions are the protocol-shape ones (signer count, key-list shape, tweak word, optional arguments, counters, order, cancellation pattern)",
                        "signer counts 6..15 and tweak words longer than %d (other than the length-6 parity-flipping ones in thorough) are not explored" % (4 if thorough else 3),
                        "small group: order 13 only; VERIFY build not used there (negligible-event VERIFY_CHECKs are reachable mod 13)"]
    sys.exit(run.finish())


if __name__ == "__main__":
    main()
