"""C17 Schnorr half-aggregation is complete, incremental-consistent and exact.

E3  incremental aggregation: every composition of n <= 8, every (n_before, n_new) transition from
    the canonical state for n <= 64, every buffer length 0..32(n+2);
E1/E5 aggregate verification on secp256k1: honest aggregates, reorderings, one altered signature,
    every single-bit flip, out-of-range / off-curve r, boundary s, wrong lengths, wrapping counts;
E2  the order-13 build of the same source: every key pair, messages covering all challenge values,
    every nonce; total enumeration of aggregate strings (r_1..r_n, s) and of the re-encodings
    s + 13k, which is the only place where a dropped "s >= n" rejection can be seen.
Every case runs the real library and the model (mc/model/halfagg.py) in lock-step."""
import sys, os, ctypes, itertools
from ctypes import c_int, c_void_p, c_size_t, c_ubyte, byref, CFUNCTYPE, Structure
from ..core import Run, run_phase, Violation, hx, seeded_fillers
from ..util import *
from ..model import halfagg as H, bip340 as S
from ..model.curve import Curve, sha256
from .. import build as B

PID = "C17"
_L = {}
SIZE_MAX = 2**64 - 1
NONCE_H = CFUNCTYPE(c_int, c_void_p, c_void_p, c_size_t, c_void_p, c_void_p, c_void_p, c_size_t, c_void_p)


class ExtraParams(Structure):
    _fields_ = [("magic", c_ubyte * 4), ("noncefp", c_void_p), ("ndata", c_void_p)]


def lib(cfg):
    if cfg not in _L:
        _L[cfg] = Lib(cfg)
    return _L[cfg]


# ------------------------------------------------------------------ exact heap buffers
# malloc'ed directly (not through Python's small-object allocator) so that the sanitizer build sees
# a red zone right behind the last byte of every array handed to the library.  Buffers are cached by
# (role, size) and refilled: with the ASan runtime preloaded every malloc of more than a few hundred
# bytes is expensive, so hot paths avoid allocating (and avoid materialising large bytes objects).
_libc = ctypes.CDLL(None)
_libc.malloc.restype = c_void_p
_libc.malloc.argtypes = [c_size_t]
_libc.free.restype = None
_libc.free.argtypes = [c_void_p]
_libc.memcmp.restype = c_int
_libc.memcmp.argtypes = [c_void_p, c_void_p, c_size_t]
_libc.memset.restype = c_void_p
_libc.memset.argtypes = [c_void_p, c_int, c_size_t]


class Heap:
    """exactly sized malloc'ed array"""
    __slots__ = ("p", "n")

    def __init__(self, data):
        if isinstance(data, int):
            self.n = data
            data = None
        else:
            data = bytes(data)
            self.n = len(data)
        self.p = _libc.malloc(self.n)
        if not self.p:
            raise MemoryError
        if data:
            ctypes.memmove(self.p, data, self.n)

    @property
    def raw(self):
        return ctypes.string_at(self.p, self.n) if self.n else b""

    def head(self, k):
        k = min(k, self.n)
        return ctypes.string_at(self.p, k) if k else b""

    def starts(self, want):
        """first len(want) bytes equal want"""
        k = len(want)
        return k <= self.n and (k == 0 or _libc.memcmp(self.p, want, k) == 0)

    def put_parts(self, parts):
        off = 0
        for x in parts:
            ctypes.memmove(self.p + off, x, len(x))
            off += len(x)
        assert off == self.n

    def __del__(self):
        if self.p:
            _libc.free(self.p)
            self.p = None


_ARENA = {}


def arena(role, size):
    h = _ARENA.get((role, size))
    if h is None:
        h = _ARENA[(role, size)] = Heap(size)
    return h


def arr(role, parts):
    size = 0
    for x in parts:
        size += len(x)
    h = arena(role, size)
    h.put_parts(parts)
    return h


def call_inc(L, agg_in, buflen, pkobjs, msgs, newsigs, nb, nn, fill=0xA5, aggregate=False):
    """Run (inc_)aggregate on an exactly sized heap buffer of `buflen` bytes that starts with agg_in
    (truncated / padded with `fill`).  Returns (ret, *aggsig_len afterwards, the buffer)."""
    b = arena("agg", buflen)
    if buflen:
        _libc.memset(b.p, fill, buflen)
        k = min(len(agg_in), buflen)
        if k:
            ctypes.memmove(b.p, agg_in, k)
    hp, hm, hs = arr("pk", pkobjs), arr("msg", msgs), arr("sig", newsigs)
    ln = c_size_t(buflen)
    if aggregate:
        assert nb == 0
        ret = L.schnorrsig_aggregate(L.ctx, b.p, byref(ln), hp.p, hm.p, hs.p, nn)
    else:
        ret = L.schnorrsig_inc_aggregate(L.ctx, b.p, byref(ln), hp.p, hm.p, hs.p, nb, nn)
    return ret, ln.value, b


def call_verify(L, pkobjs, msgs, n, agg, length=None):
    if length is None:
        length = len(agg)
    hp, hm = arr("pk", pkobjs), arr("msg", msgs)
    ha = arena("vagg", len(agg))
    if agg:
        ctypes.memmove(ha.p, agg, len(agg))
    return L.schnorrsig_aggverify(L.ctx, hp.p, hm.p, n, ha.p, length)


def legal(L, st, what):
    if L.illegal or L.errors:
        st.fail("callback fired on legal input (%s): illegal=%d error=%d" % (what, L.illegal, L.errors), {"cfg": L.config})
        L.cb_reset()


def compositions(n):
    """all ordered tuples of positive parts summing to n (2^(n-1) for n >= 1; the empty tuple for 0)"""
    if n == 0:
        yield ()
        return
    for first in range(1, n + 1):
        for rest in compositions(n - first):
            yield (first,) + rest


# ------------------------------------------------------------------ production group: data sets
class Data:
    """A fixed sequence of (secret key, message) with model-made BIP-340 signatures; the real library's
    keypair / sign32 output is compared with the model's while the set is built."""

    def __init__(self, L, tag, nmax):
        self.L, self.tag, self.nmax = L, tag, nmax
        self.problems = []
        keys = key_alphabet() if tag == "A" else []
        fill = seeded_fillers(4, b"c17" + tag.encode())
        fixed_msgs = [b32(0), b"\xff" * 32, b32(N), fill[0], fill[1], b32(P)] if tag == "A" else [fill[0]]
        self.sk, self.msgs, self.pk32, self.pkobj, self.sigs = [], [], [], [], []
        for i in range(nmax):
            sk = keys[i] if i < len(keys) else i32(sha256(b"c17 key" + tag.encode() + bytes([i]))) % (N - 1) + 1
            if i == 2:
                sk = self.sk[1]  # the same key twice in a row: exchanging those two keys changes nothing
            if i == 5 and tag == "A":
                sk = N - self.sk[0]  # d and n-d share the x-only key
            m = fixed_msgs[i] if i < len(fixed_msgs) else sha256(b"c17 msg" + tag.encode() + bytes([i]))
            self.sk.append(sk)
            self.msgs.append(m)
            Pt = SECP.mulG(sk)
            pk32 = b32(Pt[0])
            sig = S.sign(b32(sk), m, None)
            assert sig is not None and S.verify(pk32, m, sig)
            kp = buf(96)
            xo = buf(64)
            par = c_int(0)
            ser = buf(32)
            lsig = buf(64)
            ok = L.keypair_create(L.ctx, kp, b32(sk)) == 1 and L.keypair_xonly_pub(L.ctx, xo, byref(par), kp) == 1 \
                and L.xonly_pubkey_serialize(L.ctx, ser, xo) == 1
            if not ok or ser.raw != pk32:
                self.problems.append(("keypair/x-only key differs from the model", {"sk": hex(sk)}))
            if L.schnorrsig_sign32(L.ctx, lsig, m, kp, None) != 1 or lsig.raw != sig:
                self.problems.append(("schnorrsig_sign32 differs from the BIP-340 model", {"sk": hex(sk), "msg": hx(m)}))
            xo2 = buf(64)
            if L.xonly_pubkey_parse(L.ctx, xo2, pk32) != 1:
                self.problems.append(("xonly_pubkey_parse rejects a model key", {"pk": hx(pk32)}))
            self.pk32.append(pk32)
            self.pkobj.append(xo2.raw)
            self.sigs.append(sig)
        self._agg = {}
        self._ver = {}

    def pm(self, lo, hi):
        return [(self.pk32[i], self.msgs[i]) for i in range(lo, hi)]

    def pms(self, lo, hi):
        return [(self.pk32[i], self.msgs[i], self.sigs[i]) for i in range(lo, hi)]

    def agg(self, n):
        """canonical state: the model's one-shot aggregate of the first n signatures"""
        if n not in self._agg:
            self._agg[n] = H.aggregate(self.pms(0, n))
            assert len(self._agg[n]) == 32 * (n + 1)
        return self._agg[n]


def prod_setup(cfg, tags, nmax):
    """The environment is built once in the parent; forked workers inherit it (copy-on-write)."""
    L = lib(cfg)
    env = {"L": L, "data": {t: Data(L, t, nmax) for t in tags}}
    env["hist"] = Data(L, "H", 10)
    for n in range(11):
        env["hist"].agg(n)
    for D in env["data"].values():
        for n in range(nmax + 1):
            D.agg(n)
    L.cb_reset()
    return lambda: env


def report_problems(env, D, st):
    while D.problems:
        what, c = D.problems.pop()
        c["cfg"] = env["L"].config
        st.fail("input construction: " + what, c)


# ------------------------------------------------------------------ E3: compositions
def split_case(env, case, st):
    """case = (tag, n, parts): incremental aggregation along `parts` (zeros allowed), first step through
    aggregate() and through inc_aggregate(n_before = 0); every intermediate state == model."""
    tag, n, parts = case
    L, D = env["L"], env["data"][tag]
    report_problems(env, D, st)
    canon = D.agg(n)
    # one-shot on a garbage-filled output buffer
    ret, ln, out = call_inc(L, b"", 32 * (n + 1), D.pkobj[:n], D.msgs[:n], D.sigs[:n], 0, n, aggregate=True)
    st.calls += 1
    if ret != 1 or ln != 32 * (n + 1) or not out.starts(canon):
        st.fail("one-shot aggregate of %d signatures differs from the model" % n,
                {"cfg": L.config, "n": n, "ret": ret, "len": ln, "got": hx(out.raw), "model": hx(canon)})
        return
    for first_agg in (True, False):
        for slack in (0, 32, 45):
            cur = b"\x00" * 32      # the aggregate of zero signatures
            mstate = b32(0)
            pos = 0
            for idx, part in enumerate(parts):
                nb, tot = pos, pos + part
                use_agg = first_agg and idx == 0
                if use_agg:
                    ret, ln, out = call_inc(L, b"", 32 * (tot + 1) + slack, D.pkobj[:tot], D.msgs[:tot], D.sigs[nb:tot], 0, part, aggregate=True)
                else:
                    ret, ln, out = call_inc(L, cur, 32 * (tot + 1) + slack, D.pkobj[:tot], D.msgs[:tot], D.sigs[nb:tot], nb, part)
                st.calls += 1
                mstate = H.inc_aggregate(mstate, D.pm(0, nb), D.pms(nb, tot))
                if ret != 1 or ln != 32 * (tot + 1) or not out.starts(mstate):
                    st.fail("incremental aggregation step (n_before=%d, n_new=%d) of split %r differs from the model" % (nb, part, parts),
                            {"cfg": L.config, "data": tag, "n": n, "parts": list(parts), "step": idx, "via_aggregate": use_agg,
                             "slack": slack, "ret": ret, "len": ln, "got": hx(out.head(32 * (tot + 1))), "model": hx(mstate)})
                    return
                cur = mstate      # == the buffer's first ln bytes (just compared)
                pos = tot
            if pos != n or (parts and cur != canon) or mstate != canon:
                st.fail("split %r does not end in the one-shot aggregate" % (parts,),
                        {"cfg": L.config, "data": tag, "n": n, "got": hx(cur), "model": hx(canon)})
                return
    got = call_verify(L, D.pkobj[:n], D.msgs[:n], n, canon)
    st.calls += 1
    if n not in D._ver:
        D._ver[n] = H.verify_aggregate(canon, D.pm(0, n))
    if not D._ver[n]:
        raise RuntimeError("model rejects its own aggregate")
    if got != 1:
        st.fail("aggverify rejects the honest aggregate of %d signatures" % n, {"cfg": L.config, "data": tag, "n": n, "agg": hx(canon)})
    st.count("split-n=%d" % n)
    st.nt((tag, n, parts))
    legal(L, st, "split")
    if len(parts) > 2:
        st.sample({"n": n, "parts": list(parts), "aggregate": hx(canon[:32]) + "..." + hx(canon[-32:])})


# ------------------------------------------------------------------ E3: transitions from the canonical state
def transition_case(env, case, st):
    """case = (tag, n_before, n_new): inc_aggregate from the canonical state of n_before reaches the
    canonical state of n_before + n_new, for exact and for larger buffers with different tails."""
    tag, nb, nn = case
    L, D = env["L"], env["data"][tag]
    report_problems(env, D, st)
    tot = nb + nn
    start = D.agg(nb) if nb else b"\x00" * 32
    want = D.agg(tot)
    minc = H.inc_aggregate(D.agg(nb), D.pm(0, nb), D.pms(nb, tot))
    if minc != want:
        raise RuntimeError("model: inc_aggregate and aggregate disagree")
    for slack, fill in ((0, 0xA5), (17, 0x00), (64, 0xFF)):
        ret, ln, out = call_inc(L, start, 32 * (tot + 1) + slack, D.pkobj[:tot], D.msgs[:tot], D.sigs[nb:tot], nb, nn, fill=fill)
        st.calls += 1
        if ret != 1 or ln != 32 * (tot + 1) or not out.starts(want):
            st.fail("transition (n_before=%d, n_new=%d) from the canonical state does not reach the canonical state" % (nb, nn),
                    {"cfg": L.config, "data": tag, "n_before": nb, "n_new": nn, "slack": slack, "ret": ret, "len": ln,
                     "got": hx(out.head(32 * (tot + 1))), "model": hx(want)})
            return
    st.count("nb=0" if nb == 0 else ("nn=0" if nn == 0 else ("nn=1" if nn == 1 else "nb>0,nn>1")))
    st.nt((tag, nb, nn))
    legal(L, st, "transition")


# ------------------------------------------------------------------ E3: two-call histories on the same objects
HIST_CAP = 32 * 16


def _fixed(role, size, data):
    h = arena(role, size)
    _libc.memset(h.p, 0x5A, size)
    if data:
        ctypes.memmove(h.p, data, len(data))
    return h


def history_case(env, case, st):
    """case = (t1, t2, n1, nn, via_agg): a first (inc_)aggregate call builds the n1-aggregate of data set t1 in a
    buffer; then THE SAME buffer and THE SAME key / message / signature arrays (same addresses) are refilled with
    data set t2 (its canonical n1-aggregate) and extended by nn signatures: the result must be t2's canonical
    aggregate - the aggregator may not remember anything about the earlier call."""
    t1, t2, n1, nn, via_agg = case
    L = env["L"]
    D1 = env["hist"] if t1 == "H" else env["data"][t1]
    D2 = env["hist"] if t2 == "H" else env["data"][t2]
    report_problems(env, D1, st)
    report_problems(env, D2, st)
    tot = n1 + nn

    def call(D, start, nb, k, aggregate):
        b = _fixed("h-agg", HIST_CAP, start)
        hp = _fixed("h-pk", 64 * 16, b"".join(D.pkobj[:nb + k]))
        hm = _fixed("h-msg", 32 * 16, b"".join(D.msgs[:nb + k]))
        hs = _fixed("h-sig", 64 * 16, b"".join(D.sigs[nb:nb + k]))
        ln = c_size_t(HIST_CAP)
        if aggregate:
            r = L.schnorrsig_aggregate(L.ctx, b.p, byref(ln), hp.p, hm.p, hs.p, k)
        else:
            r = L.schnorrsig_inc_aggregate(L.ctx, b.p, byref(ln), hp.p, hm.p, hs.p, nb, k)
        st.calls += 1
        return r, ln.value, b

    if via_agg:
        r, ln, b = call(D1, b"", 0, n1, True)
    else:
        r, ln, b = call(D1, D1.agg(n1 - 1), n1 - 1, 1, False)
    if r != 1 or ln != 32 * (n1 + 1) or not b.starts(D1.agg(n1)):
        st.fail("first call of the history (n=%d) differs from the model" % n1, {"cfg": L.config, "case": list(case)})
        return
    r, ln, b = call(D2, D2.agg(n1), n1, nn, False)
    want = D2.agg(tot)
    if r != 1 or ln != 32 * (tot + 1) or not b.starts(want):
        st.fail("inc_aggregate(n_before=%d, n_new=%d) on a buffer / arrays that an earlier call used for OTHER signatures differs from the model: the result depends on the earlier call" % (n1, nn),
                {"cfg": L.config, "first_data": t1, "second_data": t2, "n_before": n1, "n_new": nn, "first_via_aggregate": bool(via_agg),
                 "ret": r, "len": ln, "got": hx(b.head(32 * (tot + 1))), "model": hx(want)})
        return
    if call_verify(L, D2.pkobj[:tot], D2.msgs[:tot], tot, want) != 1:
        st.fail("aggverify rejects the aggregate reached by the history", {"cfg": L.config, "case": list(case)})
    st.calls += 1
    st.count("history-ok")
    st.nt(case)
    legal(L, st, "history")
    if n1 == 2 and nn == 1:
        st.sample({"first": "%s n=%d via %s" % (t1, n1, "aggregate" if via_agg else "inc_aggregate"), "then": "same buffers refilled with %s, inc_aggregate(%d,%d)" % (t2, n1, nn)})


# ------------------------------------------------------------------ E3: buffer lengths
def buflen_case(env, case, st):
    """case = (tag, n, n_before): every *aggsig_len in 0..32(n+2) on a buffer of exactly that size"""
    tag, n, nb = case
    L, D = env["L"], env["data"][tag]
    nn = n - nb
    start = D.agg(nb) if nb else b"\x00" * 32
    want = D.agg(n)
    need = 32 * (n + 1)
    for ln_in in range(0, 32 * (n + 2) + 1):
        for via_agg in ((False, True) if nb == 0 else (False,)):
            ret, ln, out = call_inc(L, b"" if via_agg else start, ln_in, D.pkobj[:n], D.msgs[:n], D.sigs[nb:n], nb, nn, aggregate=via_agg)
            st.calls += 1
            if ln_in < need:
                st.count("too-short")
                if ret != 0:
                    st.fail("aggregation into a %d-byte buffer (needs %d) returned %d" % (ln_in, need, ret),
                            {"cfg": L.config, "n": n, "n_before": nb, "aggsig_len": ln_in, "ret": ret, "via_aggregate": via_agg})
            else:
                st.count("fits")
                st.nt((n, nb, ln_in, via_agg))
                if ret != 1 or ln != need or not out.starts(want):
                    st.fail("aggregation into a %d-byte buffer: ret=%d len=%d (want 1, %d) or bytes differ" % (ln_in, ret, ln, need),
                            {"cfg": L.config, "n": n, "n_before": nb, "aggsig_len": ln_in, "ret": ret, "len_out": ln,
                             "got": hx(out.head(need)), "model": hx(want), "via_aggregate": via_agg})
    legal(L, st, "buffer lengths")


# ------------------------------------------------------------------ E1/E5: aggregate verification
def off_curve_x(C, start):
    x = start
    while C.lift_x(x % C.p) is not None:
        x += 1
    return x % C.p


def on_curve_x(C, start):
    x = start
    while C.lift_x(x % C.p) is None:
        x += 1
    return x % C.p


def verify_cases(thorough):
    ns = [0, 1, 2, 3, 8, 64]
    out = []
    for n in ns:
        out.append(("honest", n))
        pairs = [(i, j) for i in range(n) for j in range(i + 1, n)] if n <= 8 else [(0, 1), (0, 63), (1, 2), (31, 32), (62, 63)]
        if n == 8 and not thorough:
            pairs = [(i, j) for (i, j) in pairs if j == i + 1 or i == 0]
        for (i, j) in pairs:
            for what in ("swapkeys", "swapmsgs", "swappairs"):
                out.append((what, n, i, j))
        if n >= 2:
            out.append(("rotate", n))
        idx = range(n) if n <= 8 else ((0, 1, 32, 63) if thorough else (0, 63))
        for i in idx:
            for what in ("s+1", "s-1", "s=0", "sbit255", "rbit0", "rbit255", "r=next", "zero", "othermsg", "s+n"):
                out.append(("sigalt", n, i, what))
            for what in ("p", "p+1", "max", "zero", "offcurve", "oncurve", "r+p"):
                out.append(("rset", n, i, what))
            for what in ("neighbour", "G", "x+"):
                out.append(("keyrepl", n, i, what))
            out.append(("msgalt", n, i))
        for k in range(len(S_ALPHABET)):
            if n <= 3 or k < 8:
                out.append(("sset", n, k))
        if n <= 3:
            for bit in range(256 * (n + 1)):
                out.append(("flip", n, bit))
        if n <= (3 if thorough else 2):
            for bit in range(256 * n):
                out.append(("msgflip", n, bit))
        lens = range(0, 32 * (n + 2) + 1) if n <= 8 else sorted(set(
            [0, 1, 31, 32, 33] + [32 * k + d for k in (n - 1, n, n + 1, n + 2) for d in (-1, 0, 1)]))
        for ln in lens:
            if n <= 3 or ln % 32 in (0, 1, 31) or thorough:
                out.append(("len", n, ln, 0))
                out.append(("len", n, ln, 1))
        for dn in (-1, 1):
            if n + dn >= 0 and n + dn <= 64:
                out.append(("nmismatch", n, dn))
        if 1 <= n <= 8:
            for nn in (0, 1, 2):
                for what in ("s=n", "s=n+1", "s=max", "s+1", "r0=p", "r0=max", "r0=offcurve"):
                    out.append(("incinvalid", n, nn, what))
    return out


S_ALPHABET = None  # set in main (depends on VERIF_SEED through sc_alphabet)


def verify_case(env, case, st):
    L, D = env["L"], env["data"]["A"]
    report_problems(env, D, st)
    kind, n = case[0], case[1]
    pk32, msgs, pkobj = list(D.pk32[:n]), list(D.msgs[:n]), list(D.pkobj[:n])
    agg = D.agg(n)
    nkeys, length = n, None
    desc = {"cfg": L.config, "kind": kind, "n": n, "args": list(case[2:])}
    if kind == "honest":
        pass
    elif kind in ("swapkeys", "swapmsgs", "swappairs"):
        i, j = case[2], case[3]
        if kind != "swapmsgs":
            pk32[i], pk32[j] = pk32[j], pk32[i]
            pkobj[i], pkobj[j] = pkobj[j], pkobj[i]
        if kind != "swapkeys":
            msgs[i], msgs[j] = msgs[j], msgs[i]
    elif kind == "rotate":
        pk32, pkobj, msgs = pk32[1:] + pk32[:1], pkobj[1:] + pkobj[:1], msgs[1:] + msgs[:1]
    elif kind == "sigalt":
        i, what = case[2], case[3]
        sigs = list(D.sigs[:n])
        r, s = sigs[i][:32], i32(sigs[i][32:])
        if what == "s+1":
            s = (s + 1) % 2**256
        elif what == "s-1":
            s = (s - 1) % 2**256
        elif what == "s=0":
            s = 0
        elif what == "sbit255":
            s ^= 1 << 255
        elif what == "rbit0":
            r = r[:31] + bytes([r[31] ^ 1])
        elif what == "rbit255":
            r = bytes([r[0] ^ 0x80]) + r[1:]
        elif what == "r=next":
            r = D.sigs[(i + 1) % D.nmax][:32]
        elif what == "zero":
            r, s = b"\x00" * 32, 0
        elif what == "othermsg":
            o = S.sign(b32(D.sk[i]), D.msgs[(i + 1) % D.nmax], None)
            r, s = o[:32], i32(o[32:])
        elif what == "s+n":
            # a different encoding of the same residue exists only if s < 2^256 - n; otherwise s - n + 2^256 is no encoding: skip
            if s + N >= 2**256:
                st.count("sigalt-s+n-not-encodable")
                return
            s = s + N
        sigs[i] = r + b32(s)
        magg = H.aggregate([(pk32[k], msgs[k], sigs[k]) for k in range(n)])
        ret, ln, out = call_inc(L, b"", 32 * (n + 1), pkobj, msgs, sigs, 0, n, aggregate=True)
        st.calls += 1
        if ret == 0 and not S.verify(pk32[i], msgs[i], sigs[i]):
            st.count("sigalt:aggregation-refused")  # the altered signature is not a valid one: refusing is allowed
            legal(L, st, kind)
            return
        if ret != 1 or ln != 32 * (n + 1) or not out.starts(magg):
            st.fail("aggregate with altered signature %d (%s) differs from the model" % (i, what), dict(desc, got=hx(out.raw), model=hx(magg)))
            return
        agg = magg
    elif kind == "rset":
        i, what = case[2], case[3]
        r = i32(agg[32 * i:32 * i + 32])
        if what == "r+p" and r + P >= 2**256:
            st.count("r+p-not-encodable")
            return
        v = {"p": P, "p+1": P + 1, "max": 2**256 - 1, "zero": 0, "offcurve": off_curve_x(SECP, r + 1),
             "oncurve": on_curve_x(SECP, r + 1), "r+p": r + P}[what]
        agg = agg[:32 * i] + b32(v) + agg[32 * i + 32:]
    elif kind == "keyrepl":
        i, what = case[2], case[3]
        if what == "neighbour":
            new = D.pk32[(i + 1) % D.nmax]
        elif what == "G":
            new = b32(SECP.G[0])
        else:
            new = b32(on_curve_x(SECP, i32(pk32[i]) + 1))
        xo = buf(64)
        if L.xonly_pubkey_parse(L.ctx, xo, new) != 1:
            st.fail("xonly_pubkey_parse rejects an x-coordinate the model lifts", dict(desc, pk=hx(new)))
            return
        pk32[i], pkobj[i] = new, xo.raw
    elif kind == "msgalt":
        i = case[2]
        msgs[i] = D.msgs[(i + 1) % D.nmax]
    elif kind == "sset":
        v = S_ALPHABET[case[2]]
        s = i32(agg[-32:])
        if isinstance(v, str):
            v = {"s+1": s + 1, "s-1": s - 1, "n-s": N - s, "s^top": s ^ (1 << 255), "s+n": s + N}[v] % 2**256
        agg = agg[:-32] + b32(v)
        desc["s"] = hex(v)
    elif kind == "flip":
        bit = case[2]
        a = bytearray(agg)
        a[bit // 8] ^= 0x80 >> (bit % 8)
        agg = bytes(a)
    elif kind == "msgflip":
        bit = case[2]
        i = bit // 256
        a = bytearray(msgs[i])
        a[(bit % 256) // 8] ^= 0x80 >> (bit % 8)
        msgs[i] = bytes(a)
    elif kind == "len":
        ln, variant = case[2], case[3]
        if variant == 0:
            ext = agg + agg[-32:]                 # the honest aggregate followed by a second copy of s
        else:
            ext = D.agg(min(n + 1, D.nmax))       # the aggregate of one more signature
            ext = (ext + b"\x00" * 32)[:32 * (n + 2)]
        agg = ext[:ln]
    elif kind == "nmismatch":
        dn = case[2]
        nkeys = n + dn
        pk32, msgs, pkobj = list(D.pk32[:nkeys]), list(D.msgs[:nkeys]), list(D.pkobj[:nkeys])
    elif kind == "incinvalid":
        nn, what = case[2], case[3]
        nb, tot = n, n + nn
        s = i32(agg[-32:])
        bad = agg
        if what.startswith("s"):
            v = {"s=n": N, "s=n+1": N + 1, "s=max": 2**256 - 1, "s+1": (s + 1) % N}[what]
            bad = agg[:-32] + b32(v)
        else:
            v = {"r0=p": P, "r0=max": 2**256 - 1, "r0=offcurve": off_curve_x(SECP, i32(agg[:32]) + 1)}[what]
            bad = b32(v) + agg[32:]
        want = H.inc_aggregate(bad, D.pm(0, nb), D.pms(nb, tot))
        ret, ln, out = call_inc(L, bad, 32 * (tot + 1), D.pkobj[:tot], D.msgs[:tot], D.sigs[nb:tot], nb, nn)
        st.calls += 1
        if ret == 0:
            st.count("incinvalid:refused")  # the existing aggregate is invalid: refusing is allowed, continuing must follow the draft
            legal(L, st, kind)
            return
        if ret != 1 or ln != 32 * (tot + 1) or not out.starts(want):
            st.fail("inc_aggregate on an invalid existing aggregate (%s): ret=%d, bytes differ from the model" % (what, ret),
                    dict(desc, existing=hx(bad), got=hx(out.raw), model=hx(want)))
            return
        agg = want
        nkeys = tot
        pk32, msgs, pkobj = list(D.pk32[:tot]), list(D.msgs[:tot]), list(D.pkobj[:tot])
    else:
        raise RuntimeError("unknown kind " + kind)
    exp, why = H.verify_aggregate_why(agg, list(zip(pk32, msgs)))
    got = call_verify(L, pkobj, msgs, nkeys, agg, length)
    st.calls += 1
    st.count("%s:%s" % (kind, why))
    if exp:
        st.nt((kind, n, case[2:]))
    if got != (1 if exp else 0):
        st.fail("aggverify=%d, model=%s (%s) for %s" % (got, exp, why, kind), dict(desc, aggsig=hx(agg), pks=[hx(x) for x in pk32[:4]], msgs=[hx(x) for x in msgs[:4]]))
    if kind == "honest" and not exp:
        raise RuntimeError("model rejects an honest aggregate")
    legal(L, st, kind)
    if kind in ("sigalt", "rset", "incinvalid") and n == 2:
        st.sample({"kind": kind, "n": n, "args": list(case[2:]), "model": why, "aggverify": got})


# ------------------------------------------------------------------ API contract: NULL arguments, wrapping counts
def api_case(env, case, st):
    L, D = env["L"], env["data"]["A"]
    n = 3
    pk, ms, sg = Heap(b"".join(D.pkobj[:4])), Heap(b"".join(D.msgs[:4])), Heap(b"".join(D.sigs[:4]))
    agg = D.agg(n)

    def illegal_call(what, fn):
        L.cb_reset()
        ret = fn()
        st.calls += 1
        st.count("illegal")
        if ret != 0 or L.illegal < 1:
            st.fail("%s: expected the illegal-argument callback and return 0, got ret=%d callbacks=%d" % (what, ret, L.illegal),
                    {"cfg": L.config, "what": what})
        L.cb_reset()

    def legal_call(what, fn, want):
        L.cb_reset()
        ret = fn()
        st.calls += 1
        st.count("legal")
        if ret != want or L.illegal or L.errors:
            st.fail("%s: expected return %d without callback, got ret=%d illegal=%d" % (what, want, ret, L.illegal), {"cfg": L.config, "what": what})
        L.cb_reset()

    def fresh():
        return Heap(agg + b"\x00" * 64), c_size_t(len(agg) + 64)
    # counts whose sum wraps around size_t: ARG_CHECK, never a computation on a wrapped n
    for nb, nn in ((SIZE_MAX, SIZE_MAX), (1, SIZE_MAX), (SIZE_MAX, 1), (2, SIZE_MAX), (2**63, 2**63), (3, 2**64 - 3),
                   (3, 2**64 - 2), (3, 2**64 - 1), (SIZE_MAX, 2), (2**63 + 1, 2**63), (SIZE_MAX - 1, 3)):
        b, ln = fresh()
        illegal_call("inc_aggregate(n_before=%#x, n_new=%#x)" % (nb, nn),
                     lambda: L.schnorrsig_inc_aggregate(L.ctx, b.p, byref(ln), pk.p, ms.p, sg.p, nb, nn))
    # large counts that do not wrap: plain "buffer too small"
    for nb, nn in ((2**62, 5), (0, SIZE_MAX), (SIZE_MAX, 0), (SIZE_MAX - 1, 1), (2**59 - 1, 0), (0, 2**59 - 1), (6, 0), (0, 6), (3, 3)):
        for lv in (0, 1, 31, 32, len(agg), len(agg) + 64):
            b, ln = Heap(agg + b"\x00" * 64), c_size_t(lv)
            legal_call("inc_aggregate(n_before=%#x, n_new=%#x, len=%d) must report a too small buffer" % (nb, nn, lv),
                       lambda: L.schnorrsig_inc_aggregate(L.ctx, b.p, byref(ln), pk.p, ms.p, sg.p, nb, nn), 0)
    for nv in (SIZE_MAX, 2**59 - 1, 2**59, 2**63, 4, 5):
        for lv in (0, 1, 31, 32, 33, len(agg)):
            a = Heap(agg)
            legal_call("aggverify(n=%#x, len=%d) must reject by length" % (nv, lv),
                       lambda: L.schnorrsig_aggverify(L.ctx, pk.p, ms.p, nv, a.p, lv), 0)
    # NULL arguments
    b, ln = fresh()
    illegal_call("aggregate(aggsig=NULL)", lambda: L.schnorrsig_aggregate(L.ctx, None, byref(ln), pk.p, ms.p, sg.p, n))
    illegal_call("aggregate(aggsig_len=NULL)", lambda: L.schnorrsig_aggregate(L.ctx, b.p, None, pk.p, ms.p, sg.p, n))
    illegal_call("aggregate(pubkeys=NULL)", lambda: L.schnorrsig_aggregate(L.ctx, b.p, byref(ln), None, ms.p, sg.p, n))
    illegal_call("aggregate(msgs=NULL)", lambda: L.schnorrsig_aggregate(L.ctx, b.p, byref(ln), pk.p, None, sg.p, n))
    illegal_call("aggregate(sigs=NULL)", lambda: L.schnorrsig_aggregate(L.ctx, b.p, byref(ln), pk.p, ms.p, None, n))
    illegal_call("inc_aggregate(aggsig=NULL)", lambda: L.schnorrsig_inc_aggregate(L.ctx, None, byref(ln), pk.p, ms.p, sg.p, 1, 2))
    illegal_call("inc_aggregate(aggsig_len=NULL)", lambda: L.schnorrsig_inc_aggregate(L.ctx, b.p, None, pk.p, ms.p, sg.p, 1, 2))
    illegal_call("inc_aggregate(pubkeys=NULL)", lambda: L.schnorrsig_inc_aggregate(L.ctx, b.p, byref(ln), None, ms.p, sg.p, 1, 2))
    illegal_call("inc_aggregate(pubkeys=NULL, n_new=0)", lambda: L.schnorrsig_inc_aggregate(L.ctx, b.p, byref(ln), None, ms.p, sg.p, 1, 0))
    illegal_call("inc_aggregate(msgs=NULL)", lambda: L.schnorrsig_inc_aggregate(L.ctx, b.p, byref(ln), pk.p, None, sg.p, 1, 2))
    illegal_call("inc_aggregate(new_sigs=NULL)", lambda: L.schnorrsig_inc_aggregate(L.ctx, b.p, byref(ln), pk.p, ms.p, None, 1, 2))
    illegal_call("aggverify(pubkeys=NULL)", lambda: L.schnorrsig_aggverify(L.ctx, None, ms.p, n, b.p, len(agg)))
    illegal_call("aggverify(msgs=NULL)", lambda: L.schnorrsig_aggverify(L.ctx, pk.p, None, n, b.p, len(agg)))
    illegal_call("aggverify(aggsig=NULL)", lambda: L.schnorrsig_aggverify(L.ctx, pk.p, ms.p, n, None, len(agg)))
    # NULL where the header allows it
    z, zl = Heap(b"\x77" * 32), c_size_t(32)
    legal_call("aggregate(n=0, all arrays NULL)", lambda: L.schnorrsig_aggregate(L.ctx, z.p, byref(zl), None, None, None, 0), 1)
    if z.raw != b"\x00" * 32 or zl.value != 32:
        st.fail("aggregate of zero signatures is not 32 zero bytes", {"cfg": L.config, "got": hx(z.raw)})
    legal_call("aggverify(n=0, arrays NULL)", lambda: L.schnorrsig_aggverify(L.ctx, None, None, 0, z.p, 32), 1)
    # the static context: aggregation needs no precomputed tables, verification does (ARG_CHECK)
    sb, sl = Heap(b"\x5a" * len(agg)), c_size_t(len(agg))
    legal_call("aggregate(static context)", lambda: L.schnorrsig_aggregate(L.static_ctx, sb.p, byref(sl), pk.p, ms.p, sg.p, n), 1)
    if sb.raw != agg or sl.value != len(agg):
        st.fail("aggregate on the static context differs from the model", {"cfg": L.config, "got": hx(sb.raw), "model": hx(agg)})
    illegal_call("aggverify(static context)", lambda: L.schnorrsig_aggverify(L.static_ctx, pk.p, ms.p, n, sb.p, len(agg)))
    # a randomized (blinded) context must give the same verdicts
    va, vb = Heap(agg), Heap(agg[:-1] + bytes([agg[-1] ^ 1]))
    for seed in (b"\x01" * 32, seeded_fillers(1, b"c17ctx")[0], None):
        legal_call("context_randomize", lambda: L.context_randomize(L.ctx, seed), 1)
        legal_call("aggverify(honest) after context_randomize", lambda: L.schnorrsig_aggverify(L.ctx, pk.p, ms.p, n, va.p, len(agg)), 1)
        legal_call("aggverify(s^1) after context_randomize", lambda: L.schnorrsig_aggverify(L.ctx, pk.p, ms.p, n, vb.p, len(agg)), 0)
    b2, l2 = Heap(agg), c_size_t(len(agg))
    legal_call("inc_aggregate(n_new=0, new_sigs=NULL)", lambda: L.schnorrsig_inc_aggregate(L.ctx, b2.p, byref(l2), pk.p, ms.p, None, n, 0), 1)
    if b2.raw != agg:
        st.fail("inc_aggregate with n_new=0 changed the aggregate", {"cfg": L.config})
    st.nt("api")


# ------------------------------------------------------------------ E2: the order-13 group
class MemoCurve(Curve):
    """The model curve with memoised pure functions (speed only; same results)."""

    def __init__(self, C):
        Curve.__init__(self, C.p, C.b, C.G, C.n, C.name)
        self._m = {}

    def _memo(self, key, fn):
        v = self._m.get(key, self)
        if v is self:
            v = self._m[key] = fn()
        return v

    def lift_x(self, x, odd=None):
        return self._memo(("l", x, odd), lambda: Curve.lift_x(self, x, odd))

    def add(self, A, Bp):
        return self._memo(("a", A, Bp), lambda: Curve.add(self, A, Bp))

    def mul(self, k, A):
        return self._memo(("m", k, A), lambda: Curve.mul(self, k, A))

    def mulG(self, k):
        return self._memo(("g", k), lambda: Curve.mul(self, k % self.n, self.G))


def sg_messages(C, pts, count=13):
    """messages chosen by the model: for the reference (r, pk) = (x(G), x(G)) the BIP-340 challenge takes
    every value 0..N-1 once, in the order 0, 1, N-1, N//2, then the rest"""
    gx = b32(pts[1][0])
    byval = {}
    j = 0
    while len(byval) < C.n:
        m = sha256(b"c17 sg msg" + j.to_bytes(4, "big"))
        e = H.challenge(gx, gx, m, C)
        byval.setdefault(e, m)
        j += 1
    order = [0, 1, C.n - 1, C.n // 2] + [e for e in range(C.n) if e not in (0, 1, C.n - 1, C.n // 2)]
    return [byval[e] for e in order][:count]


def reenc(s, n):
    """32-byte encodings >= n of the residue s"""
    return [s + n, s + 2 * n, s + ((2**32 - 1) // n) * n, s + n * 2**200, s + ((2**256 - 1 - s) // n) * n]


class SgEnv:
    def __init__(self, cfg):
        self.L = L = lib(cfg)
        C0, self.pts = small_group(L)
        self.C = C = MemoCurve(C0)
        self.n = C.n
        self.msgs = sg_messages(C, self.pts)
        self.problems = []
        self.kp, self.pkobj, self.pk32 = {}, {}, {}
        for d in range(1, C.n):
            kp, xo, ser, par = buf(96), buf(64), buf(32), c_int(0)
            ok = L.keypair_create(L.ctx, kp, b32(d)) == 1 and L.keypair_xonly_pub(L.ctx, xo, byref(par), kp) == 1 \
                and L.xonly_pubkey_serialize(L.ctx, ser, xo) == 1
            if not ok or ser.raw != b32(self.pts[d][0]) or par.value != (self.pts[d][1] & 1):
                self.problems.append(("keypair / x-only key of d=%d differs from the model" % d, {"d": d}))
            self.kp[d], self.pkobj[d], self.pk32[d] = kp, xo.raw, b32(self.pts[d][0])
        self.xs = sorted(set(pt[0] for pt in self.pts[1:]))          # x-coordinates of the subgroup
        # r alphabet of the total enumeration: every subgroup x, one x that is on no curve point, p, 2^256-1.
        # x-coordinates of curve points outside the order-13 subgroup are excluded (the real group has cofactor 1).
        self.ralpha = [b32(x) for x in self.xs] + [b32(off_curve_x(C0, 1)), b32(P), b32(2**256 - 1)]
        self.sig = {}
        self.cur_k = 0

        def nf(n32, msg, ml, k32, pk32, algo, al, data):
            ctypes.memmove(n32, b32(self.cur_k), 32)
            return 1
        self._cb = NONCE_H(nf)
        self.ep = ExtraParams()
        ctypes.memmove(self.ep.magic, bytes([0xda, 0x6f, 0xb3, 0x8c]), 4)
        self.ep.noncefp = ctypes.cast(self._cb, c_void_p).value
        self.ep.ndata = None
        L.cb_reset()

    def signature(self, d, mi, k, st):
        """signature of message mi under key d with nonce k (k = -1: default nonce function, no aux) made by the
        real library and compared with the BIP-340 model; None when signing must fail (nonce = 0 mod N)"""
        key = (d, mi, k)
        if key in self.sig:
            return self.sig[key]
        L, C, m = self.L, self.C, self.msgs[mi]
        out = buf(b"\x77" * 64)
        if k == -1:
            ret = L.schnorrsig_sign32(L.ctx, out, m, self.kp[d], None)
            exp = S.sign(b32(d), m, None, C)
        else:
            self.cur_k = k
            ret = L.schnorrsig_sign_custom(L.ctx, out, m, 32, self.kp[d], byref(self.ep))
            exp = S.sign_with_k(d, k, m, C)
        st.calls += 1
        if exp is None:
            st.count("sign-refused(nonce=0)")
            if ret != 0 or not is_zero(out.raw):
                st.fail("signing with a nonce = 0 mod N must fail with a zeroed signature", {"cfg": L.config, "d": d, "mi": mi, "k": k, "ret": ret})
        else:
            st.count("signed")
            if ret != 1 or out.raw != exp:
                st.fail("small-group signature differs from the BIP-340 model", {"cfg": L.config, "d": d, "mi": mi, "k": k, "ret": ret, "got": hx(out.raw), "model": hx(exp)})
            elif not S.verify(self.pk32[d], m, exp, C):
                raise RuntimeError("model does not verify its own signature")
        self.sig[key] = exp
        return exp


def sg_verify(E, pkobjs, msgs, agg):
    L = E.L
    return L.schnorrsig_aggverify(L.ctx, b"".join(pkobjs), b"".join(msgs), len(msgs), agg, len(agg))


def sg_honest_case(E, case, st):
    """case = ((d, mi, k), ...): sign, aggregate (one-shot and along every composition), verify, then
    every re-encoding s + 13k (must be rejected), every s in Z_13, re-encoded inputs of aggregation,
    and - for the first nonce class - one signature altered before aggregation."""
    L, C = E.L, E.C
    while E.problems:
        what, c = E.problems.pop()
        st.fail(what, dict(c, cfg=L.config))
    n = len(case)
    N13 = C.n
    sigs = [E.signature(d, mi, k, st) for (d, mi, k) in case]
    if any(s is None for s in sigs):
        legal(L, st, "sign")
        return
    pk32 = [E.pk32[d] for (d, mi, k) in case]
    pkobj = [E.pkobj[d] for (d, mi, k) in case]
    msgs = [E.msgs[mi] for (d, mi, k) in case]
    pm = list(zip(pk32, msgs))
    desc = {"cfg": L.config, "case": [list(c) for c in case]}
    magg = H.aggregate([(pk32[i], msgs[i], sigs[i]) for i in range(n)], C)
    need = 32 * (n + 1)

    def lib_agg(sg, nb=0, start=b"", via_agg=False, slack=0):
        b = buf((start + b"\x5a" * (need + slack))[:need + slack])
        ln = c_size_t(need + slack)
        tot = nb + len(sg)
        if via_agg:
            ret = L.schnorrsig_aggregate(L.ctx, b, byref(ln), b"".join(pkobj[:tot]), b"".join(msgs[:tot]), b"".join(sg), len(sg))
        else:
            ret = L.schnorrsig_inc_aggregate(L.ctx, b, byref(ln), b"".join(pkobj[:tot]), b"".join(msgs[:tot]), b"".join(sg), nb, len(sg))
        st.calls += 1
        return ret, ln.value, b.raw[:32 * (tot + 1)]

    ret, ln, out = lib_agg(sigs, via_agg=True)
    if ret != 1 or ln != need or out != magg:
        st.fail("small group: aggregate differs from the model", dict(desc, ret=ret, got=hx(out), model=hx(magg)))
        return
    # every composition
    for parts in compositions(n):
        cur, pos = b"\x00" * 32, 0
        for part in parts:
            ret, ln, cur = lib_agg(sigs[pos:pos + part], nb=pos, start=cur, slack=32)
            pos += part
            mst = H.aggregate([(pk32[i], msgs[i], sigs[i]) for i in range(pos)], C)
            if ret != 1 or ln != 32 * (pos + 1) or cur != mst:
                st.fail("small group: incremental aggregation along %r differs from the model" % (parts,), dict(desc, got=hx(cur), model=hx(mst)))
                return
    # randomizer / challenge coverage
    prefix = b""
    for i in range(n):
        prefix += sigs[i][:32] + pk32[i] + msgs[i]
        st.count("e=%d" % H.challenge(sigs[i][:32], pk32[i], msgs[i], C))
        if i:
            st.count("z%d=%d" % (i, H.randomizer(prefix, i, C)))
    # verify
    exp, why = H.verify_aggregate_why(magg, pm, C)
    if not exp:
        raise RuntimeError("model rejects an honest small-group aggregate (%s)" % why)
    got = sg_verify(E, pkobj, msgs, magg)
    st.calls += 1
    st.count("honest-accept")
    st.nt((tuple(pk32), tuple(msgs), magg))
    if got != 1:
        st.fail("small group: aggverify rejects an honest aggregate", dict(desc, aggsig=hx(magg)))
        return
    s = i32(magg[-32:])
    # re-encodings of s: the equation holds for the residue, the encoding is out of range -> reject
    for v in reenc(s, N13):
        a = magg[:-32] + b32(v)
        got = sg_verify(E, pkobj, msgs, a)
        exp, why = H.verify_aggregate_why(a, pm, C)
        st.calls += 1
        st.count("reenc:" + why)
        if exp or got != 0:
            st.fail("small group: aggregate with s re-encoded as s+13k (s=%d, encoding %#x) accepted: aggverify=%d model=%s" % (s, v, got, exp),
                    dict(desc, aggsig=hx(a)))
    # every s in Z_13
    for v in range(N13):
        a = magg[:-32] + b32(v)
        got = sg_verify(E, pkobj, msgs, a)
        exp, why = H.verify_aggregate_why(a, pm, C)
        st.calls += 1
        st.count("all-s:" + why)
        if got != (1 if exp else 0):
            st.fail("small group: aggverify=%d model=%s for s=%d" % (got, exp, v), dict(desc, aggsig=hx(a)))
    # re-encoded s_i in an input signature / re-encoded s in the existing aggregate: aggregation reduces mod n
    for i in range(n):
        si = i32(sigs[i][32:])
        for v in reenc(si, N13)[:2] + reenc(si, N13)[-1:]:
            alt = list(sigs)
            alt[i] = sigs[i][:32] + b32(v)
            want = H.aggregate([(pk32[j], msgs[j], alt[j]) for j in range(n)], C)
            ret, ln, out = lib_agg(alt, via_agg=True)
            if want != magg:
                raise RuntimeError("model: re-encoded s_i changes the aggregate")
            if ret == 0:
                st.count("agg-reencoded-input:refused")   # not a valid BIP-340 signature: the statement allows refusing it
                continue
            st.count("agg-reencoded-input:reduced")
            if ret != 1 or out != want:
                st.fail("small group: aggregate of a signature with s_i re-encoded differs from the model", dict(desc, i=i, enc=hex(v), got=hx(out), model=hx(want)))
    if n >= 2:
        nb = n - 1
        pre = H.aggregate([(pk32[j], msgs[j], sigs[j]) for j in range(nb)], C)
        for v in reenc(i32(pre[-32:]), N13)[:2] + reenc(i32(pre[-32:]), N13)[-1:]:
            bad = pre[:-32] + b32(v)
            want = H.inc_aggregate(bad, pm[:nb], [(pk32[nb], msgs[nb], sigs[nb])], C)
            ret, ln, out = lib_agg(sigs[nb:], nb=nb, start=bad)
            if want != magg:
                raise RuntimeError("model: re-encoded existing s changes the aggregate")
            if ret == 0:
                st.count("inc-reencoded-existing:refused")  # not a valid aggregate: refusing is allowed
                continue
            st.count("inc-reencoded-existing:reduced")
            if ret != 1 or out != want:
                st.fail("small group: inc_aggregate on an existing aggregate with s re-encoded differs from the model", dict(desc, enc=hex(v), got=hx(out), model=hx(want)))
    # reordered keys / messages
    for i in range(n):
        for j in range(i + 1, n):
            for what in ("keys", "msgs"):
                p2, o2, m2 = list(pk32), list(pkobj), list(msgs)
                if what == "keys":
                    p2[i], p2[j] = p2[j], p2[i]
                    o2[i], o2[j] = o2[j], o2[i]
                else:
                    m2[i], m2[j] = m2[j], m2[i]
                got = sg_verify(E, o2, m2, magg)
                exp, why = H.verify_aggregate_why(magg, list(zip(p2, m2)), C)
                st.calls += 1
                st.count("swap-%s:%s" % (what, why))
                if exp:
                    st.nt(("swap", tuple(p2), tuple(m2), magg))
                if got != (1 if exp else 0):
                    st.fail("small group: aggverify=%d model=%s after exchanging %s %d,%d" % (got, exp, what, i, j), dict(desc, aggsig=hx(magg)))
    # one signature altered before aggregation (first nonce class only)
    if all(k in (1, -1) for (d, mi, k) in case):
        for i in range(n):
            alts = [b32(x) + sigs[i][32:] for x in E.xs if b32(x) != sigs[i][:32]] + \
                   [sigs[i][:32] + b32(v) for v in range(N13) if v != i32(sigs[i][32:])]
            for a_sig in alts:
                alt = list(sigs)
                alt[i] = a_sig
                want = H.aggregate([(pk32[j], msgs[j], alt[j]) for j in range(n)], C)
                ret, ln, out = lib_agg(alt, via_agg=True)
                if ret == 0 and not S.verify(pk32[i], msgs[i], a_sig, C):
                    st.count("altered-sig:aggregation-refused")
                    continue
                if ret != 1 or out != want:
                    st.fail("small group: aggregate with an altered signature differs from the model", dict(desc, i=i, sig=hx(a_sig), got=hx(out), model=hx(want)))
                    continue
                got = sg_verify(E, pkobj, msgs, want)
                exp, why = H.verify_aggregate_why(want, pm, C)
                st.calls += 1
                st.count("altered-sig:" + why)
                if exp:
                    st.nt(("alt", tuple(pk32), tuple(msgs), want))
                if got != (1 if exp else 0):
                    st.fail("small group: aggverify=%d model=%s for an aggregate with signature %d altered before aggregation" % (got, exp, i),
                            dict(desc, aggsig=hx(want)))
    legal(L, st, "small-group honest path")
    if n == 2:
        st.sample({"group_order": N13, "case": [list(c) for c in case], "aggregate": hx(magg), "s": s, "re-encodings rejected": [hex(v) for v in reenc(s, N13)[:3]]})


def sg_total_case(E, case, st):
    """case = (ds, mis): every aggregate string (r_1..r_n, s) with r_i in the r alphabet and s in Z_13,
    plus the re-encodings of every accepted s (and of every s when n <= 1)"""
    L, C = E.L, E.C
    ds, mis = case
    n = len(ds)
    N13 = C.n
    pk32 = [E.pk32[d] for d in ds]
    pkobj = [E.pkobj[d] for d in ds]
    msgs = [E.msgs[mi] for mi in mis]
    pm = list(zip(pk32, msgs))
    pko, mso = b"".join(pkobj), b"".join(msgs)
    desc = {"cfg": L.config, "keys": list(ds), "msgs": list(mis)}
    fn = L.schnorrsig_aggverify
    for rs in itertools.product(E.ralpha, repeat=n):
        head = b"".join(rs)
        for s in range(N13):
            encs = [s]
            a = head + b32(s)
            exp, why = H.verify_aggregate_why(a, pm, C)
            got = fn(L.ctx, pko, mso, n, a, len(a))
            st.calls += 1
            st.count(why)
            if exp:
                st.nt((ds, mis, a))
            if got != (1 if exp else 0):
                st.fail("small group: aggverify=%d model=%s (%s)" % (got, exp, why), dict(desc, aggsig=hx(a)))
            if exp or n <= 1:
                for v in reenc(s, N13):
                    a2 = head + b32(v)
                    exp2, why2 = H.verify_aggregate_why(a2, pm, C)
                    got2 = fn(L.ctx, pko, mso, n, a2, len(a2))
                    st.calls += 1
                    st.count("reenc-of-%s:%s" % ("accepted" if exp else "rejected", why2))
                    if exp2 or got2 != 0:
                        st.fail("small group: s re-encoded as %#x (residue %d): aggverify=%d model=%s" % (v, s, got2, exp2), dict(desc, aggsig=hx(a2)))
    legal(L, st, "small-group total")
    if n == 2 and ds[0] == 3:
        st.sample({"group_order": N13, "keys": list(ds), "msgs": list(mis), "strings": len(E.ralpha) ** n * N13})


# ------------------------------------------------------------------ main
_run_phase = run_phase
ONLY = [x for x in os.environ.get("VERIF_C17_ONLY", "").split(",") if x]  # development aid: run only phases whose name contains one of these


def run_phase(run, name, *a, **kw):
    if ONLY and not any(x in name for x in ONLY):
        return None
    return _run_phase(run, name, *a, **kw)


def selftest_or_die():
    bad = H.selftest(os.path.join(B.REPO, "src", "modules", "schnorrsig_halfagg", "tests_impl.h"))
    if bad:
        sys.stderr.write("C17: model self-test failed (machinery broken, no verdict):\n  " + "\n  ".join(bad) + "\n")
        sys.exit(2)


def main():
    global S_ALPHABET
    a = args()
    selftest_or_die()
    thorough = a.tier == "thorough"
    S_ALPHABET = sc_alphabet() + ["s+1", "s-1", "n-s", "s^top", "s+n"]
    prods = ["prod-san", "prod-verify"] + (["cfg-int64-noasm-w8-c22", "cfg-int64-san-w15", "cfg-i128struct-noasm-w2-c2",
                                             "cfg-int64-noasm-w2-c86-clang"] if thorough else [])
    sgs = ["sg13", "sg13-verify"] + (["sg13-san"] if thorough else [])
    if ONLY:
        def wanted(c):
            return any((c == t.split("/")[0]) if "/" in t else c.startswith(t) for t in ONLY)
        prods, sgs = [c for c in prods if wanted(c)], [c for c in sgs if wanted(c)]
    import time
    tb = time.time()
    B.build_many(prods + sgs)
    for b in prods + sgs:
        lib(b)  # load in the parent: workers inherit the mapping (no per-worker rebuild if the shared cache is pruned meanwhile)
    # the tier's deadline covers the exploration; (re)building the shims first is reported separately
    run = Run(PID, a.tier)
    run.cov["build_and_load_wall_s"] = round(time.time() - tb, 1)
    for b in prods + sgs:
        run.cov["builds"][b] = B.source_hash()[:16]

    # ---------------- E3 / E1 / E5 on secp256k1
    vcases = verify_cases(thorough)
    def do_prod(cfg):
        main_cfg = cfg in ("prod-san", "prod-verify")
        tags = ["A", "B"] if (thorough and main_cfg) else ["A"]
        setup = prod_setup(cfg, tags, 65)
        cases = []
        for tag in tags:
            for n in range(0, 9):
                for parts in compositions(n):
                    cases.append((tag, n, parts))
            # zero-sized steps in every position for n <= 4
            for n in range(0, 5):
                for parts in compositions(n):
                    for pos in range(len(parts) + 1):
                        cases.append((tag, n, parts[:pos] + (0,) + parts[pos:]))
            cases.append((tag, 0, (0, 0)))
            for n in (16, 64):
                for parts in ((n,), (1,) * n, (2,) * (n // 2), (n // 2, n // 2), (n - 1, 1), (1, n - 1), (1, 2, n - 3), (n - 3, 2, 1),
                              (n // 2, 1, n // 2 - 1), (2, n // 2, n // 2 - 2)):
                    cases.append((tag, n, parts))
        run_phase(run, "%s/splits" % cfg, split_case, cases, setup=setup,
                  rule="every composition of n for n = 0..8 (2^(n-1) each), every composition of n <= 4 with one zero-sized step inserted, 10 patterns for n in {16,64}; "
                       "first step through aggregate() and through inc_aggregate(n_before=0), buffers with 0/32/45 spare bytes; every intermediate state, the final state and "
                       "one-shot aggregation byte-compared with the model; aggverify of the result; non-trivial = a composition that ran to the end")
        cases = [(tag, nb, nn) for tag in tags for nb in range(0, 65) for nn in range(0, 65 - nb)]
        if not main_cfg:
            cases = [c for c in cases if c[1] + c[2] <= 24]
        run_phase(run, "%s/transitions" % cfg, transition_case, cases, setup=setup,
                  rule="state-space argument: the aggregator's state is (n_before, aggsig bytes); every transition (n_before, n_new) with n_before + n_new <= 64 "
                       "(2145 per data set) is taken from the canonical state (model one-shot aggregate of the prefix) and must reach the canonical state of n_before+n_new, "
                       "with exact / +17 / +64 byte buffers and three tail fills; together with splits this closes every composition for n <= 64")
        cases = [(t1, t2, n1, nn, via) for (t1, t2) in (("A", "H"), ("H", "A"), ("A", "A")) for n1 in range(1, 9) for nn in (1, 2) for via in (1, 0)]
        run_phase(run, "%s/same-buffer-histories" % cfg, history_case, cases, setup=setup,
                  rule="two-call histories on the SAME buffer and argument arrays (same addresses): call 1 builds the n1-aggregate of data set X (via aggregate or inc_aggregate), "
                       "then the objects are refilled with data set Y's canonical n1-aggregate and inc_aggregate(n1, n_new in {1,2}) must give Y's canonical aggregate (model), "
                       "n1 in 1..8, (X,Y) in {(A,H),(H,A),(A,A)}: the aggregator has no memory across calls")
        ns = list(range(0, 9)) + ([64] if main_cfg else [])
        cases = []
        for n in ns:
            for nb in sorted(set([0, 1, n // 2, n - 1, n]) & set(range(0, n + 1))):
                cases.append(("A", n, nb))
        run_phase(run, "%s/buffer-lengths" % cfg, buflen_case, cases, setup=setup,
                  rule="every *aggsig_len in 0..32(n+2) on a heap buffer of exactly that size, n in 0..8 and 64, n_before in {0,1,n/2,n-1,n}, aggregate() and inc_aggregate(): "
                       "shorter than 32(n+1) => 0, otherwise 1, *aggsig_len = 32(n+1) and the model's bytes; non-trivial = a length that fits")
        vc = vcases if main_cfg else [c for c in vcases if c[1] <= 8 and c[0] not in ("flip", "msgflip", "len")]
        run_phase(run, "%s/aggverify" % cfg, verify_case, vc, setup=setup,
                  rule="n in {0,1,2,3,8,64}: honest; every exchange of two keys / two messages / two pairs (n<=8) and a rotation; each signature altered before aggregation in 10 ways "
                       "(aggregate byte-compared, then verified); r_i <- p, p+1, 2^256-1, 0, next off-curve x, next on-curve x; key_i replaced 3 ways; message replaced; "
                       "s <- every SC alphabet value and s+-1, n-s, s^2^255; every single-bit flip of the aggregate (n<=3) and of the messages (n<=2, thorough 3); "
                       "every length 0..32(n+2) on two buffer contents (n<=3; boundary lengths beyond); n+-1 keys; inc_aggregate on an existing aggregate with s>=n / r_0>=p / r_0 off-curve. "
                       "Verdict of every case = model VerifyAggregate; non-trivial = model accepts")
        run_phase(run, "%s/api" % cfg, api_case, [0], setup=setup, nproc=1,
                  rule="n_before+n_new wrapping around size_t (11 pairs) and every NULL array: illegal callback and 0; huge non-wrapping counts and lengths < 32: plain 0; NULL arrays with n = 0 are legal")

    # ---------------- E2 in the order-13 group
    L0 = lib(sgs[0]) if sgs else None
    C0, pts0 = small_group(L0) if sgs else (None, None)
    M = sg_messages(C0, pts0) if sgs else []
    cover = set()
    xs = sorted(set(pt[0] for pt in pts0[1:])) if sgs else []
    for m in M:
        for rx in xs:
            for px in xs:
                cover.add(H.challenge(b32(rx), b32(px), m, C0))
    if sgs and cover != set(range(C0.n)):
        sys.stderr.write("C17: message set does not cover all challenge values (machinery)\n")
        sys.exit(2)
    def do_sg(cfg):
        full = cfg == "sg13" or thorough
        keys = range(1, 13)
        ks_all = [-1] + list(range(0, 13))
        cases = [()]
        cases += [((d, mi, k),) for d in keys for mi in range(13) for k in ks_all]
        if thorough and cfg == "sg13":
            npairs = [(k1, k2) for k1 in range(1, 13) for k2 in (1, 2, 5, 7, 11, 12)] + [(-1, -1), (-1, 1)]
        else:
            npairs = [(k1, k2) for k1 in range(1, 13) for k2 in (1, 5, 12)] + [(-1, -1)]
        if not full:
            npairs = [(k1, k2) for (k1, k2) in npairs if k1 in (-1, 1, 7, 12)]
        mpairs = [(m1, m2) for m1 in range(4) for m2 in range(4)] if (thorough and cfg != "sg13-san") else [(0, 1), (1, 0), (2, 3), (3, 3)]
        for d1 in keys:
            for d2 in keys:
                for (m1, m2) in mpairs:
                    for (k1, k2) in npairs:
                        cases.append(((d1, m1, k1), (d2, m2, k2)))
        d3s = list(keys) if (thorough and cfg == "sg13") else [1, 7, 12]
        trip_m = [(0, 1, 2), (3, 3, 3)] + ([(5, 0, 9), (12, 11, 10)] if thorough else [])
        trip_k = [(-1, -1, -1), (1, 1, 1), (3, 7, 11)] + ([(12, 1, 6), (2, 2, 9)] if thorough else [])
        if not full:
            trip_k = trip_k[:2]
        for d1 in keys:
            for d2 in keys:
                for d3 in d3s:
                    for tm in trip_m:
                        for tk in trip_k:
                            cases.append(tuple((d, mi, k) for d, mi, k in zip((d1, d2, d3), tm, tk)))
        sgenv = SgEnv(cfg)
        run_phase(run, "%s/honest-n<=3" % cfg, sg_honest_case, cases, setup=lambda: sgenv,
                  rule="group of order 13, keys and signatures made by the real keypair/schnorrsig API (custom nonce callback, default nonce with predicted failures): "
                       "n=1: every key x 13 messages (all challenge values) x every nonce 0..12 and the default; n=2: keys [1,12]^2 x %d message pairs x %d nonce pairs; "
                       "n=3: keys [1,12]^2 x %d third keys x %d message triples x %d nonce triples. Per case: aggregate and every composition == model; aggverify accepts; "
                       "5 re-encodings s+13k REJECTED; every s in Z_13 decided by the model; re-encoded s_i / existing s reduce; key and message exchanges; "
                       "each signature altered before aggregation (every other r, every other s) for the nonce class {1, default}; non-trivial = accepted aggregates"
                       % (len(mpairs), len(npairs), len(d3s), len(trip_m), len(trip_k)))
        cases = [((), ())]
        cases += [((d,), (mi,)) for d in keys for mi in range(13)]
        mm = range(7) if (thorough and cfg == "sg13") else (range(4) if thorough else range(3))
        cases += [((d1, d2), (m1, m2)) for d1 in keys for d2 in keys for m1 in mm for m2 in mm]
        if thorough and cfg == "sg13":
            cases += [((d1, d2, d3), tm) for d1 in keys for d2 in keys for d3 in (1, 7) for tm in ((0, 1, 2), (3, 3, 3))]
        if not full:
            cases = [c for c in cases if len(c[0]) < 2 or (c[1][0] < 2 and c[1][1] < 2)]
        run_phase(run, "%s/total-aggverify" % cfg, sg_total_case, cases, setup=lambda: sgenv,
                  rule="total enumeration of aggregate strings: r_i in {6 subgroup x-coordinates, an x on no curve point, p, 2^256-1}, s in Z_13, for n=0, n=1 (every key x 13 messages), "
                       "n=2 (keys [1,12]^2 x %dx%d messages)%s; every accepted s (n<=1: every s) re-presented in 5 encodings s+13k: must be rejected; "
                       "non-trivial = accepted strings" % (len(mm), len(mm), ", n=3 (keys [1,12]^2 x {1,7} x 2 message triples)" if thorough and cfg == "sg13" else ""))

    # order: sanitizer build, then the small group (the only place where s + kN re-encodings exist), then the rest
    jobs = [(do_prod, c) for c in prods[:1]] + [(do_sg, c) for c in sgs[:1]] + [(do_prod, c) for c in prods[1:]] + [(do_sg, c) for c in sgs[1:]]
    for k, (fn, cfg) in enumerate(jobs):
        if run.out_of_time():        # configurations are skipped only when the tier's deadline has passed; the evidence says so
            run.cov["exhaustive"] = False
            run.assumptions.append("deadline reached: configurations skipped: %s" % ", ".join(c for _, c in jobs[k:]))
            break
        fn(cfg)

    run.assumptions += [
        "model written from the draft half-aggregation specification and self-tested on the three draft vectors shipped in /repo before any verdict",
        "secp256k1: keys/messages are two fixed data sets (boundary-key alphabet + hash-derived, VERIF_SEED adds fillers); values outside are not explored; the order-13 group is explored totally for n <= 2(3)",
        "secp256k1: a second encoding s + n of a valid aggregate's s exists only for n = 0 (s = 0, bytes(n): explored); for n >= 1 it would need s < 2^128.4, and r_i + p would need r_i < 2^32+977: "
        "rejection of s + kN encodings of valid aggregates is decided in the order-13 group; rejection of r_i >= p is decided by the model everywhere but a *dropped* r_i >= p check is only visible "
        "where it changes the verdict, i.e. in the order-13 group when z_i = 0 makes r_i irrelevant",
        "order-13 group: x-coordinates of curve points outside the subgroup are not presented as r_i (the real group has cofactor 1)",
        "the draft's limit v + u < 2^16 is outside the stated bound n <= 64 and not explored",
        "compilers: gcc 12 / clang 14 as installed"]
    sys.exit(run.finish())


if __name__ == "__main__":
    main()
