"""C07 Untrusted bytes never cause undefined behaviour or callback aborts (level: fault_enumeration).
E5: every 0- and 1-deviation input of every parsing / verification entry point: valid artefacts made by the
library's own provers, mutated by one element of a finite mutation alphabet; ASan+UBSan (prod-san) and
VERIFY_CHECK (prod-verify) aborts, callback counters, the allocation ledger and the per-case watchdog are the oracle.
Objects produced by a successful parse are chained into the consumers of their type."""
import sys, ctypes, itertools
from ctypes import c_int, c_size_t, c_uint64, c_void_p, byref
from ..core import Run, run_phase, hx, seeded_fillers
from ..util import *
from .. import build as B

PID = "C07"
_L = {}
BOUND = [0, 1, N - 1, N, N + 1, P - 1, P, P + 1, 2**256 - 1]


def lib(cfg):
    if cfg not in _L:
        _L[cfg] = Lib(cfg)
    return _L[cfg]


def K(i):
    """deterministic valid secret key #i"""
    return b32((0x1000000000000000000000000000000000000000000000000000000000000001 * (i + 3)) % (N - 1) + 1)


MSG = bytes(range(1, 33))
MSG2 = bytes(range(33, 65))


class Env:
    def __init__(self, cfg):
        self.L = L = lib(cfg)
        self.cfg = cfg
        c = L.ctx
        self.pk = [buf(64) for _ in range(4)]
        for i in range(4):
            assert L.ec_pubkey_create(c, self.pk[i], K(i)) == 1
        self.kp = buf(96)
        assert L.keypair_create(c, self.kp, K(0)) == 1
        self.xo = buf(64)
        L.keypair_xonly_pub(c, self.xo, None, self.kp)
        self.gen = buf(64)
        assert L.generator_generate_blinded(c, self.gen, MSG, K(5)) == 1
        self.seeds = {}
        self.targets = {}
        self._mk()

    # ----- seeds and targets -------------------------------------------------
    def _mk(self):
        L, c = self.L, self.L.ctx
        S, T = self.seeds, self.targets

        def ser_pk(pk, comp):
            return pubkey_ser(L, pk, comp)
        S["pubkey"] = [ser_pk(self.pk[0], True), ser_pk(self.pk[1], False), bytes([6 + (ser_pk(self.pk[2], False)[64] & 1)]) + ser_pk(self.pk[2], False)[1:]]
        T["pubkey"] = self.t_pubkey
        x = buf(32)
        L.xonly_pubkey_serialize(c, x, self.xo)
        S["xonly"] = [x.raw]
        T["xonly"] = self.t_xonly
        sig = buf(64)
        assert L.ecdsa_sign(c, sig, MSG, K(0), None, None) == 1
        der = buf(80)
        ln = c_size_t(80)
        L.ecdsa_signature_serialize_der(c, der, byref(ln), sig)
        S["der"] = [der.raw[:ln.value]]
        T["der"] = self.t_der
        T["der-lax"] = self.t_der_lax
        S["der-lax"] = S["der"]
        S["compact"] = [sig_compact(L, sig)]
        T["compact"] = self.t_compact
        sch = buf(64)
        assert L.schnorrsig_sign32(c, sch, MSG, self.kp, None) == 1
        S["schnorr"] = [sch.raw]
        T["schnorr"] = self.t_schnorr
        # musig
        cache = buf(197)
        pks = (c_void_p * 2)(ctypes.addressof(self.pk[0]), ctypes.addressof(self.pk[1]))
        assert L.musig_pubkey_agg(c, None, cache, pks, 2) == 1
        self.mcache = cache
        sn, pn = buf(132), buf(132)
        sr = buf(b"\x07" * 32)
        assert L.musig_nonce_gen(c, sn, pn, sr, K(0), self.pk[0], MSG, cache, None) == 1
        o66 = buf(66)
        L.musig_pubnonce_serialize(c, o66, pn)
        S["musig-pubnonce"] = [o66.raw]
        T["musig-pubnonce"] = self.t_pubnonce
        pn2 = buf(132)
        sn2 = buf(132)
        kp1 = buf(96)
        L.keypair_create(c, kp1, K(1))
        assert L.musig_nonce_gen_counter(c, sn2, pn2, 5, kp1, MSG, cache, None) == 1
        pns = (c_void_p * 2)(ctypes.addressof(pn), ctypes.addressof(pn2))
        an = buf(132)
        assert L.musig_nonce_agg(c, an, pns, 2) == 1
        L.musig_aggnonce_serialize(c, o66, an)
        S["musig-aggnonce"] = [o66.raw, b"\x00" * 66]
        T["musig-aggnonce"] = self.t_aggnonce
        sess = buf(133)
        assert L.musig_nonce_process(c, sess, an, MSG, cache, None) == 1
        self.msess, self.mpn = sess, pn
        ps = buf(36)
        assert L.musig_partial_sign(c, ps, sn, self.kp, cache, sess) == 1
        o32 = buf(32)
        L.musig_partial_sig_serialize(c, o32, ps)
        S["musig-partial"] = [o32.raw]
        T["musig-partial"] = self.t_partial
        # commitments / generators
        g = buf(33)
        L.generator_serialize(c, g, self.gen)
        S["generator"] = [g.raw]
        T["generator"] = self.t_generator
        com = buf(64)
        assert L.pedersen_commit(c, com, K(6), 5, self.gen) == 1
        self.com = com
        L.pedersen_commitment_serialize(c, g, com)
        S["commitment"] = [g.raw]
        T["commitment"] = self.t_commitment
        # range proofs: (min_value, exp, min_bits, value, msg)
        S["rangeproof"] = []
        self.rp_meta = []
        for (mv, exp, mb, val, msg, extra) in ((0, -1, 0, 5, b"", b""), (0, 0, 1, 5, b"", b""), (0, 0, 3, 5, b"m", MSG), (1, 0, 2, 5, b"", b""), (0, 1, 4, 50, b"", MSG2[:3]), (0, 0, 8, 5, b"x" * 40, b"")):
            pr = buf(5134)
            pl = c_size_t(5134)
            cm = buf(64)
            assert L.pedersen_commit(c, cm, K(6), val, self.gen) == 1
            r = L.rangeproof_sign(c, pr, byref(pl), mv, cm, K(6), K(7), exp, mb, val, msg if msg else None, len(msg), extra if extra else None, len(extra), self.gen)
            assert r == 1, "rangeproof_sign failed for seed"
            S["rangeproof"].append(pr.raw[:pl.value])
            self.rp_meta.append((cm, extra))
        T["rangeproof"] = self.t_rangeproof
        # surjection proofs
        S["surjection"] = []
        self.sj_meta = []
        for (n, use, at) in ((1, 1, 0), (2, 1, 1), (3, 2, 0), (8, 3, 5), (9, 2, 8)):
            tags = (ctypes.c_ubyte * (32 * n))()
            for i in range(n):
                ctypes.memmove(ctypes.addressof(tags) + 32 * i, b32(100 + i), 32)
            etags = (ctypes.c_ubyte * (64 * n))()
            for i in range(n):
                gg = buf(64)
                assert L.generator_generate_blinded(c, gg, b32(100 + i), K(10 + i)) == 1
                ctypes.memmove(ctypes.addressof(etags) + 64 * i, gg, 64)
            eout = buf(64)
            assert L.generator_generate_blinded(c, eout, b32(100 + at), K(30)) == 1
            proof = buf(L.verif_sizeof(10))
            idx = c_size_t(0)
            r = L.surjectionproof_initialize(c, proof, byref(idx), tags, n, use, b32(100 + at), 100, MSG)
            assert r > 0 and idx.value == at
            assert L.surjectionproof_generate(c, proof, etags, n, eout, at, K(10 + at), K(30)) == 1
            o = buf(9000)
            ol = c_size_t(9000)
            assert L.surjectionproof_serialize(c, o, byref(ol), proof) == 1
            S["surjection"].append(o.raw[:ol.value])
            self.sj_meta.append((etags, n, eout))
        T["surjection"] = self.t_surjection
        # whitelist
        S["whitelist"] = []
        self.wl_meta = []
        for (n, at) in ((1, 0), (2, 1), (5, 3)):
            on = (ctypes.c_ubyte * (64 * n))()
            off = (ctypes.c_ubyte * (64 * n))()
            for i in range(n):
                a, b = buf(64), buf(64)
                L.ec_pubkey_create(c, a, K(40 + i))
                L.ec_pubkey_create(c, b, K(60 + i))
                ctypes.memmove(ctypes.addressof(on) + 64 * i, a, 64)
                ctypes.memmove(ctypes.addressof(off) + 64 * i, b, 64)
            sub = buf(64)
            L.ec_pubkey_create(c, sub, K(80))
            summed = buf(K(60 + at))
            assert L.ec_seckey_tweak_add(c, summed, K(80)) == 1
            ws = buf(L.verif_sizeof(11))
            assert L.whitelist_sign(c, ws, on, off, n, sub, K(40 + at), summed, at) == 1
            o = buf(33 + 32 * n + 8)
            ol = c_size_t(33 + 32 * n + 8)
            assert L.whitelist_signature_serialize(c, o, byref(ol), ws) == 1
            S["whitelist"].append(o.raw[:ol.value])
            self.wl_meta.append((on, off, n, sub))
        T["whitelist"] = self.t_whitelist
        # adaptor
        a162 = buf(162)
        assert L.ecdsa_adaptor_encrypt(c, a162, buf(K(0)), self.pk[1], MSG, None, None) == 1
        S["adaptor"] = [a162.raw]
        T["adaptor"] = self.t_adaptor
        # half-aggregation
        S["halfagg"] = []
        self.ha_meta = []
        for n in (0, 1, 2, 5):
            xs = (ctypes.c_ubyte * (64 * max(n, 1)))()
            msgs, sigs = b"", b""
            for i in range(n):
                kp = buf(96)
                L.keypair_create(c, kp, K(90 + i))
                xo = buf(64)
                L.keypair_xonly_pub(c, xo, None, kp)
                ctypes.memmove(ctypes.addressof(xs) + 64 * i, xo, 64)
                m = b32(7000 + i)
                s64 = buf(64)
                L.schnorrsig_sign32(c, s64, m, kp, None)
                msgs += m
                sigs += s64.raw
            agg = buf(32 * (n + 1))
            al = c_size_t(32 * (n + 1))
            assert L.schnorrsig_aggregate(c, agg, byref(al), xs, msgs if n else None, sigs if n else None, n) == 1
            S["halfagg"].append(agg.raw[:al.value])
            self.ha_meta.append((xs, msgs, sigs, n))
        T["halfagg"] = self.t_halfagg
        # ellswift
        e = buf(64)
        assert L.ellswift_create(c, e, K(0), None) == 1
        S["ellswift"] = [e.raw, b"\x00" * 64, b"\xff" * 64]
        T["ellswift"] = self.t_ellswift
        # s2c opening
        s2sig, op = buf(64), buf(64)
        assert L.ecdsa_s2c_sign(c, s2sig, op, MSG, K(0), MSG2) == 1
        o33 = buf(33)
        L.ecdsa_s2c_opening_serialize(c, o33, op)
        self.s2sig = s2sig
        S["s2c-opening"] = [o33.raw]
        T["s2c-opening"] = self.t_s2c
        # bppp generator lists
        gl = L.bppp_generators_create(c, 3)
        o = buf(99)
        ol = c_size_t(99)
        L.bppp_generators_serialize(c, gl, o, byref(ol))
        L.bppp_generators_destroy(c, gl)
        S["bppp-generators"] = [o.raw[:ol.value], o.raw[:33], b""]
        T["bppp-generators"] = self.t_bppp_gens

    # helpers
    def ret01(self, st, name, r):
        if r not in (0, 1):
            st.fail("%s returned %r (must be 0 or 1)" % (name, r), {"cfg": self.cfg})
        return r

    # ----- targets: each takes the untrusted byte string ---------------------
    def t_pubkey(self, d, st):
        L, c = self.L, self.L.ctx
        pk = buf(64)
        r = self.ret01(st, "ec_pubkey_parse", L.ec_pubkey_parse(c, pk, exact(d), len(d)))
        st.calls += 1
        if r:
            self.consume_pubkey(pk, st)
        return r

    def consume_pubkey(self, pk, st):
        L, c = self.L, self.L.ctx
        o = buf(65)
        ln = c_size_t(65)
        self.ret01(st, "pubkey_serialize", L.ec_pubkey_serialize(c, o, byref(ln), pk, EC_UNCOMPRESSED))
        p2 = buf(pk.raw)
        self.ret01(st, "pubkey_negate", L.ec_pubkey_negate(c, p2))
        p2 = buf(pk.raw)
        self.ret01(st, "pubkey_tweak_add", L.ec_pubkey_tweak_add(c, p2, MSG))
        p2 = buf(pk.raw)
        self.ret01(st, "pubkey_tweak_mul", L.ec_pubkey_tweak_mul(c, p2, MSG))
        arr = (c_void_p * 2)(ctypes.addressof(pk), ctypes.addressof(self.pk[1]))
        o2 = buf(64)
        self.ret01(st, "pubkey_combine", L.ec_pubkey_combine(c, o2, arr, 2))
        L.ec_pubkey_cmp(c, pk, self.pk[0])
        L.ec_pubkey_sort(c, arr, 2)
        xo = buf(64)
        self.ret01(st, "xonly_from_pubkey", L.xonly_pubkey_from_pubkey(c, xo, None, pk))
        sig = buf(64)
        self.ret01(st, "ecdsa_verify", L.ecdsa_verify(c, sig_from_rs(L, 5, 7), MSG, pk))
        o32 = buf(32)
        self.ret01(st, "ecdh", L.ecdh(c, o32, pk, K(2), None, None))
        e = buf(64)
        self.ret01(st, "ellswift_encode", L.ellswift_encode(c, e, pk, MSG))
        st.calls += 11

    def t_xonly(self, d, st):
        L, c = self.L, self.L.ctx
        if len(d) != 32:
            return 0      # fixed-size input: the API takes exactly 32 bytes
        xo = buf(64)
        r = self.ret01(st, "xonly_pubkey_parse", L.xonly_pubkey_parse(c, xo, exact(d)))
        st.calls += 1
        if r:
            o = buf(32)
            L.xonly_pubkey_serialize(c, o, xo)
            pk = buf(64)
            self.ret01(st, "xonly_tweak_add", L.xonly_pubkey_tweak_add(c, pk, xo, MSG))
            self.ret01(st, "xonly_tweak_add_check", L.xonly_pubkey_tweak_add_check(c, MSG, 1, xo, MSG2))
            self.ret01(st, "schnorrsig_verify", L.schnorrsig_verify(c, self.seeds["schnorr"][0], MSG, 32, xo))
            L.xonly_pubkey_cmp(c, xo, self.xo)
            st.calls += 5
        return r

    def consume_sig(self, sig, st):
        L, c = self.L, self.L.ctx
        o = buf(80)
        ln = c_size_t(80)
        self.ret01(st, "serialize_der", L.ecdsa_signature_serialize_der(c, o, byref(ln), sig))
        o64 = buf(64)
        L.ecdsa_signature_serialize_compact(c, o64, sig)
        n2 = buf(64)
        self.ret01(st, "normalize", L.ecdsa_signature_normalize(c, n2, sig))
        self.ret01(st, "ecdsa_verify", L.ecdsa_verify(c, sig, MSG, self.pk[0]))
        self.ret01(st, "adaptor_recover", L.ecdsa_adaptor_recover(c, buf(32), sig, self.seeds["adaptor"][0], self.pk[1]))
        self.ret01(st, "s2c_verify_commit", L.ecdsa_s2c_verify_commit(c, sig, MSG2, self._opening()))
        st.calls += 6

    def _opening(self):
        if not hasattr(self, "_op"):
            self._op = buf(64)
            assert self.L.ecdsa_s2c_opening_parse(self.L.ctx, self._op, self.seeds["s2c-opening"][0]) == 1
        return self._op

    def t_der(self, d, st):
        L, c = self.L, self.L.ctx
        sig = buf(64)
        r = self.ret01(st, "parse_der", L.ecdsa_signature_parse_der(c, sig, exact(d), len(d)))
        st.calls += 1
        self.consume_sig(sig, st)      # also after a failed parse: the object is documented to be usable (never verifies)
        return r

    def t_der_lax(self, d, st):
        L, c = self.L, self.L.ctx
        sig = buf(64)
        r = self.ret01(st, "parse_der_lax", L.verif_lax_der(c, sig, exact(d), len(d)))
        st.calls += 1
        self.consume_sig(sig, st)
        return r

    def t_compact(self, d, st):
        L, c = self.L, self.L.ctx
        if len(d) != 64:
            return 0
        sig = buf(64)
        r = self.ret01(st, "parse_compact", L.ecdsa_signature_parse_compact(c, sig, exact(d)))
        self.consume_sig(sig, st)
        for recid in range(4):
            rs = buf(65)
            r2 = self.ret01(st, "recoverable_parse_compact", L.ecdsa_recoverable_signature_parse_compact(c, rs, exact(d), recid))
            pk = buf(64)
            self.ret01(st, "recover", L.ecdsa_recover(c, pk, rs, MSG))
            cv = buf(64)
            L.ecdsa_recoverable_signature_convert(c, cv, rs)
        st.calls += 13
        return r

    def t_schnorr(self, d, st):
        L, c = self.L, self.L.ctx
        if len(d) != 64:
            return 0
        r = self.ret01(st, "schnorrsig_verify", L.schnorrsig_verify(c, exact(d), MSG, 32, self.xo))
        self.ret01(st, "schnorrsig_verify-empty-msg", L.schnorrsig_verify(c, exact(d), None, 0, self.xo))
        # adapt / extract treat the bytes as signatures
        o = buf(64)
        self.ret01(st, "musig_adapt", L.musig_adapt(c, o, exact(d), K(3), 0))
        self.ret01(st, "musig_extract_adaptor", L.musig_extract_adaptor(c, buf(32), exact(d), self.seeds["schnorr"][0], 1))
        st.calls += 4
        return r

    def t_pubnonce(self, d, st):
        L, c = self.L, self.L.ctx
        if len(d) != 66:
            return 0
        pn = buf(132)
        r = self.ret01(st, "musig_pubnonce_parse", L.musig_pubnonce_parse(c, pn, exact(d)))
        st.calls += 1
        if r:
            o = buf(66)
            self.ret01(st, "pubnonce_serialize", L.musig_pubnonce_serialize(c, o, pn))
            arr = (c_void_p * 2)(ctypes.addressof(pn), ctypes.addressof(self.mpn))
            an = buf(132)
            self.ret01(st, "nonce_agg", L.musig_nonce_agg(c, an, arr, 2))
            ps = buf(36)
            assert L.musig_partial_sig_parse(c, ps, self.seeds["musig-partial"][0]) == 1
            self.ret01(st, "partial_sig_verify", L.musig_partial_sig_verify(c, ps, pn, self.pk[0], self.mcache, self.msess))
            st.calls += 3
        return r

    def t_aggnonce(self, d, st):
        L, c = self.L, self.L.ctx
        if len(d) != 66:
            return 0
        an = buf(132)
        r = self.ret01(st, "musig_aggnonce_parse", L.musig_aggnonce_parse(c, an, exact(d)))
        st.calls += 1
        if r:
            o = buf(66)
            self.ret01(st, "aggnonce_serialize", L.musig_aggnonce_serialize(c, o, an))
            sess = buf(133)
            for ad in (None, self.pk[2]):
                r2 = self.ret01(st, "nonce_process", L.musig_nonce_process(c, sess, an, MSG, self.mcache, ad))
                if r2:
                    par = c_int(0)
                    L.musig_nonce_parity(c, byref(par), sess)
            st.calls += 3
        return r

    def t_partial(self, d, st):
        L, c = self.L, self.L.ctx
        if len(d) != 32:
            return 0
        ps = buf(36)
        r = self.ret01(st, "musig_partial_sig_parse", L.musig_partial_sig_parse(c, ps, exact(d)))
        st.calls += 1
        if r:
            o = buf(32)
            L.musig_partial_sig_serialize(c, o, ps)
            self.ret01(st, "partial_sig_verify", L.musig_partial_sig_verify(c, ps, self.mpn, self.pk[0], self.mcache, self.msess))
            arr = (c_void_p * 1)(ctypes.addressof(ps))
            o64 = buf(64)
            self.ret01(st, "partial_sig_agg", L.musig_partial_sig_agg(c, o64, self.msess, arr, 1))
            st.calls += 3
        return r

    def t_generator(self, d, st):
        L, c = self.L, self.L.ctx
        if len(d) != 33:
            return 0
        g = buf(64)
        r = self.ret01(st, "generator_parse", L.generator_parse(c, g, exact(d)))
        st.calls += 1
        if r:
            o = buf(33)
            L.generator_serialize(c, o, g)
            cm = buf(64)
            self.ret01(st, "pedersen_commit", L.pedersen_commit(c, cm, K(6), 5, g))
            mn, mx = c_uint64(0), c_uint64(0)
            self.ret01(st, "rangeproof_verify", L.rangeproof_verify(c, byref(mn), byref(mx), self.rp_meta[1][0], self.seeds["rangeproof"][1], len(self.seeds["rangeproof"][1]), None, 0, g))
            et, n, eo = self.sj_meta[1]
            sp = buf(L.verif_sizeof(10))
            L.surjectionproof_parse(c, sp, self.seeds["surjection"][1], len(self.seeds["surjection"][1]))
            self.ret01(st, "surjectionproof_verify", L.surjectionproof_verify(c, sp, et, n, g))
            st.calls += 4
        return r

    def t_commitment(self, d, st):
        L, c = self.L, self.L.ctx
        if len(d) != 33:
            return 0
        cm = buf(64)
        r = self.ret01(st, "pedersen_commitment_parse", L.pedersen_commitment_parse(c, cm, exact(d)))
        st.calls += 1
        if r:
            o = buf(33)
            L.pedersen_commitment_serialize(c, o, cm)
            pos = (c_void_p * 1)(ctypes.addressof(cm))
            neg = (c_void_p * 1)(ctypes.addressof(self.com))
            self.ret01(st, "verify_tally", L.pedersen_verify_tally(c, pos, 1, neg, 1))
            mn, mx = c_uint64(0), c_uint64(0)
            pr = self.seeds["rangeproof"][1]
            self.ret01(st, "rangeproof_verify", L.rangeproof_verify(c, byref(mn), byref(mx), cm, pr, len(pr), None, 0, self.gen))
            st.calls += 3
        return r

    def t_rangeproof(self, d, st, seed_idx=0):
        L, c = self.L, self.L.ctx
        cm, extra = self.rp_meta[seed_idx]
        e = exact(d)
        mn, mx = c_uint64(0), c_uint64(0)
        ex, ma = c_int(0), c_int(0)
        self.ret01(st, "rangeproof_info", L.rangeproof_info(c, byref(ex), byref(ma), byref(mn), byref(mx), e, len(d)))
        r = self.ret01(st, "rangeproof_verify", L.rangeproof_verify(c, byref(mn), byref(mx), cm, e, len(d), extra if extra else None, len(extra), self.gen))
        bo, mo = buf(32), buf(4096)
        ml = c_size_t(4096)
        v = c_uint64(0)
        self.ret01(st, "rangeproof_rewind", L.rangeproof_rewind(c, bo, byref(v), mo, byref(ml), K(7), byref(mn), byref(mx), cm, e, len(d), extra if extra else None, len(extra), self.gen))
        ml = c_size_t(3)   # tiny message buffer
        mo2 = exact(b"\x00" * 3)
        self.ret01(st, "rangeproof_rewind-small-msgbuf", L.rangeproof_rewind(c, bo, byref(v), mo2, byref(ml), K(7), byref(mn), byref(mx), cm, e, len(d), extra if extra else None, len(extra), self.gen))
        # optional outputs absent, creator's nonce and a foreign one (the ordinary "not my output" scan of a wallet)
        for nonce in (K(7), K(8)):
            self.ret01(st, "rangeproof_rewind-no-outputs", L.rangeproof_rewind(c, None, None, None, None, nonce, byref(mn), byref(mx), cm, e, len(d), extra if extra else None, len(extra), self.gen))
            self.ret01(st, "rangeproof_rewind-value-only", L.rangeproof_rewind(c, None, byref(v), None, None, nonce, byref(mn), byref(mx), cm, e, len(d), extra if extra else None, len(extra), self.gen))
            self.ret01(st, "rangeproof_rewind-blind-only", L.rangeproof_rewind(c, bo, None, None, None, nonce, byref(mn), byref(mx), cm, e, len(d), extra if extra else None, len(extra), self.gen))
        ml = c_size_t(4096)
        self.ret01(st, "rangeproof_rewind-foreign-nonce", L.rangeproof_rewind(c, bo, byref(v), mo, byref(ml), K(8), byref(mn), byref(mx), cm, e, len(d), extra if extra else None, len(extra), self.gen))
        st.calls += 11
        return r

    def t_surjection(self, d, st, seed_idx=0):
        L, c = self.L, self.L.ctx
        # exactly-sized heap object for the proof struct so that overruns of the object are visible
        sz = L.verif_sizeof(10)
        sp = exact(b"\x00" * sz)
        r = self.ret01(st, "surjectionproof_parse", L.surjectionproof_parse(c, sp, exact(d), len(d)))
        st.calls += 1
        if r:
            et, n, eo = self.sj_meta[seed_idx]
            L.surjectionproof_n_total_inputs(c, sp)
            L.surjectionproof_n_used_inputs(c, sp)
            need = L.surjectionproof_serialized_size(c, sp)
            o = exact(b"\x00" * need)
            ol = c_size_t(need)
            self.ret01(st, "surjectionproof_serialize", L.surjectionproof_serialize(c, o, byref(ol), sp))
            self.ret01(st, "surjectionproof_verify", L.surjectionproof_verify(c, sp, et, n, eo))
            st.calls += 5
        return r

    def t_whitelist(self, d, st, seed_idx=0):
        L, c = self.L, self.L.ctx
        sz = L.verif_sizeof(11)
        ws = exact(b"\x00" * sz)
        r = self.ret01(st, "whitelist_signature_parse", L.whitelist_signature_parse(c, ws, exact(d), len(d)))
        st.calls += 1
        if r:
            on, off, n, sub = self.wl_meta[seed_idx]
            nk = L.whitelist_signature_n_keys(ws)
            o = exact(b"\x00" * (33 + 32 * nk))
            ol = c_size_t(33 + 32 * nk)
            self.ret01(st, "whitelist_serialize", L.whitelist_signature_serialize(c, o, byref(ol), ws))
            self.ret01(st, "whitelist_verify", L.whitelist_verify(c, ws, on, off, n, sub))
            if nk == 0:
                self.ret01(st, "whitelist_verify-empty", L.whitelist_verify(c, ws, on, off, 0, sub))
            st.calls += 3
        return r

    def t_adaptor(self, d, st):
        L, c = self.L, self.L.ctx
        if len(d) != 162:
            return 0
        e = exact(d)
        r = self.ret01(st, "adaptor_verify", L.ecdsa_adaptor_verify(c, e, self.pk[0], MSG, self.pk[1]))
        sig = buf(64)
        r2 = self.ret01(st, "adaptor_decrypt", L.ecdsa_adaptor_decrypt(c, sig, K(1), e))
        self.ret01(st, "adaptor_recover", L.ecdsa_adaptor_recover(c, buf(32), sig, e, self.pk[1]))
        sig0 = buf(64)
        assert L.ecdsa_signature_parse_compact(c, sig0, self.seeds["compact"][0]) == 1
        self.ret01(st, "adaptor_recover-foreign-sig", L.ecdsa_adaptor_recover(c, buf(32), sig0, e, self.pk[1]))
        st.calls += 4
        return r

    def t_halfagg(self, d, st, seed_idx=0):
        L, c = self.L, self.L.ctx
        xs, msgs, sigs, n = self.ha_meta[seed_idx]
        e = exact(d)
        r = self.ret01(st, "aggverify", L.schnorrsig_aggverify(c, xs, msgs if n else None, n, e, len(d)))
        st.calls += 1
        # incremental aggregation onto the untrusted aggregate (all n existing, +1 new when we have data)
        if n >= 1 and len(d) <= 32 * (n + 2):
            room = exact(bytes(d) + b"\x00" * (32 * (n + 1) - len(d)) if len(d) < 32 * (n + 1) else bytes(d))
            al = c_size_t(len(room))
            self.ret01(st, "inc_aggregate", L.schnorrsig_inc_aggregate(c, room, byref(al), xs, msgs, sigs[64 * (n - 1):], n - 1, 1))
            st.calls += 1
        return r

    def t_ellswift(self, d, st):
        L, c = self.L, self.L.ctx
        if len(d) != 64:
            return 0
        pk = buf(64)
        r = self.ret01(st, "ellswift_decode", L.ellswift_decode(c, pk, exact(d)))
        self.consume_pubkey(pk, st)
        o = buf(32)
        for party in (0, 1):
            a_, b_ = (exact(d), self.seeds["ellswift"][0]) if party else (self.seeds["ellswift"][0], exact(d))
            self.ret01(st, "ellswift_xdh", L.ellswift_xdh(c, o, a_, b_, K(0), 1 - party, L.var_ptr("secp256k1_ellswift_xdh_hash_function_bip324"), None))
        st.calls += 3
        return r

    def t_s2c(self, d, st):
        L, c = self.L, self.L.ctx
        if len(d) != 33:
            return 0
        op = buf(64)
        r = self.ret01(st, "s2c_opening_parse", L.ecdsa_s2c_opening_parse(c, op, exact(d)))
        st.calls += 1
        if r:
            o = buf(33)
            L.ecdsa_s2c_opening_serialize(c, o, op)
            self.ret01(st, "s2c_verify_commit", L.ecdsa_s2c_verify_commit(c, self.s2sig, MSG2, op))
            self.ret01(st, "anti_exfil_host_verify", L.anti_exfil_host_verify(c, self.s2sig, MSG, self.pk[0], MSG2, op))
            st.calls += 3
        return r

    def t_bppp_gens(self, d, st):
        L, c = self.L, self.L.ctx
        g = L.bppp_generators_parse(c, exact(d), len(d))
        st.calls += 1
        if g:
            o = exact(b"\x00" * max(len(d), 1))
            ol = c_size_t(len(d))
            self.ret01(st, "bppp_generators_serialize", L.bppp_generators_serialize(c, g, o, byref(ol)))
            L.bppp_generators_destroy(c, g)
            st.calls += 2
        return 1 if g else 0


SEED_INDEXED = ("rangeproof", "surjection", "whitelist", "halfagg")


def setup(cfg):
    return lambda: Env(cfg)


def mutations(seed, family, thorough):
    """yield (label, bytes) for one mutation family of one seed"""
    n = len(seed)
    if family == "asis":
        yield "asis", seed
    elif family == "bitflip":
        for bit in range(n * 8):
            b = bytearray(seed)
            b[bit >> 3] ^= 1 << (bit & 7)
            yield "bit%d" % bit, bytes(b)
    elif family == "truncate":
        for l in range(0, n):
            yield "trunc%d" % l, seed[:l]
    elif family == "extend":
        for k in (1, 2, 31, 32, 33):
            yield "ext%d-00" % k, seed + b"\x00" * k
            yield "ext%d-ff" % k, seed + b"\xff" * k
    elif family == "header":
        for pos in range(0, min(n, 4)):
            for v in range(256):
                b = bytearray(seed)
                b[pos] = v
                yield "byte%d=%02x" % (pos, v), bytes(b)
    elif family == "header16":
        # 2-byte little-endian count field (surjection n_inputs): every value
        for v in range(0, 65536, 1 if thorough else 7):
            b = bytearray(seed)
            b[0], b[1] = v & 0xFF, v >> 8
            yield "count=%d" % v, bytes(b)
    elif family == "slots":
        for off in range(0, max(n - 31, 0)):
            if (n - off) % 32 not in (0, 1, 2, 3) and off % 32 not in (0, 1, 2, 3, 9, 10):
                continue
            for v in BOUND:
                b = bytearray(seed)
                b[off:off + 32] = b32(v)
                yield "slot@%d=%x" % (off, v), bytes(b)
    elif family == "constant":
        for l in list(range(0, n + 65)):
            for v in (0x00, 0xFF, 0x80):
                yield "const%02x*%d" % (v, l), bytes([v]) * l
    elif family == "bytepairs":
        # 2 deviations: every pair of values for the first two header bytes
        for v0 in range(256):
            for v1 in range(0, 256, 1 if thorough else 5):
                b = bytearray(seed)
                if n >= 2:
                    b[0], b[1] = v0, v1
                    yield "hdr=%02x%02x" % (v0, v1), bytes(b)


def mut_case(env, case, st):
    target, si, family, thorough, lo, hi = case
    L = env.L
    seed = env.seeds[target][si]
    fn = env.targets[target]
    live0 = L.live_allocs
    k = -1
    for k, (label, data) in enumerate(mutations(seed, family, thorough)):
        if k < lo:
            continue
        if k >= hi:
            break
        if target in SEED_INDEXED:
            r = fn(data, st, si)
        else:
            r = fn(data, st)
        st.count("%s-%s" % (target, "accept" if r else "reject"))
        if r:
            st.nt((target, si, label))
        if L.illegal or L.errors:
            st.fail("callback fired on untrusted input: %s seed %d mutation %s (illegal=%d error=%d)" % (target, si, label, L.illegal, L.errors),
                    {"cfg": env.cfg, "target": target, "seed": si, "mutation": label, "input": hx(data[:200]), "len": len(data)})
            L.cb_reset()
        if L.live_allocs != live0:
            st.fail("allocation leaked while handling untrusted input: %s seed %d mutation %s" % (target, si, label),
                    {"cfg": env.cfg, "target": target, "seed": si, "mutation": label, "input": hx(data[:200])})
            live0 = L.live_allocs
    st.sample({"target": target, "seed_len": len(seed), "family": family, "range": [lo, hi]})


def count_mut(seed, family, thorough):
    return sum(1 for _ in mutations(seed, family, thorough))


def biglen_case(env, k, st):
    from ..lib import sparse
    L, c = env.L, env.L.ctx
    S = env.seeds
    mn, mx = c_uint64(0), c_uint64(0)
    xs, msgs, sigs, n = env.ha_meta[-1]
    cm, extra = env.rp_meta[1]
    sz = L.verif_sizeof(10)
    jobs = [
        ("parse_der", S["der"][0], lambda a, ln: L.ecdsa_signature_parse_der(c, buf(64), c_void_p(a), ln)),
        ("ec_pubkey_parse(33)", S["pubkey"][0], lambda a, ln: L.ec_pubkey_parse(c, buf(64), c_void_p(a), ln)),
        ("ec_pubkey_parse(65)", S["pubkey"][1], lambda a, ln: L.ec_pubkey_parse(c, buf(64), c_void_p(a), ln)),
        ("surjectionproof_parse", S["surjection"][0], lambda a, ln: L.surjectionproof_parse(c, exact(b"\x00" * sz), c_void_p(a), ln)),
        ("whitelist_signature_parse", S["whitelist"][0], lambda a, ln: L.whitelist_signature_parse(c, exact(b"\x00" * L.verif_sizeof(11)), c_void_p(a), ln)),
        ("schnorrsig_aggverify", S["halfagg"][-1], lambda a, ln: L.schnorrsig_aggverify(c, xs, msgs if n else None, n, c_void_p(a), ln)),
        ("rangeproof_verify", S["rangeproof"][1], lambda a, ln: L.rangeproof_verify(c, byref(mn), byref(mx), cm, c_void_p(a), ln, extra if extra else None, len(extra), env.gen)),
    ]
    for name, seed, fn in jobs:
        total = len(seed) + k * 2**32
        try:
            addr = sparse(seed, total)
        except (OSError, MemoryError, ValueError, OverflowError):
            st.count("sparse-mapping-unavailable")
            continue
        r = fn(addr, total)
        st.calls += 1
        st.count("biglen-%s" % name)
        st.nt((name, k))
        if r != 0:
            st.fail("%s accepted a valid artefact followed by %d * 2^32 trailing bytes (declared length %d)" % (name, k, total), {"cfg": L.config, "entry": name, "k": k})
        if L.illegal or L.errors:
            st.fail("%s: callback fired for a declared length of %d" % (name, total), {"cfg": L.config, "entry": name})
            L.cb_reset()
    st.sample({"k": k, "entry_points": [j[0] for j in jobs]})


def main():
    a = args()
    run = Run(PID, a.tier, level="fault_enumeration")
    thorough = a.tier == "thorough"
    cfgs = ["prod-san", "prod-verify"]
    B.build_many(cfgs)
    for b in cfgs:
        run.cov["builds"][b] = B.source_hash()[:16]
    env0 = Env("prod-san")
    fams = ["asis", "bitflip", "truncate", "extend", "header", "slots", "constant"]
    for cfg in cfgs:
        cases = []
        for target, seeds in env0.seeds.items():
            for si, seed in enumerate(seeds):
                for fam in fams + (["header16"] if target == "surjection" else []) + (["bytepairs"] if target in ("rangeproof", "surjection", "whitelist") and (thorough or si == 0) and cfg == "prod-san" else []):
                    # big artefacts: bit flips only for the first 64 bytes + every 8th bit in quick
                    total = count_mut(seed, fam, thorough)
                    if total == 0:
                        continue
                    if fam == "bitflip" and len(seed) > 700 and not thorough:
                        total = min(total, 8 * 96)
                    if cfg == "prod-verify" and not thorough and fam in ("bitflip", "constant") and len(seed) > 200:
                        total = min(total, 8 * 40)
                    step = 400 if len(seed) < 300 else 60
                    for lo in range(0, total, step):
                        cases.append((target, si, fam, thorough, lo, min(lo + step, total)))
        run_phase(run, "%s/mutations" % cfg, mut_case, cases, setup=setup(cfg),
                  rule="targets: %s; seeds made by the library's own provers; mutation alphabet applied singly to every seed: as-is, every single-bit flip, every truncation length, extension by 1/2/31/32/33 bytes of 00/FF, each of the first 4 bytes set to all 256 values (two-byte count: all 65536), every 32-byte slot at aligned offsets <- {0,1,n-1,n,n+1,p-1,p,p+1,2^256-1}, all-00/FF/80 strings of every length 0..len+64, header byte pairs; inputs live in exactly-sized malloc blocks; oracle: no sanitizer/VERIFY abort, no callback, return in {0,1}, ledger balanced, watchdog; parsed objects are chained into every consumer of their type; non-trivial = mutated input still accepted by its parser/verifier" % ", ".join(sorted(env0.targets)))
        run_phase(run, "%s/lengths-above-bit-31" % cfg, biglen_case, [1, 2], setup=setup(cfg), nproc=2,
                  rule="every parser that takes a byte length, given a VALID artefact at the start of a never-reserved mapping of len + k*2^32 bytes (k = 1, 2) and that size as the declared length (every covered byte is readable): the trailing bytes must be refused exactly as a few trailing bytes are - a length kept in a 32-bit variable would not see them; skipped (never a verdict) if the mapping cannot be made")
        if run.out_of_time():
            run.cov["exhaustive"] = False
            break
    run.assumptions += ["multi-mutation inputs beyond the listed pairs are not explored", "entry points are exercised with well-formed other arguments",
                        "declared lengths always equal the real buffer length (a longer declared length is a caller bug, not untrusted data)"]
    sys.exit(run.finish())


if __name__ == "__main__":
    main()
