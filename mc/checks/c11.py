"""C11 Surjection proofs: complete, exact and canonically encoded.
Total parser over every n_inputs field 0..65535 x bitmap patterns x lengths; exhaustive initialisation for
n <= 8 (every multiplicity pattern of the matching tag x subset sizes x seeds x iteration limits) with the
SHA-256 generator modelled exactly; generation byte-compared with the model (deterministic forged scalars,
Borromean prover) and verification compared with the model over every single mutation of proofs and tags."""
import sys, os, re, time
from ctypes import c_size_t, c_ubyte, c_void_p, byref, memset, memmove, addressof
from ..core import Run, run_phase, hx, seeded_fillers
from ..util import *
from ..model import surjection as SJ
from ..model import borromean as BOR
from .. import build as B

PID = "C11"
_L = {}


def lib(cfg):
    if cfg not in _L:
        _L[cfg] = Lib(cfg)
    return _L[cfg]


def phase(run, name, fn, cases, **kw):
    if os.environ.get("VERIF_PHASES") and not re.search(os.environ["VERIF_PHASES"], name):
        run.cov["exhaustive"] = False  # development aid: a filtered run never counts as complete
        return None
    t0 = time.time()
    c0 = os.times()
    st = run_phase(run, name, fn, cases, **kw)
    if os.environ.get("VERIF_VERBOSE"):
        c1 = os.times()
        sys.stderr.write("%-40s %7d cases %7.1fs wall %7.1f core-s\n" % (name, len(cases), time.time() - t0,
                         c1.children_user + c1.children_system - c0.children_user - c0.children_system))
    return st


def setup(cfg):
    def f():
        return lib(cfg)
    return f


_OBJ = {}


def proofobj(L, slot=0):
    """exactly sized heap object for a secp256k1_surjectionproof (8264 bytes, 8272 under -DVERIFY), refilled with
    0x5a; reused because fresh 8 KB ctypes buffers cost milliseconds under the ASan runtime"""
    key = (L.config, slot)
    if key not in _OBJ:
        _OBJ[key] = (c_ubyte * L.verif_sizeof(10))()
    o = _OBJ[key]
    memset(o, 0x5A, len(o))
    return o


def cb_check(L, st, where):
    if L.illegal or L.errors:
        st.fail("callback fired on legal input (%s): illegal=%d error=%d" % (where, L.illegal, L.errors), {"cfg": L.config})
        L.cb_reset()


def lib_serialize(L, proof, room=None):
    need = L.surjectionproof_serialized_size(L.ctx, proof)
    room = need if room is None else room
    out = (c_ubyte * max(room, 1))()
    ln = c_size_t(room)
    ok = L.surjectionproof_serialize(L.ctx, out, byref(ln), proof)
    return ok, bytes(out[:ln.value]) if ok else None, need


_ARENA = []


def tail_ptr(data):
    """address of a copy of `data` that ends exactly at the end of one long-lived heap object (so a read past the
    last byte lands in its ASan red zone) - the same guarantee as lib.exact() without an allocation per call,
    which under the ASan runtime costs milliseconds for multi-kilobyte inputs"""
    if not _ARENA:
        _ARENA.append((c_ubyte * 81920)())
    a = _ARENA[0]
    n = len(data)
    assert n <= len(a)
    base = addressof(a) + len(a) - n
    if n:
        memmove(base, bytes(data), n)
    return base


def lib_parse(L, data, slot=1):
    p = proofobj(L, slot)
    ok = L.surjectionproof_parse(L.ctx, p, tail_ptr(data), len(data))
    return ok, p


# ------------------------------------------------------------------ parser, total
def bitmap_patterns(n):
    """bitmaps of ceil(n/8) bytes: none, all (valid), all-ones bytes (padding set), each single bit, each single padding
    bit on top of none / all"""
    nb = (n + 7) // 8
    if nb == 0:
        return [b""]
    full = bytearray(b"\xff" * nb)
    if n % 8:
        full[-1] = (1 << (n % 8)) - 1
    pats = [bytes(nb), bytes(full), b"\xff" * nb, b"\x55" * (nb - 1) + bytes([0x55 & full[-1]]), b"\xaa" * (nb - 1) + bytes([0xaa & full[-1]])]
    for i in range(min(n, 8 * nb)):
        b = bytearray(nb)
        b[i // 8] = 1 << (i % 8)
        pats.append(bytes(b))
    if n % 8:
        for pb in range(n % 8, 8):
            b = bytearray(nb)
            b[-1] = 1 << pb
            pats.append(bytes(b))
            b = bytearray(full)
            b[-1] |= 1 << pb
            pats.append(bytes(b))
    seen, out = set(), []
    for p in pats:
        if p not in seen:
            seen.add(p)
            out.append(p)
    return out


def parse_one(L, st, data, cd):
    ok, p = lib_parse(L, data)
    exp = SJ.parse(data)
    st.calls += 1
    st.count("accept" if exp is not None else "reject")
    if (ok == 1) != (exp is not None):
        st.fail("surjectionproof_parse=%d, model %s" % (ok, "accepts" if exp is not None else "rejects"), dict(cd, length=len(data), head=hx(data[:40])))
        return
    if exp is None:
        return
    n, bitmap, sig = exp
    st.nt((n, bitmap, len(data)))
    nt = L.surjectionproof_n_total_inputs(L.ctx, p)
    nu = L.surjectionproof_n_used_inputs(L.ctx, p)
    sz = L.surjectionproof_serialized_size(L.ctx, p)
    ok2, ser, _ = lib_serialize(L, p)
    okS, _, _ = lib_serialize(L, p, room=len(data) - 1)
    st.calls += 5
    if nt != n or nu != SJ.popcount(bitmap) or sz != len(data) or not ok2 or ser != data or okS != 0:
        st.fail("accepted proof: n_total=%d n_used=%d size=%d, serialize round trip %s, short buffer ret %d" % (nt, nu, sz, ser == data, okS),
                dict(cd, length=len(data), head=hx(data[:40])))


def parse_small_case(L, case, st):
    """one n_inputs value <= 300: every bitmap pattern x lengths"""
    n, = case
    nb = (n + 7) // 8
    hdr = bytes([n & 0xFF, n >> 8])
    cd = {"cfg": L.config, "n_inputs": n}
    for bm in bitmap_patterns(n):
        used = SJ.popcount(bm)
        exact_len = 2 + nb + 32 * (1 + used)
        body = hdr + bm + bytes([0x11]) * (32 * (1 + used) + 40)
        lens = sorted(set(l for l in (0, 1, 2, 3, 2 + nb, 2 + nb + 32, exact_len - 32, exact_len - 1, exact_len, exact_len + 1, exact_len + 32) if 0 <= l <= len(body)))
        for ln in lens:
            parse_one(L, st, body[:ln], cd)
    cb_check(L, st, "parse")


class ArenaView:
    """read-only sequence view of the string composed at the tail of the arena (what the model parser reads)"""

    def __init__(self, base, n):
        self.base, self.n = base, n
        self.arr = (c_ubyte * max(n, 1)).from_address(base)

    def __len__(self):
        return self.n

    def __getitem__(self, i):
        if isinstance(i, slice):
            return bytes(self.arr[i.start or 0:min(i.stop if i.stop is not None else self.n, self.n)])
        if i >= self.n:
            raise IndexError(i)
        return self.arr[i]


def compose(n, fill, sig_len, set_bits=()):
    """n_inputs header || bitmap of ceil(n/8) bytes filled with `fill` (+ individual bits) || sig_len bytes 0x22, written
    straight into the arena tail (multi-kilobyte Python byte strings are slow under the ASan runtime)"""
    if not _ARENA:
        tail_ptr(b"")
    a = _ARENA[0]
    nb = (n + 7) // 8
    total = 2 + nb + sig_len
    base = addressof(a) + len(a) - total
    v = (c_ubyte * total).from_address(base)
    v[0], v[1] = n & 0xFF, n >> 8
    memset(base + 2, fill, nb)
    if fill == 0xFF and n % 8:
        v[2 + nb - 1] = (1 << (n % 8)) - 1
    for i in set_bits:
        v[2 + i // 8] |= 1 << (i % 8)
    memset(base + 2 + nb, 0x22, sig_len)
    return base, total


def parse_large_case(L, case, st):
    """a block of n_inputs values > 300: all must be rejected.  The strings are the ones a parser with a larger limit
    would accept: consistent length for no / two / all selected inputs."""
    lo, hi = case
    for n in range(lo, hi):
        nb = (n + 7) // 8
        todo = [(0x00, 32, ()), (0x00, 0, ()), (0x00, 96, (0, n - 1))]
        if n <= 2048 or n % 257 == 0 or n == 65535:
            todo.append((0xFF, 32 * 257, ()))
            if n <= 2048:
                todo.append((0xFF, 32 * (1 + n), ()))
        for fill, sig_len, bits in todo:
            base, total = compose(n, fill, sig_len, bits)
            p = proofobj(L, 1)
            ok = L.surjectionproof_parse(L.ctx, p, base, total)
            exp = SJ.parse(ArenaView(base, total))
            st.calls += 1
            st.count("accept" if exp is not None else "reject")
            if (ok == 1) != (exp is not None):
                st.fail("surjectionproof_parse=%d, model %s" % (ok, "accepts" if exp is not None else "rejects"),
                        {"cfg": L.config, "n_inputs": n, "length": total, "bitmap_fill": fill, "extra_bits": list(bits)})
    cb_check(L, st, "parse")


# ------------------------------------------------------------------ initialise
def tag(i):
    return BOR.sha256(b"verif-c11-asset" + bytes([i & 0xFF, i >> 8]))


OUT_TAG = BOR.sha256(b"verif-c11-output-asset")


def near_tag(i):
    """differs from OUT_TAG only in its last bytes (a comparison of a prefix would call it equal)"""
    return OUT_TAG[:30] + bytes([OUT_TAG[30] ^ (((i + 1) >> 8) & 0xFF), OUT_TAG[31] ^ ((i + 1) & 0xFF)])


def input_tags(n, pattern, near=True):
    """pattern: int bit mask (n <= 8 style) or a tuple of matching positions"""
    pos = set(i for i in range(n) if pattern >> i & 1) if isinstance(pattern, int) else set(pattern)
    return [OUT_TAG if i in pos else (near_tag(i) if near else tag(i)) for i in range(n)]


SEEDS = [bytes(32), b"\xff" * 32, bytes(range(32)), bytes(255 - i for i in range(32)), BOR.sha256(b"verif-c11-seed")]


def read_proof(L, proof):
    """(n_inputs, bitmap, data) of a proof object through the serializer"""
    ok, ser, _ = lib_serialize(L, proof)
    return SJ.parse(ser) if ok else None


def init_one(L, st, tags, n_use, max_iter, seed, cd, with_alloc):
    n = len(tags)
    tag_arr = exact(b"".join(tags))
    exp_ret, exp_bitmap, exp_idx = SJ.initialize(tags, n_use, OUT_TAG, max_iter, seed)
    proof = proofobj(L, 0)
    idx = c_size_t(0xDEAD)
    ret = L.surjectionproof_initialize(L.ctx, proof, byref(idx), tag_arr, n, n_use, exact(OUT_TAG), max_iter, exact(seed))
    st.calls += 1
    st.count("init-ok" if exp_ret else "init-exhausted")
    ok = True
    if ret != exp_ret:
        st.fail("surjectionproof_initialize returned %d, model %d iterations" % (ret, exp_ret), cd)
        return None
    if exp_ret:
        got = read_proof(L, proof)
        st.calls += 2
        nb = (n + 7) // 8
        if got is None or got[0] != n or got[1] != exp_bitmap[:nb]:
            st.fail("initialised proof differs from the model: bitmap %s, model %s" % (hx(got[1]) if got else None, hx(exp_bitmap[:nb])), cd)
            ok = False
        if idx.value != exp_idx:
            st.fail("input_index %d, model %d" % (idx.value, exp_idx), cd)
            ok = False
        else:
            sel = SJ.used_indices(n, exp_bitmap)
            if exp_idx not in sel or tags[exp_idx] != OUT_TAG or len(sel) != n_use:
                st.fail("model anomaly: success without a selected matching input", cd)
        if L.surjectionproof_n_used_inputs(L.ctx, proof) != n_use or L.surjectionproof_n_total_inputs(L.ctx, proof) != n:
            st.fail("n_used / n_total after initialise differ from the request", cd)
        st.nt((n, tuple(t == OUT_TAG for t in tags), n_use, seed[:4], max_iter))
    if with_alloc:
        live0 = L.live_allocs
        pp = c_void_p(0x5A5A)
        idx2 = c_size_t(0xDEAD)
        ret2 = L.surjectionproof_allocate_initialized(L.ctx, byref(pp), byref(idx2), tag_arr, n, n_use, exact(OUT_TAG), max_iter, exact(seed))
        st.calls += 1
        if ret2 != exp_ret:
            st.fail("allocate_initialized returned %d, model %d" % (ret2, exp_ret), cd)
        elif exp_ret == 0:
            if pp.value is not None or L.live_allocs != live0:
                st.fail("allocate_initialized failed but left a pointer / a live allocation (live %+d)" % (L.live_allocs - live0), cd)
        else:
            if pp.value is None or L.live_allocs != live0 + 1:
                st.fail("allocate_initialized succeeded without exactly one live allocation", cd)
            else:
                got2 = read_proof(L, pp.value)
                if got2 is None or got2[1] != exp_bitmap[:(n + 7) // 8] or idx2.value != exp_idx:
                    st.fail("allocate_initialized result differs from the model", cd)
                L.surjectionproof_destroy(pp.value)
                st.calls += 1
                if L.live_allocs != live0:
                    st.fail("destroy does not release the allocation (live %+d)" % (L.live_allocs - live0), cd)
        st.count("alloc-checked")
    return ok


def init_small_case(L, case, st):
    """n <= 8, one multiplicity pattern: every subset size 0..n x seeds x iteration limits"""
    n, pattern, seeds, with_alloc = case
    tags = input_tags(n, pattern)
    for n_use in range(0, n + 1):
        for seed in seeds:
            for max_iter in (0, 1, 2, 100):
                cd = {"cfg": L.config, "n": n, "matching_positions": [i for i in range(n) if pattern >> i & 1], "n_to_use": n_use,
                      "seed": hx(seed), "max_iterations": max_iter}
                init_one(L, st, tags, n_use, max_iter, seed, cd, with_alloc)
    cb_check(L, st, "initialize")


def init_big_case(L, case, st):
    n, positions, n_use, seed, max_iter = case
    tags = input_tags(n, tuple(positions))
    cd = {"cfg": L.config, "n": n, "matching_positions": list(positions), "n_to_use": n_use, "seed": hx(seed), "max_iterations": max_iter}
    init_one(L, st, tags, n_use, max_iter, seed, cd, True)
    cb_check(L, st, "initialize")
    if n == 256 and n_use == 3:
        st.sample(cd)


def init_illegal_case(L, case, st):
    """API-level ARG_CHECKs of initialize: more than 256 inputs, subset larger than the list"""
    n, n_use = case
    tags = input_tags(min(max(n, 1), 300), (0,))
    proof = proofobj(L, 0)
    idx = c_size_t(0)
    L.cb_reset()
    ret = L.surjectionproof_initialize(L.ctx, proof, byref(idx), exact(b"".join(tags)), n, n_use, exact(OUT_TAG), 10, exact(SEEDS[2]))
    ill, err = L.cb_take()
    st.calls += 1
    st.count("illegal-refused")
    if ret != 0 or ill < 1:
        st.fail("initialize(n_input_tags=%d, n_to_use=%d) must fire the illegal-argument callback and return 0 (ret=%d, callbacks=%d)" % (n, n_use, ret, ill),
                {"cfg": L.config, "n": n, "n_to_use": n_use})


# ------------------------------------------------------------------ generate / verify
_GEN = {}


def blind(i):
    return i32(BOR.sha256(b"verif-c11-blind" + bytes([i & 0xFF, i >> 8]))) % (N - 1) + 1


def eph(L, asset, bl):
    """ephemeral tag = generator(asset) + bl*G through the real generator module; returns (64-byte object, point)"""
    key = (L.config, asset, bl)
    if key not in _GEN:
        g = buf(64)
        assert L.generator_generate_blinded(L.ctx, g, asset, b32(bl)) == 1
        pt = SJ.point_of_object(g.raw)
        assert SECP.on_curve(pt)
        _GEN[key] = (g.raw, pt)
    return _GEN[key]


def gobj(pts):
    return b"".join(SJ.generator_object(p) for p in pts)


def lib_verify(L, data, in_pts, out_pt, n_arg=None):
    """parse + verify: 'noparse' or 0/1"""
    ok, p = lib_parse(L, data)
    if not ok:
        return "noparse"
    arr = gobj(in_pts)
    return L.surjectionproof_verify(L.ctx, p, exact(arr), len(in_pts) if n_arg is None else n_arg, exact(SJ.generator_object(out_pt)))


def compare(L, st, data, in_pts, out_pt, what, cd, must=None):
    got = lib_verify(L, data, in_pts, out_pt)
    exp = SJ.verify_serialized(data, in_pts, out_pt)
    exp = exp if exp == "noparse" else (1 if exp else 0)
    st.calls += 2
    st.count("%s:%s" % (what, {"noparse": "noparse", 0: "reject", 1: "ACCEPT"}[exp]))
    if exp == 1:
        st.nt((what, data))
    if got != exp:
        st.fail("%s: library %r, model %r" % (what, got, exp), dict(cd, what=what, proof=hx(data)))
    if must == 0 and exp == 1:
        st.fail("%s: model accepts a case the property says must be rejected (model anomaly)" % what, dict(cd, proof=hx(data)))
    return got


def make_instance(L, n, pattern, in_blinds=None, out_blind=None):
    """asset tags with the matching pattern and their ephemeral versions"""
    tags = input_tags(n, pattern, near=False)
    ib = in_blinds or [blind(i) for i in range(n)]
    ob = blind(1000) if out_blind is None else out_blind
    ins = [eph(L, tags[i], ib[i]) for i in range(n)]
    out = eph(L, OUT_TAG, ob)
    return tags, ib, ob, [p for _, p in ins], out[1]


def do_init(L, tags, n_use, seed, slot=0):
    proof = proofobj(L, slot)
    idx = c_size_t(0xDEAD)
    ret = L.surjectionproof_initialize(L.ctx, proof, byref(idx), exact(b"".join(tags)), len(tags), n_use, exact(OUT_TAG), 100, exact(seed))
    return ret, proof, idx.value


def gen_case(L, case, st):
    """initialise, generate with the matching keys (byte-compared with the model), verify; key / index / count variants"""
    n, pattern, n_use, seed, keyvar = case
    in_blinds = None
    out_blind = None
    if keyvar == "in=0":
        in_blinds = [0] * n
    elif keyvar == "out=0":
        out_blind = 0
    elif keyvar == "in=n-1,out=1":
        in_blinds = [N - 1] * n
        out_blind = 1
    tags, ib, ob, in_pts, out_pt = make_instance(L, n, pattern, in_blinds, out_blind)
    cd = {"cfg": L.config, "n": n, "matching": pattern if isinstance(pattern, int) else list(pattern), "n_to_use": n_use, "seed": hx(seed), "keys": keyvar}
    ret, proof, idx = do_init(L, tags, n_use, seed)
    st.calls += 1
    if ret == 0:
        st.count("init-exhausted")
        return
    bitmap = SJ.initialize(tags, n_use, OUT_TAG, 100, seed)[1]
    nb = (n + 7) // 8
    in_arr, out_obj = exact(gobj(in_pts)), exact(SJ.generator_object(out_pt))
    # honest generation
    g = L.surjectionproof_generate(L.ctx, proof, in_arr, n, out_obj, idx, b32(ib[idx]), b32(ob))
    exp = SJ.generate(n, bitmap, in_pts, out_pt, idx, b32(ib[idx]), b32(ob))
    st.calls += 1
    if (g == 1) != (exp is not None):
        st.fail("surjectionproof_generate=%d, model %s" % (g, "produces a proof" if exp else "refuses"), cd)
        return
    if exp is None:
        st.count("generate-refused")
        return
    ok, ser, _ = lib_serialize(L, proof)
    model_ser = SJ.serialize(n, bitmap, exp)
    if not ok or ser != model_ser:
        st.fail("generated proof differs from the model (deterministic scalars + Borromean prover)", dict(cd, got=hx(ser), model=hx(model_ser)))
        return
    v = L.surjectionproof_verify(L.ctx, proof, in_arr, n, out_obj)
    mv = SJ.verify(n, bitmap, exp, in_pts, out_pt)
    st.calls += 3
    st.count("generate-ok")
    if v != 1 or not mv:
        st.fail("honest proof: verify=%d, model %s" % (v, mv), dict(cd, proof=hx(ser)))
        return
    st.nt((n, pattern if isinstance(pattern, int) else tuple(pattern), n_use, seed[:4], keyvar))
    if compare(L, st, ser, in_pts, out_pt, "reparsed", cd) != 1:
        return
    if keyvar != "plain":
        cb_check(L, st, "generate")
        return
    st.sample({"n": n, "n_to_use": n_use, "input_index": idx, "proof_head": hx(ser[:40])})
    # serialize into EVERY declared buffer length below the needed one (and the needed one, +1) on an exactly sized heap buffer:
    # too short => 0 and nothing written past the buffer (ASan red zone), sufficient => 1 with the same bytes
    need = len(ser)
    for room in (range(0, need + 2) if need <= 420 else list(range(0, 70)) + [need - 33, need - 2, need - 1, need, need + 1]):
        ob_ = exact(b"\xee" * max(room, 1))
        ln_ = c_size_t(room)
        r_ = L.surjectionproof_serialize(L.ctx, ob_, byref(ln_), proof)
        st.calls += 1
        if r_ != (1 if room >= need else 0) or (r_ == 1 and (ln_.value != need or bytes(ob_[:need]) != ser)):
            st.fail("surjectionproof_serialize into a %d-byte buffer (proof needs %d) returned %d / length %d" % (room, need, r_, ln_.value), cd)
            break
    st.count("serialize-every-length")
    # key variants that must be refused: out of range keys
    for what, ik, okey in (("in=n", N, ob), ("out=n", ib[idx], N), ("in=2^256-1", 2**256 - 1, ob), ("out=n+1", ib[idx], N + 1)):
        ret, p2, idx2 = do_init(L, tags, n_use, seed, slot=2)
        g2 = L.surjectionproof_generate(L.ctx, p2, in_arr, n, out_obj, idx2, b32(ik), b32(okey))
        st.calls += 2
        st.count("generate-key-%s:%s" % (what, "refused" if g2 == 0 else "ACCEPTED"))
        if g2 != 0:
            st.fail("generate accepted an out-of-range blinding key (%s)" % what, cd)
    # wrong keys / wrong index: the call succeeds or not as the model says, and the result verifies as the model says
    variants = [("keys-swapped", idx, b32(ob), b32(ib[idx])), ("in+1", idx, b32((ib[idx] + 1) % N), b32(ob)), ("equal-keys", idx, b32(ob), b32(ob))]
    for j in range(n):
        if j != idx:
            variants.append(("index=%s" % ("other-selected" if (bitmap[j // 8] >> (j % 8)) & 1 else "unselected"), j, b32(ib[idx]), b32(ob)))
    for what, j, ik, okey in variants:
        ret, p2, _ = do_init(L, tags, n_use, seed, slot=2)
        g2 = L.surjectionproof_generate(L.ctx, p2, in_arr, n, out_obj, j, ik, okey)
        e2 = SJ.generate(n, bitmap, in_pts, out_pt, j, ik, okey)
        st.calls += 2
        if (g2 == 1) != (e2 is not None):
            st.fail("generate (%s) = %d, model %s" % (what, g2, "proof" if e2 else "refusal"), cd)
            continue
        if e2 is None:
            st.count("generate-%s:refused" % what)
            continue
        ok, ser2, _ = lib_serialize(L, p2)
        if ser2 != SJ.serialize(n, bitmap, e2):
            st.fail("generate (%s): bytes differ from the model" % what, dict(cd, got=hx(ser2)))
            continue
        compare(L, st, ser2, in_pts, out_pt, "generate-" + what, cd)
    # tag count -1 / +1 at generation: refused
    extra = eph(L, tag(999), blind(999))[1]
    for what, pts in (("count-1", in_pts[:-1]), ("count+1", in_pts + [extra])):
        ret, p2, idx2 = do_init(L, tags, n_use, seed, slot=2)
        g2 = L.surjectionproof_generate(L.ctx, p2, exact(gobj(pts)), len(pts), out_obj, idx2, b32(ib[idx]), b32(ob))
        st.calls += 2
        st.count("generate-%s:%s" % (what, "refused" if g2 == 0 else "ACCEPTED"))
        if g2 != 0:
            st.fail("generate with %s tags returned %d" % (what, g2), cd)
    # an input equal to the output (any position, selected or not) makes generation refuse
    for j in sorted(set((0, n - 1, idx))):
        pts = list(in_pts)
        pts[j] = out_pt
        ret, p2, idx2 = do_init(L, tags, n_use, seed, slot=2)
        g2 = L.surjectionproof_generate(L.ctx, p2, exact(gobj(pts)), n, out_obj, idx2, b32(ib[idx]), b32(ob))
        st.calls += 2
        st.count("generate-input==output:%s" % ("refused" if g2 == 0 else "ACCEPTED"))
        if g2 != 0:
            st.fail("generate with input %d equal to the output tag returned %d" % (j, g2), cd)
    cb_check(L, st, "generate")


SMALL = [1, 2, 3]


def instance_for(L, n, sel, signer):
    """model-side instance: n inputs, selected positions `sel`, matching input `signer` (in sel)"""
    pattern = (signer,)
    tags, ib, ob, in_pts, out_pt = make_instance(L, n, pattern)
    bitmap = bytearray((n + 7) // 8)
    for i in sel:
        bitmap[i // 8] |= 1 << (i % 8)
    return ib, ob, in_pts, out_pt, bytes(bitmap)


def mutate_case(L, case, st):
    """model-built proof with small forged scalars (accepted by the library), then every single mutation"""
    n, sel, signer, flips = case
    ib, ob, in_pts, out_pt, bitmap = instance_for(L, n, sel, signer)
    sec = (ob - ib[signer]) % N
    k = len(sel)
    forged = [SMALL[(c + signer) % 3] for c in range(k)]
    r = SJ.prove_chosen(n, bitmap, in_pts, out_pt, signer, sec, 2, forged)
    assert r is not None
    e0, s = r
    base = SJ.encode(n, bitmap, e0, s)
    cd = {"cfg": L.config, "n": n, "selected": list(sel), "signer": signer, "forged": forged}
    if compare(L, st, base, in_pts, out_pt, "model-built", cd) != 1:
        st.fail("model-built proof (forged scalars 1,2,3) is not accepted by the library", dict(cd, proof=hx(base)))
        return
    st.sample({"n": n, "selected": list(sel), "signer": signer, "model_built_proof": hx(base)})
    for c in range(k):
        for what, v in (("s<-0", 0), ("s<-n", N), ("s<-s+n", s[c] + N), ("s<-s+2n", s[c] + 2 * N), ("s<-s+1", (s[c] + 1) % N), ("s<-n-s", N - s[c]), ("s<-2^256-1", 2**256 - 1)):
            if v >= 2**256:
                st.count(what + ":unencodable")
                continue
            t = list(s)
            t[c] = v
            compare(L, st, SJ.encode(n, bitmap, e0, t), in_pts, out_pt, what, cd, must=0)
        if c != sel.index(signer):
            f2 = list(forged)
            f2[c] = 0
            r2 = SJ.prove_chosen(n, bitmap, in_pts, out_pt, signer, sec, 2, f2)
            if r2 is not None:
                compare(L, st, SJ.encode(n, bitmap, r2[0], r2[1]), in_pts, out_pt, "prover-with-forged-scalar-0", cd, must=0)
    if k >= 2:
        t = list(s)
        t[0], t[1] = t[1], t[0]
        compare(L, st, SJ.encode(n, bitmap, e0, t), in_pts, out_pt, "scalars-swapped", cd, must=0)
    compare(L, st, SJ.encode(n, bitmap, BOR.sha256(e0), s), in_pts, out_pt, "e0-replaced", cd, must=0)
    # tags altered: every input (selected or not) and the output
    other = eph(L, tag(998), blind(998))[1]
    for i in range(n):
        for what, rp in (("foreign", other), ("negated", SECP.neg(in_pts[i])), ("+G", SECP.add(in_pts[i], SECP.G))):
            pts = list(in_pts)
            pts[i] = rp
            compare(L, st, base, pts, out_pt, "input-tag-%s-%s" % ("selected" if i in sel else "unselected", what), cd, must=0)
        for j in range(i + 1, n):
            pts = list(in_pts)
            pts[i], pts[j] = pts[j], pts[i]
            compare(L, st, base, pts, out_pt, "input-tags-swapped", cd, must=0)
    for what, rp in (("foreign", other), ("negated", SECP.neg(out_pt)), ("+G", SECP.add(out_pt, SECP.G)), ("=signer-input", in_pts[signer])):
        compare(L, st, base, in_pts, rp, "output-tag-" + what, cd, must=0)
    # tag count -1 / +1 (arrays really that long)
    compare(L, st, base, in_pts[:-1], out_pt, "count-1", cd, must=0)
    compare(L, st, base, in_pts + [other], out_pt, "count+1", cd, must=0)
    # bitmap changed: another selection of the same size, one bit more, one bit less, empty (with the e0 an empty ring would need)
    msg = SJ.message(in_pts, out_pt)
    compare(L, st, SJ.encode(n, bytes(len(bitmap)), BOR.sha256(msg), []), in_pts, out_pt, "empty-bitmap-with-e0=H(msg)", cd, must=0)
    compare(L, st, SJ.encode(n, bytes(len(bitmap)), e0, []), in_pts, out_pt, "empty-bitmap", cd, must=0)
    for i in range(n):
        b2 = bytearray(bitmap)
        b2[i // 8] ^= 1 << (i % 8)
        k2 = SJ.popcount(b2)
        s2 = (s + [1])[:k2]
        compare(L, st, SJ.encode(n, bytes(b2), e0, s2), in_pts, out_pt, "bitmap-bit-toggled", cd, must=0)
    # selected input equal to the output: ring key at infinity; the ring equation holds with s = nonce and must be rejected
    for c, i in enumerate(sel):
        pts = list(in_pts)
        pts[i] = out_pt
        keys = SJ.ring_keys(pts, n, bitmap, out_pt)
        assert keys[c] is None
        r3 = BOR.sign(keys, [k], [c], [0], [2], [SMALL[(x + 1) % 3] for x in range(k)], SJ.message(pts, out_pt))
        if r3 is not None:
            compare(L, st, SJ.encode(n, bitmap, r3[0], r3[1]), pts, out_pt, "selected-input==output-signed-with-secret-0", cd, must=0)
        compare(L, st, base, pts, out_pt, "selected-input==output", cd, must=0)
    if flips:
        for bit in range(8 * len(base)):
            d = bytearray(base)
            d[bit // 8] ^= 1 << (bit % 8)
            compare(L, st, bytes(d), in_pts, out_pt, "bitflip-header" if bit < 16 else ("bitflip-bitmap" if bit < 16 + 8 * len(bitmap) else "bitflip-sig"), cd, must=0)
        for ln in (len(base) - 1, len(base) + 1, len(base) - 32, len(base) + 32):
            compare(L, st, (base + bytes(32))[:ln], in_pts, out_pt, "length%+d" % (ln - len(base)), cd, must=0)
    cb_check(L, st, "mutations")


def big_case(L, case, st):
    """n in {9,16,17,255,256}: initialise, generate, byte-compare, verify; model-built proof with scalar replacement"""
    n, positions, n_use, seed = case
    tags, ib, ob, in_pts, out_pt = make_instance(L, n, tuple(positions))
    cd = {"cfg": L.config, "n": n, "matching": list(positions), "n_to_use": n_use, "seed": hx(seed)}
    ret, proof, idx = do_init(L, tags, n_use, seed)
    exp_ret, bitmap, exp_idx = SJ.initialize(tags, n_use, OUT_TAG, 100, seed)
    st.calls += 1
    if ret != exp_ret or (ret and idx != exp_idx):
        st.fail("initialize=%d index %d, model %d index %s" % (ret, idx, exp_ret, exp_idx), cd)
        return
    if not ret:
        st.count("init-exhausted")
        return
    in_arr, out_obj = exact(gobj(in_pts)), exact(SJ.generator_object(out_pt))
    g = L.surjectionproof_generate(L.ctx, proof, in_arr, n, out_obj, idx, b32(ib[idx]), b32(ob))
    exp = SJ.generate(n, bitmap, in_pts, out_pt, idx, b32(ib[idx]), b32(ob))
    ok, ser, _ = lib_serialize(L, proof)
    st.calls += 2
    if g != 1 or exp is None or ser != SJ.serialize(n, bitmap, exp):
        st.fail("generated proof differs from the model", dict(cd, got=hx(ser)[:160] if ser else None))
        return
    v = L.surjectionproof_verify(L.ctx, proof, in_arr, n, out_obj)
    st.calls += 1
    st.count("generate-ok")
    st.nt((n, tuple(positions), n_use, seed[:4]))
    if v != 1 or not SJ.verify(n, bitmap, exp, in_pts, out_pt):
        st.fail("honest proof does not verify (library %d)" % v, cd)
        return
    # model-built with small scalars on the same selection; replace first / last / signer-adjacent scalars
    sel = SJ.used_indices(n, bitmap)
    k = len(sel)
    sec = (ob - ib[idx]) % N
    r = SJ.prove_chosen(n, bitmap, in_pts, out_pt, idx, sec, 3, [SMALL[c % 3] for c in range(k)])
    e0, s = r
    base = SJ.encode(n, bitmap[:(n + 7) // 8], e0, s)
    if compare(L, st, base, in_pts, out_pt, "model-built", cd) != 1:
        st.fail("model-built proof is not accepted by the library", cd)
        return
    for c in sorted(set((0, k - 1, k // 2))):
        if c == sel.index(idx):
            continue
        for what, vv in (("s<-0", 0), ("s<-s+n", s[c] + N), ("s<-s+1", s[c] + 1)):
            t = list(s)
            t[c] = vv
            compare(L, st, SJ.encode(n, bitmap[:(n + 7) // 8], e0, t), in_pts, out_pt, what, cd, must=0)
    other = eph(L, tag(998), blind(998))[1]
    compare(L, st, base, in_pts[:-1], out_pt, "count-1", cd, must=0)
    compare(L, st, base, in_pts + [other], out_pt, "count+1", cd, must=0)
    pts = list(in_pts)
    pts[n - 1] = other
    compare(L, st, base, pts, out_pt, "last-input-tag-foreign", cd, must=0)
    cb_check(L, st, "big")


def misc_case(L, case, st):
    """generate on a proof without selected inputs: API-level ARG_CHECK (non-VERIFY builds only: the VERIFY build
    aborts on the 'initialized' marker that only initialize sets)"""
    what, = case
    if what == "generate-empty-bitmap":
        if "verify=1" in L.config_str:
            st.count("skipped-on-VERIFY-build")
            return
        ok, p = lib_parse(L, SJ.encode(3, b"\x00", bytes(32), []))
        assert ok == 1
        _, _, _, in_pts, out_pt = make_instance(L, 3, (1,))
        L.cb_reset()
        g = L.surjectionproof_generate(L.ctx, p, exact(gobj(in_pts)), 3, exact(SJ.generator_object(out_pt)), 1, b32(1), b32(2))
        ill, err = L.cb_take()
        st.calls += 1
        st.count("illegal-refused")
        if g != 0 or ill < 1:
            st.fail("generate on a proof with no selected input must fire the illegal-argument callback and return 0", {"cfg": L.config, "ret": g})
    elif what == "fixed-vectors":
        # the module's own vectors through the real parser/verifier and the model (ties the model to shipped data)
        text = open(os.path.join(B.REPO, "src/modules/surjection/tests_impl.h")).read()
        text = text[text.index("static void test_fixed_vectors"):]
        arrs = {}
        for m in re.finditer(r"const unsigned char (\w+)\[\] = \{(.*?)\};", text, flags=re.S):
            arrs[m.group(1)] = bytes(int(x, 16) for x in re.findall(r"0x([0-9a-fA-F]{2})", m.group(2)))
        tags = [SJ.decode_generator(arrs["tag%d_ser" % i]) for i in range(5)]
        out = SJ.decode_generator(arrs["output_tag_ser"])
        for i in range(5):
            g = buf(64)
            assert L.generator_parse(L.ctx, g, arrs["tag%d_ser" % i]) == 1
            if SJ.point_of_object(g.raw) != tags[i]:
                st.fail("generator decoder of the model differs from generator_parse", {"tag": i})
        for name, n in (("total1_used1", 1), ("total2_used1", 2), ("total3_used2", 3), ("total5_used3", 5), ("total5_used5", 5)):
            if compare(L, st, arrs[name], tags[:n], out, "fixed-vector", {"cfg": L.config, "vector": name}) != 1:
                st.fail("fixed vector %s does not verify" % name, {"cfg": L.config})
    cb_check(L, st, "misc")


def main():
    a = args()
    run = Run(PID, a.tier)
    thorough = a.tier == "thorough"
    assert BOR.selftest() and SJ.selftest(os.path.join(B.REPO, "src/modules/surjection/tests_impl.h"))
    cfgs = ["prod-san", "prod-verify"] + (["cfg-int64-noasm-w8-c22"] if thorough else [])
    B.build_many(cfgs)
    for b in cfgs:
        run.cov["builds"][b] = B.source_hash()[:16]
        lib(b)  # load in the parent: forked workers inherit the mapping even if the build cache is pruned meanwhile
    fill = seeded_fillers(2, b"c11")
    for ci, cfg in enumerate(cfgs):
        first = ci == 0
        # ---- parser
        phase(run, "%s/parse-small" % cfg, parse_small_case, [(n,) for n in range(300, -1, -1)], setup=setup(cfg),
              rule="n_inputs 0..300 x bitmaps {none, all, all-ones bytes, 0x55.., 0xaa.., every single bit, every single padding bit on none/all} x lengths "
                   "{0,1,2,3, header+bitmap, +32, exact-32, exact-1, exact, exact+1, exact+32}: parse vs model; accepted: n_total, n_used, serialized_size, "
                   "serialize round trip, short output buffer; inputs and proof object are exactly sized heap objects")
        step = 256 if (first or thorough) else 1024
        blocks = [(lo, min(lo + step, 65536)) for lo in range(301, 65536, step)]
        if not (first or thorough):
            # 2nd build, quick tier: the stated space is 301..364 + k*1024 (k = 0..63), i.e. 64 consecutive values in every block of 1024
            blocks = [(lo, min(lo + 64, hi)) for lo, hi in blocks]
        phase(run, "%s/parse-large" % cfg, parse_large_case, blocks, setup=setup(cfg),
              rule="n_inputs 301..65535 (%s) x {no bit set at its exact length and without signature, first+last bit at exact length; for n <= 2048 and every 257th n: "
                   "all bits with 257 scalars / with the exact length}: all rejected" % ("every value" if (first or thorough) else "on this build the values 301+1024k .. 364+1024k, k = 0..63; every value on prod-san"))
        # ---- initialise
        seeds = SEEDS + fill
        small_n = range(1, 9)
        ic = [(n, pat, seeds if (first or thorough) else seeds[2:5], n <= 4 or pat in (1, (1 << n) - 1)) for n in small_n for pat in range(0, 1 << n)]
        ic.sort(key=lambda c: -c[0])
        phase(run, "%s/initialize-small" % cfg, init_small_case, ic, setup=setup(cfg),
              rule="n 1..8 x every subset of positions holding the matching tag (incl. none; non-matching tags differ from the output tag in the last two bytes only) "
                   "x subset size 0..n x %d seeds (zeros, ff, ascending, descending, hashed, fillers) x max_iterations {0,1,2,100}: return value, bitmap, index vs the "
                   "SHA-256 generator model; allocate_initialized/destroy with the allocation ledger for n <= 4 and the first/full patterns" % len(ic[0][2]))
        bc = []
        for n in (9, 16, 17, 255, 256):
            for pos in ((0,), (n - 1,), (0, n - 1), tuple(range(n)), (n // 2,), ()):
                for n_use in sorted(set((1, 2, 3, n // 2, n - 1, n))):
                    for seed in (seeds[:5] if (first or thorough) else seeds[3:5]):
                        for mi in (1, 2, 100):
                            if n >= 255 and n_use >= n // 2 and mi == 100 and not pos and not thorough:
                                continue  # fruitless 100 x coupon collection over 256: thorough only
                            bc.append((n, pos, n_use, seed, mi))
        phase(run, "%s/initialize-big" % cfg, init_big_case, bc, setup=setup(cfg),
              rule="n in {9,16,17,255,256} x matching positions {first, last, first+last, all, middle, none} x subset size {1,2,3,n/2,n-1,n} x seeds x max_iterations {1,2,100}: "
                   "vs the generator model, plus allocate_initialized/destroy ledger")
        phase(run, "%s/initialize-illegal" % cfg, init_illegal_case, [(257, 1), (3, 4), (0, 1), (256, 257), (65536, 1)], setup=setup(cfg), nproc=2,
              rule="initialize with 257 / 65536 inputs or a subset larger than the list: illegal-argument callback and return 0")
        # ---- generate / verify
        gc = []
        for n in range(1, 9):
            full_pat = n <= 4 if not thorough else n <= 6
            pats = range(1, 1 << n) if full_pat else sorted(set((1, 1 << (n - 1), (1 << n) - 1, 0x55 & ((1 << n) - 1), 3)))
            for pat in pats:
                for n_use in (range(1, n + 1) if full_pat else sorted(set((1, 2, n - 1, n)))):
                    if n_use < 1:
                        continue
                    for seed in (seeds[2:4] if (first or thorough) else seeds[3:4]):
                        gc.append((n, pat, n_use, seed, "plain"))
                    if pat in (1, (1 << n) - 1):
                        for kv in ("in=0", "out=0", "in=n-1,out=1"):
                            gc.append((n, pat, n_use, seeds[2], kv))
        gc.sort(key=lambda c: -c[0])
        phase(run, "%s/generate-verify" % cfg, gen_case, gc, setup=setup(cfg),
              rule="n 1..8 (every matching pattern and subset size for n <= %d, 5 patterns x 4 sizes above) x seeds: initialize, generate with the matching keys byte-compared "
                   "with the model, verify = 1 and model verifier; blinding keys 0 / n-1 / 1; refused: keys n, n+1, 2^256-1, tag count -1/+1, any input equal to the output; "
                   "model-predicted: swapped keys, equal keys, wrong key, every wrong index" % (6 if thorough else 4))
        mc = []
        for n in range(1, 5):
            for k in range(1, n + 1):
                import itertools
                sels = list(itertools.combinations(range(n), k))
                for sel in sels:
                    for signer in sel:
                        flips = (thorough or (sel == sels[0] or sel == sels[-1])) and (thorough or ((signer == sel[0]) == first))
                        if not thorough and not first and n == 4 and k >= 3:
                            flips = False  # quick tier, 2nd build: bit flips up to n = 4 with at most 2 selected
                        if not thorough and not first and not flips and n == 4 and k >= 2 and signer not in (sel[0], sel[-1]):
                            continue
                        mc.append((n, sel, signer, bool(flips)))
        for n, sel in ((5, (0, 2, 4)), (6, (1, 2, 3, 5)), (7, (0, 6)), (8, tuple(range(8))), (8, (3,)), (8, (1, 4, 6))):
            for signer in (sel if (first or thorough) else sel[:1]):
                mc.append((n, sel, signer, False))
        mc.sort(key=lambda c: -(len(c[1]) * (40 if c[3] else 1)))
        phase(run, "%s/mutations" % cfg, mutate_case, mc, setup=setup(cfg),
              rule="n 1..4 x every selection x every signer (+6 selections for n 5..8): proof built by the model with forged scalars 1,2,3 must be accepted; then each scalar <- 0, n, "
                   "s+n, s+2n, s+1, n-s, 2^256-1, equation-valid proof with a forged scalar 0, scalars swapped, e0 replaced, every input tag replaced (foreign, negated, +G), "
                   "every pair of tags swapped, output tag replaced (4 ways), tag count -1/+1, empty bitmap (also with e0 = SHA256(msg)), every bitmap bit toggled, selected "
                   "input = output (also with the ring equation satisfied for the infinite key); every single-bit flip and length -1,+1,-32,+32 for "
                   + ("every selection/signer" if thorough else "the first and last selection of each size (signer split between the two builds)"))
        bg = []
        for n in (9, 16, 17, 255, 256):
            for pos in ((0,), (n - 1,), (0, n // 2, n - 1)):
                for n_use in sorted(set((1, 3, n))) if (first or thorough) else (3,):
                    if n >= 255 and n_use == n and pos != (n - 1,) and not thorough:
                        continue
                    bg.append((n, pos, n_use, seeds[3]))
        bg.sort(key=lambda c: -c[2])
        phase(run, "%s/generate-big" % cfg, big_case, bg, setup=setup(cfg),
              rule="n in {9,16,17,255,256} x matching {first, last, three} x subset size {1,3,n}: initialize, generate byte-compared, verify, model-built proof accepted, "
                   "scalars <- 0, s+n, s+1 at first/middle/last position, tag count -1/+1, last tag replaced")
        phase(run, "%s/misc" % cfg, misc_case, [("generate-empty-bitmap",), ("fixed-vectors",)], setup=setup(cfg), nproc=2,
              rule="generate on a parsed proof without selected inputs (illegal-argument callback, non-VERIFY build); the module's five fixed vectors through parser, verifier and model")
        if run.out_of_time():
            run.cov["exhaustive"] = False
            break
    run.assumptions += ["ephemeral asset tags are produced by the real generator module (generator_generate_blinded) and read back as points; the asset-to-generator map is property C08",
                        "hash values >= n or == 0 (probability 2^-128) cannot be produced and are not explored; the model rejects them as the library does",
                        "proof objects reach verify only through the parser or initialize/generate (struct fields are never poked), so n_used > n_total is unreachable and not explored",
                        "above n = 8 the matching patterns / subset sizes are the listed boundary choices, not all of them"]
    sys.exit(run.finish())


if __name__ == "__main__":
    main()
