"""C15 Sign-to-contract commitments and the anti-exfil protocol are sound and complete.
E1: s2c_sign / verify_commit / host_commit / signer_commit / anti_exfil_sign / host_verify over boundary keys, messages
and data on secp256k1, every output byte compared with the s2c model, on plain / randomised / replaced-SHA256 contexts;
E5: every single-bit flip and structured substitution of signature, datum, opening, message, public key, each decided by
the model; E3: the 4-step protocol run twice for every ordered pair of (message, host randomness) states, all 16
cross-combinations of (signature, message, randomness, opening) presented to host_verify, every assignment of the four
steps to the three contexts; total opening codec over prefix byte x boundary x values.
(Production group only: the commitment tweak hash overflows in the small groups.)"""
import sys, os, ctypes, itertools, time
from ctypes import c_void_p, c_size_t, c_uint32, CFUNCTYPE, POINTER, string_at
from ..core import Run, run_phase, hx, seeded_fillers
from ..util import *
from ..model import s2c as S
from ..model import ecdsa as E
from ..model import sha256_compress as SC
from .. import build as B

PID = "C15"
_L = {}
COMPRESS_FN = CFUNCTYPE(None, POINTER(c_uint32), c_void_p, c_size_t)
M256 = 2**256 - 1
C = SECP


def lib(cfg):
    if cfg not in _L:
        _L[cfg] = Lib(cfg)
    return _L[cfg]


def build_retry(names, tries=4):
    """build_many, retried (a concurrent builder with another view of mc/shim may remove the directory being written);
    libraries are dlopen'ed in the parent so forked workers keep the mapping"""
    for t in range(tries):
        try:
            B._src_hash_cache = None
            B.build_many(names)
            for c in names:
                lib(c)
            return
        except (SystemExit, OSError):
            if t == tries - 1:
                raise
            if t == tries - 2:
                B.BUILD = os.path.join(B.BUILD, "own-" + PID.lower())
                os.makedirs(B.BUILD, exist_ok=True)
            time.sleep(2 + 3 * t)


def _py_compress(state, blocks, nblocks):
    st = [state[i] for i in range(8)]
    data = string_at(blocks, 64 * nblocks)
    for i in range(nblocks):
        st = SC.compress(st, data[64 * i:64 * i + 64])
    for i in range(8):
        state[i] = st[i]


_PYC = COMPRESS_FN(_py_compress)


def contexts(L):
    """[(name, ctx)]: plain, randomised, replaced-but-correct SHA-256 compression"""
    if not hasattr(L, "_c15ctx"):
        c1 = L.context_create(1)
        assert L.context_randomize(c1, seeded_fillers(1, b"c15ctx")[0]) == 1
        c2 = L.context_create(1)
        L.context_set_sha256_compression(c2, _PYC)
        assert L.illegal == 0
        L._c15ctx = [("plain", L.ctx), ("randomized", c1), ("pysha", c2)]
    return L._c15ctx


def setup(cfgs):
    def f():
        return [lib(c) for c in cfgs]
    return f


# ------------------------------------------------------------------ thin call helpers
def do_s2c_sign(L, ctx, key32, msg32, data32, with_opening=True):
    sig = buf(b"\x5a" * 64)
    op = buf(b"\x6b" * 64) if with_opening else None
    ret = L.ecdsa_s2c_sign(ctx, sig, op, msg32, key32, data32)
    return ret, sig, op


def op_ser(L, op):
    out = buf(b"\x11" * 33)
    return out.raw if L.ecdsa_s2c_opening_serialize(L.ctx, out, op) == 1 else None


def op_parse(L, b33):
    op = buf(64)
    return op if L.ecdsa_s2c_opening_parse(L.ctx, op, b33) == 1 else None


def cb_check(L, st, info):
    if L.illegal or L.errors:
        st.fail("callback fired on legal input", dict(info, cfg=L.config))
        L.cb_reset()


# ------------------------------------------------------------------ E1
def sign_case(env, case, st):
    libs, datas = env
    key, msg32, data32 = case
    key32 = b32(key)
    exp = S.s2c_sign(key32, msg32, data32)
    info = {"key": hex(key), "msg": hx(msg32), "data": hx(data32)}
    st.count("sign-ok" if exp else "sign-refused")
    if exp:
        r, s, R0 = exp
        Q = C.mulG(key)
        comp, op33 = b32(r) + b32(s), S.opening_serialize(R0)
        hc = S.host_commit(data32)
        if s > N // 2 or not S.verify_commit(r, data32, R0) or not E.verify_rs(r, s, i32(msg32), Q) or S.signer_commit(msg32, key32, hc) != R0 \
                or not S.host_verify(r, s, msg32, Q, data32, R0):
            raise RuntimeError("model inconsistent with itself: %r" % info)
        st.nt(("sign", key, msg32, data32))
    for L in libs:
        pk = pubkey_from_point(L, Q) if exp else None
        for cname, ctx in contexts(L):
            inf = dict(info, cfg=L.config, ctx=cname)
            ret, sig, op = do_s2c_sign(L, ctx, key32, msg32, data32)
            st.calls += 1
            if exp is None:
                if ret != 0 or not is_zero(sig.raw) or not is_zero(sig_compact(L, sig)):
                    st.fail("s2c_sign with an invalid key must return 0 and a zero signature (ret=%d)" % ret, inf)
                sg2 = buf(b"\x5a" * 64)
                ret = L.anti_exfil_sign(ctx, sg2, msg32, key32, data32)
                st.calls += 1
                if ret != 0 or not is_zero(sg2.raw):
                    st.fail("anti_exfil_sign with an invalid key must return 0 and a zero signature (ret=%d)" % ret, inf)
                continue
            got, gop = sig_compact(L, sig), op_ser(L, op)
            st.calls += 2
            if ret != 1 or got != comp or gop != op33:
                st.fail("s2c_sign differs from model: ret=%d sig=%s (model %s) opening=%s (model %s)" % (ret, hx(got), hx(comp), hx(gop), hx(op33)), inf)
                continue
            if i32(got[32:]) > N // 2:
                st.fail("s2c signature is not low-S", inf)
            if L.ecdsa_verify(ctx, sig, msg32, pk) != 1:
                st.fail("s2c signature does not pass ecdsa_verify", inf)
            if L.ecdsa_s2c_verify_commit(ctx, sig, data32, op) != 1:
                st.fail("verify_commit rejects the signer's own (signature, data, opening)", inf)
            st.calls += 2
            ret2, sig2, _ = do_s2c_sign(L, ctx, key32, msg32, data32, with_opening=False)
            st.calls += 1
            if ret2 != 1 or sig2.raw != sig.raw:
                st.fail("s2c_sign without an opening argument gives another signature", inf)
            # every other datum of the alphabet must be refused (model decides)
            for d2 in datas:
                e = 1 if S.verify_commit(r, d2, R0) else 0
                g = L.ecdsa_s2c_verify_commit(ctx, sig, d2, op)
                st.calls += 1
                st.count("verify_commit-%s" % ("accept" if e else "reject"))
                if g != e:
                    st.fail("verify_commit=%d model=%d for datum %s" % (g, e, hx(d2)), inf)
            # anti-exfil protocol on this context
            hcb = buf(b"\x22" * 32)
            if L.ecdsa_anti_exfil_host_commit(ctx, hcb, data32) != 1 or hcb.raw != hc:
                st.fail("host_commit differs from model: %s vs %s" % (hx(hcb.raw), hx(hc)), inf)
            sop = buf(b"\x6b" * 64)
            rc = L.ecdsa_anti_exfil_signer_commit(ctx, sop, msg32, key32, hcb.raw)
            sop33 = op_ser(L, sop)
            if rc != 1 or sop33 != op33:
                st.fail("signer_commit opening %s differs from the opening of the later signature %s" % (hx(sop33), hx(op33)), inf)
            sg3 = buf(b"\x5a" * 64)
            ra = L.anti_exfil_sign(ctx, sg3, msg32, key32, data32)
            if ra != 1 or sig_compact(L, sg3) != comp:
                st.fail("anti_exfil_sign differs from model / from s2c_sign: ret=%d %s" % (ra, hx(sig_compact(L, sg3))), inf)
            hv = L.anti_exfil_host_verify(ctx, sg3, msg32, pk, data32, sop)
            st.calls += 6
            if hv != 1:
                st.fail("host_verify rejects an honest protocol run", inf)
        cb_check(L, st, info)
    st.sample(dict(info, model_sig=hx(comp) if exp else None, model_opening=hx(op33) if exp else None))


# ------------------------------------------------------------------ E5
def flips(b):
    for i in range(len(b) * 8):
        x = bytearray(b)
        x[i >> 3] ^= 1 << (i & 7)
        yield bytes(x)


def opening_subst(op33, extra_points):
    n, p = N, P
    pref, x = op33[0], i32(op33[1:])
    out = []
    for pf in (0, 1, 4, 5, 6, 7, 0x82, 0x83, 0xff, pref ^ 1):
        out.append(("opening:prefix", bytes([pf]) + op33[1:]))
    xs = [0, 1, 2, p - 1, p, p + 1, M256, n, C.G[0]]
    if x + p <= M256:
        xs.append(x + p)
    t = x + 1
    while C.lift_x(t % p) is not None:
        t += 1
    xs.append(t % p)
    t = x + 1
    while C.lift_x(t % p) is None:
        t += 1
    xs.append(t % p)
    for xx in xs:
        for pf in (2, 3):
            out.append(("opening:x", bytes([pf]) + b32(xx)))
    t = 0
    while C.lift_x(t) is None:
        t += 1
    for pf in (2, 3):           # a valid point with tiny x, and its non-canonical alias x + p
        out.append(("opening:tiny-x", bytes([pf]) + b32(t)))
        out.append(("opening:tiny-x+p", bytes([pf]) + b32(t + p)))
    for nm, Pt in extra_points:
        if Pt is not None:
            out.append(("opening:=" + nm, C.ser_compressed(Pt)))
            out.append(("opening:=-" + nm, C.ser_compressed(C.neg(Pt))))
    out.append(("opening:zero", bytes(33)))
    return out


def mut_ops(key, msg32, data32, r, s, R0, datas):
    n = N
    op33 = S.opening_serialize(R0)
    Rfinal = S.ec_commit(R0, data32)
    ops = []   # (tag, (r, s), msg, Qname, data, opening33)
    comp = b32(r) + b32(s)
    for b in flips(comp):
        ops.append(("sigflip", (i32(b[:32]), i32(b[32:])), msg32, "Q", data32, op33))
    for r2 in (0, 1, n - 1, (r + 1) % n, n - r, s):
        ops.append(("sig-r", (r2, s), msg32, "Q", data32, op33))
    for s2 in (0, 1, n - s, (n - 1) // 2, (n + 1) // 2, (s + 1) % n, n - 1, r):
        ops.append(("sig-s", (r, s2), msg32, "Q", data32, op33))
    for b in flips(data32):
        ops.append(("dataflip", (r, s), msg32, "Q", b, op33))
    for d2 in datas + [S.host_commit(data32), op33[1:], msg32]:
        if d2 != data32:
            ops.append(("data-alt", (r, s), msg32, "Q", d2, op33))
    for b in flips(op33):
        ops.append(("openingflip", (r, s), msg32, "Q", data32, b))
    for tag, b in opening_subst(op33, [("G", C.G), ("R", Rfinal), ("Q", C.mulG(key)), ("2R0", C.add(R0, R0))]):
        ops.append((tag, (r, s), msg32, "Q", data32, b))
    m = i32(msg32)
    for i in range(256):
        ops.append(("msgflip", (r, s), b32(m ^ (1 << i)), "Q", data32, op33))
    for alt in (m + n, m - n, m % n, (m % n) + n, (m + 1) & M256):
        if 0 <= alt <= M256 and alt != m:
            ops.append(("msg-alt", (r, s), b32(alt), "Q", data32, op33))
    for qn in ("-Q", "Q+G", "G"):
        ops.append(("pubkey:=" + qn, (r, s), msg32, qn, data32, op33))
    return ops


def mut_case(env, case, st):
    libs, datas = env
    key, msg32, data32, shard, nshards = case
    key32 = b32(key)
    r, s, R0 = S.s2c_sign(key32, msg32, data32)
    Q = C.mulG(key)
    pts = {"Q": Q, "-Q": C.neg(Q), "Q+G": C.add(Q, C.G), "G": C.G}
    ops = mut_ops(key, msg32, data32, r, s, R0, datas)[shard::nshards]
    pks = [{k: pubkey_from_point(L, v) for k, v in pts.items() if v is not None} for L in libs]
    info0 = {"key": hex(key), "msg": hx(msg32), "data": hx(data32), "honest_sig": hx(b32(r) + b32(s)), "honest_opening": hx(S.opening_serialize(R0))}
    if shard == 0:
        for L in libs:     # anchor: the library really produces this signature / opening
            ret, sig, op = do_s2c_sign(L, L.ctx, key32, msg32, data32)
            st.calls += 1
            if ret != 1 or sig_compact(L, sig) != b32(r) + b32(s) or op_ser(L, op) != S.opening_serialize(R0):
                st.fail("s2c_sign differs from model", dict(info0, cfg=L.config))
    for tag, (r2, s2), mm, qn, dd, ob in ops:
        if pts[qn] is None:
            continue
        if r2 >= N or s2 >= N:
            st.count("skipped-unparseable-signature")   # (r, s) >= n never becomes a signature object (C03's subject)
            continue
        Pt = S.opening_parse(ob)
        if Pt is None:
            st.count("%s/opening-unparseable" % tag)
            evc = ehv = None
        else:
            evc = 1 if S.verify_commit(r2, dd, Pt) else 0
            ehv = 1 if (evc and E.verify_rs(r2, s2, i32(mm), pts[qn])) else 0
            st.count("%s/commit-%s/host-%s" % (tag, "accept" if evc else "reject", "accept" if ehv else "reject"))
            if evc:
                st.nt(("vc", r2, dd, ob))
            if ehv:
                st.nt(("hv", r2, s2, mm, qn, dd, ob))
        for li, L in enumerate(libs):
            inf = dict(info0, cfg=L.config, mutation=tag, sig=hx(b32(r2) + b32(s2)), msg_presented=hx(mm), data_presented=hx(dd), opening_presented=hx(ob), pubkey=qn)
            op = op_parse(L, ob)
            st.calls += 1
            if (op is not None) != (Pt is not None):
                st.fail("opening_parse=%d model=%d" % (op is not None, Pt is not None), inf)
                continue
            if op is None:
                continue
            back = op_ser(L, op)
            if back != ob:
                st.fail("opening does not round-trip: %s" % hx(back), inf)
            sig = sig_from_rs(L, r2, s2)
            gvc = L.ecdsa_s2c_verify_commit(L.ctx, sig, dd, op)
            ghv = L.anti_exfil_host_verify(L.ctx, sig, mm, pks[li][qn], dd, op)
            st.calls += 3
            if gvc != evc:
                st.fail("verify_commit=%d model=%d on mutation %s" % (gvc, evc, tag), inf)
            if ghv != ehv:
                st.fail("host_verify=%d model=%d (commit %d and ecdsa) on mutation %s" % (ghv, ehv, evc, tag), inf)
    for L in libs:
        cb_check(L, st, info0)
    if shard == 0:
        st.sample(dict(info0, operations=len(ops) * nshards))


# ------------------------------------------------------------------ E3 protocol histories
def protocol_run(L, ctxs, key32, msg32, rho, pk):
    """host_commit -> signer_commit -> anti_exfil_sign -> host_verify, each step on its own context; returns observations"""
    c = buf(b"\x22" * 32)
    r1 = L.ecdsa_anti_exfil_host_commit(ctxs[0], c, rho)
    op = buf(b"\x6b" * 64)
    r2 = L.ecdsa_anti_exfil_signer_commit(ctxs[1], op, msg32, key32, c.raw)
    sig = buf(b"\x5a" * 64)
    r3 = L.anti_exfil_sign(ctxs[2], sig, msg32, key32, rho)
    r4 = L.anti_exfil_host_verify(ctxs[3], sig, msg32, pk, rho, op)
    return (r1, r2, r3, r4), c.raw, op, sig


def hist_case(libs, case, st):
    key, (mA, rhoA), (mB, rhoB), assign = case
    key32 = b32(key)
    Q = C.mulG(key)
    mod = {}
    for nm, (m, rho) in (("A", (mA, rhoA)), ("B", (mB, rhoB))):
        r, s, R0 = S.s2c_sign(key32, m, rho)
        if S.signer_commit(m, key32, S.host_commit(rho)) != R0:
            raise RuntimeError("model inconsistent")
        mod[nm] = {"msg": m, "rho": rho, "r": r, "s": s, "R0": R0, "sig": b32(r) + b32(s), "op": S.opening_serialize(R0), "c": S.host_commit(rho)}
    same = (i32(mA) % N == i32(mB) % N) and rhoA == rhoB
    # model-level statement of the history invariants
    if same != (mod["A"]["op"] == mod["B"]["op"]) or same != (mod["A"]["sig"][:32] == mod["B"]["sig"][:32]):
        raise RuntimeError("model: same inputs <-> same nonce does not hold")
    st.count("pair-same-inputs" if same else "pair-different-inputs")
    info = {"key": hex(key), "A": [hx(mA), hx(rhoA)], "B": [hx(mB), hx(rhoB)], "ctx_assignment": list(assign)}
    for L in libs:
        cl = contexts(L)
        ctxs = [cl[i][1] for i in assign]
        pk = pubkey_from_point(L, Q)
        obs = {}
        for nm in ("A", "B", "A2"):       # run A, run B, restart A with exactly the same randomness
            k = nm[0]
            rets, c, op, sig = protocol_run(L, ctxs, key32, mod[k]["msg"], mod[k]["rho"], pk)
            st.calls += 4
            comp, o33 = sig_compact(L, sig), op_ser(L, op)
            obs[nm] = (comp, o33, op, sig)
            if rets != (1, 1, 1, 1):
                st.fail("honest protocol run %s returned %r" % (nm, rets), dict(info, cfg=L.config))
            if c != mod[k]["c"] or o33 != mod[k]["op"] or comp != mod[k]["sig"]:
                st.fail("protocol run %s: commitment / signer opening / signature differ from model (opening %s, model %s)" % (nm, hx(o33), hx(mod[k]["op"])),
                        dict(info, cfg=L.config))
            # the signer's committed opening is the opening of the signature made with the revealed randomness
            ret, sg, sop = do_s2c_sign(L, ctxs[2], key32, mod[k]["msg"], mod[k]["rho"])
            st.calls += 1
            if ret != 1 or op_ser(L, sop) != o33 or sg.raw != sig.raw:
                st.fail("signer_commit opening != opening exported by s2c_sign for the same (message, randomness)", dict(info, cfg=L.config, run=nm))
        if obs["A"][:2] != obs["A2"][:2]:
            st.fail("restarting the protocol with the same randomness gave another opening / signature", dict(info, cfg=L.config))
        if same != (obs["A"][1] == obs["B"][1]) or same != (obs["A"][0][:32] == obs["B"][0][:32]):
            st.fail("same inputs <-> same nonce violated between runs A and B", dict(info, cfg=L.config))
        # all cross-combinations presented to host_verify
        for sn, mn, rn, on in itertools.product("AB", repeat=4):
            r, s = mod[sn]["r"], mod[sn]["s"]
            e = 1 if S.host_verify(r, s, mod[mn]["msg"], Q, mod[rn]["rho"], mod[on]["R0"]) else 0
            g = L.anti_exfil_host_verify(ctxs[3], obs[sn][3], mod[mn]["msg"], pk, mod[rn]["rho"], obs[on][2])
            st.calls += 1
            st.count("cross-host_verify-%s" % ("accept" if e else "reject"))
            if e:
                st.nt(("x", key, sn, mn, rn, on, mA, rhoA, mB, rhoB))
            if g != e:
                st.fail("host_verify(sig %s, msg %s, rho %s, opening %s)=%d model=%d" % (sn, mn, rn, on, g, e), dict(info, cfg=L.config))
        # a host that sends a commitment to other randomness than it later reveals: opening must not verify
        xop = buf(64)
        L.ecdsa_anti_exfil_signer_commit(ctxs[1], xop, mA, key32, mod["B"]["c"])
        XR = S.signer_commit(mA, key32, mod["B"]["c"])
        e = 1 if S.host_verify(mod["A"]["r"], mod["A"]["s"], mA, Q, rhoA, XR) else 0
        g = L.anti_exfil_host_verify(ctxs[3], obs["A"][3], mA, pk, rhoA, xop)
        st.calls += 2
        if op_ser(L, xop) != S.opening_serialize(XR) or g != e:
            st.fail("mismatched commitment: signer opening %s (model %s), host_verify=%d model=%d" % (hx(op_ser(L, xop)), hx(S.opening_serialize(XR)), g, e),
                    dict(info, cfg=L.config))
        cb_check(L, st, info)
    st.sample(info)


# ------------------------------------------------------------------ opening codec, total over prefix x boundary x
def codec_case(libs, case, st):
    x = case
    body = b32(x)
    for pf in range(256):
        b = bytes([pf]) + body
        Pt = S.opening_parse(b)
        st.count("opening-parse-%s" % ("ok" if Pt else "refused"))
        if Pt:
            st.nt(b)
        for L in libs:
            op = op_parse(L, b)
            st.calls += 1
            if (op is not None) != (Pt is not None):
                st.fail("opening_parse=%d model=%d" % (op is not None, Pt is not None), {"cfg": L.config, "opening": hx(b)})
            elif op is not None:
                back = op_ser(L, op)
                st.calls += 1
                if back != b or point_from_pubkey(L, op) != Pt:
                    st.fail("opening round trip / point differs: %s" % hx(back), {"cfg": L.config, "opening": hx(b)})
    for L in libs:
        cb_check(L, st, {"x": hex(x)})


# ------------------------------------------------------------------ API-level argument checks
def api_case(libs, case, st):
    for L in libs:
        key32, m, d = b32(5), b32(9), b32(11)
        r, s, R0 = S.s2c_sign(key32, m, d)
        sig = sig_from_rs(L, r, s)
        op = op_parse(L, S.opening_serialize(R0))
        pk = pubkey_from_point(L, C.mulG(5))
        o64, o33, o32, zop = buf(64), buf(33), buf(32), buf(64)
        calls = [
            ("opening_parse opening NULL", lambda: L.ecdsa_s2c_opening_parse(L.ctx, None, S.opening_serialize(R0))),
            ("opening_parse input NULL", lambda: L.ecdsa_s2c_opening_parse(L.ctx, o64, None)),
            ("opening_serialize out NULL", lambda: L.ecdsa_s2c_opening_serialize(L.ctx, None, op)),
            ("opening_serialize opening NULL", lambda: L.ecdsa_s2c_opening_serialize(L.ctx, o33, None)),
            ("s2c_sign sig NULL", lambda: L.ecdsa_s2c_sign(L.ctx, None, o64, m, key32, d)),
            ("s2c_sign msg NULL", lambda: L.ecdsa_s2c_sign(L.ctx, o64, buf(64), None, key32, d)),
            ("s2c_sign key NULL", lambda: L.ecdsa_s2c_sign(L.ctx, o64, buf(64), m, None, d)),
            ("s2c_sign data NULL", lambda: L.ecdsa_s2c_sign(L.ctx, o64, buf(64), m, key32, None)),
            ("s2c_sign static ctx", lambda: L.ecdsa_s2c_sign(L.static_ctx, o64, buf(64), m, key32, d)),
            ("verify_commit sig NULL", lambda: L.ecdsa_s2c_verify_commit(L.ctx, None, d, op)),
            ("verify_commit data NULL", lambda: L.ecdsa_s2c_verify_commit(L.ctx, sig, None, op)),
            ("verify_commit opening NULL", lambda: L.ecdsa_s2c_verify_commit(L.ctx, sig, d, None)),
            ("verify_commit zeroed opening", lambda: L.ecdsa_s2c_verify_commit(L.ctx, sig, d, zop)),
            ("host_commit out NULL", lambda: L.ecdsa_anti_exfil_host_commit(L.ctx, None, d)),
            ("host_commit rand NULL", lambda: L.ecdsa_anti_exfil_host_commit(L.ctx, o32, None)),
            ("signer_commit opening NULL", lambda: L.ecdsa_anti_exfil_signer_commit(L.ctx, None, m, key32, d)),
            ("signer_commit msg NULL", lambda: L.ecdsa_anti_exfil_signer_commit(L.ctx, o64, None, key32, d)),
            ("signer_commit key NULL", lambda: L.ecdsa_anti_exfil_signer_commit(L.ctx, o64, m, None, d)),
            ("signer_commit commitment NULL", lambda: L.ecdsa_anti_exfil_signer_commit(L.ctx, o64, m, key32, None)),
            ("signer_commit static ctx", lambda: L.ecdsa_anti_exfil_signer_commit(L.static_ctx, o64, m, key32, d)),
            ("anti_exfil_sign sig NULL", lambda: L.anti_exfil_sign(L.ctx, None, m, key32, d)),
            ("anti_exfil_sign data NULL", lambda: L.anti_exfil_sign(L.ctx, o64, m, key32, None)),
            ("host_verify sig NULL", lambda: L.anti_exfil_host_verify(L.ctx, None, m, pk, d, op)),
            ("host_verify data NULL", lambda: L.anti_exfil_host_verify(L.ctx, sig, m, pk, None, op)),
            ("host_verify opening NULL", lambda: L.anti_exfil_host_verify(L.ctx, sig, m, pk, d, None)),
            ("host_verify msg NULL", lambda: L.anti_exfil_host_verify(L.ctx, sig, None, pk, d, op)),
            ("host_verify pubkey NULL", lambda: L.anti_exfil_host_verify(L.ctx, sig, m, None, d, op)),
        ]
        for name, f in calls:
            L.cb_reset()
            ret = f()
            st.calls += 1
            st.count("illegal-arg")
            if ret != 0 or L.illegal < 1:
                st.fail("%s: expected illegal-argument callback and return 0, got ret=%d callbacks=%d" % (name, ret, L.illegal), {"cfg": L.config})
            L.cb_reset()
        # verification-side functions work on the static context
        if L.ecdsa_s2c_verify_commit(L.static_ctx, sig, d, op) != 1 or L.anti_exfil_host_verify(L.static_ctx, sig, m, pk, d, op) != 1 or \
                L.ecdsa_anti_exfil_host_commit(L.static_ctx, o32, d) != 1 or o32.raw != S.host_commit(d) or L.illegal:
            st.fail("verify_commit / host_verify / host_commit on the static context", {"cfg": L.config})
        st.calls += 3
        L.cb_reset()


# ------------------------------------------------------------------ main
def main():
    a = args()
    run = Run(PID, a.tier)
    thorough = a.tier == "thorough"
    try:
        nvec = S.selftest(B.REPO) + SC.selftest()
    except Exception as e:
        print("C15: model self-test failed (machinery broken): %r" % (e,))
        sys.exit(2)
    run.cov["model_selftest_assertions"] = nvec
    prods = ["prod-san", "prod-verify"] + (["cfg-int64-noasm-w8-c22", "cfg-i128struct-noasm-w2-c2"] if thorough else [])
    only = [t for t in os.environ.get("VERIF_ONLY", "").split(",") if t]   # development knobs (mutation runs)
    if os.environ.get("VERIF_PRODS"):
        prods = os.environ["VERIF_PRODS"].split(",")
    if only:
        run.cov["exhaustive"] = False
    build_retry(prods)
    for b in prods:
        run.cov["builds"][b] = B.source_hash()[:16]

    def phase(name, fn, cases, **kw):
        if only and not any(t in name for t in only):
            return
        if run.out_of_time():
            run.cov["exhaustive"] = False
            return
        run_phase(run, name, fn, cases, **kw)

    n = N
    f = seeded_fillers(8, b"c15")
    fk = [i32(v) % (n - 1) + 1 for v in f[:2]]
    datas = [bytes(32), b"\xff" * 32, b"\x00" * 31 + b"\x01", f[2], f[3]]
    msgs = [b32(0), b32(1), b32(n - 1), b32(n), b32(n + 1), b32(M256), f[4]]
    keys = key_alphabet() if thorough else [1, 2, 3, (n - 1) // 2, (n + 1) // 2, n - 3, n - 2, n - 1, 2**255, LAMBDA] + fk
    bad = [0, n, n + 1, M256]

    def env_setup():
        return setup(prods)(), datas

    phase("prod/sign-commit-protocol", sign_case, [(k, m, d) for k in keys + bad for m in msgs for d in datas], setup=env_setup,
          rule="%d keys (1,2,3,(n+-1)/2,n-3..n-1,2^255,lambda,fillers%s; +invalid 0,n,n+1,2^256-1) x msg {0,1,n-1,n,n+1,2^256-1,filler} x data {00..,FF..,00..01,2 fillers} on "
               "each build x {plain, randomised, replaced-SHA256-compression} context: signature and opening bytes == model, low-S, ecdsa_verify=1, verify_commit=1 for "
               "the datum and == model for every other datum, NULL-opening call identical, host_commit == model, signer_commit opening == opening of the signature, "
               "anti_exfil_sign == s2c_sign, host_verify=1; invalid keys refuse with zero signature; non-trivial = successful signings"
               % (len(keys), ", whole KEY alphabet" if thorough else ""))

    nsh = 4
    if thorough:
        base = [(k, m, d) for k in (1, 2, n - 2, n - 1, fk[0]) for m in (msgs[0], msgs[3], msgs[5], msgs[6]) for d in (datas[0], datas[1], datas[3])]
    else:
        base = [(1, msgs[0], datas[0]), (n - 1, msgs[5], datas[1]), (2, msgs[3], datas[3]), (n - 2, msgs[6], datas[2]), (fk[0], msgs[6], datas[4]),
                (fk[1], msgs[2], datas[0]), ((n - 1) // 2, msgs[4], datas[3]), (1, msgs[6], datas[1])]
    phase("prod/mutations", mut_case, [b + (s, nsh) for b in base for s in range(nsh)], setup=env_setup,
          rule="%d honest (signature, datum, opening) triples, each: all 512 signature bit flips, r / s <- {0,1,n-1,v+1,n-v,(n+-1)/2,swap}; all 256 datum bit flips and the "
               "other data; all 264 opening bit flips, opening prefix <- {0,1,4,5,6,7,82,83,ff,negation}, opening x <- {0,1,2,p-1,p,p+1,2^256-1,n,G.x,nearest off-curve, "
               "nearest on-curve} x both parities, opening <- +-{G, committed nonce R, Q, 2*R0}, zero bytes; all 256 message bit flips, m+-n; pubkey <- {-Q, Q+G, G}; "
               "opening_parse, verify_commit and host_verify (= commit check and ecdsa_verify) decided by the model for each; non-trivial = accepted" % len(base))

    states = [(m, r) for m in (msgs[0], msgs[3], msgs[1], msgs[5], msgs[6]) for r in (datas[0], datas[1], datas[3], datas[4])]
    hkeys = [1, n - 1, fk[0]] + ([2, n - 2, (n - 1) // 2] if thorough else [])
    assigns = list(itertools.product(range(3), repeat=4))
    hc = []
    i = 0
    for k in hkeys:
        for A_ in states:
            for B_ in states:
                hc.append((k, A_, B_, assigns[i % 81]))
                i += 1
    phase("prod/protocol-histories", hist_case, hc, setup=setup(prods),
          rule="keys %d x every ordered pair of (message, host randomness) states from {0, n, 1, 2^256-1, filler} x {00.., FF.., 2 fillers} (400 pairs incl. equal and "
               "message-congruent ones): run A, run B, restart A; each run host_commit -> signer_commit -> anti_exfil_sign -> host_verify with the four steps on "
               "contexts cycling through all 81 assignments of {plain, randomised, replaced SHA256}; signer opening == s2c_sign opening; restart reproduces "
               "opening and signature; same inputs <-> same nonce; all 16 (signature, message, randomness, opening) cross-combinations and a mismatched host "
               "commitment presented to host_verify and decided by the model" % len(hkeys))
    phase("prod/protocol-context-assignments", hist_case, [(fk[1], states[1], states[18], asg) for asg in assigns] + [(n - 2, states[19], states[19], asg) for asg in assigns],
          setup=setup(prods), rule="two fixed state pairs x all 81 assignments of the four protocol steps to the three contexts")

    small = [t for t in range(0, 64) if C.lift_x(t) is not None][:4]          # points with tiny x: x + p still fits in 32 bytes
    top = [t for t in range(2**32 + 976, 2**32 + 900, -1) if C.lift_x(t) is not None][:2]   # largest such x (x + p close to 2^256)
    xs = [0, 1, 2, 3, 4, 5, 6, 7, 8, P - 3, P - 2, P - 1, P, P + 1, P + 2, M256, n - 1, n, n + 1, C.G[0], 2**255, 2**32 + 976, 2**32 + 977] + [i32(v) for v in f[5:8]]
    xs += [t for t in small + top if t not in xs] + [P + t for t in small + top]
    phase("prod/opening-codec", codec_case, xs, setup=setup(prods),
          rule="every prefix byte 0..255 x x in {0..8, p-3..p+2, 2^256-1, n-1, n, n+1, G.x, 2^255, 2^32+976, 2^32+977, fillers, the 4 smallest and 2 largest on-curve "
               "x below 2^32+977 and their aliases x+p}: opening_parse == strict compressed-point "
               "model (x < p, on curve, prefix 02/03 only), accepted openings serialize back to the same 33 bytes and hold the model's point")
    phase("prod/api-arguments", api_case, [0], setup=setup(prods), nproc=1,
          rule="every pointer argument NULL, static context where a signing context is required, zeroed opening: illegal callback >= 1 and return 0")
    run.assumptions += ["secp256k1 only (the commitment tweak hash overflows in the small groups); values outside the stated alphabets are not explored",
                        "verify_commit binds only r (header: 'not necessarily a valid signature'): mutations of s leave verify_commit=1 and are rejected by host_verify",
                        "signer_commit with an invalid secret key is not asserted (header silent; it does not validate the key)",
                        "tweak >= n, k0 + tweak == 0, r == 0, s == 0 and RFC 6979 retries are cryptographically unreachable and not exercised"]
    sys.exit(run.finish())


if __name__ == "__main__":
    main()
