"""C10 Range-proof verification accepts exactly the specified proofs (consensus-exact).
Proofs are built by the MODEL prover with caller-chosen free values (small forged scalars, so that s+n
re-encodings fit in 32 bytes; headers the honest prover never emits), then mutated one deviation at a time;
the model verifier decides every case and the real verifier must agree, including the reported range."""
import sys, ctypes
from ctypes import c_int, c_size_t, c_uint64, byref
from ..core import Run, run_phase, hx, seeded_fillers
from ..util import *
from ..model import rangeproof as RP
from ..model import pedersen as PD
from .. import build as B

PID = "C10"
_L = {}


def lib(cfg):
    if cfg not in _L:
        _L[cfg] = Lib(cfg)
    return _L[cfg]


class Env:
    def __init__(self, cfg):
        self.L = L = lib(cfg)
        c = L.ctx
        self.gens = []
        for seed, blind in ((b32(1), None), (b32(2), b32(77))):
            g = buf(64)
            if blind is None:
                assert L.generator_generate(c, g, seed) == 1
            else:
                assert L.generator_generate_blinded(c, g, seed, blind) == 1
            o = buf(33)
            L.generator_serialize(c, o, g)
            pt = PD.generator_parse(o.raw)
            assert pt is not None
            self.gens.append((g, pt))

    def commit_obj(self, pt):
        L = self.L
        cm = buf(64)
        ser = PD.commitment_serialize(pt)
        assert L.pedersen_commitment_parse(L.ctx, cm, ser) == 1
        return cm

    def lib_verify(self, cm, proof, extra, gobj):
        L = self.L
        mn, mx = c_uint64(0x1111), c_uint64(0x2222)
        r = L.rangeproof_verify(L.ctx, byref(mn), byref(mx), cm, exact(proof), len(proof), extra if extra else None, len(extra), gobj)
        return r, mn.value, mx.value


def setup(cfg):
    return lambda: Env(cfg)


BLIND = 0x1F2E3D4C5B6A79880112233445566778899AABBCCDDEEFF00123456789ABCDEF


def build(env, spec):
    """spec = (exp, mantissa, min_value, vpattern, gi, extra, header_override_kind) -> (proof, commit point) or None"""
    exp, mantissa, minv, vpat, gi, extra, hov = spec
    H = env.gens[gi][1]
    scale = 10 ** max(exp, 0)
    if mantissa == 0:
        v = 0
    elif vpat == "zero":
        v = 0
    elif vpat == "max":
        v = (1 << mantissa) - 1
    elif vpat == "alt":
        v = int("1b" * 16, 16) & ((1 << mantissa) - 1)     # digits 3,2,1,0,... every signer position occurs
    else:
        v = int("e4" * 16, 16) & ((1 << mantissa) - 1)
    value = v * scale + minv
    rs = RP.ring_layout(mantissa)
    rings, npub = len(rs), sum(rs)
    secs = [5 + 2 * i for i in range(rings - 1)]
    ks = [11 + 3 * i for i in range(rings)]
    forged = [1 + (i % 3) for i in range(npub)]
    hdr = None
    if hov and hov.startswith("s0@"):
        forged[int(hov[3:])] = 0          # a forged ring scalar of ZERO chosen by the prover: the ring closes, the specification rejects it
    if hov and hov.startswith("sec0@"):
        secs[int(hov[5:])] = 0            # a digit commitment with zero blinding: the signer's own ring key is the point at infinity
    if hov == "bit7":
        b0 = ((64 | exp) if mantissa else 0) | (32 if minv else 0) | 128
        hdr = bytes([b0]) + (bytes([mantissa - 1]) if mantissa else b"") + (minv.to_bytes(8, "big") if minv else b"")
    return RP.prove(value, BLIND, H, exp, mantissa, minv, secs, ks, forged, extra, header_override=hdr)


def specs(thorough):
    out = []
    mants = list(range(0, 9)) + ([63, 64] if thorough else [])
    for exp in (0, 1, 18):
        for mant in mants:
            for minv in (0, 1):
                for vpat in (("alt",) if mant else ("zero",)):
                    if mant and RP.header(bytes([64 | exp, mant - 1]) + b"\x00" * 70) is None:
                        continue      # 2^mant * 10^exp does not fit: the honest header is invalid by itself
                    out.append((exp, mant, minv, vpat, 0, b"", None))
    # other digit patterns, second generator, extra data
    for mant in (2, 3, 5, 8):
        for vpat in ("zero", "max", "rev"):
            out.append((0, mant, 0, vpat, 0, b"", None))
    out.append((0, 4, 0, "alt", 1, b"", None))
    # more than 8 rings: the sign field spans several bytes (spare bits live in the LAST byte only)
    out.append((0, 19, 0, "alt", 0, b"", None))
    out.append((0, 24, 1, "alt", 0, b"", None))
    out.append((2, 5, 7, "alt", 1, b"extra-commit-data", None))
    out.append((0, 3, 0, "alt", 0, bytes(range(40)), None))
    return out


def header_specs():
    """proofs that are valid under a LENIENT parser only (the specified verifier must reject them)"""
    out = []
    for exp in range(19, 32):
        out.append((exp, 1, 0, "zero", 0, b"", None))          # exponent above 18 (value = 0 so any scale works)
    out.append((19, 1, 0, "max", 0, b"", None))
    out.append((0, 3, 0, "alt", 0, b"", "bit7"))                 # reserved top bit set, signature valid for that header
    out.append((0, 0, 5, "zero", 0, b"", "bit7"))
    out.append((0, 1, 2**64 - 1, "max", 0, b"", None))           # min + max wraps past 2^64
    out.append((0, 8, 2**64 - 200, "max", 0, b"", None))
    out.append((1, 4, 2**64 - 100, "max", 0, b"", None))
    out.append((18, 4, 0, "max", 0, b"", None))                  # 15 * 10^18 < 2^64 is fine (control: must be ACCEPTED)
    out.append((18, 5, 0, "zero", 0, b"", None))                 # 31 * 10^18 > 2^64: range overflow in the header
    out.append((0, 64, 1, "zero", 0, b"", None))                 # 2^64-1 + 1 wraps
    # zero ring scalars / ring keys at infinity chosen by the PROVER (valid ring equations), at early and late flat positions:
    # digits of the "alt" pattern are 3,2,1,0 so the non-signer positions are 0,1,2 | 4,5,7 | 8,10,11 | 13,14,15
    for pos in (0, 1, 2, 4, 5, 7, 8, 10, 11):
        out.append((0, 6, 0, "alt", 0, b"", "s0@%d" % pos))
    out.append((0, 4, 0, "alt", 0, b"", "s0@5"))
    out.append((1, 4, 1, "alt", 1, b"", "s0@7"))
    for t in (0, 1):
        out.append((0, 6, 0, "alt", 0, b"", "sec0@%d" % t))
    return out


def case_fn(env, case, st):
    L = env.L
    spec, part = case
    built = build(env, spec)
    if built is None:
        st.count("model-prover-no-proof")
        return
    proof, commit = built
    exp, mantissa, minv, vpat, gi, extra, hov = spec
    gobj, H = env.gens[gi]
    cm = env.commit_obj(commit)
    small = len(proof) <= 700

    def check(label, p, cmo=cm, cpt=commit, ex=extra, g=gi):
        exp_res = RP.verify(cpt, p, ex, env.gens[g][1])
        r, mn, mx = env.lib_verify(cmo, p, ex, env.gens[g][0])
        st.calls += 1
        st.count("%s-%s" % (label.split("@")[0], "accept" if exp_res else "reject"))
        if exp_res:
            st.nt((spec[:4], label))
        if (r == 1) != (exp_res is not None):
            st.fail("rangeproof_verify=%d but the specified verifier %s (%s)" % (r, "accepts" if exp_res else "rejects", label),
                    {"cfg": L.config, "spec": [str(x) for x in spec], "mutation": label, "proof": hx(p), "commit": hx(PD.commitment_serialize(cpt))})
        elif exp_res and (mn, mx) != exp_res:
            st.fail("rangeproof_verify reports range [%d,%d], specified [%d,%d] (%s)" % (mn, mx, exp_res[0], exp_res[1], label),
                    {"cfg": L.config, "spec": [str(x) for x in spec], "proof": hx(p)})
        # info must agree with the header reader
        e_, m_ = c_int(0), c_int(0)
        imn, imx = c_uint64(0), c_uint64(0)
        ri = L.rangeproof_info(L.ctx, byref(e_), byref(m_), byref(imn), byref(imx), exact(p), len(p))
        h = RP.header(p)
        st.calls += 1
        if (ri == 1) != (h is not None) or (h and (e_.value, m_.value, imn.value, imx.value) != (h["exp"], h["mantissa"], h["min_value"], h["max_value"])):
            st.fail("rangeproof_info disagrees with the header specification (%s)" % label, {"cfg": L.config, "proof": hx(p[:12]), "ret": ri})
        return exp_res

    if part != "core":
        _, lo, hi = part
        for bit in range(lo, min(hi, len(proof) * 8)):
            b = bytearray(proof)
            b[bit >> 3] ^= 1 << (bit & 7)
            check("bitflip", bytes(b))
        if L.illegal or L.errors:
            st.fail("callback fired", {"cfg": L.config, "spec": [str(x) for x in spec]})
            L.cb_reset()
        st.sample({"exp": exp, "mantissa": mantissa, "min_value": minv, "bit_flips": [lo, hi], "proof_len": len(proof)})
        return
    base_ok = check("asis", proof)
    lay = None
    try:
        lay = RP.layout(proof)
    except Exception:
        lay = None
    if lay is None:
        if L.illegal or L.errors:
            st.fail("callback fired", {"cfg": L.config})
            L.cb_reset()
        return
    # ---- scalar re-encodings: every ring scalar <- s+n (forged ones are 1..3 so it fits), <- 0, <- n
    for i, off in enumerate(lay["s"]):
        sv = i32(proof[off:off + 32])
        for lab, nv in (("s+n", sv + N), ("s=0", 0), ("s=n", N), ("s+1", (sv + 1) % N)):
            if nv >= 2**256:
                st.count("s+n-does-not-fit")
                continue
            if lab in ("s=n", "s+1") and i % 3:
                continue
            check("%s@%d" % (lab, i), proof[:off] + b32(nv) + proof[off + 32:])
    # ---- e0
    off = lay["e0"]
    check("e0^1", proof[:off + 31] + bytes([proof[off + 31] ^ 1]) + proof[off + 32:])
    # ---- digit commitments
    for i, off in enumerate(lay["digits"]):
        x = i32(proof[off:off + 32])
        if x + P < 2**256:
            check("x+p@%d" % i, proof[:off] + b32(x + P) + proof[off + 32:])
        xx = x + 1
        while SECP.lift_x(xx % P) is not None:
            xx += 1
        check("x-offcurve@%d" % i, proof[:off] + b32(xx % P) + proof[off + 32:])
        check("x=p@%d" % i, proof[:off] + b32(P) + proof[off + 32:])
        check("x=2^256-1@%d" % i, proof[:off] + b"\xff" * 32 + proof[off + 32:])
    # ---- sign bits: flip each used bit, set each spare bit
    so, sl = lay["signs"]
    for bit in range(sl * 8):
        b = bytearray(proof)
        b[so + (bit >> 3)] ^= 1 << (bit & 7)
        check("%s@%d" % ("signbit" if bit < lay["rings"] - 1 else "sparebit", bit), bytes(b))
    # ---- header mutations (signature no longer matches: all must be rejected, none may crash)
    for lab, hb in (("hdr-bit7", proof[0] | 128), ("hdr-exp19", (proof[0] & 0xE0) | 19), ("hdr-exp31", proof[0] | 31), ("hdr-nomin", proof[0] ^ 32), ("hdr-norange", proof[0] ^ 64)):
        check(lab, bytes([hb]) + proof[1:])
    if mantissa:
        for mb in (0, 63, 64, 65, 127, 255):
            check("mantissa-byte=%d" % mb, proof[:1] + bytes([mb]) + proof[2:])
    # ---- length
    for k in (1, 2, 31, 32, 33):
        check("trailing+%d" % k, proof + b"\x00" * k)
        check("truncated-%d" % k, proof[:-k])
    check("len64", proof[:64])
    check("len0", b"")
    # declared lengths that differ from the real one only ABOVE bit 31 (len + 2^32, len + 2^33): the proof sits at the start of a
    # sparse mapping of that size, so every byte the declared length covers is readable (zeros); the specification rejects the
    # trailing bytes, a length kept in a 32-bit variable does not see them
    if part == "core" and len(proof) <= 700 and mantissa in (0, 3) and exp == 0:
        from ..lib import sparse
        for k in (1, 2):
            total = len(proof) + k * 2**32
            try:
                addr = sparse(proof, total)
            except (OSError, MemoryError, ValueError, OverflowError):
                st.count("sparse-mapping-unavailable")       # e.g. strict overcommit: this sub-case is skipped, never a verdict
                continue
            mn_, mx_ = c_uint64(0), c_uint64(0)
            r_ = L.rangeproof_verify(L.ctx, byref(mn_), byref(mx_), cm, ctypes.c_void_p(addr), total, extra if extra else None, len(extra), gobj)
            st.calls += 1
            st.count("len+2^32-reject")
            if r_ != 0:
                st.fail("rangeproof_verify accepted a proof followed by %d * 2^32 trailing (zero) bytes" % k, {"cfg": L.config, "spec": [str(x) for x in spec], "declared_length": total})
    # ---- other commitment / generator / extra data
    c2 = SECP.add(commit, SECP.G)
    check("other-commit", proof, env.commit_obj(c2), c2)
    check("negated-commit", proof, env.commit_obj(SECP.neg(commit)), SECP.neg(commit))
    check("other-generator", proof, cm, commit, extra, 1 - gi)
    check("extra+byte", proof, cm, commit, extra + b"\x00")
    if extra:
        for bit in range(0, len(extra) * 8, 3):
            e2 = bytearray(extra)
            e2[bit >> 3] ^= 1 << (bit & 7)
            check("extra-bitflip", proof, cm, commit, bytes(e2))
        check("extra-empty", proof, cm, commit, b"")
    if L.illegal or L.errors:
        st.fail("callback fired", {"cfg": L.config, "spec": [str(x) for x in spec]})
        L.cb_reset()
    st.sample({"exp": exp, "mantissa": mantissa, "min_value": minv, "digits": vpat, "proof_len": len(proof), "model_accepts": base_ok is not None})


def header_case(env, spec, st):
    """lenient-parser-valid proofs: only the as-is verdict matters"""
    L = env.L
    built = build(env, spec)
    if built is None:
        st.count("model-prover-no-proof")
        return
    proof, commit = built
    cm = env.commit_obj(commit)
    exp_res = RP.verify(commit, proof, spec[5], env.gens[spec[4]][1])
    r, mn, mx = env.lib_verify(cm, proof, spec[5], env.gens[spec[4]][0])
    st.calls += 1
    st.count("lenient-%s" % ("accept" if exp_res else "reject"))
    st.nt(spec[:4])
    if (r == 1) != (exp_res is not None) or (exp_res and (mn, mx) != exp_res):
        st.fail("rangeproof_verify=%d [%d,%d], specified verifier: %s - proof built for header exp=%s mantissa=%s min=%s override=%s" % (r, mn, mx, exp_res, spec[0], spec[1], spec[2], spec[6]),
                {"cfg": L.config, "spec": [str(x) for x in spec], "proof": hx(proof)})
    e_, m_ = c_int(0), c_int(0)
    imn, imx = c_uint64(0), c_uint64(0)
    ri = L.rangeproof_info(L.ctx, byref(e_), byref(m_), byref(imn), byref(imx), exact(proof), len(proof))
    h = RP.header(proof)
    if (ri == 1) != (h is not None):
        st.fail("rangeproof_info=%d, header specification says %s" % (ri, "valid" if h else "invalid"), {"cfg": L.config, "proof": hx(proof[:12])})
    if L.illegal or L.errors:
        st.fail("callback fired", {"cfg": L.config})
        L.cb_reset()
    st.sample({"spec": [str(x) for x in spec], "model": str(exp_res)})


def small_x_point():
    x = 1
    while SECP.lift_x(x) is None:
        x += 1
    return SECP.lift_x(x)


def smallx_case(env, case, st):
    """Adversarial generator: H = (j*4^t*10^exp)^-1 * (P - k*G) for a curve point P with a tiny x coordinate, so that
    the digit commitment of ring t (digit j, blinding k) IS the point P.  The proof is built twice: with the canonical
    x (must verify) and with x+p written and hashed in its place (the specified verifier rejects x >= p; a verifier
    that reduces mod p accepts, because the ring signature is valid for exactly those bytes)."""
    L = env.L
    exp, mantissa, t, v = case
    Pt = small_x_point()
    k = 0x1234567
    rs = RP.ring_layout(mantissa)
    rings, npub = len(rs), sum(rs)
    scale = 10 ** max(exp, 0)
    j = (v >> (2 * t)) & 3
    assert j != 0 and t < rings - 1
    coef = (j * scale) << (2 * t)
    H = SECP.mul(pow(coef, -1, N), SECP.add(Pt, SECP.neg(SECP.mulG(k))))
    gobj = buf(64)
    if L.generator_parse(L.ctx, gobj, PD.generator_serialize(H)) != 1:
        st.fail("generator_parse rejects a valid curve point", {"cfg": L.config})
        return
    secs = [5 + 2 * i for i in range(rings - 1)]
    secs[t] = k
    ks = [11 + 3 * i for i in range(rings)]
    forged = [1 + (i % 3) for i in range(npub)]
    for lab, ov in (("canonical-x", None), ("x+p", {t: b32(Pt[0] + P)}), ("x+2p" if Pt[0] + 2 * P < 2**256 else None, {t: b32((Pt[0] + 2 * P) % 2**256)})):
        if lab is None:
            continue
        built = RP.prove(v * scale, BLIND, H, exp, mantissa, 0, secs, ks, forged, b"", digit_x_override=ov)
        if built is None:
            st.count("model-prover-no-proof")
            continue
        proof, commit = built
        lay = RP.layout(proof)
        if ov is None and i32(proof[lay["digits"][t]:lay["digits"][t] + 32]) != Pt[0]:
            raise RuntimeError("construction failed: digit commitment is not the small-x point")
        want = RP.verify(commit, proof, b"", H)
        if (want is not None) != (ov is None):
            raise RuntimeError("model: canonical proof must verify and the x+p proof must not")
        cm = env.commit_obj(commit)
        r, mn, mx = env.lib_verify(cm, proof, b"", gobj)
        st.calls += 1
        st.count("smallx-%s-%s" % (lab, "accept" if want else "reject"))
        if want:
            st.nt(case)
        if (r == 1) != (want is not None) or (want and (mn, mx) != want):
            st.fail("rangeproof_verify=%d on a proof whose digit commitment %d is encoded as %s (x = %d): specified verifier %s" % (r, t, lab, Pt[0], "accepts" if want else "rejects (x >= p)"),
                    {"cfg": L.config, "exp": exp, "mantissa": mantissa, "ring": t, "encoding": lab, "proof": hx(proof), "commit": hx(PD.commitment_serialize(commit)), "generator": hx(PD.generator_serialize(H))})
    if L.illegal or L.errors:
        st.fail("callback fired", {"cfg": L.config})
        L.cb_reset()
    st.sample({"exp": exp, "mantissa": mantissa, "ring_with_small_x": t, "x": Pt[0], "encodings": ["x", "x+p"]})


def info_case(env, b0, st):
    """rangeproof_info over every (byte0=b0, byte1) x min_value bytes x lengths"""
    L = env.L
    e_, m_ = c_int(0), c_int(0)
    imn, imx = c_uint64(0), c_uint64(0)
    for b1 in range(256):
        for mv in (0, 1, 2**63, 2**64 - 1, 2**64 - 256, 0x0102030405060708):
            full = bytes([b0, b1]) + mv.to_bytes(8, "big") + b"\x5a" * 80
            for plen in (0, 1, 64, 65, 66, 73, 74, 90):
                p = full[:plen]
                ri = L.rangeproof_info(L.ctx, byref(e_), byref(m_), byref(imn), byref(imx), exact(p), plen)
                h = RP.header(p)
                st.calls += 1
                if (ri == 1) != (h is not None) or (h and (e_.value, m_.value, imn.value, imx.value) != (h["exp"], h["mantissa"], h["min_value"], h["max_value"])):
                    st.fail("rangeproof_info(%s.., len %d) = %d (exp %d mantissa %d [%d,%d]); header specification: %s" % (hx(p[:10]), plen, ri, e_.value, m_.value, imn.value, imx.value, h),
                            {"cfg": L.config, "proof": hx(p[:12]), "plen": plen})
                st.count("info-valid" if h else "info-invalid")
                if h:
                    st.nt((b0, b1, mv))
    if L.illegal or L.errors:
        st.fail("callback fired", {"cfg": L.config})
        L.cb_reset()
    st.sample({"byte0": b0, "byte1": "0..255", "min_values": 6, "lengths": 8})


def main():
    a = args()
    run = Run(PID, a.tier)
    thorough = a.tier == "thorough"
    cfgs = ["prod-san", "prod-verify"]
    B.build_many(cfgs)
    for b in cfgs:
        run.cov["builds"][b] = B.source_hash()[:16]
    sp = specs(thorough)
    env0 = Env(cfgs[0])
    for cfg in cfgs:
        first = cfg == cfgs[0]
        cases = [(x, "core") for x in (sp if (first or thorough) else sp[::3])]
        if first or thorough:
            for x in sp:
                if x[1] <= (8 if thorough else 3) and x[0] == 0 and x[3] == "alt" or x[1] == 0 and x[0] == 0:
                    b_ = build(env0, x)
                    if b_ is not None:
                        nb = len(b_[0]) * 8
                        for lo in range(0, nb, 128):
                            cases.append((x, ("bits", lo, lo + 128)))
        run_phase(run, "%s/model-prover-mutations" % cfg, case_fn, cases, setup=setup(cfg),
                  rule="model-built proofs for exp {0,1,18} x mantissa 0..8 (thorough +63,64) x has_min x digit patterns (every signer position) with forged scalars 1..3; per proof: as-is, every ring scalar <- s+n / 0 / n / s+1, e0^1, digit x <- x+p / off-curve / p / 2^256-1, every sign bit and spare bit, header bits, mantissa byte, trailing / truncated lengths, other / negated commitment, other generator, extra-data changes, and every single-bit flip for the exp-0 proofs with mantissa <= 3 (thorough <= 8); model verifier decides; reported range compared")
        run_phase(run, "%s/lenient-header-proofs" % cfg, header_case, header_specs(), setup=setup(cfg),
                  rule="proofs whose ring signature is VALID for a header the specification forbids (exponent 19..31, reserved bit 7, min+max wrapping past 2^64, 2^mantissa*10^exp overflow): only a verifier with the exact header checks rejects them; and proofs whose PROVER chose a zero ring scalar (every non-signer flat position of a 3-ring proof) or a zero digit blinding factor (ring key at infinity): the ring equations hold, only the per-member zero / infinity rule rejects them")
        run_phase(run, "%s/noncanonical-digit-x" % cfg, smallx_case, [(0, 3, 0, 5), (0, 4, 0, 6), (1, 4, 0, 7), (0, 6, 1, 0b100110), (0, 6, 0, 0b100110), (2, 5, 1, 0b01101)], setup=setup(cfg),
                  rule="proofs over an adversarially chosen generator for which one digit commitment is a curve point with x = 1..: built with the canonical x (accept) and with x+p written and hashed in its place (a VALID ring signature over non-canonical bytes; only the x < p check rejects it); exp in {0,1,2}, mantissa 3..6, ring 0 / 1")
        run_phase(run, "%s/info-total" % cfg, info_case, list(range(256)) if first or thorough else list(range(0, 256, 5)), setup=setup(cfg),
                  rule="rangeproof_info for EVERY (byte0, byte1) in 256^2 x 6 min_value encodings x 8 lengths against the header specification")
        if run.out_of_time():
            run.cov["exhaustive"] = False
            break
    run.assumptions += ["adversarial proofs come from the model prover over the forged-scalar alphabet {1,2,3} (+n); Borromean code is dead in the small-group builds",
                        "proof byte strings outside the listed mutation alphabet are not explored"]
    sys.exit(run.finish())


if __name__ == "__main__":
    main()
