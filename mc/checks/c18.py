"""C18 ECDH and ElligatorSwift exchanges agree with the group law and with each other.
E1 (secp256k1, several build configurations): boundary alphabets and model-constructed special inputs for
ecdh, ellswift_decode / encode / create / xdh and the static maps behind them; E2 (sg13): ecdh, the x-only
ladder and create/decode/xdh enumerated totally over the group.  Every case runs the real library and the
Python reference (mc/model/ellswift.py, mc/model/ecdh.py) and compares every observable."""
import os, sys, ctypes, itertools, time
from ctypes import c_int, c_void_p, CFUNCTYPE
from ..core import Run, run_phase, Violation, hx, seeded_fillers
from ..util import *
from ..model import ellswift as W
from ..model import ecdh as D
from .. import build as B

PID = "C18"
_L = {}
# Private build directory (same naming and hashing below it).  build.py evicts "<cfg>-<otherhash>" siblings whenever it
# builds; while several people run checks and the shim directory changes, runs with different hashes delete each
# other's libraries mid-run.  Keeping C18's objects one level down makes the run independent of that (and C18 evicts
# nobody).  Cost: one ~10 s parallel build the first time.
B.BUILD = os.path.join(B.BUILD, "c18")
M256 = 2**256

ECDH_FN = CFUNCTYPE(c_int, c_void_p, c_void_p, c_void_p, c_void_p)
XDH_FN = CFUNCTYPE(c_int, c_void_p, c_void_p, c_void_p, c_void_p, c_void_p)


def lib(cfg):
    """Loaded once in the parent (preload) so that forked workers inherit the mapped library: the shared build
    cache evicts directories when somebody else builds with a different shim hash, which must not stall a worker."""
    if cfg not in _L:
        last = None
        for attempt in range(6):
            try:
                _L[cfg] = Lib(cfg)
                break
            except (OSError, SystemExit) as e:  # evicted between build and dlopen, or while compiling
                last = e
                time.sleep(2 + 3 * attempt)
        else:
            sys.stderr.write("C18: cannot build/load %s: %r\n" % (cfg, last))
            sys.exit(2)
    return _L[cfg]


# ------------------------------------------------------------------ environment (per worker)
class Env:
    """library handle + the Python hash callbacks (created once per worker; they log every invocation)"""

    def __init__(self, cfg, small=False):
        L = self.L = lib(cfg)
        self.cfg = cfg
        if small:
            self.C, self.pts = small_group(L)
        else:
            self.C, self.pts = SECP, None
        self.log = []
        log = self.log

        def ecdh_xy(out, x32, y32, data):
            x, y = ctypes.string_at(x32, 32), ctypes.string_at(y32, 32)
            log.append((x, y, data))
            ctypes.memmove(out, x + y, 64)
            return 1

        def ecdh_fail(out, x32, y32, data):
            log.append((ctypes.string_at(x32, 32), ctypes.string_at(y32, 32), data))
            return 0

        def xdh_copy(out, x32, a64, b64, data):
            x, a, b = ctypes.string_at(x32, 32), ctypes.string_at(a64, 64), ctypes.string_at(b64, 64)
            log.append((x, a, b, data))
            ctypes.memmove(out, x + a + b, 160)
            return 1

        def xdh_fail(out, x32, a64, b64, data):
            log.append((ctypes.string_at(x32, 32), ctypes.string_at(a64, 64), ctypes.string_at(b64, 64), data))
            return 0
        self.ecdh_xy, self.ecdh_fail = ECDH_FN(ecdh_xy), ECDH_FN(ecdh_fail)
        self.xdh_copy, self.xdh_fail = XDH_FN(xdh_copy), XDH_FN(xdh_fail)
        self.ecdh_sha256 = L.var_ptr("secp256k1_ecdh_hash_function_sha256")
        self.ecdh_default = L.var_ptr("secp256k1_ecdh_hash_function_default")
        self.xdh_bip324 = L.var_ptr("secp256k1_ellswift_xdh_hash_function_bip324")
        self.xdh_prefix = L.var_ptr("secp256k1_ellswift_xdh_hash_function_prefix")
        self.data = buf(bytes(range(64)))
        self.data_addr = ctypes.addressof(self.data)


def env_setup(cfg, small=False):
    def f():
        return Env(cfg, small)
    return f


def check_cb(env, st, what):
    L = env.L
    if L.illegal or L.errors:
        st.fail("callback fired on legal input (illegal=%d error=%d)" % (L.illegal, L.errors), what)
        L.cb_reset()


def pk_of(env, Q):
    return pubkey_from_point(env.L, Q, env.C)


# ------------------------------------------------------------------ alphabets
def fe_alphabet(full, tag):
    """32-byte strings for u / t as integers in [0, 2^256): includes >= p encodings"""
    base = [0, 1, 2, 3, P - 3, P - 2, P - 1, P, P + 1, P + 2, M256 - 2, M256 - 1, 2**32 + 976, 2**32 + 977,
            W.C0, P - W.C0, W.C1, W.C2, W.C3, W.C4, BETA, BETA * BETA % P, (-2 * BETA) % P, (-2 * BETA * BETA) % P,
            2**255, (P - 1) // 2, (P + 1) // 2]
    if full:
        for k in sorted(set(list(range(26, 256, 26)) + list(range(32, 256, 32)) + list(range(52, 256, 52)) + list(range(64, 256, 64)))):
            base += [2**k - 1, 2**k, 2**k + 1]
        base += [int("55" * 32, 16), int("AA" * 32, 16), int("ffffffff00000000" * 4, 16), int("00000000ffffffff" * 4, 16)]
    base += [i32(f) for f in seeded_fillers(2, tag)]
    out, seen = [], set()
    for v in base:
        if v not in seen:
            seen.add(v)
            out.append(v)
    return out


def cube_roots(a):
    """all u with u^3 = a (p = 7 mod 9: a^((p+2)/9) is a root when a is a cube)"""
    a %= P
    r = pow(a, (P + 2) // 9, P)
    if pow(r, 3, P) != a:
        return []
    return sorted({r, r * BETA % P, r * BETA * BETA % P})


def enc_variants(v):
    """the 32-byte encodings of field element v: v and, where it fits, v + p"""
    v %= P
    return [v] + ([v + P] if v + P < M256 else [])


def decode_families():
    """(u, t, tag) inputs built by the model for the exceptional / special cases of the forward map"""
    out = []
    C = SECP
    # --- u^3 + t^2 + 7 = 0 ("double t" remap), from chosen u ...
    got = {"x3": 0, "x2": 0, "x1": 0}
    u = 0
    us = []
    while u < 400 and (min(got.values()) < 4 or u < 60):
        u += 1
        t = C.sqrt(-(u**3 + 7) % P)
        if t is None:
            continue
        us.append(u)
        got[W.xswiftec_ex(u, t)[1]] += 1
    assert min(got.values()) >= 4, "family search did not reach every branch"
    for u in us + [P - 4, BETA, W.C1, (P - 1) // 2, 2**255 % P, W.C0]:
        t = C.sqrt(-(u**3 + 7) % P)
        if t is None:
            continue
        for ue in enc_variants(u):
            for te in enc_variants(t) + enc_variants(P - t):
                out.append((ue, te, "dbl/u"))
    # --- ... and from chosen t (u = any cube root of -(t^2+7))
    for t in [1, 2, 3, 4, 5, 6, 7, P - 1, P - 2, W.C0, BETA, 2**128, (P - 1) // 2, 2**32 + 976]:
        for u in cube_roots(-(t * t + 7)):
            for ue in enc_variants(u):
                for te in enc_variants(t) + enc_variants(P - t):
                    out.append((ue, te, "dbl/t"))
    # --- t = 0 (-> 1) combined with u^3 + 8 = 0: both remaps at once; and u = 0 with the t's around
    for u in cube_roots(-8):
        for te in [0, P, 1, P + 1, P - 1, 2, P - 2]:
            out.append((u, te, "dbl+t0"))
    # --- X = 0: t^2 = u^3 + 7, i.e. (u, t) is itself a curve point (x1 = x2 = -u/2)
    for Q, tag in point_alphabet():
        for te in enc_variants(Q[1]) + enc_variants(P - Q[1]):
            for ue in enc_variants(Q[0]):
                out.append((ue, te, "X=0"))
    # --- u = -2 x for valid x would make x1 = x2 = x: neighbours of it
    seen, res = set(), []
    for c in out:
        if c[:2] not in seen:
            seen.add(c[:2])
            res.append(c)
    return res


_PT = None


def point_alphabet():
    """PT: (point, tag)"""
    global _PT
    if _PT is not None:
        return _PT
    C = SECP
    out = [(C.G, "G"), (C.mulG(2), "2G"), (C.mulG(3), "3G"), (C.neg(C.G), "-G"), ((BETA * C.G[0] % P, C.G[1]), "lambda*G"),
           (C.mulG((N - 1) // 2), "(n-1)/2*G"), (C.mulG((N + 1) // 2), "(n+1)/2*G"), (C.mulG(2**128), "2^128*G")]
    # small x (x + p fits in 32 bytes), both parities for the first
    x, k = 0, 0
    while k < 3:
        x += 1
        if C.lift_x(x) is not None:
            out.append((C.lift_x(x, 0), "x=%d/even" % x))
            if k == 0:
                out.append((C.lift_x(x, 1), "x=%d/odd" % x))
            k += 1
    x = 2**32 + 977
    while C.lift_x(x) is None:
        x -= 1
    out.append((C.lift_x(x, 1), "x<2^32+977"))
    x = P - 1
    k = 0
    while k < 2:
        if C.lift_x(x) is not None:
            out.append((C.lift_x(x, k), "x~p"))
            k += 1
        x -= 1
    x = N
    while C.lift_x(x) is None:
        x += 1
    out.append((C.lift_x(x, 0), "x>=n"))
    x = N - 1
    while C.lift_x(x) is None:
        x -= 1
    out.append((C.lift_x(x, 1), "x<n"))
    # y quadratic residue / non-residue, y small
    out.append((C.lift_x(C.G[0], 1 - (C.G[1] & 1)), "G/other-y"))
    for f in seeded_fillers(2, b"c18pt"):
        out.append((C.mulG(i32(f) % N or 1), "filler"))
    for Q, _ in out:
        assert C.on_curve(Q)
    _PT = out
    return out


def secret_alphabet():
    """SC plus lambda-related scalars (the GLV split of the constant-time ladder)"""
    lam = LAMBDA
    extra = [lam - 1, N - lam + 1, (lam * lam - 1) % N, (lam - lam * lam) % N, (lam * lam - lam) % N, lam + 1, N - lam - 1,
             2 * lam % N, (N - 1) // 3, 2**129, 2**129 - 1]
    out = sc_alphabet()
    for v in extra:
        if v not in out:
            out.append(v)
    return out


def keys_small():
    f = i32(seeded_fillers(1, b"c18k")[0]) % N or 1
    ks = [1, 2, 3, N - 1, N - 2, (N - 1) // 2, (N + 1) // 2, LAMBDA, N - LAMBDA, 2**128, (LAMBDA - 1) % N, f]
    return ks


BAD_SECRETS = [0, N, N + 1, P, M256 - 1]


# ------------------------------------------------------------------ ECDH
def ecdh_one(env, st, pk, Q, s, what):
    """all hash choices for one (secret encoding s, peer point Q)"""
    L, C = env.L, env.C
    s32 = b32(s)
    R = D.shared_point(s32, Q, C)
    variants = (("null", None, 32), ("sha256", env.ecdh_sha256, 32), ("default", env.ecdh_default, 32),
                ("xy", env.ecdh_xy, 64), ("cbfail", env.ecdh_fail, 64))
    for name, fp, olen in variants:
        out = buf(b"\x5a" * olen)
        del env.log[:]
        data = env.data if name in ("xy", "cbfail", "sha256") else None
        ret = L.ecdh(L.ctx, out, pk, exact(s32), fp, data)
        st.calls += 1
        info = dict(what, secret=hex(s), hash=name, ret=ret)
        if R is None:
            st.count("ecdh-invalid-secret")
            if ret != 0:
                st.fail("ecdh returned %d for a zero / out-of-range secret" % ret, info)
            continue
        x32, y32 = b32(R[0]), b32(R[1])
        if name in ("xy", "cbfail"):
            if len(env.log) != 1 or env.log[0][:2] != (x32, y32) or env.log[0][2] != env.data_addr:
                st.fail("ecdh hash callback: expected exactly one call with the coordinates of secret*P and the caller's data pointer",
                        dict(info, calls=len(env.log), got=[hx(v) if isinstance(v, bytes) else v for v in (env.log[0] if env.log else ())],
                             model_x=hx(x32), model_y=hx(y32)))
        if name == "cbfail":
            st.count("ecdh-callback-fails")
            if ret != 0:
                st.fail("ecdh returned %d although the hash callback returned 0" % ret, info)
            continue
        exp = x32 + y32 if name == "xy" else D.hash_sha256(x32, y32)
        st.count("ecdh-ok")
        st.nt(("ecdh", s, Q[0], Q[1] & 1))
        if ret != 1 or out.raw != exp:
            st.fail("ecdh output differs from hash(coordinates of secret*P)", dict(info, got=hx(out.raw), model=hx(exp)))


def ecdh_case(env, case, st):
    """case = (Q, tag, secrets)"""
    Q, tag, secrets = case
    pk = pk_of(env, Q)
    what = {"cfg": env.cfg, "P": [hex(Q[0]), hex(Q[1])], "why": tag}
    for s in secrets:
        ecdh_one(env, st, pk, Q, s, what)
    check_cb(env, st, what)
    st.sample({"peer": hex(Q[0]), "why": tag, "secrets": len(secrets), "hashes": "NULL, sha256, default, custom x||y, custom failing"})


def ecdh_agree_case(env, case, st):
    """case = (a, others): ecdh(a, b*G) == ecdh(b, a*G) == model, for every b"""
    L, C = env.L, env.C
    a, others = case
    G = C.G
    mulG = (lambda k: C.mulG(k)) if C is SECP else (lambda k: C.mul(k, G))
    A = mulG(a)
    pkA = pk_of(env, A)
    for b in others:
        Bp = mulG(b)
        pkB = pk_of(env, Bp)
        o1, o2 = buf(32), buf(32)
        r1 = L.ecdh(L.ctx, o1, pkB, b32(a), None, None)
        r2 = L.ecdh(L.ctx, o2, pkA, b32(b), None, None)
        st.calls += 2
        S = mulG(a * b % C.n)
        exp = D.hash_sha256(b32(S[0]), b32(S[1]))
        st.count("ecdh-both-parties")
        st.nt(("agree", min(a, b), max(a, b)))
        if r1 != 1 or r2 != 1 or o1.raw != o2.raw or o1.raw != exp:
            st.fail("the two parties of an ECDH exchange derive different secrets (or not the model's)",
                    {"cfg": env.cfg, "a": hex(a), "b": hex(b), "A_side": hx(o1.raw), "B_side": hx(o2.raw), "model": hx(exp)})
    check_cb(env, st, {"cfg": env.cfg, "a": hex(a)})


# ------------------------------------------------------------------ ellswift decode
def real_decode(env, st, ell64):
    L = env.L
    pk = buf(b"\xee" * 64)
    ret = L.ellswift_decode(L.ctx, pk, exact(ell64))
    st.calls += 1
    return ret, (point_from_pubkey(L, pk) if ret == 1 else None)


def decode_one(env, st, u, t, tag):
    L, C = env.L, env.C
    ell = b32(u) + b32(t)
    x, which, remaps = W.xswiftec_ex(u, t, C)
    exp = C.lift_x(x, (t % C.p) & 1)
    ret, got = real_decode(env, st, ell)
    bucket = which + ("/" + "+".join(remaps) if remaps else "") + ("/enc>=p" if (u >= C.p or t >= C.p) else "")
    st.count("decode-" + bucket)
    if remaps or u >= C.p or t >= C.p or tag:
        st.nt(("dec", u, t))
    if ret != 1 or got != exp or not C.on_curve(got):
        st.fail("ellswift_decode differs from the ElligatorSwift map (%s)" % bucket,
                {"cfg": env.cfg, "ell64": hx(ell), "why": tag, "ret": ret, "got": [hex(v) for v in got] if got else None,
                 "model": [hex(v) for v in exp]})
    xo = buf(32)
    L.verif_c18_xswiftec(xo, ell[:32], ell[32:])
    st.calls += 1
    if i32(xo.raw) != x:
        st.fail("xswiftec (static forward map) differs from the model (%s)" % bucket,
                {"cfg": env.cfg, "ell64": hx(ell), "got": hx(xo.raw), "model": hex(x)})


def decode_grid_case(env, case, st):
    """case = (u, ts)"""
    u, ts = case
    for t in ts:
        decode_one(env, st, u, t, "")
    check_cb(env, st, {"cfg": env.cfg, "u": hex(u)})
    st.sample({"u": hex(u), "t_values": len(ts)})


def decode_family_case(env, case, st):
    u, t, tag = case
    decode_one(env, st, u, t, tag)
    check_cb(env, st, {"cfg": env.cfg, "u": hex(u), "t": hex(t)})
    st.sample({"u": hex(u), "t": hex(t), "why": tag})


# ------------------------------------------------------------------ inverse map
def inv_families():
    """(x, u, tag): inputs for the special cases of G_{c,u}(x)"""
    C = SECP
    out = []
    # s = x - u = 0
    for Q, tag in point_alphabet()[:8]:
        out.append((Q[0], Q[0], "s=0"))
    # r = 0 with s != 0: s = -4 g(u) / (3 u^2), x = u + s on the curve and s square
    u, k = 0, 0
    while k < 6 and u < 2000:
        u += 1
        s = -4 * (u**3 + 7) * pow(3 * u * u, -1, P) % P
        x = (u + s) % P
        if W.valid_x(x) and C.is_square(s):
            out.append((x, u, "r=0"))
            k += 1
    assert k >= 3, "r=0 family not found"
    # -u-x is / is not a valid x coordinate with u = -2x (x1 = x2)
    for Q, tag in point_alphabet()[:6]:
        out.append((Q[0], (-2 * Q[0]) % P, "u=-2x"))
        out.append((Q[0], (-Q[0]) % P, "u=-x"))
    return out


def inv_case(env, case, st):
    """case = (x, us, tag): every branch c = 0..7 for each u"""
    L, C = env.L, env.C
    x, us, tag = case
    x32 = b32(x)
    for u in us:
        if u % C.p == 0:
            continue
        u32 = b32(u)
        for c in range(8):
            tb = buf(b"\x11" * 32)
            ret = L.verif_c18_xswiftec_inv(tb, x32, u32, c)
            st.calls += 1
            exp = W.xswiftec_inv(x, u, c, C)
            info = {"cfg": env.cfg, "x": hex(x), "u": hex(u), "c": c, "why": tag, "ret": ret,
                    "got_t": hx(tb.raw) if ret == 1 else None, "model_t": hex(exp) if exp is not None else None}
            st.count("inv-c%d-%s" % (c, "t" if exp is not None else "bottom"))
            if ret == 1:
                t = i32(tb.raw)
                if W.xswiftec(u, t, C) != x:
                    st.fail("xswiftec_inv returned a t that does not map back to x", info)
                    continue
                xo = buf(32)
                L.verif_c18_xswiftec(xo, u32, tb.raw)
                st.calls += 1
                if i32(xo.raw) != x:
                    st.fail("library forward map does not take its own inverse result back to x", info)
            if (ret == 1) != (exp is not None) or (ret == 1 and i32(tb.raw) != exp) or ret not in (0, 1):
                st.fail("xswiftec_inv differs from G_{c,u}(x) of doc/ellswift.md 3.5 / BIP-324", info)
            if exp is not None:
                st.nt(("inv", x, u, c))
    check_cb(env, st, {"cfg": env.cfg, "x": hex(x)})
    st.sample({"x": hex(x), "u_values": len(us), "why": tag})


# ------------------------------------------------------------------ encode / create
def roundtrip(env, st, ell, Q, info, what):
    C = env.C
    m = W.decode(ell, C)
    ret, got = real_decode(env, st, ell)
    if m != Q:
        st.fail("%s: the produced encoding does not decode (reference map) to the key" % what,
                dict(info, ell64=hx(ell), decodes_to=[hex(v) for v in m]))
        return False
    if ret != 1 or got != Q:
        st.fail("%s: ellswift_decode of the produced encoding is not the key" % what, dict(info, ell64=hx(ell)))
        return False
    return True


def encode_case(env, case, st):
    """case = (Q, tag, rnds)"""
    L, C = env.L, env.C
    Q, tag, rnds = case
    pk = pk_of(env, Q)
    for rnd in rnds:
        out = buf(b"\x77" * 64)
        ret = L.ellswift_encode(L.ctx, out, pk, exact(rnd))
        st.calls += 1
        info = {"cfg": env.cfg, "P": [hex(Q[0]), hex(Q[1])], "why": tag, "rnd32": hx(rnd), "ret": ret}
        if ret != 1:
            st.fail("ellswift_encode returned %d for a valid key" % ret, info)
            continue
        ok = roundtrip(env, st, out.raw, Q, info, "ellswift_encode")
        ex = W.encode_ex(Q, rnd, C)
        if ok:
            st.nt(("enc", Q[0], Q[1] & 1, rnd))
            if out.raw == ex.ell64:
                st.count("encode-ok/branch-c%d%s" % (ex.c, "/t-negated" if ex.negated else ""))
                st.count("encode-search-iterations", ex.iterations)
            else:
                # allowed by the header ("not guaranteed stable"): recorded, not a violation
                st.count("encode-ok/bytes-differ-from-documented-search")
    check_cb(env, st, {"cfg": env.cfg, "P": hex(Q[0])})
    st.sample({"P": hex(Q[0]), "why": tag, "rnd_values": len(rnds)})


def create_case(env, case, st):
    """case = (key, auxes)"""
    L, C = env.L, env.C
    key, auxes = case
    k32 = b32(key)
    valid = 1 <= key < C.n
    Q = None
    if valid:
        Q = C.mulG(key) if C is SECP else C.mul(key, C.G)
    for aux in auxes:
        out = buf(b"\x77" * 64)
        ret = L.ellswift_create(L.ctx, out, exact(k32), exact(aux) if aux is not None else None)
        st.calls += 1
        info = {"cfg": env.cfg, "seckey": hex(key), "aux": hx(aux), "ret": ret}
        if not valid:
            st.count("create-invalid-key")
            if ret != 0:
                st.fail("ellswift_create returned %d for an invalid secret key" % ret, info)
            continue
        if ret != 1:
            st.fail("ellswift_create returned %d for a valid secret key" % ret, info)
            continue
        ok = roundtrip(env, st, out.raw, Q, info, "ellswift_create")
        ex = W.create_ex(k32, aux, C)
        if ok:
            st.nt(("create", key, aux))
            if out.raw == ex.ell64:
                st.count("create-ok/branch-c%d%s" % (ex.c, "/t-negated" if ex.negated else ""))
            else:
                st.count("create-ok/bytes-differ-from-documented-search")
    check_cb(env, st, {"cfg": env.cfg, "seckey": hex(key)})
    st.sample({"seckey": hex(key), "aux_values": len(auxes)})


# ------------------------------------------------------------------ xdh
def xdh_one(env, st, s, theirs, ours, what):
    """all (party, hash) choices for one (secret encoding s, peer encoding)"""
    L, C = env.L, env.C
    s32 = b32(s)
    valid = 1 <= s < C.n
    x32 = None
    # the header defines party B as ANY non-zero value of the int flag: 0/1 with every hash choice, the other encodings of
    # "B" (even values, negative values, INT_MIN, a value whose low byte is zero) with the coordinate-copying callback
    for party in (0, 1, 2, -2, 256, 0x7FFFFFFE, -2**31):
        ell_a, ell_b = (theirs, ours) if party else (ours, theirs)
        if valid and x32 is None:
            x32 = W.xdh_x(s32, ell_a, ell_b, party, C)
        for name, fp, olen in (("bip324", env.xdh_bip324, 32), ("prefix", env.xdh_prefix, 32),
                               ("copy", env.xdh_copy, 160), ("cbfail", env.xdh_fail, 160)):
            if party not in (0, 1) and name != "copy":
                continue
            out = buf(b"\x5a" * olen)
            del env.log[:]
            ret = L.ellswift_xdh(L.ctx, out, exact(ell_a), exact(ell_b), exact(s32), party, fp, env.data)
            st.calls += 1
            info = dict(what, secret=hex(s), party=party, hash=name, ret=ret, ell_a64=hx(ell_a), ell_b64=hx(ell_b))
            if not valid:
                st.count("xdh-invalid-secret")
                if ret != 0:
                    st.fail("ellswift_xdh returned %d for a zero / out-of-range secret" % ret, info)
                continue
            if name in ("copy", "cbfail"):
                if len(env.log) != 1 or env.log[0] != (x32, ell_a, ell_b, env.data_addr):
                    st.fail("xdh hash callback: expected exactly one call with X(secret*Peer), both encodings in A,B order and the caller's data",
                            dict(info, calls=len(env.log), got_x=hx(env.log[0][0]) if env.log else None, model_x=hx(x32)))
            if name == "cbfail":
                st.count("xdh-callback-fails")
                if ret != 0:
                    st.fail("ellswift_xdh returned %d although the hash callback returned 0" % ret, info)
                continue
            if name == "bip324":
                exp = W.hash_bip324(x32, ell_a, ell_b)
            elif name == "prefix":
                exp = W.hash_prefix(x32, ell_a, ell_b, env.data.raw)
            else:
                exp = x32 + ell_a + ell_b
            st.count("xdh-ok")
            st.nt(("xdh", s, theirs))
            if name in ("bip324", "prefix") and party in (0, 1):
                # the exported hash function is also callable directly (from a caller's own callback, say): same bytes
                dout = buf(b"\x5a" * 32)
                dr = XDH_FN(fp)(dout, exact(x32), exact(ell_a), exact(ell_b), env.data)
                st.calls += 1
                if dr != 1 or dout.raw != exp:
                    st.fail("the exported hash function secp256k1_ellswift_xdh_hash_function_%s called directly differs from its definition" % name,
                            dict(info, got=hx(dout.raw), model=hx(exp)))
            if ret != 1 or out.raw != exp:
                st.fail("ellswift_xdh output differs from hash(X(secret*decode(theirs)), ell_a, ell_b)",
                        dict(info, got=hx(out.raw), model=hx(exp), model_x=hx(x32)))
    return x32


def xdh_case(env, case, st):
    """case = (u, t, tag, secrets): peer encoding (u,t) against every secret; plus decode+ecdh cross-check"""
    L, C = env.L, env.C
    u, t, tag, secrets = case
    theirs = b32(u) + b32(t)
    ours = seeded_fillers(2, b"c18ours")
    ours = ours[0] + ours[1]
    what = {"cfg": env.cfg, "theirs": hx(theirs), "why": tag}
    ret, Qd = real_decode(env, st, theirs)
    pk = pk_of(env, Qd) if ret == 1 and Qd is not None and C.on_curve(Qd) else None
    for s in secrets:
        x32 = xdh_one(env, st, s, theirs, ours, what)
        if x32 is not None and pk is not None:
            # "agree with each other": ecdh on the decoded key gives the same X
            out = buf(64)
            del env.log[:]
            r = L.ecdh(L.ctx, out, pk, b32(s), env.ecdh_xy, None)
            st.calls += 1
            if r != 1 or out.raw[:32] != x32:
                st.fail("ecdh(decode(theirs)) and ellswift_xdh disagree on the shared X coordinate",
                        dict(what, secret=hex(s), ecdh_x=hx(out.raw[:32]), xdh_model_x=hx(x32)))
    check_cb(env, st, what)
    st.sample({"theirs": hx(theirs), "why": tag, "secrets": len(secrets)})


def xdh_agree_case(env, case, st):
    """case = (a, others, aux): A = create(a), B = create(b); both roles derive the same secret = model"""
    L, C = env.L, env.C
    a, others, aux = case
    ea = buf(64)
    if L.ellswift_create(L.ctx, ea, b32(a), aux) != 1:
        st.fail("ellswift_create failed for a valid key", {"cfg": env.cfg, "seckey": hex(a)})
        return
    for b in others:
        eb = buf(64)
        if L.ellswift_create(L.ctx, eb, b32(b), None) != 1:
            st.fail("ellswift_create failed for a valid key", {"cfg": env.cfg, "seckey": hex(b)})
            continue
        S = C.mulG(a * b % C.n) if C is SECP else C.mul(a * b % C.n, C.G)
        for name, fp in (("bip324", env.xdh_bip324), ("prefix", env.xdh_prefix)):
            oa, ob = buf(32), buf(32)
            ra = L.ellswift_xdh(L.ctx, oa, ea.raw, eb.raw, b32(a), 0, fp, env.data)
            rb = L.ellswift_xdh(L.ctx, ob, ea.raw, eb.raw, b32(b), 1, fp, env.data)
            st.calls += 4
            exp = W.hash_bip324(b32(S[0]), ea.raw, eb.raw) if name == "bip324" else W.hash_prefix(b32(S[0]), ea.raw, eb.raw, env.data.raw)
            st.count("xdh-both-parties")
            st.nt(("xagree", a, b, name))
            if ra != 1 or rb != 1 or oa.raw != ob.raw or oa.raw != exp:
                st.fail("the two parties of an ElligatorSwift exchange derive different secrets (or not hash(X(a*b*G)))",
                        {"cfg": env.cfg, "a": hex(a), "b": hex(b), "hash": name, "A_side": hx(oa.raw), "B_side": hx(ob.raw), "model": hx(exp)})
    check_cb(env, st, {"cfg": env.cfg, "a": hex(a)})


# ------------------------------------------------------------------ x-only ladder (static function)
def xonly_case(env, case, st):
    """case = (Q or None, x, ds, qs): X(q*(n/d)) for n = x*d"""
    L, C = env.L, env.C
    Q, x, ds, qs = case
    on = Q is not None
    for d in ds:
        n = x if d is None else x * d % C.p
        for ne in enc_variants(n):
            for q in qs:
                exp = b32(C.mul(q, Q)[0]) if on else None
                for known in ((0, 1) if on else (0,)):
                    r = buf(b"\x22" * 32)
                    ret = L.verif_c18_ecmult_const_xonly(r, b32(ne), b32(d) if d is not None else None, b32(q), known)
                    st.calls += 1
                    info = {"cfg": env.cfg, "x": hex(x), "n": hex(ne), "d": hex(d) if d is not None else None, "q": hex(q),
                            "known_on_curve": known, "ret": ret}
                    if not on:
                        st.count("xonly-not-on-curve")
                        if ret != 0:
                            st.fail("ecmult_const_xonly accepted an x that is not on the curve", info)
                        continue
                    st.count("xonly-ok")
                    st.nt(("xonly", x, q))
                    if ret != 1 or r.raw != exp:
                        st.fail("x-only ladder differs from X(q*P) by the group law", dict(info, got=hx(r.raw), model=hx(exp)))
    check_cb(env, st, {"cfg": env.cfg, "x": hex(x)})


# ------------------------------------------------------------------ API argument checks
def argcheck_phase(env, case, st):
    L = env.L
    Q = SECP.G
    pk = pk_of(env, Q)
    ell = W.encode(Q, b"\x01" * 32)
    o = buf(64)
    calls = [
        ("ecdh(output=NULL)", lambda: L.ecdh(L.ctx, None, pk, b32(1), None, None)),
        ("ecdh(pubkey=NULL)", lambda: L.ecdh(L.ctx, o, None, b32(1), None, None)),
        ("ecdh(seckey=NULL)", lambda: L.ecdh(L.ctx, o, pk, None, None, None)),
        ("ellswift_encode(ell64=NULL)", lambda: L.ellswift_encode(L.ctx, None, pk, b32(1))),
        ("ellswift_encode(pubkey=NULL)", lambda: L.ellswift_encode(L.ctx, o, None, b32(1))),
        ("ellswift_encode(rnd32=NULL)", lambda: L.ellswift_encode(L.ctx, o, pk, None)),
        ("ellswift_encode(zeroed pubkey)", lambda: L.ellswift_encode(L.ctx, o, buf(64), b32(1))),
        ("ellswift_create(ell64=NULL)", lambda: L.ellswift_create(L.ctx, None, b32(1), None)),
        ("ellswift_create(seckey=NULL)", lambda: L.ellswift_create(L.ctx, o, None, None)),
        ("ellswift_create(static context)", lambda: L.ellswift_create(L.static_ctx, o, b32(1), None)),
        ("ellswift_decode(pubkey=NULL)", lambda: L.ellswift_decode(L.ctx, None, ell)),
        ("ellswift_decode(ell64=NULL)", lambda: L.ellswift_decode(L.ctx, o, None)),
        ("ellswift_xdh(output=NULL)", lambda: L.ellswift_xdh(L.ctx, None, ell, ell, b32(1), 0, env.xdh_bip324, None)),
        ("ellswift_xdh(ell_a=NULL)", lambda: L.ellswift_xdh(L.ctx, o, None, ell, b32(1), 0, env.xdh_bip324, None)),
        ("ellswift_xdh(ell_b=NULL)", lambda: L.ellswift_xdh(L.ctx, o, ell, None, b32(1), 0, env.xdh_bip324, None)),
        ("ellswift_xdh(seckey=NULL)", lambda: L.ellswift_xdh(L.ctx, o, ell, ell, None, 0, env.xdh_bip324, None)),
        ("ellswift_xdh(hashfp=NULL)", lambda: L.ellswift_xdh(L.ctx, o, ell, ell, b32(1), 0, None, None)),
    ]
    for name, fn in calls:
        L.cb_reset()
        ret = fn()
        st.calls += 1
        st.count("illegal-argument")
        if ret != 0 or L.illegal < 1:
            st.fail("%s: expected return 0 and the illegal-argument callback, got ret=%d callbacks=%d" % (name, ret, L.illegal),
                    {"cfg": env.cfg, "call": name})
        L.cb_reset()
    # decode / static context are fine together (no ecmult_gen needed): must work and stay silent
    pk2 = buf(64)
    if L.ellswift_decode(L.static_ctx, pk2, ell) != 1 or point_from_pubkey(L, pk2) != Q or L.illegal:
        st.fail("ellswift_decode with the static context failed", {"cfg": env.cfg})
    out = buf(32)
    if L.ecdh(L.static_ctx, out, pk, b32(2), None, None) != 1 or out.raw != D.ecdh(b32(2), Q) or L.illegal:
        st.fail("ecdh with the static context failed", {"cfg": env.cfg})
    st.calls += 2
    L.cb_reset()


# ------------------------------------------------------------------ E2: small group, total
def sg_encodings(n):
    """32-byte integers: every residue with several multiples of n added, values next to 2^32, 2^224, 2^256"""
    out = list(range(0, 3 * n + 1))
    for s in range(n):
        for k in ((2**32 - 1) // n, 2**200 // n, (M256 - 1) // n - 1):
            out.append(s + k * n)
        out += [2**32 + s, 2**224 + s, 2**255 + s, M256 - 1 - s]
    return sorted(set(v for v in out if 0 <= v < M256))


def sg_ecdh_case(env, case, st):
    """case = j (discrete log of the peer point): every secret encoding, every hash"""
    C, pts = env.C, env.pts
    Q = pts[case]
    pk = pk_of(env, Q)
    what = {"cfg": env.cfg, "peer_dlog": case}
    for s in sg_encodings(C.n):
        ecdh_one(env, st, pk, Q, s, what)
    check_cb(env, st, what)
    st.sample({"group_order": C.n, "peer": case, "secret_encodings": len(sg_encodings(C.n))})


def sg_xonly_case(env, case, st):
    C, pts = env.C, env.pts
    if case > 0:
        Q = pts[case]
        ds = [None, 1, 2, 3, C.p - 1, i32(seeded_fillers(1, b"c18d")[0]) % C.p or 5]
        xonly_case(env, (Q, Q[0], ds, list(range(1, C.n))), st)
    else:
        # x values that are not on the curve at all
        xs, x = [], 0
        while len(xs) < 6:
            if not W.valid_x(x, C):
                xs.append(x)
            x += 1
        for x in xs:
            xonly_case(env, (None, x, [None, 1, 2], [1, 2, C.n - 1]), st)


def sg_ellswift_case(env, case, st):
    """case = k: create for every encoding of k (valid iff the integer is in [1,n-1]) x aux; decode; xdh against every peer"""
    L, C, pts = env.L, env.C, env.pts
    k = case
    n = C.n
    auxes = [None, b"\x00" * 32, seeded_fillers(1, b"c18aux")[0]]
    for enc in [k, k + n, k + 2 * n, k + ((2**32 - 1) // n) * n, 2**224 + k, M256 - 1 - k]:
        create_case(env, (enc, auxes), st)
    # peers: the library's own encodings of every group element
    for j in range(1, n):
        ej = buf(64)
        if L.ellswift_create(L.ctx, ej, b32(j), None) != 1:
            st.fail("ellswift_create failed", {"cfg": env.cfg, "seckey": j})
            continue
        st.calls += 1
        if W.decode(ej.raw, C) != pts[j]:
            # (also keeps the model inside the subgroup: the full curve of a small-group build has composite order)
            st.fail("ellswift_create: the produced encoding does not decode (reference map) to the key",
                    {"cfg": env.cfg, "seckey": j, "ell64": hx(ej.raw)})
            continue
        ours = b32(7) + b32(9)
        for enc in [k, k + n, k + 5 * n, M256 - 1 - k]:
            xdh_one(env, st, enc, ej.raw, ours, {"cfg": env.cfg, "peer_dlog": j})
    check_cb(env, st, {"cfg": env.cfg, "k": k})


# ------------------------------------------------------------------ main
DISPATCH = {"grid": decode_grid_case, "fam": decode_family_case, "inv": inv_case, "enc": encode_case, "create": create_case,
            "ecdh": ecdh_case, "ecdh2": ecdh_agree_case, "xdh": xdh_case, "xdh2": xdh_agree_case, "xonly": xonly_case,
            "sg-ecdh": sg_ecdh_case, "sg-xonly": sg_xonly_case, "sg-ell": sg_ellswift_case}


def multi_case(env, case, st):
    """case = (kind, payload): several kinds share one phase (one set of forked workers)"""
    DISPATCH[case[0]](env, case[1], st)


def tagged(kind, cases):
    return [(kind, c) for c in cases]


def phase(run, name, cases, setup, rule, nproc=None, fn=multi_case):
    t0, c0 = time.time(), os.times()
    stt = run_phase(run, name, fn, cases, setup=setup, rule=rule, nproc=nproc)
    c1 = os.times()
    if os.environ.get("VERIF_PROGRESS"):
        sys.stderr.write("  %-42s %6d cases %8d calls  wall %6.1fs  cpu %6.1fs  viol %d\n" % (
            name, stt.cases, stt.calls, time.time() - t0, (c1[2] - c0[2]) + (c1[3] - c0[3]), len(stt.viol)))
    return stt


def main():
    a = args()
    run = Run(PID, a.tier)
    thorough = a.tier == "thorough"
    # model self-test first: a model that fails the shipped vectors must never produce a verdict
    try:
        nv = W.selftest(B.REPO)
        nw = D.selftest(B.REPO)
    except AssertionError as e:
        sys.stderr.write("C18: reference model fails its own vectors (machinery broken): %s\n" % e)
        sys.exit(2)
    run.cov["model_selftest"] = {"bip324_xswiftec_inv": nv[0], "bip324_decode": nv[1], "bip324_xdh": nv[2], "wycheproof_ecdh": nw}

    sgs = ["sg13", "sg13-verify"] + (["sg13-san", "sg7", "sg7-verify", "sg199"] if thorough else [])
    prods = ["prod-san", "prod-verify", "cfg-int64-noasm-w8-c22"] + (
        ["cfg-i128struct-noasm-w2-c2", "cfg-int64-san-w15", "cfg-i128struct-asm-w15", "cfg-int64-noasm-w2-c86-clang",
         "cfg-i128-noasm-w5-c22-clang"] if thorough else [])
    only = os.environ.get("VERIF_C18_ONLY")  # development aid (mutation runs): restrict to the listed configurations
    if only:
        sgs = [c for c in sgs if c in only.split(",")]
        prods = [c for c in prods if c in only.split(",")]
        run.cov["exhaustive"] = False
        run.assumptions.append("restricted to configurations " + only)
    tb = time.time()
    try:
        B.build_many(sgs + prods)
    except (OSError, SystemExit):
        pass  # cache eviction race with a concurrent run: lib() below retries one by one
    for b in sgs + prods:
        lib(b)
    for b in sgs + prods:
        run.cov["builds"][b] = B.source_hash()[:16]
    run.cov["build_and_load_s"] = round(time.time() - tb, 1)
    if os.environ.get("VERIF_PROGRESS"):
        sys.stderr.write("  builds+load %.1fs\n" % (time.time() - tb))

    # ---- E2
    for cfg in sgs:
        n = int(cfg.split("-")[0][2:])
        su = env_setup(cfg, True)
        pts_idx = list(range(1, n)) if n <= 13 else [1, 2, 3, 98, 99, 100, 197, 198]
        keys = list(range(1, n)) if n <= 13 else [1, 2, 99, 100, 198]
        phase(run, "%s/ecdh-total" % cfg, tagged("sg-ecdh", pts_idx) + tagged("ecdh2", [(x, keys) for x in keys]), su,
              "group of order %d: %s point(s) x %d secret encodings (every residue incl. 0 with multiples of N added, values next to 2^32 / 2^224 / 2^256) x 5 hash choices; succeeds iff the integer is in [1,N-1]; plus every ordered pair of %d secrets: ecdh(a,bG) = ecdh(b,aG) = SHA256(compressed(abG)); non-trivial = accepted" % (n, "every" if n <= 13 else "8", len(sg_encodings(n)), len(keys)))
        phase(run, "%s/xonly-ladder-total" % cfg, tagged("sg-xonly", [0] + pts_idx), su,
              "ecmult_const_xonly for every listed point as fraction n/d (d in {absent,1,2,3,p-1,filler}; n also as n+p when it fits) x every scalar 1..N-1 x known_on_curve {0,1}; 6 off-curve x must be refused")
        if n <= 13:
            phase(run, "%s/ellswift-create-decode-xdh" % cfg, tagged("sg-ell", list(range(0, n))), su,
                  "ellswift_create for 6 encodings of every k in Z_N x aux {NULL, 0, filler}: valid iff integer in [1,N-1], decodes to kG; xdh for 4 encodings of k against the library's encoding of every jG, both roles, 4 hash choices")
        if run.out_of_time():
            break

    # ---- E1
    E = fe_alphabet(True, b"c18fe")
    Es = fe_alphabet(False, b"c18fe")
    Et = E
    if thorough:
        Et = E + [v for v in ([2**k for k in range(8, 256, 8)] + list(range(4, 17)) + [P - k for k in range(4, 17)] +
                              [P + k for k in range(3, 9)] + [i32(f) for f in seeded_fillers(6, b"c18fe2")]) if v not in E]
    fams = decode_families()
    PT = point_alphabet()
    PTx = PT + ([(SECP.mulG(k), "key*G") for k in key_alphabet() if k > 3][::2] if thorough else [])
    secrets = secret_alphabet()
    ks = keys_small()
    keys_all = key_alphabet()
    fill = seeded_fillers(12, b"c18rnd")
    rnds = [b"\x00" * 32, b"\xff" * 32, b"\x00" * 31 + b"\x01", b"\x80" + b"\x00" * 31] + fill[:4] + \
           [b32(i) for i in range(2, 10 if not thorough else 34)]
    auxes = [None, b"\x00" * 32, b"\xff" * 32, fill[4]] + ([fill[5], fill[6], b32(1), b32(2)] if thorough else [])
    invf = inv_families()
    inv_us = [u for u in (E if thorough else Es) if u % P != 0]
    inv_cases = [(Q[0], inv_us + [Q[0]], tag) for Q, tag in PT] + [(x, [u], tag) for (x, u, tag) in invf]
    # peers for xdh: special (u,t) inputs, the decode families, and model-made encodings of the PT points
    grid_peers = [(u, t, "grid") for u in Es for t in Es]
    fam_peers = [(u, t, tag) for (u, t, tag) in fams]
    enc_peers = []
    for Q, tag in PT:
        k = 0
        # candidates for u: special values and two fillers first, then small integers until at least two encodings exist (whether a
        # given (u, branch) encodes Q depends on Q; the search must not depend on which fillers VERIF_SEED happens to give)
        for u in [1, 2, P - 1, W.C1, i32(fill[7]), i32(fill[8]), 3, 5, 7, 11] + list(range(12, 600)):
            if k >= 3 or (k >= 2 and u >= 12):
                break
            for c in range(8):
                t = W.xswiftec_inv(Q[0], u, c)
                if t is not None and k < 3:
                    enc_peers.append((u, t if (t & 1) == (Q[1] & 1) else P - t, "enc(%s)/c%d" % (tag, c)))
                    k += 1
        assert k >= 2, "no model encoding found for a PT point"
    off_curve = []
    x = 0
    while len(off_curve) < 6:
        if not W.valid_x(x):
            off_curve.append(x)
        x += 1
    ds = [None, 1, 2, P - 1, P + 1, W.C0, i32(fill[9])]
    xs_special = [1, 2, N - 1, (N + 1) // 2] + BAD_SECRETS

    for cfg in prods:
        first = cfg in ("prod-san", "prod-verify")
        big = first or (thorough and cfg == "cfg-int64-noasm-w8-c22")
        su = env_setup(cfg)
        Eg = Et if (thorough and first) else (E if big else Es)
        phase(run, "%s/decode" % cfg, tagged("grid", [(u, Eg) for u in Eg]) + tagged("fam", fams), su,
              "ellswift_decode and the static forward map on (u,t) in E^2, |E|=%d: 0,1,2,3,p-3..p+2,2^256-2,2^256-1,2^32+976/7,sqrt(-3),c1..c4,beta,beta^2,-2beta,-2beta^2,2^255,(p+-1)/2, 2^k-1/2^k/2^k+1 for limb multiples k, bit patterns, 2 fillers; plus %d model-built inputs: u^3+t^2+7=0 (from u=1.. until each of x3,x2,x1 is selected >=4 times, and from chosen t via cube roots), +-t, +p encodings; t=0 with u^3=-8 (both remaps); X=0 family (u,t)=curve point; histogram by branch and remap; non-trivial = remapped, >= p encodings, family members" % (len(Eg), len(fams)))
        phase(run, "%s/inverse-branches" % cfg, tagged("inv", inv_cases), su,
              "xswiftec_inv_var for every c in 0..7 on x in PT (%d points) x u in small alphabet (%d, incl. >= p encodings) plus u=x (s=0), model-searched r=0 inputs, u=-2x, u=-x: flag and t equal G_{c,u}(x); every returned t maps back to x under model and library forward maps" % (len(PT), len(inv_us)))
        phase(run, "%s/encode-create" % cfg, tagged("enc", [(Q, tag, rnds) for Q, tag in (PTx if first else PT)]) + tagged("create", [(k, auxes) for k in secrets]), su,
              "ellswift_encode for PT (%d points; +20 key*G points on the two production builds in thorough) x %d rnd32 values (00,FF,01,80.., fillers, small counters) and ellswift_create for the scalar alphabet (%d values incl. 0, n, n+1, p, 2^256-1) x %d aux (NULL,00,FF,fillers): create succeeds iff 1<=key<n; every encoding decodes (model map and ellswift_decode) to exactly the key incl. y parity; histogram by the branch c the documented search selects and whether t was negated" % (len(PT), len(rnds), len(secrets), len(auxes)))
        pts = (PTx if first else PT) if big else PT[::3]
        kk = keys_all if (thorough and first) else ks
        phase(run, "%s/ecdh" % cfg, tagged("ecdh", [(Q, tag, secrets) for Q, tag in pts]) + tagged("ecdh2", [(x, kk) for x in kk]), su,
              "ecdh for scalar alphabet (%d values: SC + lambda-related) x %d points x hash in {NULL, sha256, default, custom x||y, custom failing}: output = hash(coordinates of secret*P), fails iff secret=0 or >=n or callback returns 0; callback seen exactly once with the model coordinates; ecdh(a,bG)=ecdh(b,aG)=SHA256(compressed(abG)) for all ordered pairs of %d keys" % (len(secrets), len(pts), len(kk)))
        xs = (keys_all if thorough and first else ks) + BAD_SECRETS
        gp = grid_peers if big else grid_peers[::7]
        xg = xs_special if not thorough else ks + BAD_SECRETS
        xc = [(u, t, tag, xg) for (u, t, tag) in gp] + \
             [(u, t, tag, xs) for (u, t, tag) in (fam_peers if big else fam_peers[::3])] + [(u, t, tag, xs) for (u, t, tag) in enc_peers]
        phase(run, "%s/xdh" % cfg, tagged("xdh", xc) + tagged("xdh2", [(x, ks, fill[10] if i & 1 else None) for i, x in enumerate(ks)]), su,
              "ellswift_xdh for peer encodings: %d from small alphabet^2 (x %d secrets), %d decode-family and %d model-made encodings of PT incl. x<2^32+977 (x %d secrets); secrets incl. 0,n,n+1,p,2^256-1; both roles x hash in {bip324, prefix, custom copy, custom failing}; output = hash(X(secret*decode(theirs)),A,B); ecdh(decode(theirs)) gives the same X; A=create(a), B=create(b): both roles derive the same secret for all ordered pairs of %d keys" % (len(gp), len(xg), len(fam_peers if big else fam_peers[::3]), len(enc_peers), len(xs), len(ks)))
        qs = ks if big else ks[:5]
        phase(run, "%s/xonly-ladder" % cfg, tagged("xonly", [(Q, Q[0], ds, qs) for Q, _ in PT] + [(None, x, [None, 1, 2], [1, 2, N - 1]) for x in off_curve]), su,
              "ecmult_const_xonly on PT as fractions n/d, d in {absent,1,2,p-1,p+1,sqrt(-3),filler} x %d scalars x known_on_curve; off-curve x refused" % len(qs))
        phase(run, "%s/argument-checks" % cfg, [0], su, "17 NULL / wrong-context calls at API-level ARG_CHECKs: return 0 and callback >= 1; decode and ecdh work on the static context",
              nproc=1, fn=argcheck_phase)
        if run.out_of_time():
            run.cov["exhaustive"] = False
            break
    run.assumptions += [
        "secp256k1: inputs outside the stated alphabets / model-built families are not explored; sg13 (and sg7/sg199 in thorough) ecdh, x-only ladder and create/xdh are explored totally over the group",
        "the ElligatorSwift map is a field-level object: it is explored on alphabets in the real field only (the small groups do not make it enumerable)",
        "exact bytes of ellswift_encode/create are compared with the search loop documented in main_impl.h but only recorded (header: encoding not guaranteed stable); the verdict uses decode(encoding) = key",
        "output buffers after a failed call and hash callback return values other than 0/1 are not asserted (header is silent / undefined)",
        "compilers: gcc 12 / clang 14 as installed"]
    sys.exit(run.finish())


if __name__ == "__main__":
    main()
