"""C03 Key and signature encodings are strict, canonical and round-trip."""
import sys, ctypes, itertools
from ctypes import c_int, c_size_t, byref
from ..core import Run, run_phase, hx, seeded_fillers
from ..util import *
from ..model import ecdsa as E
from .. import build as B

PID = "C03"
_L = {}


def lib(cfg):
    if cfg not in _L:
        _L[cfg] = Lib(cfg)
    return _L[cfg]


# A fixed genuine signature used to pre-fill signature objects before every parse: a parser that
# stops overwriting its output on rejection leaves an object that verifies for (M0, Q0).
D0 = 0x1111111111111111111111111111111111111111111111111111111111111111
M0 = b"\x42" * 32


class Env:
    def __init__(self, cfg):
        self.L = L = lib(cfg)
        r, s, _ = E.sign(b32(D0), M0)
        self.rs0 = (r, s)
        self.pk0 = buf(64)
        assert L.ec_pubkey_create(L.ctx, self.pk0, b32(D0)) == 1
        self.sig0 = sig_from_rs(L, r, s).raw
        assert L.ecdsa_verify(L.ctx, self.sig0, M0, self.pk0) == 1
        self._pkcache = {}

    def pk_for(self, r, s, m=7):
        """public key Q (object) for which (r, s) is a valid signature on message m (r on curve as x-coordinate)"""
        key = (r, s, m)
        if key in self._pkcache:
            return self._pkcache[key]
        res = None
        if 1 <= r < N and 1 <= s < N:
            for x in (r, r + N):
                R = SECP.lift_x(x) if x < P else None
                if R is not None:
                    Q = SECP.mul(pow(r, -1, N), SECP.add(SECP.mul(s, R), SECP.neg(SECP.mulG(m))))
                    if Q is not None:
                        res = pubkey_from_point(self.L, Q)
                        break
        self._pkcache[key] = res
        return res


def setup(cfg):
    return lambda: Env(cfg)


def check_sig_object(env, st, sig, model, what, inp):
    """sig = object after a parse; model = None (rejected) or (r, s) reduced values"""
    L = env.L
    if model is None:
        # must never verify: neither for the key/message the pre-filled object was valid for ...
        if L.ecdsa_verify(L.ctx, sig, M0, env.pk0) != 0:
            st.fail("%s: rejected input left a signature object that still verifies (object not overwritten)" % what, {"cfg": L.config, "input": hx(inp)})
        st.calls += 1
        return
    r, s = model
    got = sig_compact(L, sig)
    st.calls += 1
    if got != b32(r) + b32(s):
        st.fail("%s: parsed (r,s) differ from model" % what, {"cfg": L.config, "input": hx(inp), "got": hx(got), "model": hx(b32(r) + b32(s))})


# ------------------------------------------------------------------ DER
INT32 = [N - 1, N, N + 1, 2**256 - 1, 2**255, 2**255 - 1, 1 << 248, (N - 1) // 2]


def int_contents():
    c = [b"", b"\x00", b"\x01", b"\x7f", b"\x80", b"\xff", b"\x00\x80", b"\x00\x7f", b"\x00\x00", b"\xff\x80", b"\xff\x7f", b"\x00\xff", b"\x00\x01"]
    for v in INT32:
        b = v.to_bytes(32, "big")
        c.append(b)
        c.append(b"\x00" + b)
        c.append(b"\x00\x00" + b)
    c.append(b"\x01" + b"\x00" * 32)          # 33-byte positive (oversize)
    c.append(b"\x00\x01" + b"\x00" * 32)      # 34 bytes
    c.append(b"\x7f" * 127)
    c.append(b"\x7f" * 128)
    return c


def lenforms(L):
    """list of (tag, bytes) alternatives to the minimal encoding of length L"""
    def minimal(x):
        if x < 128:
            return bytes([x])
        b = x.to_bytes((x.bit_length() + 7) // 8, "big")
        return bytes([0x80 | len(b)]) + b
    alts = [("min", minimal(L))]
    if L < 128:
        alts.append(("81", bytes([0x81, L])))
    alts.append(("82-00", bytes([0x82, 0x00, L & 0xFF]) if L < 256 else bytes([0x83, 0x00]) + L.to_bytes(2, "big")))
    alts.append(("indef", b"\x80"))
    alts.append(("ff", b"\xff"))
    alts.append(("+1", minimal(L + 1)))
    if L > 0:
        alts.append(("-1", minimal(L - 1)))
    alts.append(("84max", b"\x84\xff\xff\xff\xff"))
    alts.append(("88max", b"\x88" + b"\xff" * 8))
    alts.append(("88zeros", b"\x88" + b"\x00" * 7 + bytes([L & 0xFF])))
    alts.append(("89", b"\x89" + b"\x00" * 8 + bytes([L & 0xFF])))
    # more than sizeof(size_t) length octets whose value wraps (mod 2^64) to the real length
    alts.append(("89wrap", b"\x89\x01" + L.to_bytes(8, "big")))
    alts.append(("8cwrap", b"\x8c\x00\x00\x00\x01" + L.to_bytes(8, "big")))
    alts.append(("trunc", b""))
    return alts


R0 = 0x3b78ce563f89a0ed9414f5aa28ad0d96d6795f9c63
S0 = 0x5cf1a3e1f2c1e3d8b0a2e47d1c2f3a4b5c6d7e8f90a1b2c3d4e5f60718293a4b


def der_cases(maxdev):
    """Deviation-bounded grammar enumeration: SEQ(tag,len){INT(tag,len,content) INT(tag,len,content)} trailing.
    A deviation = a non-default choice at one of 9 positions.  Yields lists of position->alternative index."""
    conts = int_contents()
    dflt_r = R0.to_bytes(21, "big")
    dflt_s = S0.to_bytes(32, "big")
    npos = 9
    alts = [4, 13, 4, 13, len(conts), 4, 13, len(conts), 3]
    out = []
    for k in range(0, maxdev + 1):
        for pos in itertools.combinations(range(npos), k):
            for choice in itertools.product(*[range(1, alts[p] + 1) for p in pos]):
                out.append(tuple(zip(pos, choice)))
    return out


SEQ_TAGS = [0x30, 0x00, 0x02, 0x31, 0xb0]
INT_TAGS = [0x02, 0x00, 0x03, 0x30, 0x82]


def build_der(dev):
    d = dict(dev)
    conts = int_contents()

    def integer(tagpos, lenpos, contpos, dflt):
        content = conts[d[contpos] - 1] if contpos in d else dflt
        lf = lenforms(len(content))
        li = d.get(lenpos, 0)
        lb = lf[li][1] if li < len(lf) else lf[-1][1]
        return bytes([INT_TAGS[d.get(tagpos, 0)]]) + lb + content
    body = integer(2, 3, 4, R0.to_bytes(21, "big")) + integer(5, 6, 7, S0.to_bytes(32, "big"))
    tr = d.get(8, 0)
    if tr == 1:
        body += b"\x00"          # extra byte inside the sequence (counted by its length)
    lf = lenforms(len(body))
    li = d.get(1, 0)
    lb = lf[li][1] if li < len(lf) else lf[-1][1]
    s = bytes([SEQ_TAGS[d.get(0, 0)]]) + lb + body
    if tr == 2:
        s += b"\x00"             # byte after the sequence
    if tr == 3:
        s = s[:-1]               # truncated by one byte
    return s


def der_one(env, st, s):
    L = env.L
    model = E.der_parse(s)
    sig = buf(env.sig0)
    ret = L.ecdsa_signature_parse_der(L.ctx, sig, exact(s), len(s))
    st.calls += 1
    if (ret == 1) != (model is not None):
        st.fail("parse_der returned %d, strict-DER model says %s" % (ret, "accept" if model else "reject"), {"cfg": L.config, "input": hx(s)})
        return
    check_sig_object(env, st, sig, model, "parse_der", s)
    if model is None:
        st.count("der-reject")
        return
    r, sv = model
    st.count("der-accept")
    st.nt(s)
    # round trip: accepted strict DER with in-range integers re-serialises to the same bytes
    canonical = E.der_serialize(r, sv)
    out = buf(80)
    ln = c_size_t(80)
    ok = L.ecdsa_signature_serialize_der(L.ctx, out, byref(ln), sig)
    st.calls += 1
    if ok != 1 or out.raw[:ln.value] != canonical:
        st.fail("serialize_der of the parsed object differs from canonical DER", {"cfg": L.config, "input": hx(s), "got": hx(out.raw[:ln.value]), "model": hx(canonical)})
    mangled = E.der_parse(canonical) != (r, sv) or canonical != s
    if canonical == s:
        st.count("der-roundtrip-identical")
    # lax parser accepts everything the strict one accepts; with the same value when no integer was
    # negative/oversize (the two parsers document different mappings for those)
    if canonical != s:
        return
    sig2 = buf(64)
    if L.verif_lax_der(L.ctx, sig2, exact(s), len(s)) != 1 or sig_compact(L, sig2) != b32(r) + b32(sv):
        st.fail("lax DER parser disagrees with strict parser on a strictly valid input", {"cfg": L.config, "input": hx(s)})
    st.calls += 1


def der_grammar_case(env, case, st):
    for dev in case:
        s = build_der(dev)
        der_one(env, st, s)
    if env.L.illegal or env.L.errors:
        st.fail("callback fired during DER parsing", {"cfg": env.L.config})
        env.L.cb_reset()
    st.sample({"deviations": [list(x) for x in case[-1]], "der": hx(build_der(case[-1]))})


def der_short_case(env, case, st):
    """all byte strings with a given prefix over an alphabet, up to a length"""
    prefix, alphabet, maxlen = case
    stack = [prefix]
    while stack:
        s = stack.pop()
        der_one(env, st, s)
        if len(s) < maxlen:
            for a in alphabet:
                stack.append(s + bytes([a]))
    if env.L.illegal or env.L.errors:
        st.fail("callback fired during DER parsing", {"cfg": env.L.config})
        env.L.cb_reset()
    st.sample({"prefix": hx(prefix), "alphabet_size": len(alphabet), "maxlen": maxlen})


def der_serialize_case(env, case, st):
    """serialize (r,s) with every buffer length 0..75"""
    L = env.L
    r, s = case
    sig = sig_from_rs(L, r, s)
    canonical = E.der_serialize(r, s)
    for blen in range(0, 76):
        out = exact(b"\xee" * max(blen, 1))
        ln = c_size_t(blen)
        ok = L.ecdsa_signature_serialize_der(L.ctx, out, byref(ln), sig)
        st.calls += 1
        if blen < len(canonical):
            st.count("ser-short")
            if ok != 0 or ln.value != len(canonical):
                st.fail("serialize_der with a %d-byte buffer: ret=%d, reported size %d, needed %d" % (blen, ok, ln.value, len(canonical)),
                        {"cfg": L.config, "r": hex(r), "s": hex(s)})
        else:
            st.count("ser-ok")
            if ok != 1 or ln.value != len(canonical) or bytes(out[:ln.value]) != canonical:
                st.fail("serialize_der with a sufficient %d-byte buffer failed or differs" % blen, {"cfg": L.config, "r": hex(r), "s": hex(s), "ret": ok, "len": ln.value})
            if blen == len(canonical):
                st.nt((r, s))
    # parse back
    sig2 = buf(64)
    if L.ecdsa_signature_parse_der(L.ctx, sig2, canonical, len(canonical)) != 1 or sig_compact(L, sig2) != b32(r) + b32(s):
        st.fail("parse_der(serialize_der(sig)) != sig", {"cfg": L.config, "r": hex(r), "s": hex(s)})
    if L.illegal or L.errors:
        st.fail("callback fired", {"cfg": L.config})
        L.cb_reset()
    st.sample({"r": hex(r), "s": hex(s), "der_len": len(canonical)})


# ------------------------------------------------------------------ compact
def compact_case(env, case, st):
    L = env.L
    rv, sv = case
    inp = b32(rv) + b32(sv)
    ok_model = rv < N and sv < N
    sig = buf(env.sig0)
    ret = L.ecdsa_signature_parse_compact(L.ctx, sig, inp)
    st.calls += 1
    if ret != (1 if ok_model else 0):
        st.fail("parse_compact returned %d for r %s n, s %s n" % (ret, "<" if rv < N else ">=", "<" if sv < N else ">="), {"cfg": L.config, "input": hx(inp)})
        return
    check_sig_object(env, st, sig, (rv, sv) if ok_model else None, "parse_compact", inp)
    st.count("compact-accept" if ok_model else "compact-reject")
    if ok_model:
        st.nt((rv, sv))
    else:
        # the object must not verify for the (message, key) for which the REDUCED values are a valid signature
        rr, ss = rv % N, sv % N
        if ss > N // 2:
            ss2 = None
        pk = env.pk_for(rr, ss)
        if pk is not None and ss <= N // 2:
            st.count("compact-reject-with-valid-reduction")
            st.nt(("red", rv, sv))
            # sanity: the reduced pair really is valid (so the test is not vacuous)
            if L.ecdsa_verify(L.ctx, sig_from_rs(L, rr, ss), b32(7), pk) != 1:
                st.fail("machinery: constructed key does not validate the reduced pair", {"r": hex(rr), "s": hex(ss)})
            if L.ecdsa_verify(L.ctx, sig, b32(7), pk) != 0:
                st.fail("object left by a rejected compact parse verifies (reduced r,s were stored)", {"cfg": L.config, "input": hx(inp)})
            st.calls += 2
    # recoverable variant
    for recid in (-1, 0, 1, 2, 3, 4):
        rsig = buf(b"\x5a" * 65)
        L.cb_reset()
        ret = L.ecdsa_recoverable_signature_parse_compact(L.ctx, rsig, inp, recid)
        st.calls += 1
        if recid < 0 or recid > 3:
            if ret != 0 or L.illegal < 1:
                st.fail("recoverable parse with recid %d must be refused via the illegal callback" % recid, {"cfg": L.config})
            L.cb_reset()
            continue
        if ret != (1 if ok_model else 0):
            st.fail("recoverable parse_compact returned %d" % ret, {"cfg": L.config, "input": hx(inp), "recid": recid})
            continue
        conv = buf(env.sig0)
        L.ecdsa_recoverable_signature_convert(L.ctx, conv, rsig)
        if ok_model:
            out = buf(64)
            rid = c_int(-1)
            L.ecdsa_recoverable_signature_serialize_compact(L.ctx, out, byref(rid), rsig)
            if out.raw != inp or rid.value != recid or sig_compact(L, conv) != inp:
                st.fail("recoverable compact round trip differs", {"cfg": L.config, "input": hx(inp), "recid": recid})
        else:
            pk = buf(64)
            if L.ecdsa_recover(L.ctx, pk, rsig, b32(7)) != 0:
                st.fail("recover succeeded on the object left by a rejected recoverable parse", {"cfg": L.config, "input": hx(inp)})
            if L.ecdsa_verify(L.ctx, conv, M0, env.pk0) != 0:
                st.fail("converted rejected recoverable signature verifies", {"cfg": L.config, "input": hx(inp)})
    if ok_model:
        out = buf(64)
        L.ecdsa_signature_serialize_compact(L.ctx, out, sig)
        if out.raw != inp:
            st.fail("serialize_compact(parse_compact(x)) != x", {"cfg": L.config, "input": hx(inp)})
    if L.illegal or L.errors:
        st.fail("callback fired on legal input", {"cfg": L.config, "input": hx(inp)})
        L.cb_reset()
    st.sample({"r": hex(rv), "s": hex(sv), "model_accept": ok_model})


def compact_cases():
    sc = sc_alphabet()
    cases = [(r, s) for r in sc for s in sc]
    # valid signatures re-encoded out of range: small s (s+n fits) and R.x >= n (r+n fits)
    for s in (1, 2, 3):
        for k in (1, 2, 3):
            R = SECP.mulG(k)
            cases.append((R[0] % N, s + N))
            cases.append((R[0] % N, s))
    x = N
    cnt = 0
    while cnt < 3:
        if SECP.lift_x(x) is not None and x != N:
            r = x - N
            for s in (1, 2, 5):
                cases.append((r + N, s))
                cases.append((r, s))
                cases.append((r + N, s + N))
            cnt += 1
        x += 1
    return cases


# ------------------------------------------------------------------ public keys
def pk_payloads():
    C = SECP
    fill = seeded_fillers(2, b"c03pk")
    xs = []
    for k in (1, 2, 3, N - 1, LAMBDA, i32(fill[0]) % N or 1):
        xs.append(C.mulG(k)[0])
    # small x on curve (x + p fits in 32 bytes)
    x = 1
    small = []
    while len(small) < 2:
        if C.lift_x(x) is not None:
            small.append(x)
        x += 1
    # x >= n on curve, x near p on curve, x not on curve
    big = []
    x = P - 1
    while len(big) < 2:
        if C.lift_x(x) is not None:
            big.append(x)
        x -= 1
    off = []
    x = 5
    while len(off) < 2:
        if C.lift_x(x) is None:
            off.append(x)
        x += 1
    payloads = []
    for x in xs + small + big:
        for odd in (0, 1):
            pt = C.lift_x(x, odd)
            payloads.append((b32(pt[0]), b32(pt[1])))
            payloads.append((b32(pt[0]), b32((pt[1] + 1) % P)))        # off-curve y
    for x in small:
        pt = C.lift_x(x)
        payloads.append((b32(x + P), b32(pt[1])))                     # x + p re-encoding
        if pt[1] + P < 2**256:
            payloads.append((b32(x), b32(pt[1] + P)))
    for x in off:
        payloads.append((b32(x), b32(1)))
    for x in (0, P - 1, P, P + 1, 2**256 - 1):
        for y in (0, 1, P - 1, P, 2**256 - 1):
            payloads.append((b32(x), b32(y)))
    # x = 0 is not on secp256k1 (7 is a non-residue? model decides); include y = sqrt(7) if it exists
    return payloads


def pubkey_case(env, case, st):
    """case = (xbytes, ybytes): every prefix byte 0..255 x every length 0..80"""
    L = env.L
    xb, yb = case
    full = xb + yb + b"\x99" * 15
    for prefix in range(256):
        for ln in range(0, 81):
            s = (bytes([prefix]) + full)[:ln] if ln else b""
            # lengths other than 33/65 with interesting prefixes, and every prefix at 33/65
            if ln not in (33, 65) and prefix not in (2, 3, 4, 6, 7) and ln not in (0, 1, 32, 34, 64, 66):
                continue
            pk = buf(b"\x11" * 64)
            ret = L.ec_pubkey_parse(L.ctx, pk, exact(s), ln)
            st.calls += 1
            pt = SECP.parse_pubkey(s)
            if (ret == 1) != (pt is not None):
                st.fail("ec_pubkey_parse returned %d, model says %s" % (ret, "accept" if pt else "reject"), {"cfg": L.config, "input": hx(s)})
                continue
            if pt is None:
                st.count("pk-reject")
                if not is_zero(pk.raw):
                    # header: "pubkey ... zeroed on failure"? it is memset before parsing; a non-zero object here must at least be unusable
                    out = buf(65)
                    l2 = c_size_t(65)
                    L.cb_reset()
                    r2 = L.ec_pubkey_serialize(L.ctx, out, byref(l2), pk, EC_UNCOMPRESSED)
                    if r2 == 1:
                        st.fail("rejected public key left a usable object", {"cfg": L.config, "input": hx(s)})
                    L.cb_reset()
                continue
            st.count("pk-accept-%02x" % prefix)
            st.nt((s[:1], pt))
            comp = pubkey_ser(L, pk, True)
            unc = pubkey_ser(L, pk, False)
            st.calls += 2
            if comp != SECP.ser_compressed(pt) or unc != SECP.ser_uncompressed(pt):
                st.fail("serialization of parsed key differs from model", {"cfg": L.config, "input": hx(s), "comp": hx(comp), "unc": hx(unc)})
            if prefix in (2, 3) and comp != s:
                st.fail("compressed round trip not identical", {"cfg": L.config, "input": hx(s)})
            if prefix == 4 and unc != s:
                st.fail("uncompressed round trip not identical", {"cfg": L.config, "input": hx(s)})
            if prefix in (6, 7) and unc != b"\x04" + s[1:]:
                st.fail("hybrid key does not serialize to its uncompressed form", {"cfg": L.config, "input": hx(s)})
            # parse(serialize(x)) == x as object
            pk2 = buf(64)
            if L.ec_pubkey_parse(L.ctx, pk2, comp, 33) != 1 or pk2.raw != pk.raw:
                st.fail("parse(serialize(key)) yields a different object", {"cfg": L.config, "input": hx(s)})
    # x-only parser for this x
    xo = buf(b"\x11" * 64)
    ret = L.xonly_pubkey_parse(L.ctx, xo, xb)
    st.calls += 1
    x = i32(xb)
    pt = SECP.lift_x(x) if x < P else None
    if (ret == 1) != (pt is not None):
        st.fail("xonly_pubkey_parse returned %d, model says %s" % (ret, "accept" if pt else "reject"), {"cfg": L.config, "x": hx(xb)})
    elif pt is not None:
        out = buf(32)
        L.xonly_pubkey_serialize(L.ctx, out, xo)
        pkf = buf(64)
        assert L.ec_pubkey_parse(L.ctx, pkf, SECP.ser_compressed(pt), 33) == 1
        if out.raw != xb or xo.raw != pkf.raw:
            st.fail("x-only round trip / even-y lift differs", {"cfg": L.config, "x": hx(xb)})
        st.count("xonly-accept")
    else:
        st.count("xonly-reject")
        if not is_zero(xo.raw):
            st.fail("rejected x-only key not zeroed", {"cfg": L.config, "x": hx(xb)})
    if L.illegal or L.errors:
        st.fail("callback fired on legal input", {"cfg": L.config, "x": hx(xb)})
        L.cb_reset()
    st.sample({"x": hx(xb), "y": hx(yb), "prefixes": 256, "lengths": "0..80"})


def coord_chain_xs():
    """x coordinates from the first-difference alphabet of the 'x < p' comparison: for every limb of the 26/52/32/64-bit
    partitions (lowest, highest, middle bit) the value that agrees with p above the deciding bit; ALL deciding positions are kept
    (dense) until two on-curve and one off-curve x per limb width/limb are found"""
    lt, ge = cmp_chain(P, dense=True)
    out, seen = [], set()
    for w in (26, 52, 32, 64):
        i = 0
        while w * i < 256:
            lo, hi = w * i, min(w * (i + 1), 256)
            on = off = 0
            for v in lt:
                b = (v ^ P).bit_length() - 1       # deciding position
                if not (lo <= b < hi):
                    continue
                oc = SECP.lift_x(v) is not None
                if (oc and on < 2) or (not oc and off < 1):
                    on += oc
                    off += (not oc)
                    if v not in seen:
                        seen.add(v)
                        out.append(v)
            i += 1
    return out + [v for v in ge if v not in seen]


def coord_chain_case(env, x, st):
    """every key format for one x of the comparison-chain alphabet; model decides"""
    L = env.L
    pt = SECP.lift_x(x) if x < P else None
    ys = [pt[1], P - pt[1]] if pt else [1, 2]
    inputs = [bytes([2]) + b32(x), bytes([3]) + b32(x)]
    for y in ys:
        for pre in (4, 6, 7):
            inputs.append(bytes([pre]) + b32(x) + b32(y))
    for s in inputs:
        pk = buf(b"\x11" * 64)
        ret = L.ec_pubkey_parse(L.ctx, pk, exact(s), len(s))
        st.calls += 1
        mp = SECP.parse_pubkey(s)
        if (ret == 1) != (mp is not None):
            st.fail("ec_pubkey_parse returned %d, model says %s (x differs from p first at bit %d)" % (ret, "accept" if mp else "reject", (x ^ P).bit_length() - 1),
                    {"cfg": L.config, "input": hx(s)})
            continue
        st.count("chain-%s" % ("accept" if mp else "reject"))
        if mp:
            st.nt(s)
            comp = pubkey_ser(L, pk, True)
            if comp != SECP.ser_compressed(mp) or (s[0] in (2, 3) and comp != s):
                st.fail("round trip of a key whose x is next to p differs", {"cfg": L.config, "input": hx(s), "comp": hx(comp)})
    xo = buf(b"\x11" * 64)
    ret = L.xonly_pubkey_parse(L.ctx, xo, b32(x))
    st.calls += 1
    if (ret == 1) != (pt is not None):
        st.fail("xonly_pubkey_parse returned %d, model says %s (x differs from p first at bit %d)" % (ret, "accept" if pt else "reject", (x ^ P).bit_length() - 1), {"cfg": L.config, "x": hex(x)})
    elif pt:
        o = buf(32)
        L.xonly_pubkey_serialize(L.ctx, o, xo)
        if o.raw != b32(x):
            st.fail("x-only round trip differs", {"cfg": L.config, "x": hex(x)})
    if L.illegal or L.errors:
        st.fail("callback fired on legal input", {"cfg": L.config, "x": hex(x)})
        L.cb_reset()
    if pt:
        st.sample({"x": hex(x), "deciding_bit": (x ^ P).bit_length() - 1, "on_curve": True})


def pubkey_serialize_buffers(env, case, st):
    """serialize with every buffer length 0..66: too short => illegal callback and 0"""
    L = env.L
    pk = buf(64)
    assert L.ec_pubkey_create(L.ctx, pk, b32(case)) == 1
    pt = SECP.mulG(case)
    for flags, need, exp in ((EC_COMPRESSED, 33, SECP.ser_compressed(pt)), (EC_UNCOMPRESSED, 65, SECP.ser_uncompressed(pt))):
        for blen in range(0, 67):
            out = exact(b"\xee" * max(blen, 1))
            ln = c_size_t(blen)
            L.cb_reset()
            ret = L.ec_pubkey_serialize(L.ctx, out, byref(ln), pk, flags)
            st.calls += 1
            if blen < need:
                if ret != 0 or L.illegal < 1:
                    st.fail("pubkey_serialize into a %d-byte buffer (needs %d): ret=%d illegal=%d" % (blen, need, ret, L.illegal), {"cfg": L.config})
                st.count("pkser-short")
            else:
                if ret != 1 or ln.value != need or bytes(out[:need]) != exp or L.illegal:
                    st.fail("pubkey_serialize into a sufficient buffer failed", {"cfg": L.config, "blen": blen, "ret": ret})
                st.count("pkser-ok")
                st.nt((case, flags, blen))
    L.cb_reset()


# ------------------------------------------------------------------ small group: subgroup check
def sg_pubkey_case(env, case, st):
    L, C, pts = env
    # every subgroup point in every format
    for i in range(1, C.n):
        pt = pts[i]
        for enc in (C.ser_compressed(pt), C.ser_uncompressed(pt), bytes([6 + (pt[1] & 1)]) + C.ser_uncompressed(pt)[1:],
                    bytes([7 - (pt[1] & 1)]) + C.ser_uncompressed(pt)[1:]):
            pk = buf(64)
            ret = L.ec_pubkey_parse(L.ctx, pk, enc, len(enc))
            exp = C.parse_pubkey(enc)
            st.calls += 1
            if (ret == 1) != (exp is not None):
                st.fail("small group: parse of subgroup point differs from model", {"cfg": L.config, "enc": hx(enc)})
            elif exp is not None:
                st.count("sg-pk-accept")
                st.nt(enc)
                if pubkey_ser(L, pk, True) != C.ser_compressed(pt):
                    st.fail("small group: round trip differs", {"cfg": L.config, "enc": hx(enc)})
            else:
                st.count("sg-pk-reject")
    # on-curve points OUTSIDE the subgroup must be rejected (both parsers)
    found = 0
    x = 1
    while found < 40 and x < 400:
        pt = C.lift_x(x)
        if pt is not None and C.mul(C.n, pt) is not None:
            found += 1
            for enc in (C.ser_compressed(pt), C.ser_uncompressed(pt), C.ser_compressed(C.neg(pt))):
                pk = buf(64)
                if L.ec_pubkey_parse(L.ctx, pk, enc, len(enc)) != 0:
                    st.fail("small group: on-curve point outside the subgroup accepted by ec_pubkey_parse", {"cfg": L.config, "enc": hx(enc)})
                st.calls += 1
            xo = buf(64)
            if L.xonly_pubkey_parse(L.ctx, xo, b32(x)) != 0:
                st.fail("small group: x of a point outside the subgroup accepted by xonly_pubkey_parse", {"cfg": L.config, "x": x})
            st.count("sg-outside-subgroup-reject")
        x += 1
    for i in range(1, C.n):
        xo = buf(64)
        if L.xonly_pubkey_parse(L.ctx, xo, b32(pts[i][0])) != 1:
            st.fail("small group: x-only parse rejected a subgroup point", {"cfg": L.config, "i": i})
    # compact signatures: every (r, s) encoding r+kN
    n = C.n
    for r in range(n):
        for s in range(n):
            for kr, ks in ((0, 0), (1, 0), (0, 1), (2**200, 0), (0, 2**200)):
                inp = b32(r + kr * n) + b32(s + ks * n)
                sig = buf(64)
                ret = L.ecdsa_signature_parse_compact(L.ctx, sig, inp)
                exp = 1 if (kr == 0 and ks == 0) else 0
                st.calls += 1
                if ret != exp:
                    st.fail("small group: parse_compact(r+%dN, s+%dN) returned %d" % (kr, ks, ret), {"cfg": L.config, "input": hx(inp)})
                if not exp:
                    # never verifies for any key and message (total over the group)
                    for d in range(1, n):
                        pk = pubkey_from_point(L, pts[d], C)
                        for m in range(n):
                            if L.ecdsa_verify(L.ctx, sig, b32(m), pk) != 0:
                                st.fail("small group: object left by rejected compact parse verifies", {"cfg": L.config, "input": hx(inp), "d": d, "m": m})
                            st.calls += 1
                    st.count("sg-compact-reject-never-verifies")
                else:
                    st.count("sg-compact-accept")
    if L.illegal or L.errors:
        st.fail("callback fired on legal input", {"cfg": L.config})
        L.cb_reset()
    st.sample({"group_order": C.n, "outside_subgroup_points": found})


def sg_setup(cfg):
    def f():
        L = lib(cfg)
        C, pts = small_group(L)
        return L, C, pts
    return f


def chunks(lst, n):
    return [lst[i:i + n] for i in range(0, len(lst), n)]


def main():
    a = args()
    run = Run(PID, a.tier)
    thorough = a.tier == "thorough"
    prods = ["prod-san", "prod-verify"] + (["cfg-int64-san-w15", "cfg-i128struct-noasm-w2-c2"] if thorough else [])
    sgs = ["sg13"] + (["sg7", "sg13-san"] if thorough else [])
    B.build_many(prods + sgs)
    for b in prods + sgs:
        run.cov["builds"][b] = B.source_hash()[:16]
    maxdev = 4 if thorough else 3
    gram = der_cases(maxdev)
    if thorough:
        gram = gram  # ~ full 4-deviation set
    sc = sc_alphabet()
    sym12 = [0x00, 0x01, 0x02, 0x03, 0x04, 0x06, 0x30, 0x7F, 0x80, 0x81, 0x82, 0xFF]
    for cfg in prods:
        first = cfg == prods[0]
        g = gram if first else der_cases(3 if thorough else 2)
        run_phase(run, "%s/der-grammar" % cfg, der_grammar_case, chunks(g, 200), setup=setup(cfg),
                  rule="DER strings generated from the grammar SEQ(tag,lenform){INT(tag,lenform,content)x2}+trailing with <= %d simultaneous deviations over 9 positions (5 tags, 14 length forms, %d integer contents, 4 trailing variants); strict-DER reference reader decides accept/(r,s); accepted strings re-serialised, verified object bytes, lax parser cross-checked; rejected ones must leave an object that does not verify" % (maxdev if first else (3 if thorough else 2), len(int_contents())),
                  extra={"bounds": {"max_deviations": maxdev}})
        # total short strings
        full_len = 3 if thorough and first else 2
        cases = [(bytes([b]), list(range(256)), full_len) for b in range(256)] + [(b"", [], 0)]
        if first or thorough:
          run_phase(run, "%s/der-all-short" % cfg, der_short_case, cases, setup=setup(cfg),
                  rule="EVERY byte string of length <= %d over all 256 byte values" % full_len)
        l12 = 7 if thorough and first else 5
        cases = [(bytes([x, y]), sym12, l12) for x in sym12 for y in sym12]
        run_phase(run, "%s/der-12symbols" % cfg, der_short_case, cases, setup=setup(cfg),
                  rule="every string of length 2..%d over the 12-symbol alphabet {00,01,02,03,04,06,30,7F,80,81,82,FF}" % l12)
        pairs = [(r % N, s % N) for r in sc for s in sc]
        pairs = sorted(set(pairs))
        run_phase(run, "%s/der-serialize" % cfg, der_serialize_case, pairs if (first or thorough) else pairs[::7], setup=setup(cfg),
                  rule="serialize_der of every (r,s) in (SC mod n)^2 into every buffer length 0..75: too short => 0 and the needed size; sufficient => canonical DER; parse back")
        run_phase(run, "%s/compact" % cfg, compact_case, compact_cases(), setup=setup(cfg),
                  rule="parse_compact / recoverable parse (recid -1..4) of every (r,s) in SC^2 plus valid signatures re-encoded as s+n / r+n (small s; R.x >= n); rejected objects must not verify for the key that validates the reduced pair")
        run_phase(run, "%s/pubkey" % cfg, pubkey_case, pk_payloads(), setup=setup(cfg),
                  rule="ec_pubkey_parse over every prefix byte 0..255 x lengths {0,1,32,33,34,64,65,66} (all 0..80 for prefixes 2,3,4,6,7) x payloads (on-curve both parities, y+1, x+p / y+p re-encodings, off-curve, 0, p-1, p, p+1, 2^256-1); x-only parser; serialise/parse identities, hybrid -> uncompressed")
        run_phase(run, "%s/coordinate-comparison-chain" % cfg, coord_chain_case, coord_chain_xs(), setup=setup(cfg),
                  rule="x coordinates that agree with p above a deciding bit, differ there and are all-ones below (x < p) / all-zero below (x >= p): for every limb of the 26-, 52-, 32- and 64-bit partitions two on-curve and one off-curve x; compressed, uncompressed, hybrid and x-only parsers against the model, round trip")
        run_phase(run, "%s/pubkey-serialize-buffers" % cfg, pubkey_serialize_buffers, [1, 2, N - 1], setup=setup(cfg),
                  rule="ec_pubkey_serialize into every buffer length 0..66 for both formats")
        if run.out_of_time():
            run.cov["exhaustive"] = False
            break
    for cfg in sgs:
        run_phase(run, "%s/subgroup-and-compact" % cfg, sg_pubkey_case, [0], setup=sg_setup(cfg), nproc=1,
                  rule="small group: every subgroup point in 4 formats, 40 on-curve points outside the subgroup (must be rejected by both parsers), every compact (r+kN, s+kN): accepted iff canonical and a rejected object never verifies for ANY key and message of the group")
    run.assumptions += ["DER strings beyond the grammar / short-string bounds are not explored",
                        "an object left by a rejected parse is only required not to verify (the statement), not to be all-zero"]
    sys.exit(run.finish())


if __name__ == "__main__":
    main()
