"""C05 Arithmetic and hashing kernel is mathematically exact on every configuration."""
import sys, ctypes, itertools, hashlib, hmac
from ctypes import c_int, c_long, c_size_t, c_void_p, byref
from ..core import Run, run_phase, hx, seeded_fillers
from ..util import *
from ..model.curve import sha256, sha256_new, tagged_hash
from ..model.ecdsa import RFC6979
from .. import build as B

PID = "C05"
_L = {}


def lib(cfg):
    if cfg not in _L:
        _L[cfg] = Lib(cfg)
    return _L[cfg]


def setup(cfg):
    return lambda: lib(cfg)


# ------------------------------------------------------------------ alphabets
def fe_alphabet():
    vals = [0, 1, 2, 3, P - 3, P - 2, P - 1, P, P + 1, P + 2, 2**256 - 1, 2**256 - 2, 2**32 + 977, 2**32 + 976, 2**32 + 978, BETA, (BETA * BETA) % P, 7, 21,
            (P - 1) // 2, (P + 1) // 2, (P + 1) // 4]
    for k in sorted(set(list(range(26, 256, 26)) + list(range(32, 256, 32)) + list(range(52, 256, 52)) + list(range(64, 256, 64)) + [255])):
        vals += [2**k - 1, 2**k, 2**k + 1]
    # alternating max / zero limb patterns for 5x52 and 10x26 layouts, and all limbs maximal
    for w, cnt in ((52, 5), (26, 10), (64, 4), (32, 8)):
        for par in (0, 1):
            v = 0
            for i in range(cnt):
                if i % 2 == par:
                    v |= ((1 << w) - 1) << (w * i)
            vals.append(v % 2**256)
        # single limb maximal
        for i in range(cnt):
            vals.append((((1 << w) - 1) << (w * i)) % 2**256)
    vals += [i32(f) for f in seeded_fillers(3, b"c05fe")]
    out, seen = [], set()
    for v in vals:
        if v not in seen:
            seen.add(v)
            out.append(v)
    return out


FE = fe_alphabet()
# first-difference alphabet of the ">= p" comparison (every limb of both field layouts as the deciding position, adversarial lower
# part); used by the unary phase (normalize*, set_b32_limit, ...) only - the binary phases would square its size
_lt, _ge = cmp_chain(P)
FE_CHAIN = [v for v in _lt + _ge if v not in FE]
FE_SMALL = [0, 1, 2, P - 1, P, 2**256 - 1, 2**32 + 977, (1 << 52) - 1 << 52, BETA, (P + 1) // 2, 2**255, i32(seeded_fillers(1, b"c05s")[0])]


class FEB:
    """builds (bytes, mag, meth) triples realising value v with magnitude mag by method meth"""

    def __init__(self, L):
        self.bv = {}
        for m in range(0, 33):
            o = buf(32)
            L.verif_fe_bounds_value(o, m)
            self.bv[m] = i32(o.raw)

    def make(self, v, mag, meth):
        v %= P
        if meth == 0:
            return b32(v)
        if meth == 1:
            return b32(v * pow(mag, -1, P) % P)
        if meth == 2:
            return b32((v - self.bv[mag - 1]) % P)
        if meth == 3:
            return b32(v if (mag - 1) % 2 == 0 else (P - v) % P)
        raise ValueError


def magmeths(maxmag, thorough):
    out = [(0, 0), (1, 0)]
    mags = [m for m in (1, 2, 3, 4, 7, 8, 9, 15, 16, 17, 31, 32) if m <= maxmag]
    if thorough:
        mags = [m for m in range(1, 33) if m <= maxmag]
    for m in mags:
        for meth in (1, 2, 3):
            out.append((m, meth))
    return [x for x in out if x[0] <= maxmag]


def legendre(a):
    a %= P
    return a == 0 or pow(a, (P - 1) // 2, P) == 1


# unary op table: name -> (opcode, max input magnitude, model)
def fe_unary_case(L, case, st):
    thorough, vals = case
    fb = FEB(L)
    out = buf(32)
    for v in vals:
        vm = v % P
        for (opn, op, maxmag) in (("normalize", 0, 32), ("normalize_weak", 1, 32), ("normalize_var", 2, 32), ("normalizes_to_zero", 3, 32),
                                  ("normalizes_to_zero_var", 4, 32), ("negate", 5, 31), ("half", 7, 31), ("sqr", 8, 8), ("inv", 9, 32), ("inv_var", 10, 32),
                                  ("sqrt", 11, 8), ("is_square_var", 12, 32), ("is_odd/zero", 13, 32), ("storage", 14, 32), ("sqr-alias", 27, 8)):
            for (mag, meth) in magmeths(maxmag, thorough):
                ab = fb.make(v, mag, meth)
                iarg = max(mag, 1) if op == 5 else 0
                ret = L.verif_fe_op(op, ab, mag, meth, None, 0, 0, iarg, out)
                got = i32(out.raw)
                st.calls += 1
                exp_ret = 0
                if op in (0, 1, 2, 14):
                    exp = vm
                elif op in (3, 4):
                    exp, exp_ret = vm, 1 if vm == 0 else 0
                elif op == 5:
                    exp = (P - vm) % P
                elif op == 7:
                    exp = vm * pow(2, -1, P) % P
                elif op in (8, 27):
                    exp = vm * vm % P
                elif op in (9, 10):
                    exp = pow(vm, -1, P) if vm else 0
                elif op == 11:
                    exp_ret = 1 if legendre(vm) else 0
                    r = pow(vm, (P + 1) // 4, P)
                    # contract: if a is square r = sqrt(a); otherwise r = sqrt(-a); either root sign
                    okv = (got * got - (vm if exp_ret else (P - vm))) % P == 0
                    exp = got if okv else r
                elif op == 12:
                    exp, exp_ret = vm, 1 if legendre(vm) else 0
                elif op == 13:
                    exp, exp_ret = vm, (vm & 1) | ((1 if vm == 0 else 0) << 1)
                st.count(opn)
                if got != exp or ret != exp_ret:
                    st.fail("fe %s(value %s, magnitude %d via method %d): got (%d, %s) expected (%d, %s)" % (opn, hex(v), mag, meth, ret, hex(got), exp_ret, hex(exp)),
                            {"cfg": L.config, "op": opn, "v": hex(v), "mag": mag, "meth": meth})
        # mul_int k, add_int
        for k in (0, 1, 2, 3, 4, 7, 8, 16, 32):
            for (mag, meth) in magmeths(32, thorough):
                if mag * k > 32 or (mag == 0 and False):
                    continue
                ab = fb.make(v, mag, meth)
                L.verif_fe_op(6, ab, mag, meth, None, 0, 0, k, out)
                st.calls += 1
                st.count("mul_int")
                if i32(out.raw) != vm * k % P:
                    st.fail("fe mul_int(%s, %d) wrong" % (hex(v), k), {"cfg": L.config, "v": hex(v), "mag": mag, "meth": meth, "k": k})
        for k in (0, 1, 7, 0x7FFF):
            for (mag, meth) in magmeths(31, False):
                ab = fb.make(v, mag, meth)
                L.verif_fe_op(15, ab, mag, meth, None, 0, 0, k, out)
                st.calls += 1
                st.count("add_int")
                if i32(out.raw) != (vm + k) % P:
                    st.fail("fe add_int(%s, %d) wrong" % (hex(v), k), {"cfg": L.config, "v": hex(v), "mag": mag, "meth": meth, "k": k})
        # set_b32_limit on the raw 32 bytes
        ret = L.verif_fe_op(16, b32(v), 0, 0, None, 0, 0, 0, out)
        st.calls += 1
        if ret != (1 if v < P else 0) or (ret and i32(out.raw) != v):
            st.fail("fe set_b32_limit(%s) returned %d" % (hex(v), ret), {"cfg": L.config, "v": hex(v)})
        st.nt(v)
    st.sample({"values": [hex(x) for x in vals[:2]], "ops": 19, "magnitude_constructions": len(magmeths(32, thorough))})


MULPAIRS = [((1, 0), (1, 0)), ((8, 1), (8, 1)), ((8, 2), (8, 3)), ((8, 3), (8, 2)), ((1, 0), (8, 2)), ((8, 1), (1, 0)), ((4, 2), (5, 3)), ((2, 3), (7, 1)), ((0, 0), (8, 2))]
ADDPAIRS = [((1, 0), (1, 0)), ((1, 0), (31, 2)), ((31, 1), (1, 0)), ((16, 2), (16, 3)), ((16, 1), (16, 1)), ((0, 0), (31, 2)), ((8, 3), (24, 1)), ((31, 3), (1, 0))]


def fe_binary_case(L, case, st):
    a, bvals, thorough = case
    fb = FEB(L)
    out = buf(32)
    am = a % P
    for b in bvals:
        bm = b % P
        for (pa, pb) in MULPAIRS:
            for op in (20, 26):
                ab, bb = fb.make(a, *pa), fb.make(b, *pb)
                L.verif_fe_op(op, ab, pa[0], pa[1], bb, pb[0], pb[1], 0, out)
                st.calls += 1
                if i32(out.raw) != am * bm % P:
                    st.fail("fe mul(%s [mag %d/m%d], %s [mag %d/m%d]) wrong" % (hex(a), pa[0], pa[1], hex(b), pb[0], pb[1]), {"cfg": L.config, "a": hex(a), "b": hex(b), "pa": pa, "pb": pb, "alias": op == 26})
        st.count("mul", 2 * len(MULPAIRS))
        for (pa, pb) in ADDPAIRS:
            ab, bb = fb.make(a, *pa), fb.make(b, *pb)
            L.verif_fe_op(21, ab, pa[0], pa[1], bb, pb[0], pb[1], 0, out)
            st.calls += 1
            if i32(out.raw) != (am + bm) % P:
                st.fail("fe add wrong", {"cfg": L.config, "a": hex(a), "b": hex(b), "pa": pa, "pb": pb})
        st.count("add", len(ADDPAIRS))
        # equal: a magnitude <= 1, b magnitude <= 31
        for pa in ((0, 0), (1, 0), (1, 3)):
            for pb in ((0, 0), (1, 0), (30, 1), (30, 2), (16, 3), (2, 3)):  # documented bound is 31, but negate(a,1)+b then asserts 33 <= 32 under VERIFY (upstream doc nit)
                ab, bb = fb.make(a, *pa), fb.make(b, *pb)
                r = L.verif_fe_op(22, ab, pa[0], pa[1], bb, pb[0], pb[1], 0, out)
                st.calls += 1
                if r != (1 if am == bm else 0):
                    st.fail("fe equal(%s,%s) returned %d" % (hex(a), hex(b), r), {"cfg": L.config, "a": hex(a), "b": hex(b), "pa": pa, "pb": pb})
        st.count("equal", 18)
        r = L.verif_fe_op(23, b32(a), 1, 0, b32(b), 1, 0, 0, out)
        st.calls += 1
        if r != (am > bm) - (am < bm):
            st.fail("fe cmp_var(%s,%s) returned %d" % (hex(a), hex(b), r), {"cfg": L.config})
        for flag in (0, 1):
            for (pa, pb) in (((1, 0), (1, 0)), ((32, 1), (1, 0)), ((3, 3), (32, 2)), ((0, 0), (8, 3))):
                ab, bb = fb.make(a, *pa), fb.make(b, *pb)
                L.verif_fe_op(24, ab, pa[0], pa[1], bb, pb[0], pb[1], flag, out)
                st.calls += 1
                if i32(out.raw) != (bm if flag else am):
                    st.fail("fe cmov flag=%d wrong" % flag, {"cfg": L.config, "a": hex(a), "b": hex(b), "pa": pa, "pb": pb})
            L.verif_fe_op(25, b32(a), 1, 0, b32(b), 1, 0, flag, out)
            st.calls += 1
            if i32(out.raw) != (bm if flag else am):
                st.fail("fe storage_cmov flag=%d wrong" % flag, {"cfg": L.config, "a": hex(a), "b": hex(b)})
        st.count("cmp/cmov", 11)
    if am:
        R = 2**256 % P
        for t in (0, 1, 2, P - 1, P - 2, R - 1, R, R + 1, 2 * R, R * R % P, (R * R - 1) % P, 2**255, 2**52 - 1, 2**260 % P, (2**208) * 3 % P, (P - R)):
            bcr = t * pow(am, -1, P) % P
            for (pa, pb) in (((1, 0), (1, 0)), ((8, 1), (8, 2)), ((8, 3), (8, 1))):
                ab, bb = fb.make(a, *pa), fb.make(bcr, *pb)
                L.verif_fe_op(20, ab, pa[0], pa[1], bb, pb[0], pb[1], 0, out)
                st.calls += 1
                if i32(out.raw) != t % P:
                    st.fail("fe mul(%s, %s) != %s (crafted product next to a reduction boundary)" % (hex(a), hex(bcr), hex(t)), {"cfg": L.config, "a": hex(a), "b": hex(bcr), "pa": pa, "pb": pb})
        st.count("crafted-products", 48)
    st.nt(a)
    st.sample({"a": hex(a), "b_values": len(bvals), "mul_magnitude_pairs": len(MULPAIRS)})


CHAIN_OPS = ["add_b", "negate", "mul2", "mul3", "half", "normalize_weak", "add_int1"]
CONSUMERS = ["normalize", "sqr", "mul_b", "inv", "normalizes_to_zero", "normalizes_to_zero_var", "half", "normalize_var", "sqrt", "is_square_var", "inv_var"]


def chain_model(a, b, ops):
    """returns (value, magnitude) or None if a step exceeds magnitude 32"""
    v, mag = a % P, 1
    for o in ops:
        if o == 0:
            if mag + 1 > 32:
                return None
            v, mag = (v + b) % P, mag + 1
        elif o == 1:
            if mag > 31:
                return None
            v, mag = (P - v) % P, mag + 1
        elif o == 2:
            if mag * 2 > 32:
                return None
            v, mag = v * 2 % P, mag * 2
        elif o == 3:
            if mag * 3 > 32:
                return None
            v, mag = v * 3 % P, mag * 3
        elif o == 4:
            if mag > 31:
                return None
            v, mag = v * pow(2, -1, P) % P, (mag >> 1) + 1
        elif o == 5:
            mag = 1
        elif o == 6:
            if mag + 1 > 32:
                return None
            v, mag = (v + 1) % P, mag + 1
    return v, mag


def fe_chain_case(L, case, st):
    """history search: all operation words up to the given depth from (a, b), then every consumer"""
    a, b, depth = case
    out = buf(32)
    bm = b % P
    for d in range(0, depth + 1):
        for ops in itertools.product(range(7), repeat=d):
            m = chain_model(a, b, ops)
            arr = (c_int * max(d, 1))(*ops)
            for ci, cname in enumerate(CONSUMERS):
                if m is None:
                    continue
                v, mag = m
                if ci in (1, 2, 8) and mag > 8:
                    continue
                if ci == 6 and mag > 31:
                    continue
                r = L.verif_fe_chain(b32(a), b32(b), arr, d, ci, out)
                got = i32(out.raw)
                st.calls += 1
                exp_ret = 0
                if ci in (0, 7):
                    exp = v
                elif ci == 1:
                    exp = v * v % P
                elif ci == 2:
                    exp = v * bm % P
                elif ci in (3, 10):
                    exp = pow(v, -1, P) if v else 0
                elif ci in (4, 5):
                    exp, exp_ret = v, 1 if v == 0 else 0
                elif ci == 6:
                    exp = v * pow(2, -1, P) % P
                elif ci == 8:
                    exp_ret = 1 if legendre(v) else 0
                    okv = (got * got - (v if exp_ret else (P - v))) % P == 0
                    exp = got if okv else -1
                elif ci == 9:
                    exp, exp_ret = v, 1 if legendre(v) else 0
                if r < 0 or got != exp or r != exp_ret:
                    st.fail("fe history %s -> %s: got (%d,%s) expected (%d,%s)" % ([CHAIN_OPS[o] for o in ops], cname, r, hex(got), exp_ret, hex(exp)),
                            {"cfg": L.config, "a": hex(a), "b": hex(b), "ops": list(ops), "consumer": cname})
            if m is not None:
                st.states.add((m[0], m[1]))
    st.nt((a, b))
    st.sample({"a": hex(a), "b": hex(b), "depth": depth, "ops": CHAIN_OPS, "consumers": CONSUMERS})


# ------------------------------------------------------------------ scalars
def sc_model_ok(L):
    return L.order or N


def scalar_case(L, case, st):
    a, bvals = case
    n = L.order or N
    out = buf(64)
    ab = b32(a)
    am = a % n

    def call(op, bb=None, i1=0, i2=0):
        st.calls += 1
        r = L.verif_scalar_op(op, ab, bb, i1, i2, out)
        return r, i32(out.raw[:32]), i32(out.raw[32:])
    r, v, _ = call(0)
    if r != (1 if a >= n else 0) or v != am:
        st.fail("scalar set_b32(%s): overflow=%d value=%s" % (hex(a), r, hex(v)), {"cfg": L.config})
    r, v, _ = call(16)
    if r != (1 if 0 < a < n else 0):
        st.fail("scalar set_b32_seckey(%s) returned %d" % (hex(a), r), {"cfg": L.config})
    for (name, op, exp) in (("negate", 2, (n - am) % n), ("sqr", 4, am * am % n), ("inverse", 5, pow(am, -1, n) if am else 0), ("inverse_var", 6, pow(am, -1, n) if am else 0),
                            ("half", 7, am * pow(2, -1, n) % n), ("sqr-via-mul", 21, am * am % n)):
        if L.order and am == 0 and op in (5, 6):
            continue    # the test-only small scalar type asserts on inverse(0)
        r, v, _ = call(op)
        st.count(name)
        if v != exp:
            st.fail("scalar %s(%s) = %s, expected %s" % (name, hex(a), hex(v), hex(exp)), {"cfg": L.config, "a": hex(a)})
    r, v, _ = call(13)
    exp = (1 if am > n // 2 else 0) | ((am == 0) << 1) | ((am == 1) << 2) | ((am % 2 == 0) << 3)
    if r != exp:
        st.fail("scalar predicates(%s) = %d expected %d (is_high|zero<<1|one<<2|even<<3)" % (hex(a), r, exp), {"cfg": L.config, "a": hex(a)})
    for flag in (0, 1):
        r, v, _ = call(14, None, flag)
        if v != ((n - am) % n if flag else am) or r != (-1 if flag else 1):
            st.fail("scalar cond_negate(%s,%d) = (%d,%s)" % (hex(a), flag, r, hex(v)), {"cfg": L.config})
    if not L.order:
        # split_128 / split_lambda / bits
        r, lo, hi = call(11)
        if lo != am % 2**128 or hi != am >> 128:
            st.fail("scalar split_128(%s) wrong" % hex(a), {"cfg": L.config})
        r, r1, r2 = call(12)
        b1 = r1 < 2**128 or r1 > n - 2**128
        b2 = r2 < 2**128 or r2 > n - 2**128
        if (r1 + LAMBDA * r2 - am) % n != 0 or not b1 or not b2:
            st.fail("scalar split_lambda(%s): r1=%s r2=%s violates r1 + lambda*r2 == k or the 128-bit bounds" % (hex(a), hex(r1), hex(r2)), {"cfg": L.config, "a": hex(a)})
        st.count("split")
        for off in range(0, 256):
            for cnt in (1, 2, 3, 4, 5, 8, 13, 16, 31, 32):
                if off + cnt <= 256:
                    exp = (am >> off) & ((1 << cnt) - 1)
                    r, _, _ = call(10, None, off, cnt)
                    if (r & 0xFFFFFFFF) != exp:
                        st.fail("scalar get_bits_var(%s, %d, %d) = %x expected %x" % (hex(a), off, cnt, r & 0xFFFFFFFF, exp), {"cfg": L.config, "a": hex(a), "off": off, "cnt": cnt})
                    if (off + cnt - 1) >> 5 == off >> 5:
                        r, _, _ = call(9, None, off, cnt)
                        if (r & 0xFFFFFFFF) != exp:
                            st.fail("scalar get_bits_limb32(%s, %d, %d) = %x expected %x" % (hex(a), off, cnt, r & 0xFFFFFFFF, exp), {"cfg": L.config, "a": hex(a), "off": off, "cnt": cnt})
        st.count("get_bits", 256 * 10)
        for bit in range(256):
            if am + (1 << bit) < n:
                for flag in (0, 1):
                    r, v, _ = call(8, None, bit, flag)
                    if v != am + (flag << bit):
                        st.fail("scalar cadd_bit(%s, %d, %d) wrong" % (hex(a), bit, flag), {"cfg": L.config, "a": hex(a), "bit": bit})
        st.count("cadd_bit", 256)
    # crafted products: a*b == t (mod n) for t next to 0, next to 2^256 - n (= N_C) and its multiples: the results
    # on which the final carry / conditional subtraction of the 512-bit reduction is decided
    if not L.order and am:
        NC = 2**256 - n
        for t in (0, 1, 2, NC - 1, NC, NC + 1, 2 * NC - 1, 2 * NC, 2 * NC + 1, 3 * NC, 4 * NC + 1, n - 1, n - NC, 2**255 % n, 2**128, 2**192 - 1):
            bcr = t * pow(am, -1, n) % n
            for op in (3, 20):
                r, v, _ = call(op, b32(bcr))
                if v != t % n:
                    st.fail("scalar mul(%s,%s) = %s expected %s (crafted product next to a reduction boundary)" % (hex(a), hex(bcr), hex(v), hex(t % n)), {"cfg": L.config, "a": hex(a), "b": hex(bcr)})
        # squares: a*a checked against the model already; also (n-a)^2 == a^2
        st.count("crafted-products", 32)
    for b in bvals:
        bb = b32(b)
        bm = b % n
        r, v, _ = call(1, bb)
        if v != (am + bm) % n or r != (1 if am + bm >= n else 0):
            st.fail("scalar add(%s,%s) = (%d,%s)" % (hex(a), hex(b), r, hex(v)), {"cfg": L.config, "a": hex(a), "b": hex(b)})
        for op in (3, 20):
            r, v, _ = call(op, bb)
            if v != am * bm % n:
                st.fail("scalar mul(%s,%s) = %s expected %s" % (hex(a), hex(b), hex(v), hex(am * bm % n)), {"cfg": L.config, "a": hex(a), "b": hex(b), "alias": op == 20})
        r, v, _ = call(18, bb)
        if r != (1 if am == bm else 0):
            st.fail("scalar eq wrong", {"cfg": L.config, "a": hex(a), "b": hex(b)})
        for flag in (0, 1):
            r, v, _ = call(15, bb, flag)
            if v != (bm if flag else am):
                st.fail("scalar cmov wrong", {"cfg": L.config, "a": hex(a), "b": hex(b)})
        if not L.order:
            for shift in (256, 257, 272, 300, 383, 384, 385, 448, 511, 512):
                r, v, _ = call(17, bb, shift)
                exp = (am * bm + (1 << (shift - 1))) >> shift
                if v != exp:
                    st.fail("scalar mul_shift_var(%s,%s,%d) = %s expected %s" % (hex(a), hex(b), shift, hex(v), hex(exp)), {"cfg": L.config, "a": hex(a), "b": hex(b), "shift": shift})
        st.count("binary", 16)
    st.nt(a)
    st.sample({"a": hex(a), "b_values": len(bvals)})


def scalar_misc_case(L, case, st):
    n = L.order or N
    out = buf(32)
    for v in (0, 1, 2, 2**31, 2**32 - 1, 2**32, 2**63, 2**64 - 1, 10**19, 13, 199):
        L.verif_scalar_set_u64(v, out)
        st.calls += 1
        if i32(out.raw) != v % n:
            st.fail("scalar set_u64(%d) wrong" % v, {"cfg": L.config})
    o64 = buf(64)
    for v in (0, 1, 12, 13, 2**31, 2**32 - 1):
        L.verif_scalar_op(19, b32(0), None, v, 0, o64)
        st.calls += 1
        if i32(o64.raw[:32]) != v % n:
            st.fail("scalar set_int(%d) wrong" % v, {"cfg": L.config})
    st.nt(0)
    st.nt(1)


# ------------------------------------------------------------------ group
def enc_pt(pt):
    return b"\x00" * 65 if pt is None else b"\x01" + b32(pt[0]) + b32(pt[1])


def dec_pt(b):
    return None if b[0] == 0 else (i32(b[1:33]), i32(b[33:65]))


class GEnv:
    def __init__(self, cfg):
        self.L = L = lib(cfg)
        if L.order:
            self.C, pts = small_group(L)
            self.pts = pts                       # index = log
            self.logs = list(range(L.order))
        else:
            self.C = SECP
            f = i32(seeded_fillers(1, b"c05g")[0]) % N or 5
            base = [1, 2, 3, 7, f]
            logs = []
            for k in base:
                for kk in (k, N - k, k * LAMBDA % N, N - k * LAMBDA % N):
                    if kk not in logs:
                        logs.append(kk)
            self.logs = [0] + logs
            self.pts = {k: SECP.mulG(k) if k else None for k in self.logs}
        self.ctx2 = L.context_create(1)
        self.zs = [None, b32(2), seeded_fillers(1, b"c05z")[0], b32(P - 1)]


def group_case(env, case, st):
    L, C = env.L, env.C
    ka = case
    A = env.pts[ka]
    out = buf(65)
    n = C.n
    for kb in env.logs:
        Bp = env.pts[kb]
        S = C.add(A, Bp)
        for az in env.zs:
            for bz in env.zs[:3]:
                for op, nm in ((0, "add_var"), (1, "add_ge"), (2, "add_ge_var"), (3, "add_zinv_var")):
                    if op == 1 and Bp is None:
                        continue
                    if op in (1, 2) and bz is not None:
                        continue
                    if op == 3 and (bz is None):
                        continue
                    for rz in ((0, 1) if (op in (0, 2) and A is not None) else (0,)):
                        L.verif_group_op(op, enc_pt(A), az, enc_pt(Bp), bz, rz, out)
                        st.calls += 1
                        st.count(nm)
                        if dec_pt(out.raw) != S:
                            st.fail("group %s: %d*G + %d*G wrong (z variants %s/%s)" % (nm, ka, kb, hx(az), hx(bz)), {"cfg": L.config, "ka": hex(ka), "kb": hex(kb), "az": hx(az), "bz": hx(bz)})
                r = L.verif_group_op(8, enc_pt(A), az, enc_pt(Bp), bz, 0, out)
                r2 = L.verif_group_op(9, enc_pt(A), az, enc_pt(Bp), None, 0, out)
                st.calls += 2
                if r != (1 if A == Bp else 0) or r2 != (1 if A == Bp else 0):
                    st.fail("group eq_var / eq_ge_var(%d*G, %d*G) wrong" % (ka, kb), {"cfg": L.config, "ka": hex(ka), "kb": hex(kb)})
                for flag in (0, 1):
                    L.verif_group_op(15, enc_pt(A), az, enc_pt(Bp), bz, flag, out)
                    st.calls += 1
                    if dec_pt(out.raw) != (Bp if flag else A):
                        st.fail("gej_cmov wrong", {"cfg": L.config, "ka": hex(ka), "kb": hex(kb)})
            if A is not None and Bp is not None:
                r = L.verif_group_op(11, enc_pt(A), az, enc_pt(Bp), None, 0, out)
                st.calls += 1
                if r != (1 if A[0] == Bp[0] else 0):
                    st.fail("gej_eq_x_var wrong", {"cfg": L.config, "ka": hex(ka), "kb": hex(kb)})
        r = L.verif_group_op(10, enc_pt(A), None, enc_pt(Bp), None, 0, out)
        st.calls += 1
        if r != (1 if A == Bp else 0):
            st.fail("ge_eq_var wrong", {"cfg": L.config, "ka": hex(ka), "kb": hex(kb)})
        if A is not None and Bp is not None:
            for flag in (0, 1):
                L.verif_group_op(20, enc_pt(A), None, enc_pt(Bp), None, flag, out)
                st.calls += 1
                if dec_pt(out.raw) != (Bp if flag else A):
                    st.fail("ge_storage_cmov wrong", {"cfg": L.config})
        st.nt((ka, kb))
    # unary
    D = C.add(A, A)
    for az in env.zs:
        for op, nm, exp in ((4, "double", D), (5, "double_var", D), (6, "gej_neg", C.neg(A)), (19, "ge_set_gej", A)):
            for rz in ((0, 1) if op == 5 else (0,)):
                L.verif_group_op(op, enc_pt(A), az, None, None, rz, out)
                st.calls += 1
                st.count(nm)
                if dec_pt(out.raw) != exp:
                    st.fail("group %s(%d*G) wrong" % (nm, ka), {"cfg": L.config, "ka": hex(ka), "az": hx(az)})
        if A is not None:
            r = L.verif_group_op(12, enc_pt(A), az, None, None, 0, out)
            st.calls += 1
            if r != (1 if legendre(A[1]) else 0):
                st.fail("gej_has_quad_y_var wrong", {"cfg": L.config, "ka": hex(ka), "az": hx(az)})
    L.verif_group_op(7, enc_pt(A), None, None, None, 0, out)
    if dec_pt(out.raw) != C.neg(A):
        st.fail("ge_neg wrong", {"cfg": L.config, "ka": hex(ka)})
    if A is not None:
        L.verif_group_op(13, enc_pt(A), None, None, None, 0, out)
        lam = LAMBDA if not L.order else None
        if lam is not None and dec_pt(out.raw) != env.pts.get(ka * LAMBDA % N, SECP.mul(LAMBDA, A)):
            st.fail("ge_mul_lambda wrong", {"cfg": L.config, "ka": hex(ka)})
        if L.order and dec_pt(out.raw) != (A[0] * BETA % P, A[1]):
            st.fail("ge_mul_lambda != (beta*x, y)", {"cfg": L.config, "ka": hex(ka)})
        for op in (16, 17, 18):
            L.verif_group_op(op, enc_pt(A), None, None, None, 0, out)
            if dec_pt(out.raw) != A:
                st.fail("ge storage/bytes round trip wrong (op %d)" % op, {"cfg": L.config, "ka": hex(ka)})
        if L.verif_group_op(14, enc_pt(A), None, None, None, 0, out) != 1:
            st.fail("ge_is_valid_var rejects a curve point", {"cfg": L.config})
        bad = (A[0], (A[1] + 1) % P)
        if L.verif_group_op(14, enc_pt(bad), None, None, None, 0, out) != 0:
            st.fail("ge_is_valid_var accepts an off-curve point", {"cfg": L.config})
        # x-based constructors
        for odd in (0, 1):
            r = L.verif_group_x_op(0, b32(A[0]), None, odd, out)
            if r != 1 or dec_pt(out.raw) != C.lift_x(A[0], odd):
                st.fail("ge_set_xo_var wrong", {"cfg": L.config, "ka": hex(ka)})
        r = L.verif_group_x_op(1, b32(A[0]), None, 0, out)
        pt = dec_pt(out.raw)
        if r != 1 or pt is None or pt[0] != A[0] or not legendre(pt[1]) or not C.on_curve(pt):
            st.fail("ge_set_xquad wrong", {"cfg": L.config, "ka": hex(ka)})
        for d in (1, 2, P - 1, i32(env.zs[2])):
            r = L.verif_group_x_op(3, b32(A[0] * d % P), b32(d), 0, out)
            if r != 1:
                st.fail("ge_x_frac_on_curve_var rejects x*d/d for a curve x", {"cfg": L.config, "ka": hex(ka), "d": hex(d)})
        st.calls += 12
    else:
        L.verif_group_op(18, enc_pt(A), None, None, None, 0, out)
        if dec_pt(out.raw) is not None:
            st.fail("ge bytes_ext round trip of infinity wrong", {"cfg": L.config})
    if L.illegal or L.errors:
        st.fail("callback fired", {"cfg": L.config})
        L.cb_reset()
    st.sample({"a_log": hex(ka), "b_points": len(env.logs), "z_variants": len(env.zs)})


def group_x_case(env, case, st):
    """x-coordinate predicates over the FE alphabet"""
    L, C = env.L, env.C
    out = buf(65)
    for x in case:
        xm = x % P
        on = C.lift_x(xm) is not None
        r = L.verif_group_x_op(2, b32(x), None, 0, out)
        r0 = L.verif_group_x_op(0, b32(x), None, 1, out)
        st.calls += 2
        if r != (1 if on else 0) or r0 != (1 if on else 0) or (on and dec_pt(out.raw) != C.lift_x(xm, 1)):
            st.fail("ge_x_on_curve_var / set_xo_var(%s) wrong" % hex(x), {"cfg": L.config, "x": hex(x)})
        for d in (1, 3, P - 2):
            r = L.verif_group_x_op(3, b32(xm * d % P), b32(d), 0, out)
            st.calls += 1
            if r != (1 if on else 0):
                st.fail("ge_x_frac_on_curve_var(%s*d, d) = %d, on curve = %s" % (hex(x), r, on), {"cfg": L.config, "x": hex(x), "d": hex(d)})
        st.count("on-curve" if on else "off-curve")
        st.nt(x)


def batch_case(env, case, st):
    L, C = env.L, env.C
    logs = [k for k in env.logs if k][:16]
    for n in (0, 1, 2, 3, 8, 16):
        for withinf in (0, 1):
            ks = logs[:n]
            if withinf and n >= 2:
                ks = list(ks)
                ks[n // 2] = 0
            pts = b"".join(enc_pt(env.pts[k]) for k in ks)
            zs = b"".join(b32((i * 7 + 3) % P) for i in range(len(ks)))
            out = buf(65 * max(n, 1))
            for op in (0, 1):
                if op == 0 and withinf:
                    continue
                L.verif_group_batch(op, pts, zs, len(ks), out)
                st.calls += 1
                got = [dec_pt(out.raw[65 * i:65 * i + 65]) for i in range(len(ks))]
                if got != [env.pts[k] for k in ks]:
                    st.fail("ge_set_all_gej%s on %d points wrong" % ("_var" if op else "", n), {"cfg": L.config, "n": n, "with_infinity": withinf})
                st.nt((n, withinf, op))


# ------------------------------------------------------------------ ecmult
def ecmult_case(env, case, st):
    L, C = env.L, env.C
    na, ngs, plogs = case
    n = C.n
    out = buf(65)
    for kp in plogs:
        A = env.pts[kp] if (L.order or kp in env.pts) else C.mulG(kp)
        for az in env.zs[:3]:
            for ng in ngs:
                L.verif_ecmult(0, L.ctx, enc_pt(A), az, b32(na), None if ng is None else b32(ng), out)
                st.calls += 1
                exp_log = (na % n * kp + (ng or 0)) % n
                exp = env.pts[exp_log] if L.order else C.mulG(exp_log)
                st.count("ecmult")
                if dec_pt(out.raw) != exp:
                    st.fail("ecmult(%s * [%s]G + %s * G) wrong" % (hex(na), hex(kp), hex(ng or 0)), {"cfg": L.config, "na": hex(na), "kp": hex(kp), "ng": None if ng is None else hex(ng), "az": hx(az)})
        if A is not None:
            exp_log = na % n * kp % n
            exp = env.pts[exp_log] if L.order else C.mulG(exp_log)
            L.verif_ecmult(1, L.ctx, enc_pt(A), None, b32(na), None, out)
            st.calls += 1
            st.count("ecmult_const")
            if dec_pt(out.raw) != exp:
                st.fail("ecmult_const(%s, [%s]G) wrong" % (hex(na), hex(kp)), {"cfg": L.config, "na": hex(na), "kp": hex(kp)})
            if na % n:
                for kind, d in ((3, None), (4, b32(2)), (4, env.zs[2]), (4, b32(P - 1))):
                    r = L.verif_ecmult(kind, L.ctx, enc_pt(A), d, b32(na), b32(1), out)
                    st.calls += 1
                    st.count("ecmult_const_xonly")
                    gx = i32(out.raw[1:33]) if out.raw[0] else None
                    if r != 1 or gx != (exp[0] if exp else None):
                        st.fail("ecmult_const_xonly(%s, x([%s]G), denominator %s) wrong" % (hex(na), hex(kp), hx(d)), {"cfg": L.config, "na": hex(na), "kp": hex(kp)})
                    r = L.verif_ecmult(kind, L.ctx, enc_pt(A), d, b32(na), None, out)   # known_on_curve = 0: performs the check
                    gx = i32(out.raw[1:33]) if out.raw[0] else None
                    st.calls += 1
                    if r != 1 or gx != (exp[0] if exp else None):
                        st.fail("ecmult_const_xonly (with curve check) wrong", {"cfg": L.config, "na": hex(na), "kp": hex(kp)})
    # generator multiplication with several blinding states
    exp = env.pts[na % n] if L.order else C.mulG(na)
    for ctx in env.ctxs:
        L.verif_ecmult(2, ctx, enc_pt(None), None, b32(na), None, out)
        st.calls += 1
        st.count("ecmult_gen")
        if dec_pt(out.raw) != exp:
            st.fail("ecmult_gen(%s) wrong (blinding state %d)" % (hex(na), env.ctxs.index(ctx)), {"cfg": L.config, "na": hex(na)})
    st.nt(na)
    if L.illegal or L.errors:
        st.fail("callback fired", {"cfg": L.config})
        L.cb_reset()
    st.sample({"na": hex(na), "ng_values": len(ngs), "points": len(plogs)})


class EEnv(GEnv):
    def __init__(self, cfg):
        GEnv.__init__(self, cfg)
        L = self.L
        self.ctxs = [L.ctx]
        for seed in (b"\x00" * 32, b"\xff" * 32, seeded_fillers(1, b"c05b")[0]):
            c = L.context_create(1)
            L.context_randomize(c, seed)
            self.ctxs.append(c)
        c = L.context_create(1)
        L.context_randomize(c, b"\x01" * 32)
        L.context_randomize(c, b"\x02" * 32)
        self.ctxs.append(c)


def xonly_off_curve_case(env, case, st):
    L, C = env.L, env.C
    out = buf(32)
    for x in case:
        xm = x % P
        on = C.lift_x(xm) is not None
        for q in (1, 2, 7):
            r = L.verif_ecmult_xonly_raw(b32(x), b32(q), out)
            st.calls += 1
            if r != (1 if on else 0):
                st.fail("ecmult_const_xonly(x=%s) curve check returned %d, on curve = %s" % (hex(x), r, on), {"cfg": L.config, "x": hex(x)})
            if on and not L.order:
                e = C.mul(q, C.lift_x(xm))
                if i32(out.raw) != e[0]:
                    st.fail("ecmult_const_xonly(x=%s, q=%d) wrong" % (hex(x), q), {"cfg": L.config})
        st.nt(x)


def multi_case(env, case, st):
    """ecmult_multi_var for one batch size n: scratch variants x scalar/point patterns x failing callback index"""
    L, C = env.L, env.C
    nn = case
    n = C.n
    sc = env.sc
    logs = env.mlogs
    out = buf(65)
    calls = c_size_t(0)
    big = 1 << 20
    strauss1 = L.verif_ecmult_thresholds(1)
    pip1 = L.verif_ecmult_thresholds(2)
    scratches = [None, 0, 64, strauss1 - 1, strauss1 + 200, 2 * strauss1 + 400, pip1 + 700, 88 * strauss1, 90 * pip1 // 4, big]
    rows = []
    rows.append(("cyclic", [sc[i % len(sc)] for i in range(nn)], [logs[(i * 3) % len(logs)] for i in range(nn)]))
    rows.append(("zeros", [0] * nn, [logs[i % len(logs)] for i in range(nn)]))
    # cancelling pairs: (s, P), (s, -P); duplicated points; infinity points with non-zero scalars
    s3, p3 = [], []
    for i in range(nn):
        s3.append(sc[(i // 2) % len(sc)])
        k = logs[(i // 2) % len(logs)]
        p3.append(k if i % 2 == 0 else (n - k) % n)
    if nn >= 3:
        p3[2] = 0
    rows.append(("cancel", s3, p3))
    for scr in scratches:
        for (rname, ss, pl) in rows:
            for g in ((None, 5, n - 1) if scr in (None, big) or nn < 3 else (5,)):
                for fail_at in sorted(set([-1] + ([0, nn // 2, nn - 1] if nn > 0 and scr in (None, big) and rname == "cyclic" else []))):
                    scal = b"".join(b32(x) for x in ss)
                    pts = b"".join(enc_pt(env.mpts[k]) for k in pl)
                    fa = fail_at if fail_at >= 0 else 2**64 - 1
                    ssz = 2**64 - 1 if scr is None else scr
                    L.cb_reset()
                    r = L.verif_ecmult_multi(L.ctx, ssz, None if g is None else b32(g), scal if nn else None, pts if nn else None, nn, fa, out, byref(calls))
                    st.calls += 1
                    total = ((g or 0) + sum((x % n) * k for x, k in zip(ss, pl))) % n
                    exp = env.mpts[total] if total in env.mpts else C.mulG(total)
                    key = "multi-%s" % ("null" if scr is None else ("tiny" if scr <= 64 else "sized"))
                    if fail_at >= 0:
                        if r != 0:
                            st.fail("ecmult_multi_var must return 0 when the callback fails at index %d" % fail_at, {"cfg": L.config, "n": nn, "scratch": scr, "row": rname})
                        st.count(key + "-cbfail")
                        continue
                    if r == 1:
                        st.count(key + "-ok")
                        st.nt((nn, rname, scr, g))
                        if dec_pt(out.raw) != exp:
                            st.fail("ecmult_multi_var(n=%d, scratch=%s, row %s, g=%s) result wrong" % (nn, scr, rname, g), {"cfg": L.config, "n": nn, "scratch": scr, "row": rname, "g": g})
                    elif r == 0:
                        st.count(key + "-refused")
                        # refusing is only legitimate when the scratch space cannot hold a single point
                        if scr is None or nn == 0 or scr >= 2 * strauss1 + 400:
                            st.fail("ecmult_multi_var refused although %s" % ("no scratch is needed" if scr is None else "n == 0" if nn == 0 else "the scratch space fits at least one point"),
                                    {"cfg": L.config, "n": nn, "scratch": scr, "row": rname})
                    else:
                        st.fail("machinery: scratch creation failed", {"scratch": scr})
                    if L.illegal or L.errors:
                        st.fail("callback fired in ecmult_multi_var", {"cfg": L.config, "n": nn, "scratch": scr, "row": rname, "last": "illegal=%d error=%d" % (L.illegal, L.errors)})
                        L.cb_reset()
    if L.live_allocs != env.base_allocs:
        st.fail("scratch space leaked", {"cfg": L.config, "n": nn})
    st.sample({"batch_size": nn, "scratch_variants": [("NULL" if s is None else s) for s in scratches], "rows": [r[0] for r in rows]})


class MEnv(GEnv):
    def __init__(self, cfg):
        GEnv.__init__(self, cfg)
        L = self.L
        n = self.C.n
        if L.order:
            self.sc = list(range(n)) + [n, n + 1]
            self.mlogs = list(range(n))
            self.mpts = {k: self.pts[k] for k in range(n)}
        else:
            self.sc = sc_alphabet()
            self.mlogs = [1, 2, 3, N - 1, N - 2, LAMBDA, 5, 0, 9, N - LAMBDA, 11]
            self.mpts = {}
            for k in self.mlogs:
                self.mpts[k] = SECP.mulG(k) if k else None
                self.mpts[(N - k) % N] = SECP.mulG(N - k) if k else None
        self.base_allocs = L.live_allocs


# ------------------------------------------------------------------ hashing
def msgbytes(L_, salt=0):
    return bytes(((i * 131 + salt * 17 + (i >> 8)) & 0xFF) for i in range(L_))


class HEnv:
    def __init__(self, cfg):
        self.L = L = lib(cfg)
        self.ctxs = [("default", L.ctx)]
        c = L.context_create(1)
        L.context_set_sha256_compression(c, L.addr("verif_sha256_compress"))
        self.ctxs.append(("replaced-compression", c))
        assert L.illegal == 0, "replacement compression function rejected by selftest"


def sha_state_case(env, case, st):
    L = env.L
    Ln = case
    msg = msgbytes(Ln, Ln)
    tr = c_long(0)
    for (cname, ctx) in env.ctxs:
        for fill in (0x00, 0xFF):
            bad = L.verif_sha256_state_bfs(ctx, msg, Ln, fill, byref(tr))
            st.calls += tr.value
            st.count("sha256-write-transitions", tr.value)
            if bad:
                st.fail("SHA-256 streaming: %d of %d (written, next write) transitions for a %d-byte message leave a state different from the single-write state (ctx %s, stale fill %02x)" % (bad, tr.value, Ln, cname, fill),
                        {"cfg": L.config, "len": Ln, "ctx": cname, "fill": fill})
        out = buf(32 * (Ln + 1))
        L.verif_sha256_prefixes(ctx, msg, Ln, out)
        for o in range(Ln + 1):
            if out.raw[32 * o:32 * o + 32] != sha256(msg[:o]):
                st.fail("SHA-256 of a %d-byte message differs from the standard (ctx %s)" % (o, cname), {"cfg": L.config, "len": o, "ctx": cname})
                break
        st.calls += Ln + 1
    z = L.verif_sha256_zero_block_calls()
    if z and not getattr(env, "zero_reported", False):
        env.zero_reported = True
        st.fail("the library called the installed SHA-256 compression function with n_blocks == 0 (%d calls so far); the header documents it as processing ONE OR MORE blocks, so a replacement that is correct for n_blocks >= 1 would corrupt every hash" % z,
                {"cfg": L.config, "len": Ln})
    st.states.add(Ln)
    st.nt(Ln)
    st.sample({"message_length": Ln, "states": Ln + 1, "transitions": tr.value})


def sha_long_case(env, case, st):
    L = env.L
    Ln = case
    msg = msgbytes(Ln, 3)
    exp = sha256(msg)
    out = buf(32)
    for (cname, ctx) in env.ctxs:
        for chunk in (1 if Ln <= 5000 else 61, 63, 64, 65, 127, 4096, Ln + 1):
            L.verif_sha256_chunks(ctx, msg, Ln, chunk, out)
            st.calls += 1
            if out.raw != exp:
                st.fail("SHA-256 of %d bytes written in %d-byte chunks differs from the standard" % (Ln, chunk), {"cfg": L.config, "len": Ln, "chunk": chunk, "ctx": cname})
        # public tagged hash
        for tl in (0, 1, 13, 64, 100):
            tag = msgbytes(tl, 9)
            L.tagged_sha256(ctx, out, tag if tl else b"", tl, msg if Ln else b"", Ln)
            st.calls += 1
            if out.raw != tagged_hash(tag, msg):
                st.fail("tagged_sha256(tag %d bytes, msg %d bytes) differs from SHA256(SHA256(tag)||SHA256(tag)||msg)" % (tl, Ln), {"cfg": L.config, "len": Ln, "taglen": tl, "ctx": cname})
    st.nt(Ln)


def tagged_case(env, case, st):
    L = env.L
    tl = case
    tag = msgbytes(tl, 5)
    out = buf(32)
    for (cname, ctx) in env.ctxs:
        for ml in (0, 1, 31, 32, 33, 55, 56, 63, 64, 65, 119, 120, 300, 1000, 1001):
            msg = msgbytes(ml, 6)
            L.tagged_sha256(ctx, out, tag if tl else b"", tl, msg if ml else b"", ml)
            st.calls += 1
            e = tagged_hash(tag, msg)
            if out.raw != e:
                st.fail("tagged_sha256(tag %d bytes, msg %d bytes) differs from the definition" % (tl, ml), {"cfg": L.config, "taglen": tl, "msglen": ml, "ctx": cname})
            L.verif_sha256_tagged(ctx, tag if tl else b"", tl, msg if ml else b"", ml, out)
            st.calls += 1
            if out.raw != e:
                st.fail("internal sha256_initialize_tagged path differs", {"cfg": L.config, "taglen": tl, "msglen": ml, "ctx": cname})
    st.nt(tl)
    st.sample({"tag_length": tl, "message_lengths": 15})


def hmac_case(env, case, st):
    L = env.L
    kl = case
    key = msgbytes(kl, 7)
    out = buf(32)
    for (cname, ctx) in env.ctxs:
        for ml in (0, 1, 55, 56, 63, 64, 65, 119, 120, 200):
            msg = msgbytes(ml, 8)
            e = hmac.new(key, msg, sha256_new).digest()
            for split in sorted(set([0, 1, ml // 2, ml])):
                L.verif_hmac(ctx, key if kl else b"", kl, msg if ml else b"", ml, split, out)
                st.calls += 1
                if out.raw != e:
                    st.fail("HMAC-SHA256(key %d bytes, msg %d bytes, split %d) differs from RFC 2104" % (kl, ml, split), {"cfg": L.config, "keylen": kl, "msglen": ml, "ctx": cname})
        # RFC 6979 generator seeded with `key`
        for lens in ((32,), (0,), (1,), (31, 32, 33), (100,), (64, 64), (32, 32, 32, 32, 32), (0, 32), (33, 0, 1)):
            arr = (c_size_t * len(lens))(*lens)
            tot = sum(lens)
            o2 = buf(max(tot, 1))
            L.verif_rfc6979(ctx, key if kl else b"", kl, arr, len(lens), o2)
            st.calls += 1
            g = RFC6979(key)
            e = b"".join(g.generate(x) for x in lens)
            if o2.raw[:tot] != e:
                st.fail("RFC 6979 generator (seed %d bytes, output lengths %s) differs from the HMAC-DRBG definition" % (kl, lens), {"cfg": L.config, "seedlen": kl, "lens": list(lens), "ctx": cname})
    st.nt(kl)
    st.sample({"key_or_seed_length": kl})


def chunks(lst, n):
    return [lst[i:i + n] for i in range(0, len(lst), n)]


def main():
    a = args()
    run = Run(PID, a.tier)
    thorough = a.tier == "thorough"
    cfgs = ["prod-san", "cfg-int64-noasm-w8-c22", "prod-verify", "cfg-i128struct-noasm-w2-c2", "cfg-i128-noasm-w8-c2"]
    # quick: the fifth configuration (native int128, C instead of x86-64 asm: field_5x52_int128_impl.h and the C scalar_4x64 paths,
    # which the pinned ctest build never compiles) runs the arithmetic phases only; the byte-oriented hash code does not depend on it
    arith_only = [] if thorough else ["cfg-i128-noasm-w8-c2"]
    if thorough:
        cfgs += ["cfg-int64-san-w15", "cfg-i128struct-asm-w15", "cfg-int64-noasm-w2-c86-clang", "cfg-i128-noasm-w5-c22-clang", "prod-fast"]
    sgs = ["sg13-verify"] + (["sg13", "sg7-verify", "sg199"] if thorough else [])
    import os
    if os.environ.get("VERIF_CFGS"):
        want = os.environ["VERIF_CFGS"].split(",")
        cfgs = [c for c in cfgs if c in want]
        sgs = [c for c in sgs if c in want]
    B.build_many(cfgs + sgs)
    for b in cfgs + sgs:
        run.cov["builds"][b] = B.source_hash()[:16]
    sc = sc_alphabet()
    for v in limb_boundaries():
        if v not in sc:
            sc.append(v)
    for cfg in cfgs:
        main_cfg = cfg in ("prod-san", "prod-verify") or thorough
        fe = (FE if main_cfg else FE[::2] + FE_SMALL) + FE_CHAIN
        run_phase(run, "%s/field-unary" % cfg, fe_unary_case, [(thorough, c) for c in chunks(fe, 4)], setup=setup(cfg),
                  rule="19 unary field operations on the FE alphabet (%d values: 0,1,p+-k,2^256-1,2^k/2^k+-1 at every limb boundary of both layouts, alternating/single max-limb patterns, beta, fillers, and the first-difference chain of the >= p comparison: for the lowest / highest / middle bit of every limb of the 26-, 52-, 32- and 64-bit partitions the value that agrees with p above it, differs there and is all-ones / all-zero below) x every admissible magnitude construction (mul_int, get_bounds+add, negate chains) vs arithmetic mod p" % len(fe))
        fb = FE if main_cfg else FE[::3]
        run_phase(run, "%s/field-binary" % cfg, fe_binary_case, [(x, fb, thorough) for x in fb], setup=setup(cfg),
                  rule="mul (incl. aliased), add, equal, cmp_var, cmov, storage_cmov on FE x FE x magnitude pairs within the documented preconditions")
        depth = 4 if thorough else 3
        cv = FE_SMALL if main_cfg else FE_SMALL[:6]
        run_phase(run, "%s/field-histories" % cfg, fe_chain_case, [(x, y, depth if main_cfg else 2) for x in cv for y in cv[:6]], setup=setup(cfg),
                  rule="history search: every word of length <= %d over {add, negate, mul_int 2, mul_int 3, half, normalize_weak, add_int} from each (a,b) pair, then each of 11 consumers; model state = (value mod p, magnitude bound); VERIFY builds assert the library's own magnitude bookkeeping on every step" % depth)
        ss = sc if main_cfg else sc[::2]
        sa = sc              # every configuration sees the full unary alphabet (incl. all limb boundaries); only the pair partners are thinned
        run_phase(run, "%s/scalar" % cfg, scalar_case, [(x, ss) for x in sa], setup=setup(cfg),
                  rule="scalar set_b32/seckey, negate, sqr, inverse(+var), half, predicates, cond_negate, split_128, split_lambda (equation + 128-bit bounds), get_bits at every offset x 10 widths, cadd_bit at every bit, and add/mul/eq/cmov/mul_shift_var(10 shifts) on SC x SC")
        run_phase(run, "%s/scalar-misc" % cfg, scalar_misc_case, [0], setup=setup(cfg), nproc=1)
        ge = GEnv(cfg)
        logs = list(ge.logs)
        run_phase(run, "%s/group" % cfg, group_case, logs, setup=lambda c=cfg: GEnv(c),
                  rule="all ordered pairs of a 21-point set (infinity, +-k, +-lambda*k for 5 logs) x 4 z-rescalings of a x 3 of b through add_var / add_ge / add_ge_var / add_zinv_var (with and without rzr), doubling, negation, equality predicates, cmov, storage/bytes round trips, x-based constructors")
        run_phase(run, "%s/group-x" % cfg, group_x_case, chunks(FE, 8), setup=lambda c=cfg: GEnv(c),
                  rule="x_on_curve / set_xo / x_frac_on_curve over the FE alphabet vs Euler criterion")
        run_phase(run, "%s/group-batch" % cfg, batch_case, [0], setup=lambda c=cfg: GEnv(c), nproc=1)
        ngs = [None, 0, 1, N - 1, LAMBDA, sc[-1] % N]
        plogs = [0, 1, 2, N - 1, LAMBDA, 7] if main_cfg else [1, N - 1, 7]
        run_phase(run, "%s/ecmult" % cfg, ecmult_case, [(x, ngs if main_cfg else ngs[:3], plogs) for x in ss], setup=lambda c=cfg: EEnv(c),
                  rule="ecmult(na, ng), ecmult_const, ecmult_const_xonly (no / 3 denominators, with and without curve check), ecmult_gen under 5 blinding states for na in SC, ng in 6 values, 6 points (z-rescaled)")
        run_phase(run, "%s/xonly-curve-check" % cfg, xonly_off_curve_case, chunks(FE, 8), setup=lambda c=cfg: GEnv(c))
        if cfg in arith_only:
            continue
        if thorough:
            sizes = list(range(0, 301))
        elif main_cfg:
            sizes = list(range(0, 101)) + list(range(110, 301, 10)) + [127, 128, 129, 255, 256, 257, 299]
        else:
            sizes = list(range(0, 120, 7)) + [87, 88, 89, 90, 300]
        run_phase(run, "%s/ecmult-multi" % cfg, multi_case, sizes, setup=lambda c=cfg: MEnv(c),
                  rule="ecmult_multi_var for EVERY batch size in the list (thorough: 0..300; quick main configurations: 0..100, every 10th to 300 and 127..129, 255..257, 299) x 10 scratch sizes (NULL, 0, 64, around the Strauss / Pippenger per-point sizes, 1 MiB) x 3 scalar/point rows (SC cyclic, all zero, cancelling pairs with duplicated/negated/infinity points) x callback failing at index 0, n/2, n-1; success must equal the model sum, refusal only when no point fits, no leak")
        if thorough:
            lens = list(range(0, 301))
        elif main_cfg:
            lens = list(range(0, 201)) + [255, 256, 257, 300]
        else:
            lens = list(range(0, 131, 5)) + [55, 56, 63, 64, 65, 119, 120, 127, 128, 129, 192, 300]
        run_phase(run, "%s/sha256-write-states" % cfg, sha_state_case, lens, setup=lambda c=cfg: HEnv(c),
                  rule="for every message length L listed: BFS over SHA-256 streaming states (bytes written o in 0..L) x every next write size k in 0..L-o; resulting struct must equal the single-write state, digests equal the standard for every prefix; stale buffer filled with 00 and FF; default and replaced compression function")
        tail = [301, 511, 512, 513, 1000, 1001, 4095, 4096, 65535, 65536, 100000] + ([2**20] if thorough else [])
        run_phase(run, "%s/sha256-long" % cfg, sha_long_case, tail, setup=lambda c=cfg: HEnv(c),
                  rule="long messages in chunk sizes {1|61,63,64,65,127,4096,all}; public tagged_sha256 with 5 tag lengths")
        run_phase(run, "%s/tagged" % cfg, tagged_case, list(range(0, 101)) if main_cfg else list(range(0, 101, 9)), setup=lambda c=cfg: HEnv(c),
                  rule="tagged_sha256 (public and internal) for every tag length 0..100 x 15 message lengths incl. 1000/1001")
        run_phase(run, "%s/hmac-rfc6979" % cfg, hmac_case, list(range(0, 131)) if main_cfg else list(range(0, 131, 7)) + [63, 64, 65], setup=lambda c=cfg: HEnv(c),
                  rule="HMAC-SHA256 for every key length 0..130 x 10 message lengths x write splits; RFC 6979 generator for every seed length 0..130 x 9 output-length sequences (up to 5 consecutive generates)")
        if run.out_of_time():
            run.cov["exhaustive"] = False
            break
    for cfg in sgs:
        n = int(cfg.split("-")[0][2:])
        run_phase(run, "%s/group-total" % cfg, group_case, list(range(n)), setup=lambda c=cfg: GEnv(c),
                  rule="small group: ALL ordered pairs of the N points (incl. infinity) x z-rescalings through every addition formula")
        scs = list(range(n)) + [n, n + 1, 2**256 - 1]
        run_phase(run, "%s/ecmult-total" % cfg, ecmult_case, [(x, [None] + list(range(n)) if n <= 13 else [None, 0, 1, n - 1], list(range(n)) if n <= 13 else [0, 1, 2, n - 1]) for x in scs],
                  setup=lambda c=cfg: EEnv(c), rule="small group: ecmult for ALL (na, ng, point), ecmult_const, x-only, ecmult_gen total")
        run_phase(run, "%s/scalar-total" % cfg, scalar_case, [(x, scs) for x in scs], setup=setup(cfg), rule="small group: scalar ops on all pairs incl. overflow encodings")
        run_phase(run, "%s/ecmult-multi" % cfg, multi_case, list(range(0, 40)) + [87, 88, 89, 100], setup=lambda c=cfg: MEnv(c), rule="small group: ecmult_multi_var batch sizes 0..39, 87..89, 100 with all-scalars/all-points cyclic rows")
    run.assumptions += ["256-bit operand values outside the FE / SC alphabets are not explored on secp256k1",
                        "bit-identical across configurations follows because every configuration is compared with the same model"]
    sys.exit(run.finish())


if __name__ == "__main__":
    main()
