"""C01 ECDSA verification and signing are exact over all inputs.
E2: total enumeration of verify/sign in the small groups; E1: boundary alphabets and
model-constructed triples on secp256k1, on several build configurations."""
import sys, ctypes, itertools, time
from ctypes import c_int, byref, c_size_t
from ..core import Run, run_phase, Violation, hx, seeded_fillers
from ..util import *
from ..model import ecdsa as E
from .. import build as B

PID = "C01"
_L = {}


def lib(cfg):
    if cfg not in _L:
        _L[cfg] = Lib(cfg)
    return _L[cfg]


# ------------------------------------------------------------------ E2 small groups
def sg_setup(cfg):
    def f():
        L = lib(cfg)
        C, pts = small_group(L)
        return L, C, pts
    return f


def sg_verify_case(env, case, st):
    """case = (d, m): all r, s in Z_N (incl. 0) and both encodings of m"""
    L, C, pts = env
    d, m = case
    n = C.n
    pk = pubkey_from_point(L, pts[d], C)
    for menc in (m, m + n, m + 5 * n * 2**200):
        msg = b32(menc)
        for r in range(n):
            for s in range(n):
                sig = sig_from_rs(L, r, s)
                got = L.ecdsa_verify(L.ctx, sig, msg, pk)
                exp = 1 if E.verify_rs(r, s, m, pts[d], C) else 0
                st.calls += 1
                st.count("accept" if exp else "reject")
                if exp:
                    st.nt((d, m, r, s))
                if got != exp:
                    st.fail("ecdsa_verify=%d model=%d in group of order %d" % (got, exp, n),
                            {"cfg": L.config, "d": d, "m": menc, "r": r, "s": s})
                # normalize: high s -> n-s, returns 1 iff it was high
                if menc == m:
                    out = buf(64)
                    wasn = L.ecdsa_signature_normalize(L.ctx, out, sig)
                    es = n - s if s > n // 2 else s
                    if wasn != (1 if s > n // 2 else 0) or sig_compact(L, out) != b32(r) + b32(es):
                        st.fail("signature_normalize wrong", {"cfg": L.config, "r": r, "s": s})
    if L.illegal or L.errors:
        st.fail("callback fired on legal input", {"cfg": L.config, "d": d, "m": m})
        L.cb_reset()
    st.sample({"group_order": n, "key": d, "msg": m, "all_r_s": n * n})


def sg_sign_case(env, case, st):
    """case = (d, m, k0, fail_at): sign through a counting nonce callback; nonce for attempt a is (k0+a) mod N"""
    L, C, pts = env
    d, m, k0, fail_at = case
    n = C.n
    calls = []

    def noncefn(nonce32, msg32, key32, algo16, data, attempt):
        calls.append(attempt)
        if attempt == fail_at or attempt > 3 * n:
            return 0
        ctypes.memmove(nonce32, b32((k0 + attempt) % n), 32)
        return 1
    cb = NONCE_FN(noncefn)
    # model of the retry loop
    exp = None
    a = 0
    while True:
        if a == fail_at or a > 3 * n:
            break
        k = (k0 + a) % n
        if k != 0:
            res = E.sign_with_nonce(d, m, k, C)
            if res:
                exp = res
                break
        a += 1
    exp_calls = a + 1
    for recov in (0, 1):
        calls.clear()
        if recov:
            sig = buf(65)
            ret = L.ecdsa_sign_recoverable(L.ctx, sig, b32(m), b32(d), cb, None)
            out = buf(64)
            recid = c_int(-7)
            L.ecdsa_recoverable_signature_serialize_compact(L.ctx, out, byref(recid), sig)
            comp = out.raw
        else:
            sig = buf(64)
            ret = L.ecdsa_sign(L.ctx, sig, b32(m), b32(d), cb, None)
            comp = sig_compact(L, sig)
        st.calls += 1
        if exp is None:
            if ret != 0 or not is_zero(comp) or not is_zero(sig.raw):
                st.fail("sign with failing nonce callback must return 0 and a zero signature",
                        {"cfg": L.config, "d": d, "m": m, "k0": k0, "fail_at": fail_at, "ret": ret, "sig": hx(comp)})
            st.count("sign-refused")
        else:
            r, s, rid = exp
            if ret != 1 or comp != b32(r) + b32(s):
                st.fail("sign result differs from model (r,s)=(%d,%d)" % (r, s),
                        {"cfg": L.config, "d": d, "m": m, "k0": k0, "fail_at": fail_at, "ret": ret, "sig": hx(comp)})
            elif not recov and L.ecdsa_verify(L.ctx, sig, b32(m), pubkey_from_point(L, pts[d], C)) != 1:
                st.fail("own signature does not verify", {"cfg": L.config, "d": d, "m": m, "k0": k0})
            st.count("sign-ok")
            st.nt((d, m, r, s))
        if len(calls) != exp_calls:
            st.fail("nonce callback called %d times, model %d" % (len(calls), exp_calls),
                    {"cfg": L.config, "d": d, "m": m, "k0": k0, "fail_at": fail_at})
    # invalid keys: 0, N, N+d  -> 0 and zero signature
    if k0 == 1 and fail_at == -1:
        for bad in (0, n, n + d, 2**256 - 1):
            sig = buf(b"\x55" * 64)
            ret = L.ecdsa_sign(L.ctx, sig, b32(m), b32(bad), cb, None)
            st.calls += 1
            if ret != 0 or not is_zero(sig.raw):
                st.fail("sign with invalid key must return 0 and zero signature", {"cfg": L.config, "key": bad, "m": m})
    if L.illegal or L.errors:
        st.fail("callback fired on legal input", {"cfg": L.config, "case": list(case)})
        L.cb_reset()


# ------------------------------------------------------------------ E1 production group
def prod_setup(cfg):
    def f():
        return lib(cfg)
    return f


def variants_verify(L, st, r, s, m32, Q, pk, tag):
    """Present (r,s,m,Q) and systematic variants to verify; compare each with the model."""
    n = N
    m = i32(m32)
    cands = [(r, s, m32, Q, pk, "asis"), (r, n - s if s else 0, m32, Q, pk, "negs"), (0, s, m32, Q, pk, "r0"),
             (r, 0, m32, Q, pk, "s0"), (s, r, m32, Q, pk, "swap"), ((r + 1) % n, s, m32, Q, pk, "r+1"),
             (r, (s + 1) % n, m32, Q, pk, "s+1")]
    mm = (m % n)
    for alt in (mm + n, ):
        if alt < 2**256 and alt != m:
            cands.append((r, s, b32(alt), Q, pk, "m+n"))
    if m >= n:
        cands.append((r, s, b32(m - n), Q, pk, "m-n"))
    cands.append((r, s, b32((m + 1) % 2**256), Q, pk, "m+1"))
    Q2 = SECP.neg(Q)
    cands.append((r, s, m32, Q2, pubkey_from_point(L, Q2), "negQ"))
    Q3 = SECP.add(Q, SECP.G)
    if Q3 is not None:
        cands.append((r, s, m32, Q3, pubkey_from_point(L, Q3), "Q+G"))
    for (rr, ss, mb, QQ, pp, what) in cands:
        sig = sig_from_rs(L, rr, ss)
        got = L.ecdsa_verify(L.ctx, sig, mb, pp)
        exp = 1 if E.verify_rs(rr, ss, i32(mb), QQ) else 0
        st.calls += 1
        st.count("verify-%s-%s" % (what, "accept" if exp else "reject"))
        if exp:
            st.nt(("v", rr, ss, mb))
        if got != exp:
            st.fail("ecdsa_verify=%d model=%d (%s/%s)" % (got, exp, tag, what),
                    {"cfg": L.config, "r": hex(rr), "s": hex(ss), "msg": hx(mb), "Q": [hex(QQ[0]), hex(QQ[1])]})


def prod_sign_case(L, case, st):
    key, msg32, extra = case
    key32 = b32(key)
    exp = E.sign(key32, msg32, extra)
    for recov in (0, 1):
        if recov:
            sig = buf(b"\x33" * 65)
            ret = L.ecdsa_sign_recoverable(L.ctx, sig, msg32, key32, None, extra)
            out = buf(64)
            recid = c_int(-7)
            L.ecdsa_recoverable_signature_serialize_compact(L.ctx, out, byref(recid), sig)
            comp = out.raw
        else:
            sig = buf(b"\x33" * 64)
            ret = L.ecdsa_sign(L.ctx, sig, msg32, key32, None, extra)
            comp = sig_compact(L, sig)
        st.calls += 1
        if exp is None:
            st.count("sign-invalid-key")
            if ret != 0 or not is_zero(comp) or not is_zero(sig.raw):
                st.fail("sign with invalid key: ret=%d, signature not zero" % ret,
                        {"cfg": L.config, "key": hex(key), "msg": hx(msg32), "extra": hx(extra), "sig": hx(comp)})
            continue
        r, s, rid = exp
        st.count("sign-ok")
        st.nt(("s", key, msg32, extra))
        if ret != 1 or comp != b32(r) + b32(s):
            st.fail("sign differs from RFC 6979 model (recoverable=%d)" % recov,
                    {"cfg": L.config, "key": hex(key), "msg": hx(msg32), "extra": hx(extra), "got": hx(comp), "model": hx(b32(r) + b32(s))})
            continue
        if s > N // 2:
            st.fail("model bug: high s", {})
        Q = SECP.mulG(key)
        if recov:
            if recid.value != rid:
                st.fail("recid %d, model %d" % (recid.value, rid), {"cfg": L.config, "key": hex(key), "msg": hx(msg32)})
            pk = buf(64)
            ok = L.ecdsa_recover(L.ctx, pk, sig, msg32)
            st.calls += 1
            if ok != 1 or point_from_pubkey(L, pk) != Q:
                st.fail("recover does not return the signer's key", {"cfg": L.config, "key": hex(key), "msg": hx(msg32)})
            # other recids: model decides
            for rid2 in range(4):
                s2 = buf(65)
                assert L.ecdsa_recoverable_signature_parse_compact(L.ctx, s2, comp, rid2) == 1
                pk2 = buf(64)
                ok2 = L.ecdsa_recover(L.ctx, pk2, s2, msg32)
                eQ = E.recover(r, s, i32(msg32) % N, rid2)
                st.calls += 1
                if (ok2 == 1) != (eQ is not None) or (ok2 == 1 and point_from_pubkey(L, pk2) != eQ):
                    st.fail("recover(recid=%d) differs from model" % rid2, {"cfg": L.config, "key": hex(key), "msg": hx(msg32)})
            conv = buf(64)
            L.ecdsa_recoverable_signature_convert(L.ctx, conv, sig)
            if sig_compact(L, conv) != comp:
                st.fail("recoverable_signature_convert changes (r,s)", {"cfg": L.config, "key": hex(key)})
        else:
            pk = buf(64)
            assert L.ec_pubkey_create(L.ctx, pk, key32) == 1
            variants_verify(L, st, r, s, msg32, Q, pk, "signed")
    if L.illegal or L.errors:
        st.fail("callback fired on legal input", {"cfg": L.config, "key": hex(key), "msg": hx(msg32)})
        L.cb_reset()
    st.sample({"key": hex(key), "msg": hx(msg32), "extra": hx(extra), "model_r": hex(exp[0]) if exp else None})


def constructed_triples():
    """(r, s, m32, Q, tag): valid-by-algebra triples that need special branches."""
    out = []
    C = SECP
    n, p = N, P
    # R with n <= x < p : r = x - n needs the second comparison; x == n gives r == 0
    xs = []
    x = n
    while len(xs) < 6:
        if C.lift_x(x) is not None:
            xs.append(x)
        x += 1
    # top of the field: largest x on curve below p  (r = x - n is just below p - n)
    x = p - 1
    top = []
    while len(top) < 3:
        if C.lift_x(x) is not None:
            top.append(x)
        x -= 1
    # x just below n
    x = n - 1
    low = []
    while len(low) < 2:
        if C.lift_x(x) is not None:
            low.append(x)
        x -= 1
    # x around p-n (the guard r >= p-n): R.x = r for r in {p-n-1, p-n, p-n+1..} where on curve, and R.x = r + n
    guard = []
    for r in range(p - n - 3, p - n + 4):
        for xx in (r, r + n):
            if xx < p and C.lift_x(xx) is not None:
                guard.append((r, xx))
    fill = seeded_fillers(2, b"c01")
    svals = [1, 2, (n - 1) // 2, (n + 1) // 2, n - 1, i32(fill[0]) % n]
    mvals = [0, 1, n - 1, i32(fill[1]) % n]
    pts = [(xx % n, xx, "x>=n") for xx in xs] + [(xx % n, xx, "x~p") for xx in top] + [(xx, xx, "x<n") for xx in low] + \
          [(r, xx, "guard") for (r, xx) in guard]
    # "wrapped" r: r' = X(R) + (p - n) for points with small x; X(R) mod n != r', so the triple built for r' must be
    # REJECTED (a verifier whose x+n<p guard is wrong adds n to r' and wraps around p to X(R))
    xw = []
    x = 1
    while len(xw) < 4:
        if C.lift_x(x) is not None:
            xw.append(x)
        x += 1
    for kk in (1, 2, 3):
        xw.append(C.mulG(kk)[0])
    for xx in xw:
        rw = xx + (p - n)
        if not (0 < rw < n):
            continue
        for odd in (0, 1):
            R = C.lift_x(xx, odd)
            for s in (1, 2, (n - 1) // 2):
                for m in (0, 1, n - 1):
                    Q = C.mul(pow(rw, -1, n), C.add(C.mul(s, R), C.neg(C.mulG(m))))
                    if Q is not None:
                        out.append((rw, s, b32(m), Q, "wrapped-r"))
    # s at every limb boundary of the half order (valid low s just below, high s just above)
    lb = [v for v in limb_boundaries([(n - 1) // 2, n]) if 0 < v < n]
    for si, s in enumerate(lb):
        R = C.mulG(5 + si % 3)
        r = R[0] % n
        m = (s * (5 + si % 3) - r * 77) % n          # valid for key d = 77 and nonce k = 5 + si%3
        out.append((r, s, b32(m), C.mulG(77), "s-limb-boundary"))
    for (r, xx, tag) in pts:
        for odd in (0, 1):
            R = C.lift_x(xx, odd)
            for s in svals:
                for m in mvals:
                    if r == 0:
                        # no Q can be derived (division by r); present r=0 with an arbitrary key
                        out.append((0, s, b32(m), C.G, tag + "/r=0"))
                        continue
                    # Q = r^-1 (s R - m G)
                    Q = C.mul(pow(r, -1, n), C.add(C.mul(s, R), C.neg(C.mulG(m))))
                    if Q is None:
                        continue
                    out.append((r, s, b32(m), Q, tag))
                    # message encodings >= n when they fit
                    if m + n < 2**256:
                        out.append((r, s, b32(m + n), Q, tag + "/m+n"))
    return out


def prod_triple_case(L, case, st):
    r, s, m32, Q, tag = case
    pk = pubkey_from_point(L, Q)
    variants_verify(L, st, r, s, m32, Q, pk, tag)
    # recovery for the same point (exercises recid 2/3)
    if r and s:
        for rid in range(4):
            s2 = buf(65)
            if L.ecdsa_recoverable_signature_parse_compact(L.ctx, s2, b32(r) + b32(s), rid) != 1:
                st.fail("recoverable parse rejected in-range (r,s)", {"r": hex(r), "s": hex(s)})
                continue
            pk2 = buf(64)
            ok2 = L.ecdsa_recover(L.ctx, pk2, s2, m32)
            eQ = E.recover(r, s, i32(m32) % N, rid)
            st.calls += 1
            st.count("recover-%s-%s" % (tag.split("/")[0], "ok" if eQ else "none"))
            if (ok2 == 1) != (eQ is not None) or (ok2 == 1 and point_from_pubkey(L, pk2) != eQ):
                st.fail("recover(recid=%d) differs from model (%s)" % (rid, tag),
                        {"cfg": L.config, "r": hex(r), "s": hex(s), "msg": hx(m32)})
    if L.illegal or L.errors:
        st.fail("callback fired on legal input", {"cfg": L.config, "r": hex(r), "s": hex(s)})
        L.cb_reset()
    st.sample({"r": hex(r), "s": hex(s), "msg": hx(m32), "Q": hex(Q[0]), "why": tag})


def normalize_limb_cases(L, st):
    for s in limb_boundaries([(N - 1) // 2, N]):
        if not (0 <= s < N):
            continue
        sig = sig_from_rs(L, 1, s)
        out = buf(64)
        was = L.ecdsa_signature_normalize(L.ctx, out, sig)
        st.calls += 1
        es = N - s if s > N // 2 else s
        if was != (1 if s > N // 2 else 0) or sig_compact(L, out) != b32(1) + b32(es):
            st.fail("signature_normalize(s=%s): returned %d, s -> %s" % (hex(s), was, hx(sig_compact(L, out)[32:])), {"cfg": L.config, "s": hex(s)})
        # sigout is optional: with NULL only the "was not normalized" flag is reported, and it must be the same flag
        was0 = L.ecdsa_signature_normalize(L.ctx, None, sig)
        st.calls += 1
        if was0 != was or L.illegal or L.errors:
            st.fail("signature_normalize(sigout=NULL, s=%s) returned %d, with an output object %d (callbacks %d/%d)" % (hex(s), was0, was, L.illegal, L.errors), {"cfg": L.config, "s": hex(s)})
            L.cb_reset()
        st.count("normalize-limb-boundary")
        st.nt(("norm", s))


def failing_nonce_cases(L, st):
    """production: nonce callback returning 0 -> ret 0 and zero signature; callback returning k>=n / 0 is retried"""
    seq = []

    def fn(nonce32, msg32, key32, algo16, data, attempt):
        seq.append(attempt)
        if attempt == 0:
            ctypes.memmove(nonce32, b32(0), 32)
            return 1
        if attempt == 1:
            ctypes.memmove(nonce32, b32(N), 32)
            return 1
        if attempt == 2:
            ctypes.memmove(nonce32, b32(2**256 - 1), 32)
            return 1
        if attempt == 3:
            ctypes.memmove(nonce32, b32(7), 32)
            return 1
        return 0
    cb = NONCE_FN(fn)
    sig = buf(64)
    normalize_limb_cases(L, st)
    ret = L.ecdsa_sign(L.ctx, sig, b32(5), b32(3), cb, None)
    exp = E.sign_with_nonce(3, 5, 7)
    st.calls += 1
    if ret != 1 or seq != [0, 1, 2, 3] or sig_compact(L, sig) != b32(exp[0]) + b32(exp[1]):
        st.fail("retry loop: invalid nonces 0, n, 2^256-1 must be skipped, then k=7 used", {"cfg": L.config, "attempts": seq})

    def fn0(nonce32, msg32, key32, algo16, data, attempt):
        return 0
    cb0 = NONCE_FN(fn0)
    for recov in (0, 1):
        sig = buf(b"\x44" * 65)
        ret = (L.ecdsa_sign_recoverable if recov else L.ecdsa_sign)(L.ctx, sig, b32(5), b32(3), cb0, None)
        st.calls += 1
        if ret != 0 or not is_zero(sig.raw[:64 + recov]):
            st.fail("failing nonce callback must give 0 and an all-zero signature", {"cfg": L.config, "recoverable": recov})


def main():
    a = args()
    run = Run(PID, a.tier)
    thorough = a.tier == "thorough"
    sgs = ["sg13"] + (["sg7", "sg199"] if thorough else [])
    prods = ["prod-san", "cfg-int64-noasm-w8-c22", "prod-verify", "cfg-i128struct-noasm-w2-c2"] + (
        ["cfg-i128-noasm-w8-c2", "cfg-i128struct-asm-w15", "cfg-int64-san-w15",
         "cfg-int64-noasm-w2-c86-clang", "cfg-i128-noasm-w5-c22-clang"] if thorough else [])
    B.build_many(sgs + [s + "-verify" for s in sgs] + prods)
    for b in sgs + prods:
        run.cov["builds"][b] = B.source_hash()[:16]

    # ---- E2
    for sg in sgs:
        for cfg in (sg, sg + "-verify"):
            n = int(sg[2:])
            if n == 199:
                keys = [1, 2, 3, 99, 100, 198] if cfg == sg else [1, 198]
                msgs = [0, 1, 2, 99, 100, 198] if cfg == sg else [0, 1]
            else:
                keys = range(1, n)
                msgs = range(n)
            cases = [(d, m) for d in keys for m in msgs]
            run_phase(run, "%s/verify-total" % cfg, sg_verify_case, cases, setup=sg_setup(cfg),
                      rule="every (r,s) in Z_N^2 incl. 0 for each (key,msg) listed, 3 encodings of msg; model = ECDSA equation by integer arithmetic in the group of order N; non-trivial = accepted")
            kk = range(n) if n != 199 else [0, 1, 2, 100, 198]
            cases = [(d, m, k0, fa) for d in keys for m in msgs for k0 in kk for fa in (-1, 0, 1)]
            run_phase(run, "%s/sign-total" % cfg, sg_sign_case, cases, setup=sg_setup(cfg),
                      rule="every (key,msg,first nonce) with the nonce callback failing never / at attempt 0 / at attempt 1; retry loop modelled")
            if run.out_of_time():
                break

    # ---- E1
    keys = key_alphabet()
    fill = seeded_fillers(3, b"c01m")
    msgs = [b32(0), b32(1), b32(N - 1), b32(N), b32(N + 1), b32(2**256 - 1), fill[0], fill[1]]
    extras = [None, b"\x00" * 32, b"\xff" * 32, fill[2]]
    bad = [0, N, N + 1, 2**256 - 1]
    triples = constructed_triples()
    for cfg in prods:
        full = cfg in ("prod-san", "prod-verify") or thorough
        ks = keys if full else keys[::3]
        sign_cases = [(k, m, e) for k in ks + bad for m in msgs for e in extras]
        run_phase(run, "%s/sign-alphabet" % cfg, prod_sign_case, sign_cases, setup=prod_setup(cfg),
                  rule="KEY alphabet (+invalid keys 0,n,n+1,2^256-1) x messages {0,1,n-1,n,n+1,2^256-1,fillers} x extra {NULL,00,FF,filler}; sign+recoverable sign byte-compared with the RFC 6979 model, each signature re-presented in 12 variants to verify, recovery for all 4 recids")
        tr = triples if full else triples[::4]
        run_phase(run, "%s/constructed-triples" % cfg, prod_triple_case, tr, setup=prod_setup(cfg),
                  rule="valid triples built by algebra from chosen R: R.x in [n,p) (second comparison), R.x next to p, r around p-n, s in {1,2,(n-1)/2,(n+1)/2,n-1}, m in {0,1,n-1,m+n}; 12 variants each; recover with all recids")
        st = run_phase(run, "%s/nonce-callback" % cfg, lambda L, c, st: failing_nonce_cases(L, st), [0], setup=prod_setup(cfg), nproc=1)
        if run.out_of_time():
            run.cov["exhaustive"] = False
            break
    run.assumptions += ["values outside the stated alphabets on secp256k1 are not explored; the small groups are explored totally",
                        "compilers: gcc 12 / clang 14 as installed"]
    sys.exit(run.finish())


if __name__ == "__main__":
    main()
