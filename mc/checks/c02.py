"""C02 BIP-340 Schnorr signing and verification are exact."""
import sys, ctypes
from ctypes import c_int, c_void_p, c_size_t, byref, CFUNCTYPE, Structure, c_ubyte
from ..core import Run, run_phase, hx, seeded_fillers
from ..util import *
from ..model import bip340 as S
from ..model.curve import tagged_hash
from .. import build as B

PID = "C02"
_L = {}
NONCE_H = CFUNCTYPE(c_int, c_void_p, c_void_p, c_size_t, c_void_p, c_void_p, c_void_p, c_size_t, c_void_p)


class ExtraParams(Structure):
    _fields_ = [("magic", c_ubyte * 4), ("noncefp", c_void_p), ("ndata", c_void_p)]


MAGIC = (c_ubyte * 4)(0xda, 0x6f, 0xb3, 0x8c)


def lib(cfg):
    if cfg not in _L:
        _L[cfg] = Lib(cfg)
    return _L[cfg]


def setup(cfg):
    return lambda: lib(cfg)


def keypair(L, d):
    kp = buf(96)
    ok = L.keypair_create(L.ctx, kp, b32(d))
    return kp if ok else None


def xonly_of(L, kp):
    xo = buf(64)
    par = c_int(0)
    L.keypair_xonly_pub(L.ctx, xo, byref(par), kp)
    return xo


def xonly_parse(L, pk32):
    xo = buf(64)
    return xo if L.xonly_pubkey_parse(L.ctx, xo, pk32) == 1 else None


def msg_of_len(n, salt=0):
    return bytes(((i * 7 + salt * 13 + 1) & 0xFF) for i in range(n))


# ------------------------------------------------------------------ E1 sign
def sign_case(L, case, st):
    d, aux, msg, how = case
    kp = keypair(L, d)
    sig = buf(b"\x77" * 64)
    if how == "sign32":
        ret = L.schnorrsig_sign32(L.ctx, sig, msg, kp, aux)
    elif how == "sign-alias":
        ret = L.schnorrsig_sign(L.ctx, sig, msg, kp, aux)          # deprecated alias of sign32
    elif how == "custom-null":
        # extraparams NULL => default nonce function, aux = none
        ret = L.schnorrsig_sign_custom(L.ctx, sig, msg, len(msg), kp, None)
    else:
        ep = ExtraParams()
        ctypes.memmove(ep.magic, MAGIC, 4)
        ep.noncefp = None if how == "custom-default" else L.var_ptr("secp256k1_nonce_function_bip340")
        ab = buf(aux) if aux is not None else None
        ep.ndata = ctypes.cast(ab, c_void_p).value if ab is not None else None
        ret = L.schnorrsig_sign_custom(L.ctx, sig, msg, len(msg), kp, byref(ep))
    st.calls += 1
    exp = S.sign(b32(d), msg, aux)
    if exp is None:
        st.fail("model refuses a valid key?", {"d": hex(d)})
        return
    if ret != 1 or sig.raw != exp:
        st.fail("signature differs from BIP-340 reference (%s, msglen %d)" % (how, len(msg)),
                {"cfg": L.config, "d": hex(d), "aux": hx(aux), "msglen": len(msg), "msg": hx(msg[:64]), "got": hx(sig.raw), "model": hx(exp)})
        return
    xo = xonly_of(L, kp)
    v = L.schnorrsig_verify(L.ctx, sig, msg, len(msg), xo)
    st.calls += 1
    if v != 1:
        st.fail("own signature does not verify", {"cfg": L.config, "d": hex(d), "msglen": len(msg)})
    # neighbouring message lengths must not verify
    if len(msg) > 0:
        for m2 in (msg[:-1], msg + b"\x00"):
            if L.schnorrsig_verify(L.ctx, sig, m2, len(m2), xo) != 0:
                st.fail("signature verifies for a message of different length", {"cfg": L.config, "d": hex(d), "msglen": len(msg), "other": len(m2)})
            st.calls += 1
    st.count("sign-%s" % how)
    st.nt((d, aux, len(msg), how))
    if L.illegal or L.errors:
        st.fail("callback fired on legal input", {"cfg": L.config, "d": hex(d), "how": how})
        L.cb_reset()
    st.sample({"key": hex(d), "aux": hx(aux), "msglen": len(msg), "entry": how, "sig": hx(exp)})


def special_sign_cases(L, case, st):
    """custom nonce functions: returning 0, returning k == 0 / k == n, bad magic; direct use of the exported nonce function"""
    d = 5
    kp = keypair(L, d)
    msg = msg_of_len(33)
    results = {}
    for name, kval, retv in (("ret0", 7, 0), ("k0", 0, 1), ("kn", N, 1), ("k7", 7, 1), ("kn+7", N + 7, 1), ("kmax", 2**256 - 1, 1)):
        seen = []

        def fn(nonce32, m, mlen, key32, pk32, algo, algolen, data):
            seen.append((ctypes.string_at(key32, 32), ctypes.string_at(pk32, 32), ctypes.string_at(algo, algolen), mlen))
            ctypes.memmove(nonce32, b32(kval), 32)
            return retv
        cb = NONCE_H(fn)
        ep = ExtraParams()
        ctypes.memmove(ep.magic, MAGIC, 4)
        ep.noncefp = ctypes.cast(cb, c_void_p).value
        ep.ndata = None
        sig = buf(b"\x66" * 64)
        ret = L.schnorrsig_sign_custom(L.ctx, sig, msg, len(msg), kp, byref(ep))
        st.calls += 1
        exp = S.sign_with_k(d, kval, msg) if retv else None
        if exp is None:
            if ret != 0 or not is_zero(sig.raw):
                st.fail("sign with failing/zero nonce (%s) must return 0 and zero the signature" % name, {"cfg": L.config, "ret": ret, "sig": hx(sig.raw)})
            st.count("custom-refused")
        else:
            if ret != 1 or sig.raw != exp:
                st.fail("sign with custom nonce %s differs from model" % name, {"cfg": L.config, "got": hx(sig.raw), "model": hx(exp)})
            st.count("custom-ok")
            st.nt(name)
        # what the callback saw: negated key for odd-y, x-only pk, algo tag
        Pt = SECP.mulG(d)
        dd = d if Pt[1] % 2 == 0 else N - d
        if len(seen) != 1 or seen[0] != (b32(dd), b32(Pt[0]), b"BIP0340/nonce", len(msg)):
            st.fail("nonce callback arguments differ from the documented ones", {"cfg": L.config, "seen": str(seen)[:300]})
    # bad magic => illegal callback, return 0
    ep = ExtraParams()
    ctypes.memmove(ep.magic, (c_ubyte * 4)(0xda, 0x6f, 0xb3, 0x8d), 4)
    sig = buf(64)
    L.cb_reset()
    ret = L.schnorrsig_sign_custom(L.ctx, sig, msg, len(msg), kp, byref(ep))
    if ret != 0 or L.illegal < 1:
        st.fail("extraparams with bad magic must be refused through the illegal callback", {"cfg": L.config, "ret": ret, "illegal": L.illegal})
    L.cb_reset()
    # exported nonce function called directly with arbitrary algo tags
    fnp = L.var_ptr("secp256k1_nonce_function_bip340")
    direct = NONCE_H(fnp)
    for algolen in (0, 1, 12, 13, 14, 63, 64, 65, 100):
        for algo_kind in ("bip", "other"):
            algo = (b"BIP0340/nonce" + b"x" * 100)[:algolen] if algo_kind == "bip" else msg_of_len(algolen, 3)
            for aux in (None, b"\x00" * 32, b"\xa5" * 32):
                for mlen in (0, 1, 32, 55, 56, 64, 119, 120, 301):
                    m = msg_of_len(mlen, 5)
                    out = buf(32)
                    ab = buf(aux) if aux is not None else None
                    abuf = buf(algo) if algolen else buf(1)
                    r = direct(ctypes.cast(out, c_void_p), ctypes.cast(buf(m) if mlen else buf(1), c_void_p), mlen, ctypes.cast(buf(b32(d)), c_void_p),
                               ctypes.cast(buf(b32(9)), c_void_p), ctypes.cast(abuf, c_void_p), algolen, ctypes.cast(ab, c_void_p) if ab is not None else None)
                    st.calls += 1
                    t = S.xor(b32(d), tagged_hash(b"BIP0340/aux", aux if aux is not None else b"\x00" * 32))
                    exp = tagged_hash(algo, t + b32(9) + m)
                    if r != 1 or out.raw != exp:
                        st.fail("nonce_function_bip340(algo len %d, aux %s, msglen %d) differs from the tagged-hash definition" % (algolen, hx(aux), mlen),
                                {"cfg": L.config, "algo": hx(algo), "got": hx(out.raw), "model": hx(exp)})
                    st.count("noncefn-direct")
    out = buf(32)
    r = direct(ctypes.cast(out, c_void_p), None, 0, ctypes.cast(buf(b32(d)), c_void_p), ctypes.cast(buf(b32(9)), c_void_p), None, 0, None)
    if r != 0:
        st.fail("nonce_function_bip340 with algo == NULL must return 0", {"cfg": L.config})


# ------------------------------------------------------------------ E1/E5 verify
def verify_case(L, case, st):
    """case = (d, msg, kind, arg): one candidate (pk32, msg, sig64) decided by the model"""
    d, msg, kind, arg = case
    Pt = SECP.mulG(d)
    pk32 = b32(Pt[0])
    base = S.sign(b32(d), msg, b"\x01" * 32)
    sig = base
    m = msg
    if kind == "flip":
        ba = bytearray(base)
        ba[arg >> 3] ^= 1 << (arg & 7)
        sig = bytes(ba)
    elif kind == "r=":
        sig = b32(arg) + base[32:]
    elif kind == "s=":
        sig = base[:32] + b32(arg)
    elif kind == "r+p":
        r = i32(base[:32]) + P
        if r >= 2**256:
            st.count("r+p-does-not-fit")
            return
        sig = b32(r) + base[32:]
    elif kind == "s+n":
        s = i32(base[32:]) + N
        if s >= 2**256:
            st.count("s+n-does-not-fit")
            return
        sig = base[:32] + b32(s)
    elif kind == "otherkey":
        pk32 = b32(SECP.mulG(arg)[0])
    elif kind == "msgflip":
        ba = bytearray(msg)
        ba[arg >> 3] ^= 1 << (arg & 7)
        m = bytes(ba)
    elif kind == "oddR":
        # valid equation but R has odd y: s = k + e d with R = kG odd (no negation)
        k = arg
        R = SECP.mulG(k)
        if R[1] % 2 == 0:
            k = N - k
            R = SECP.mulG(k)
        dd = d if Pt[1] % 2 == 0 else N - d
        e = S.challenge(b32(R[0]), pk32, msg)
        sig = b32(R[0]) + b32((k + e * dd) % N)
    elif kind == "inf":
        # s*G - e*P == infinity: s = e*d' for an arbitrary on-curve r
        R = SECP.mulG(arg)
        dd = d if Pt[1] % 2 == 0 else N - d
        e = S.challenge(b32(R[0]), pk32, msg)
        sig = b32(R[0]) + b32(e * dd % N)
    elif kind == "asis":
        pass
    exp = 1 if S.verify(pk32, m, sig) else 0
    xo = xonly_parse(L, pk32)
    if xo is None:
        st.fail("x-only parse rejected a valid key", {"pk": hx(pk32)})
        return
    got = L.schnorrsig_verify(L.ctx, sig, m, len(m), xo)
    st.calls += 1
    st.count("%s-%s" % (kind, "accept" if exp else "reject"))
    if exp:
        st.nt((d, m, sig))
    if got != exp:
        st.fail("schnorrsig_verify=%d, BIP-340 model=%d (%s %r)" % (got, exp, kind, arg if not isinstance(arg, int) else hex(arg)),
                {"cfg": L.config, "pk": hx(pk32), "msg": hx(m), "sig": hx(sig)})
    if kind == "asis":
        # the x-only key obtained from the negated secret is the same key
        kp2 = keypair(L, N - d)
        if L.schnorrsig_verify(L.ctx, sig, m, len(m), xonly_of(L, kp2)) != 1:
            st.fail("signature does not verify under the x-only key of the negated secret (same x)", {"cfg": L.config, "d": hex(d)})
        st.sample({"pk": hx(pk32), "msglen": len(m), "sig": hx(sig), "model": exp})
    if L.illegal or L.errors:
        st.fail("callback fired on legal input", {"cfg": L.config, "kind": kind})
        L.cb_reset()


# ------------------------------------------------------------------ E2 small group
def sg_setup(cfg):
    def f():
        L = lib(cfg)
        C, pts = small_group(L)
        return L, C, pts
    return f


def sg_msgs(C, pts):
    """16 messages; by construction of the case product every challenge value is reached (reported in histogram)"""
    return [msg_of_len(l, l) for l in (0, 1, 5, 31, 32, 33, 64, 65)]


def sg_sign_case(env, case, st):
    L, C, pts = env
    d, mi, k0 = case
    n = C.n
    msg = sg_msgs(C, pts)[mi]
    kp = keypair(L, d)
    if kp is None:
        st.fail("keypair_create failed for valid small-group key", {"d": d})
        return
    for retv in (1, 0):
        def fn(nonce32, m, mlen, key32, pk32, algo, algolen, data):
            ctypes.memmove(nonce32, b32(k0), 32)
            return retv
        cb = NONCE_H(fn)
        ep = ExtraParams()
        ctypes.memmove(ep.magic, MAGIC, 4)
        ep.noncefp = ctypes.cast(cb, c_void_p).value
        ep.ndata = None
        sig = buf(b"\x66" * 64)
        ret = L.schnorrsig_sign_custom(L.ctx, sig, msg, len(msg), kp, byref(ep))
        st.calls += 1
        exp = S.sign_with_k(d, k0, msg, C) if retv else None
        if exp is None:
            st.count("sg-sign-refused")
            if ret != 0 or not is_zero(sig.raw):
                st.fail("small group: failing / zero nonce must give 0 and a zero signature", {"cfg": L.config, "d": d, "k": k0, "ret": ret})
        else:
            st.count("sg-sign-ok e=%d" % S.challenge(exp[:32], b32(C.lift_x(pts[d][0])[0]), msg, C))
            st.nt((d, mi, k0 % n))
            if ret != 1 or sig.raw != exp:
                st.fail("small group: signature differs from model", {"cfg": L.config, "d": d, "k": k0, "msg": hx(msg), "got": hx(sig.raw), "model": hx(exp)})
    # default nonce function in the small group (nonce hash reduced mod N; 0 => refusal)
    sig = buf(64)
    ret = L.schnorrsig_sign_custom(L.ctx, sig, msg, len(msg), kp, None)
    exp = S.sign(b32(d), msg, None, C)
    st.calls += 1
    if (exp is None and (ret != 0 or not is_zero(sig.raw))) or (exp is not None and (ret != 1 or sig.raw != exp)):
        st.fail("small group: default signing differs from model", {"cfg": L.config, "d": d, "msg": hx(msg), "ret": ret, "got": hx(sig.raw), "model": hx(exp)})
    if L.illegal or L.errors:
        st.fail("callback fired on legal input", {"cfg": L.config, "d": d})
        L.cb_reset()


def sg_verify_case(env, case, st):
    """case = (d, mi): every r in {x of every group point, two non-point x values, x+p-style overflow} x every s encoding"""
    L, C, pts = env
    d, mi = case
    n = C.n
    msg = sg_msgs(C, pts)[mi]
    Pt = C.lift_x(pts[d][0])
    pk32 = b32(Pt[0])
    kp = keypair(L, d)
    xo = xonly_of(L, kp)
    rs = sorted(set(p[0] for p in pts[1:]))
    # x values that are not x-coordinates of subgroup points
    extra = []
    x = 1
    while len(extra) < 2:
        if C.lift_x(x) is None:
            extra.append(x)
        x += 1
    encs = []
    for s in range(n):
        for k in (0, 1, 2, (2**32 - 1) // n):
            encs.append(s + k * n)
    encs += [2**255, 2**256 - 1, n * 2**200 + 3]
    for r in rs + extra + [C.p, C.p + rs[0] if C.p + rs[0] < 2**256 else C.p + 1]:
        for s in encs:
            sig = b32(r) + b32(s)
            got = L.schnorrsig_verify(L.ctx, sig, msg, len(msg), xo)
            # model: s must be a canonical encoding (< n)
            exp = 1 if S.verify(pk32, msg, sig, C) else 0
            st.calls += 1
            st.count("sg-verify-%s%s" % ("accept" if exp else "reject", "" if s < n else "-noncanonical-s"))
            if exp:
                st.nt((d, mi, r, s))
            if got != exp:
                st.fail("small group: schnorrsig_verify=%d model=%d" % (got, exp),
                        {"cfg": L.config, "d": d, "msg": hx(msg), "r": hex(r), "s": hex(s)})
    if L.illegal or L.errors:
        st.fail("callback fired on legal input", {"cfg": L.config, "d": d})
        L.cb_reset()
    st.sample({"group_order": n, "key": d, "msg": hx(msg), "r_values": len(rs) + len(extra) + 2, "s_encodings": len(encs)})


def main():
    a = args()
    run = Run(PID, a.tier)
    thorough = a.tier == "thorough"
    sgs = ["sg13", "sg13-verify"] + (["sg199", "sg7", "sg7-verify"] if thorough else [])
    prods = ["prod-san", "cfg-int64-noasm-w8-c22", "prod-verify", "cfg-i128struct-noasm-w2-c2"] + (
        ["cfg-i128-noasm-w8-c2", "cfg-int64-san-w15", "cfg-int64-noasm-w2-c86-clang"] if thorough else [])
    B.build_many(sgs + prods)
    for b in sgs + prods:
        run.cov["builds"][b] = B.source_hash()[:16]
    fill = seeded_fillers(4, b"c02")
    keys0 = key_alphabet()
    keys = []
    for k in keys0:
        for kk in (k, N - k):
            if kk not in keys:
                keys.append(kk)
    auxs = [None, b"\x00" * 32, b"\xff" * 32, fill[0]]
    msgs32 = [b"\x00" * 32, b"\xff" * 32, b32(N), fill[1]]
    tail = [301, 511, 512, 513, 1000, 1001, 4095, 4096, 65535, 65536, 100000] + ([2**20] if thorough else [])
    for cfg in prods:
        full = cfg in ("prod-san", "prod-verify") or thorough
        ks = keys if full else keys[::5]
        cases = [(d, aux, m, "sign32") for d in ks for aux in auxs for m in msgs32]
        cases += [(d, aux, m, "sign-alias") for d in ks[:6] for aux in auxs for m in msgs32[:2]]
        lens = list(range(0, 301)) + tail
        kk = [3, N - 3, i32(fill[2]) % N or 1] if full else [3]
        for d in kk:
            for ln in lens:
                cases.append((d, fill[0] if ln % 2 else None, msg_of_len(ln, ln), "custom-default" if ln % 3 else "custom-bip340fn"))
            for ln in (0, 1, 32, 300, 301, 1001):
                cases.append((d, None, msg_of_len(ln, 1), "custom-null"))
        run_phase(run, "%s/sign" % cfg, sign_case, cases, setup=setup(cfg),
                  rule="sign32: KEY alphabet closed under negation (both public-key parities) x aux {NULL,00,FF,filler} x 4 messages; sign_custom: every message length 0..300 and {301,511,512,513,1000,1001,4095,4096,65535,65536,100000} with default / explicit bip340 nonce function / NULL extraparams; bytes compared with the BIP-340 reference; each verified, and refused for message length -1/+1")
        run_phase(run, "%s/custom-nonce" % cfg, special_sign_cases, [0], setup=setup(cfg), nproc=1,
                  rule="custom nonce functions returning 0 / k in {0,n,7,n+7,2^256-1}; bad extraparams magic; exported nonce function called directly for algo lengths {0,1,12,13,14,63,64,65,100} x aux x message lengths against the tagged-hash definition")
        # verification
        vk = [1, 3, N - 2, i32(fill[3]) % N or 2] if full else [3]
        vm = [b"", fill[1], msg_of_len(301, 2)] if full else [fill[1]]
        sc = sc_alphabet()
        cases = []
        for d in vk:
            for m in vm:
                cases.append((d, m, "asis", 0))
                for bit in range(512):
                    cases.append((d, m, "flip", bit))
                for v in sc:
                    cases.append((d, m, "r=", v))
                    cases.append((d, m, "s=", v))
                cases += [(d, m, "r+p", 0), (d, m, "s+n", 0), (d, m, "otherkey", 2), (d, m, "otherkey", d + 1)]
                for bit in range(0, len(m) * 8, 7):
                    cases.append((d, m, "msgflip", bit))
                for k in (1, 2, 5):
                    cases.append((d, m, "oddR", k))
                    cases.append((d, m, "inf", k))
        run_phase(run, "%s/verify-mutations" % cfg, verify_case, cases, setup=setup(cfg),
                  rule="for each (key,msg) base signature: as-is, all 512 single-bit flips, r and s replaced by every SC member, r+p / s+n when they fit, other keys, message bit flips, model-constructed odd-y R and sG-eP=infinity; BIP-340 Verify model decides each")
        if run.out_of_time():
            run.cov["exhaustive"] = False
            break
    for cfg in sgs:
        n = int(cfg.split("-")[0][2:])
        keys_sg = range(1, n) if n != 199 else [1, 2, 99, 100, 198]
        ks = range(0, n + 1) if n != 199 else [0, 1, 2, 100, 198, 199]
        cases = [(d, mi, k0) for d in keys_sg for mi in range(8) for k0 in ks]
        run_phase(run, "%s/sign-total" % cfg, sg_sign_case, cases, setup=sg_setup(cfg),
                  rule="every key x 8 messages x every nonce k in Z_N (and k=N) through a custom nonce callback (returning 1 and 0) + default nonce function; model by arithmetic mod N")
        cases = [(d, mi) for d in keys_sg for mi in range(8 if n != 199 else 2)]
        run_phase(run, "%s/verify-total" % cfg, sg_verify_case, cases, setup=sg_setup(cfg),
                  rule="every r in {x of every group point, 2 non-point x, p, p+x} x every s in Z_N in encodings s+kN (k in {0,1,2,max}) against every key x 8 messages; decides rejection of s >= n for VALID signatures")
    run.assumptions += ["rejection of r+p re-encodings of a VALID signature is not constructible (needs a nonce point with x < 2^32+977 and known log); only structural r >= p rejection is checked",
                        "secp256k1 scalars outside the alphabets are not explored; small groups are explored totally"]
    sys.exit(run.finish())


if __name__ == "__main__":
    main()
