"""C20 Results depend only on arguments, not on context history or threads.
E3: explicit-state search over context histories with a differential probe battery;
static-context battery; allocation ledger; writable-global allow-list;
E4: schedule exploration by access monitoring (tools/sched) + free-running ThreadSanitizer pass."""
import sys, os, ctypes, itertools, subprocess, json, time, re
from ctypes import c_int, c_long, c_size_t, c_void_p, byref, CFUNCTYPE, c_char_p
from ..core import Run, run_phase, hx, seeded_fillers, pmap, Stats, VERIF
from ..util import *
from .. import build as B

PID = "C20"
_L = {}
CAP = 1 << 17


def lib(cfg):
    if cfg not in _L:
        L = Lib(cfg)
        assert L.verif_shared_init(L.ctx) == 1, "shared inputs could not be prepared"
        _L[cfg] = L
    return _L[cfg]


def battery(L, ctx):
    out = buf(CAP)
    n = L.verif_battery(ctx, out, CAP)
    assert n > 0
    return out.raw[:n]


def split_battery(b):
    res, pos = {}, 0
    while pos < len(b):
        op = b[pos + 3]
        l = int.from_bytes(b[pos + 4:pos + 8], "big")
        res[op] = b[pos + 8:pos + 8 + l]
        pos += 8 + l
    return res


SEEDS = [b"\x00" * 32, b"\xff" * 32] + seeded_fillers(2, b"c20")
CB = CFUNCTYPE(None, c_char_p, c_void_p)
_cb_hits = [0]          # illegal-argument callback installed by the "CB" operation
_cb_err_hits = [0]      # error callback installed by the "CB" operation (a different function)


def _cbfn(msg, data):
    _cb_hits[0] += 1


def _cbfn_err(msg, data):
    _cb_err_hits[0] += 1


_cb = CB(_cbfn)
_cb_err = CB(_cbfn_err)

# single-context operations (a history is a tuple of op names)
OPS = ["R0", "R1", "R2", "R3", "RN", "C+", "C0", "CL", "PCL", "CB", "DIST", "RCL"]


class CtxState:
    """a live context reached by replaying a history on fresh objects"""

    def __init__(self, L, prealloc=False):
        self.L = L
        self.keep = []       # prealloc buffers that must stay alive
        self.allocs0 = L._ac.value
        if prealloc:
            sz = L.context_preallocated_size(1)
            mem = buf(sz)
            self.keep.append(mem)
            self.ctx = L.context_preallocated_create(mem, 1)
            self.kind = "prealloc"
        else:
            self.ctx = L.context_create(1)
            self.kind = "malloc"
        self.compr = 0
        self.cbs = 0

    def destroy(self):
        L = self.L
        if self.kind == "malloc":
            L.context_destroy(self.ctx)
        else:
            L.context_preallocated_destroy(self.ctx)
        self.ctx = None

    def apply(self, op, st):
        L = self.L
        if op in ("R0", "R1", "R2", "R3"):
            r = L.context_randomize(self.ctx, SEEDS[int(op[1])])
            if r != 1:
                st.fail("context_randomize returned %d" % r, {"op": op})
        elif op == "RN":
            L.context_randomize(self.ctx, None)
        elif op == "C+":
            L.context_set_sha256_compression(self.ctx, L.addr("verif_sha256_compress"))
            self.compr = 1
        elif op == "C0":
            L.context_set_sha256_compression(self.ctx, None)
            self.compr = 0
        elif op in ("CL", "RCL"):
            a0 = L._ac.value
            c2 = L.context_clone(self.ctx)
            if L._ac.value - a0 > 1:
                st.fail("context_clone performed %d allocations" % (L._ac.value - a0), {"op": op})
            if op == "RCL":
                # randomize the ORIGINAL after cloning: the clone must be unaffected (no shared mutable state)
                L.context_randomize(self.ctx, SEEDS[3])
            self.destroy()
            self.ctx, self.kind = c2, "malloc"
        elif op == "PCL":
            a0 = L._ac.value
            sz = L.context_preallocated_clone_size(self.ctx)
            mem = buf(sz)
            c2 = L.context_preallocated_clone(self.ctx, mem)
            if L._ac.value != a0:
                st.fail("context_preallocated_clone allocated", {"op": op})
            self.destroy()
            self.keep.append(mem)
            self.ctx, self.kind = c2, "prealloc"
        elif op == "CB":
            L.context_set_illegal_callback(self.ctx, _cb, None)
            L.context_set_error_callback(self.ctx, _cb_err, None)
            self.cbs = 1
        elif op == "DIST":
            # unrelated activity: another context created, randomized, used, destroyed
            c2 = L.context_create(1)
            L.context_randomize(c2, SEEDS[2])
            o = buf(4096)
            ol = c_size_t(0)
            L.verif_battery_op(c2, 1, o, 4096, byref(ol))
            L.context_destroy(c2)
        st.calls += 1

    def key(self):
        L = self.L
        so = buf(32)
        go = buf(65)
        built = c_int(0)
        L.verif_ctx_blinding(self.ctx, so, go, byref(built))
        return (so.raw, go.raw, self.compr, self.kind, self.cbs)


def explore_case(env, hist, st):
    """replay `hist` on a fresh context, check the battery, return successor info through st"""
    L, base, base_static = env
    L.cb_reset()
    _cb_hits[0] = 0
    _cb_err_hits[0] = 0
    live0 = L.live_allocs
    a0 = L._ac.value
    cs = CtxState(L, prealloc=(len(hist) > 0 and hist[0] == "P"))
    d = L._ac.value - a0
    if (cs.kind == "malloc" and d > 1) or (cs.kind == "prealloc" and d != 0):
        st.fail("context creation performed %d allocations (%s)" % (d, cs.kind), {"history": list(hist)})
    for op in hist:
        if op == "P":
            continue
        cs.apply(op, st)
    k = cs.key()
    got = battery(L, cs.ctx)
    st.calls += 40
    if got != base:
        g, b = split_battery(got), split_battery(base)
        bad = [op for op in b if g.get(op) != b[op]]
        st.fail("API results differ from a fresh context after history %s: battery ops %s differ" % ("/".join(hist), bad), {"cfg": L.config, "history": list(hist), "ops": bad})
    if cs.compr and L.verif_sha256_zero_block_calls() and not getattr(st, "zero_reported", False):
        st.zero_reported = True
        st.fail("with a replaced compression function installed, the library called it with n_blocks == 0 (documented: one or more blocks) after history %s" % "/".join(hist), {"cfg": L.config, "history": list(hist)})
    if L.illegal or L.errors or _cb_hits[0] or _cb_err_hits[0]:
        st.fail("callback fired during the battery (illegal=%d error=%d custom=%d/%d)" % (L.illegal, L.errors, _cb_hits[0], _cb_err_hits[0]), {"cfg": L.config, "history": list(hist)})
        L.cb_reset()
    # callback routing: a deliberately illegal call (NULL output at an API-level ARG_CHECK) must reach exactly the
    # illegal-argument callback this context is supposed to carry (the installed one, or the default) - also after cloning
    _cb_hits[0] = 0
    _cb_err_hits[0] = 0
    r_ = L.ec_pubkey_create(cs.ctx, None, b32(1))
    st.calls += 1
    want = (1, 0, 0, 0) if cs.cbs else (0, 0, 1, 0)
    got_ = (_cb_hits[0], _cb_err_hits[0], L.illegal, L.errors)
    if r_ != 0 or got_ != want:
        st.fail("illegal call after history %s reached (installed illegal, installed error, default illegal, default error) = %s, expected %s" % ("/".join(hist), got_, want),
                {"cfg": L.config, "history": list(hist)})
    L.cb_reset()
    _cb_hits[0] = 0
    _cb_err_hits[0] = 0
    cs.destroy()
    if L.live_allocs != live0:
        st.fail("allocation ledger: %d allocation(s) still live after destroying the context" % (L.live_allocs - live0), {"cfg": L.config, "history": list(hist)})
    st.keys = getattr(st, "keys", {})
    st.keys[hist] = k
    st.count("depth-%d" % len([h for h in hist if h != "P"]))
    st.nt(k)
    st.sample({"history": list(hist), "blinding_scalar": hx(k[0])[:16] + "..", "compression": k[2], "kind": k[3]})


_orig_merge = Stats.merge


def _merge(self, o):
    _orig_merge(self, o)
    k = getattr(self, "keys", {})
    k.update(getattr(o, "keys", {}))
    self.keys = k


Stats.merge = _merge


def history_search(run, cfg, depth):
    L = lib(cfg)
    base = battery(L, L.ctx)
    name = "%s/context-histories" % cfg
    t0 = time.time()
    seen = {}
    frontier = [(), ("P",)]
    agg = Stats()
    level = 0
    transitions = 0
    closed = True
    while frontier and level <= depth:
        st = pmap(explore_case, frontier, setup=lambda: (lib(cfg), base, None))
        agg.merge(st)
        transitions += len(frontier)
        nxt = []
        for h in frontier:
            k = st.keys.get(h)
            if k is None:
                continue
            if k in seen:
                continue          # merged: same canonical state reached before (its battery was checked anyway)
            seen[k] = h
            if level < depth:
                for op in OPS:
                    nxt.append(h + (op,))
        frontier = nxt
        level += 1
        if run.out_of_time():
            closed = False
            break
    d = agg.as_dict(time.time() - t0)
    d["states"] = len(seen)
    d["calls"] = agg.calls
    d["cases"] = transitions
    d["bounds"] = {"depth": depth, "operations": OPS, "histories_executed": transitions, "canonical_states": len(seen)}
    run.phase(name, d, exhaustive=closed,
              rule="BFS over context histories (start: malloc or preallocated create; ops: randomize with 4 seeds / NULL, install / reset a replaced-but-correct SHA-256 compression function, move to a malloc clone / preallocated clone, clone-then-randomize-original, install callbacks, unrelated-context disturbance) to depth %d; states merged on (blinding scalar, blinding point, compression fn, allocation kind, callbacks) AFTER their battery was compared; in every state the 40-op battery (every API family) must be byte-identical to a fresh context's, no callback may fire, allocation ledger must balance" % depth)
    for what, case, raw in agg.viol:
        run.violation("[%s] %s" % (name, what), case, raw, name)


def static_case(env, case, st):
    L, base, _ = env
    b = split_battery(base)
    # battery ops ALL of whose API calls are documented without the "(not secp256k1_context_static)" restriction (derived from the
    # headers: a function whose Args line reads just "a secp256k1 context object" accepts the static context; rangeproof_verify,
    # surjectionproof_verify and whitelist_verify - ops 23, 33, 34 - ARE documented as not accepting it, so for them either outcome
    # is legal; op 30 is left out because aggverify's header is silent while its code asks for a full context)
    STATIC_OK = [2, 3, 4, 5, 6, 8, 9, 10, 14, 15, 17, 21, 31, 32, 35, 36, 37, 38, 39]
    sz = L.verif_ctx_sizeof()
    copy = buf(sz)
    ctypes.memmove(copy, L.static_ctx, sz)
    L.context_set_illegal_callback(ctypes.cast(copy, c_void_p), _cb, None)
    L.context_set_error_callback(ctypes.cast(copy, c_void_p), _cb_err, None)
    for which, ctx in (("static", L.static_ctx), ("copy-with-callbacks", ctypes.cast(copy, c_void_p))):
        for op in range(L.verif_battery_n_ops()):
            L.cb_reset()
            _cb_hits[0] = 0
            o = buf(CAP)
            ol = c_size_t(0)
            L.verif_battery_op(ctx, op, o, CAP, byref(ol))
            st.calls += 1
            fired = L.illegal + _cb_hits[0]
            same = o.raw[:ol.value] == b[op]
            if L.errors:
                st.fail("error callback fired with the static context (op %d)" % op, {"cfg": L.config, "op": op, "ctx": which})
            if op in STATIC_OK:
                st.count("static-ok-op")
                st.nt((which, op))
                if fired or not same:
                    st.fail("battery op %d is documented to work with the static context but %s" % (op, "fired the illegal callback" if fired else "returned a different result"), {"cfg": L.config, "op": op, "ctx": which})
            else:
                if not fired and not same:
                    st.fail("battery op %d with the static context: different result and no illegal-argument callback" % op, {"cfg": L.config, "op": op, "ctx": which})
                st.count("static-illegal" if fired else "static-same")
                if fired:
                    st.nt((which, op, "illegal"))
    L.cb_reset()
    # context management on the static context must be refused via the callback
    for fn, args_ in (("context_randomize", (b"\x01" * 32,)), ("context_clone", ()), ("context_destroy", ())):
        L.cb_reset()
        r = getattr(L, fn)(L.static_ctx, *args_)
        st.calls += 1
        if L.illegal < 1:
            st.fail("%s(static context) did not report illegal use" % fn, {"cfg": L.config})
    L.cb_reset()
    # destroy(NULL) is a no-op
    L.context_destroy(None)
    L.context_preallocated_destroy(None)
    if L.illegal or L.errors:
        st.fail("context_destroy(NULL) fired a callback", {"cfg": L.config})
    st.sample({"static_ok_ops": STATIC_OK})


def sg_blinding_case(env, case, st):
    """small group: n*G == ecmult_gen(n) for EVERY n in every reachable blinding state (BFS over seeds to fixpoint)"""
    L = env
    C, pts = small_group(L)
    n = C.n
    seeds = [bytes([i]) * 32 for i in range(0, 40)] + [None]
    seen = {}
    frontier = [()]
    out = buf(65)
    depth = 0
    while frontier and depth < 4:
        nxt = []
        for h in frontier:
            c = L.context_create(1)
            for s in h:
                L.context_randomize(c, seeds[s] if s < 40 else None)
            so = buf(32)
            go = buf(65)
            built = c_int(0)
            L.verif_ctx_blinding(c, so, go, byref(built))
            key = (so.raw, go.raw)
            if key not in seen:
                seen[key] = h
                for k in range(n):
                    L.verif_ecmult(2, c, b"\x00" * 65, None, b32(k), None, out)
                    st.calls += 1
                    got = None if out.raw[0] == 0 else (i32(out.raw[1:33]), i32(out.raw[33:65]))
                    if got != pts[k]:
                        st.fail("small group: ecmult_gen(%d) wrong in blinding state scalar_offset=%s reached by seeds %s" % (k, hx(so.raw[-4:]), list(h)), {"cfg": L.config, "k": k, "history": list(h)})
                if depth < 3:
                    for s in range(len(seeds)):
                        nxt.append(h + (s,))
            L.context_destroy(c)
        frontier = nxt if depth < 1 else [h for h in nxt if h[-1] < 8 or h[-1] == 40]
        depth += 1
    offs = sorted(set(i32(k[0]) for k in seen))
    st.states |= set(seen)
    st.count("blinding-states", len(seen))
    for o in offs:
        st.nt(o)
    st.sample({"distinct_scalar_offsets": offs, "states": len(seen)})
    if len(offs) < n - 2:
        st.count("WARNING-few-offsets")


# ------------------------------------------------------------------ call-pair histories on input variants
def _one_op(L, ctx, op):
    o = buf(CAP)
    ol = c_size_t(0)
    L.verif_battery_op(ctx, op, o, CAP, byref(ol))
    return o.raw[:ol.value]


def pair_setup(cfg):
    L = lib(cfg)
    assert L.verif_shared_prepare(L.ctx) == 1, "input variants could not be prepared"
    refs = {}
    for v in (1, 0):
        L.verif_shared_use(v)
        c = L.context_create(1)
        refs[v] = [_one_op(L, c, op) for op in range(L.verif_battery_n_ops())]
        L.context_destroy(c)
    return L, refs


def pair_case(env, case, st):
    """op_i on input variant a, then op_j on variant b (same objects, same addresses, other values) on one context:
    the second call's observables must equal those of op_j(b) on a fresh context with no prior call"""
    L, refs = env
    i, j, a, b, shared_ctx = case
    L.cb_reset()
    live0 = L.live_allocs
    c = L.ctx if shared_ctx else L.context_create(1)
    L.verif_shared_use(a)
    first = _one_op(L, c, i)
    L.verif_shared_use(b)
    second = _one_op(L, c, j)
    st.calls += 2
    if first != refs[a][i]:
        st.fail("battery op %d (input variant %d) differs from the same call on a fresh context (earlier calls in this process changed it)" % (i, a),
                {"cfg": L.config, "ops": [i], "variants": [a]})
    if second != refs[b][j]:
        st.fail("battery op %d on input variant %d gives a different result when it follows op %d on variant %d (same objects and addresses, other values): results depend on an earlier call" % (j, b, i, a),
                {"cfg": L.config, "ops": [i, j], "variants": [a, b], "long_lived_context": bool(shared_ctx)})
    if L.illegal or L.errors:
        st.fail("callback fired during call pair (%d,%d)" % (i, j), {"cfg": L.config, "ops": [i, j]})
        L.cb_reset()
    if not shared_ctx:
        L.context_destroy(c)
    if L.live_allocs != live0:
        st.fail("allocation ledger: %d allocation(s) still live after call pair (%d,%d)" % (L.live_allocs - live0, i, j), {"cfg": L.config, "ops": [i, j]})
    L.verif_shared_use(0)
    st.nt((i, j, a, b))
    st.count("pair-v%d-v%d" % (a, b))
    if i == 3 and j == 4:
        st.sample({"first": {"op": i, "variant": a}, "second": {"op": j, "variant": b}, "second_result": hx(second[:24]) + ".."})


def pair_phase(run, cfg, thorough):
    L = lib(cfg)
    n = L.verif_battery_n_ops()
    cases = [(i, j, a, b, sc) for sc in ((0, 1) if thorough else (0,)) for (a, b) in ((1, 0), (0, 1), (0, 0)) for i in range(n) for j in range(n)]
    run_phase(run, "%s/call-pair-histories" % cfg, pair_case, cases, setup=lambda c=cfg: pair_setup(c),
              rule="ALL ordered pairs (op_i, op_j) of the %d battery ops x input-variant patterns (1,0), (0,1), (0,0): the two calls use the SAME argument objects at the SAME addresses holding different (or equal) values, on one context%s; the second call must be byte-identical to that call on a fresh context with no history (differential oracle), no callback, balanced allocation ledger" % (n, " (thorough: also on one long-lived context per worker)" if thorough else ""))


# ------------------------------------------------------------------ writable globals
def globals_check(run, cfg):
    """compile the library translation units ALONE (no harness code, non-PIC so const data lands in .rodata) and
    inspect the symbol table: any .data/.bss/common symbol is mutable file-scope state"""
    t0 = time.time()
    d_ = os.path.join(B.BUILD, "globals2-%s" % B.source_hash()[:16])
    os.makedirs(d_, exist_ok=True)
    flags = [f for f in B.COMMON if f not in ("-fPIC", "-shared", "-DUSE_EXTERNAL_DEFAULT_CALLBACKS=1", "-DVERIF_WITH_LAX_DER=1")] + ["-O2", "-fno-pic", "-fno-pie", "-DUSE_ASM_X86_64=1"] + B._tables()
    seen, bad = [], []
    allow = {"secp256k1_generator_h": "non-const pointer to the constant generator H (never written by the library)"}
    for src in ("secp256k1.c", "precomputed_ecmult.c", "precomputed_ecmult_gen.c"):
        obj = os.path.join(d_, src + ".o")
        if not os.path.exists(obj):
            r = subprocess.run(["gcc", "-c"] + flags + ["-I", B.REPO, "-I", os.path.join(B.REPO, "src"), "-I", os.path.join(B.REPO, "include"),
                                os.path.join(B.REPO, "src", src), "-o", obj], capture_output=True, text=True)
            if r.returncode != 0:
                sys.stderr.write(r.stderr[-2000:])
                raise SystemExit(2)
        out = subprocess.run(["nm", "--defined-only", obj], capture_output=True, text=True).stdout
        for line in out.splitlines():
            p = line.split()
            if len(p) < 3:
                continue
            typ, name = p[-2], p[-1]
            if typ in ("B", "b", "D", "d", "C", "S", "s", "G", "g"):
                seen.append("%s:%s" % (typ, name))
                if name not in allow:
                    bad.append((typ, name, src))
    d = {"cases": 3, "calls": 3, "states": len(seen), "nontrivial": max(len(seen), 2), "hist": {"writable-symbols": len(seen)}, "samples": [{"writable_symbols": seen[:40]}], "wall": time.time() - t0}
    run.phase("%s/writable-globals" % cfg, d, rule="symbol tables of secp256k1.c / precomputed_ecmult.c / precomputed_ecmult_gen.c compiled alone: every .data/.bss/common symbol must be on the allow-list {secp256k1_generator_h}")
    for typ, name, src in bad:
        run.violation("[%s/writable-globals] %s defines a writable file-scope symbol: %s (%s) - hidden mutable global state" % (cfg, src, name, typ),
                      {"cfg": cfg, "symbol": name, "type": typ, "file": src}, None, None)


# ------------------------------------------------------------------ schedules (tools/sched)
def schedule_phase(run, thorough):
    from ..sched import run_sched
    run_sched(run, thorough)


def main():
    a = args()
    run = Run(PID, a.tier)
    thorough = a.tier == "thorough"
    cfgs = ["prod-san", "prod-verify"] + (["cfg-int64-noasm-w8-c22", "cfg-i128struct-noasm-w2-c2"] if thorough else [])
    sgs = ["sg13-verify"] + (["sg13", "sg7-verify"] if thorough else [])
    B.build_many(cfgs + sgs + ["prod-fast"])
    for b in cfgs + sgs:
        run.cov["builds"][b] = B.source_hash()[:16]
    depth = 5 if thorough else 4
    for cfg in cfgs:
        history_search(run, cfg, depth if cfg == "prod-san" or thorough else 2)
        L = lib(cfg)
        base = battery(L, L.ctx)
        run_phase(run, "%s/static-context" % cfg, static_case, [0], setup=lambda c=cfg, b=base: (lib(c), b, None), nproc=1,
                  rule="every battery op on secp256k1_context_static and on a byte-copy with installed callbacks: documented-static ops must give the full-context result with 0 callbacks, the others either the same result or an illegal-argument callback; context management on the static context is refused; destroy(NULL); failing allocator => error callback")
        if run.out_of_time():
            run.cov["exhaustive"] = False
    for cfg in cfgs[:2 if thorough else 1]:
        pair_phase(run, cfg, thorough)
    globals_check(run, "prod-fast")
    for cfg in sgs:
        run_phase(run, "%s/blinding-invariant" % cfg, sg_blinding_case, [0], setup=lambda c=cfg: Lib(c), nproc=1,
                  rule="small group: BFS over randomize(seed) chains (41 seeds incl. NULL, depth 3) merged on the blinding state; in every distinct state ecmult_gen(n) == n*G for EVERY n in Z_N")
    try:
        schedule_phase(run, thorough)
    except ImportError:
        run.assumptions.append("schedule exploration (E4) not built yet")
    run.assumptions += ["hardware memory-model effects are out of scope (and moot while there are no shared writes)",
                        "interleavings are decided at the granularity of the memory accesses clang/gcc instrument"]
    sys.exit(run.finish())


if __name__ == "__main__":
    main()
