"""C19 Bulletproofs++ norm argument is complete and exact; generator lists are reproducible.

E1  prove -> verify over the (|n|,|l|) grid x vector / rho / transcript alphabets x scratch variants,
    commitment, proof bytes and verdict compared with the model (model/bppp.py: round-by-round folding);
E5  the rejection list of the statement, each class driven with inputs a verifier that lacks exactly that
    rule would ACCEPT (model-constructed: commitment solved for the given proof bytes), all single-bit flips;
E2  order-13 build: every vector in Z_13^(|n|+|l|) x every rho (completeness) and every well-formed proof
    string x every commitment (exactness);
    generator lists for every count 0..256, their codec, malformed encodings with the allocation ledger."""
import sys, hashlib, itertools
from ctypes import byref, c_size_t
from ..core import Run, run_phase, Violation, hx, seeded_fillers
from ..util import *
from ..model import bppp as M
from .. import build as B

PID = "C19"
_L = {}
_NUMS = []          # model generator list, computed once in the parent (workers inherit it)
Z64 = b"\x00" * 64
BIG = 1 << 20


def lib(cfg):
    if cfg not in _L:
        _L[cfg] = Lib(cfg)
    return _L[cfg]


def xy(Pt):
    return Z64 if Pt is None else b32(Pt[0]) + b32(Pt[1])


def unxy(b):
    b = bytes(b)
    return None if b == Z64 else (i32(b[:32]), i32(b[32:]))


def vb(v):
    return b"".join(b32(x) for x in v)


def H(tag, i, q=N):
    return i32(hashlib.sha256(b"c19/" + tag + b"/%d" % i).digest()) % q


# ------------------------------------------------------------------ alphabets
FILL = seeded_fillers(4, b"c19")
BOUND = [N - 1, 1, (N - 1) // 2, 2**128, N - 2, 2, (N + 1) // 2, 2**255 % N, 2**64 - 1, 2**128 - 1, LAMBDA, 3]
RHOS = [1, 2, N - 1, (i32(FILL[0]) % (N - 1)) + 1, (N + 1) // 2, LAMBDA]
TRS = [(0, b""), (1, bytes(range(100))), (0, FILL[1] + b"\x80" * 23), (1, b"")]   # (tagged, prefix): 0, 100, 55 bytes
VKINDS = ["fill", "max", "zero", "one", "e0", "eL", "bound", "ramp"]


def vec(kind, ln, tag):
    if kind == "zero":
        return [0] * ln
    if kind == "one":
        return [1] * ln
    if kind == "max":
        return [N - 1] * ln
    if kind == "ramp":
        return list(range(1, ln + 1))
    if kind == "bound":
        return [BOUND[i % len(BOUND)] for i in range(ln)]
    if kind == "fill":
        return [i32(hashlib.sha256(FILL[2] + tag + b"%d" % i).digest()) % N for i in range(ln)]
    if kind[0] == "e":
        j = 0 if kind == "e0" else (ln - 1 if kind == "eL" else int(kind[1:]))
        return [1 if i == j else 0 for i in range(ln)]
    raise KeyError(kind)


# ------------------------------------------------------------------ per-worker environment (production group)
class Env:
    def __init__(self, cfg):
        self.L = L = lib(cfg)
        self.cfg = cfg
        self.C = SECP
        self.ssz = L.verif_sizeof(1)
        self.align = L.verif_c19_alignment()
        self.base = L.live_allocs
        self._scr = {}
        self._gens = {}
        self._dlk = [H(b"gen", i) or 1 for i in range(132)]
        self._dlxy = {}
        self._nums = None
        self._memo = {}

    def scratch(self, size):
        """scratch space of this size (None -> NULL), created once per worker"""
        if size is None:
            return None
        if size not in self._scr:
            s = self.L.verif_c19_scratch_create(self.L.ctx, size)
            assert s
            self._scr[size] = s
        return self._scr[size]

    def need(self, g, h):
        return M.verifier_scratch_need(g, h, self.ssz, self.align)

    def nums(self, k):
        if _NUMS and len(_NUMS) >= k:
            return _NUMS[:k]
        if self._nums is None or len(self._nums) < k:
            self._nums = M.generators(16 if k <= 16 else 256)
        return self._nums[:k]

    def gens(self, kind, count):
        """(model list of LP, library object) -- 'dl': k_i*G with known k_i; 'nums': generators_create(count)"""
        key = (kind, count)
        if key not in self._gens:
            L = self.L
            if kind == "dl":
                for i in range(count):
                    if i not in self._dlxy:
                        self._dlxy[i] = xy(self.C.mulG(self._dlk[i]))
                obj = L.verif_c19_gens_from_xy(b"".join(self._dlxy[i] for i in range(count)), count)
                ml = [M.lp_dl(self._dlk[i]) for i in range(count)]
            else:
                obj = L.bppp_generators_create(L.ctx, count)
                ml = [M.lp_pt(Q) for Q in self.nums(count)]
            assert obj
            self._gens[key] = (ml, obj)
        return self._gens[key]

    def legal(self, st, what, case):
        L = self.L
        if L.illegal or L.errors:
            st.fail("callback fired on legal input (%s): illegal=%d error=%d" % (what, L.illegal, L.errors), case)
            L.cb_reset()


def prod_setup(cfg):
    return lambda: Env(cfg)


def rverify(env, scr, proof, tr, rho, gobj, g, cv, cm_xy, st):
    """one real verifier call + scratch hygiene"""
    L = env.L
    r = L.verif_c19_verify(L.ctx, scr, proof, len(proof), tr[0], tr[1], len(tr[1]), b32(rho), gobj, g, vb(cv), len(cv), cm_xy)
    st.calls += 1
    if L.verif_c19_scratch_used(scr) != 0:
        raise Violation("verifier left %d bytes allocated in the scratch space" % L.verif_c19_scratch_used(scr))
    return r


def cdesc(env, **kw):
    d = {"cfg": env.cfg}
    for k, v in kw.items():
        if isinstance(v, (bytes, bytearray)):
            v = hx(v)
        elif isinstance(v, int) and v > 2**32:
            v = hex(v)
        elif isinstance(v, list) and v and all(isinstance(x, int) for x in v):
            v = [hex(x) for x in v] if len(v) <= 8 else [hex(x) for x in v[:8]] + ["... %d more" % (len(v) - 8)]
        d[k] = v
    return d


# ------------------------------------------------------------------ E1 completeness
def complete_case(env, case, st):
    g, h, nk, lk, ck, ri, ti, gk, depth = case
    L, C = env.L, env.C
    ml, gobj = env.gens(gk, g + h)
    nv, lv, cv = vec(nk, g, b"n"), vec(lk, h, b"l"), vec(ck, h, b"c")
    rho, tr = RHOS[ri], TRS[ti]
    mu = rho * rho % N
    d = cdesc(env, g_len=g, h_len=h, n=nk, l=lk, c=ck, rho=rho, transcript=[tr[0], hx(tr[1])], gens=gk)
    mcm = xy(M.lp_affine(C, M.commit(C, ml, nv, lv, cv, mu)))
    mpf = M.prove(C, M.Transcript(tr[1], tr[0]), rho, ml, nv, lv, cv)
    plen = M.proof_len(g, h)
    assert len(mpf) == plen
    assert M.verify(C, mpf, M.Transcript(tr[1], tr[0]), rho, ml, g, cv, M.lp_pt(unxy(mcm))), "model prover/verifier disagree"
    need = env.need(g, h)
    pscr = [None, BIG] if depth == 0 else [None, 0, 4096, 1 << 16, BIG]
    vscr = [need, BIG] if depth == 0 else [need, need + 4096, need + (1 << 16), BIG]
    caps = (plen,) if depth == 0 else (plen, plen + 7)
    for ps in pscr:
        scr = env.scratch(ps)
        cm = buf(b"\x77" * 64)
        r = L.verif_c19_commit(L.ctx, scr, cm, gobj, vb(nv), g, vb(lv), h, vb(cv), h, b32(mu))
        st.calls += 1
        if r != 1 or cm.raw != mcm:
            st.fail("bppp_commit (scratch %r) ret=%d differs from v*G+<n,G>+<l,H>" % (ps, r), dict(d, got=hx(cm.raw), model=hx(mcm)))
            return
        for cap in caps:
            pl = c_size_t(cap)
            pf = buf(cap)
            r = L.verif_c19_prove(L.ctx, scr, pf, byref(pl), tr[0], tr[1], len(tr[1]), b32(rho), gobj, vb(nv), g, vb(lv), h, vb(cv), h)
            st.calls += 1
            if r != 1 or pl.value != plen or pf.raw[:plen] != mpf:
                st.fail("prover (scratch %r) ret=%d len=%d (expected %d): proof differs from the model prover" % (ps, r, pl.value, plen),
                        dict(d, got=hx(pf.raw[:pl.value]), model=hx(mpf)))
                return
        if scr is not None and L.verif_c19_scratch_used(scr) != 0:
            st.fail("prover left the scratch space allocated", d)
    bad = bytearray(mpf)
    bad[-1] ^= 1
    for vs in vscr:
        scr = env.scratch(vs)
        r = rverify(env, scr, mpf, tr, rho, gobj, g, cv, mcm, st)
        if r != 1:
            st.fail("honest proof rejected (verifier scratch %d, needs %d)" % (vs, need), dict(d, proof=hx(mpf), commit=hx(mcm)))
        if depth == 0 and vs != BIG:
            continue
        r = rverify(env, scr, bytes(bad), tr, rho, gobj, g, cv, mcm, st)
        if r != 0:
            st.fail("proof with altered final scalar accepted (verifier scratch %d)" % vs, dict(d, proof=hx(bad), commit=hx(mcm)))
    st.count("accept %dx%d" % (g, h))
    st.nt((g, h, nk, lk, ck, ri, ti, gk))
    env.legal(st, "commit/prove/verify", d)
    if (nk, lk) == ("fill", "fill"):
        st.sample({"g_len": g, "h_len": h, "rho": hex(rho), "gens": gk, "proof_len": plen, "proof_head": hx(mpf[:40])})


# ------------------------------------------------------------------ verifier / prover scratch accounting
def base_instance(env, g, h, gk="dl", ti=1, ri=3, kinds=("fill", "fill", "fill")):
    key = ("base", g, h, gk, ti, ri, kinds)
    if key not in env._memo:
        C = env.C
        ml, gobj = env.gens(gk, g + h)
        nv, lv, cv = vec(kinds[0], g, b"n"), vec(kinds[1], h, b"l"), vec(kinds[2], h, b"c")
        rho, tr = RHOS[ri], TRS[ti]
        cm = M.commit(C, ml, nv, lv, cv, rho * rho % N)
        pf = M.prove(C, M.Transcript(tr[1], tr[0]), rho, ml, nv, lv, cv)
        assert M.verify(C, pf, M.Transcript(tr[1], tr[0]), rho, ml, g, cv, cm)
        env._memo[key] = (ml, gobj, nv, lv, cv, rho, tr, xy(M.lp_affine(C, cm)), pf)
    return env._memo[key]


def scratch_sizes(need, align):
    s = set(range(0, need + 4 * align + 1, align)) | {need - 1, need + 1, need - align + 1}
    s |= {need + (1 << k) for k in range(5, 21)} | {(1 << k) for k in range(4, 21)}
    return sorted(x for x in s if x >= 0)


def scratch_case(env, case, st):
    g, h, part, nparts = case
    L = env.L
    ml, gobj, nv, lv, cv, rho, tr, cm, pf = base_instance(env, g, h)
    need = env.need(g, h)
    bad = bytearray(pf)
    bad[len(pf) - 33] ^= 0x80
    sizes = scratch_sizes(need, env.align)[part::nparts]
    for k, size in enumerate(sizes):
        live0 = L.live_allocs
        scr = L.verif_c19_scratch_create(L.ctx, size)
        d = cdesc(env, g_len=g, h_len=h, scratch=size, needed=need)
        r = rverify(env, scr, pf, tr, rho, gobj, g, cv, cm, st)
        exp = 1 if size >= need else 0
        if r != exp:
            st.fail("verifier with scratch of %d bytes (needs %d) returned %d, expected %d" % (size, need, r, exp), d)
        if rverify(env, scr, bytes(bad), tr, rho, gobj, g, cv, cm, st) != 0:
            st.fail("altered proof accepted with scratch of %d bytes" % size, d)
        st.count("sufficient" if exp else "insufficient->0")
        if exp:
            st.nt((g, h, size))
        if L.illegal or L.errors:
            st.fail("callback fired for scratch size %d (must fail closed silently): illegal=%d error=%d" % (size, L.illegal, L.errors), d)
            L.cb_reset()
        if k % 4 == 0 or size <= need + 2 * env.align:
            pl = c_size_t(len(pf))
            out = buf(len(pf))
            r = L.verif_c19_prove(L.ctx, scr, out, byref(pl), tr[0], tr[1], len(tr[1]), b32(rho), gobj, vb(nv), g, vb(lv), h, vb(cv), h)
            cmo = buf(64)
            r2 = L.verif_c19_commit(L.ctx, scr, cmo, gobj, vb(nv), g, vb(lv), h, vb(cv), h, b32(rho * rho % N))
            st.calls += 2
            if r != 1 or out.raw != pf or r2 != 1 or cmo.raw != cm or L.verif_c19_scratch_used(scr):
                st.fail("prover/commit with scratch of %d bytes: ret=%d/%d or output differs" % (size, r, r2), d)
        L.verif_c19_scratch_destroy(L.ctx, scr)
        if L.live_allocs != live0:
            st.fail("allocation ledger unbalanced after scratch life cycle", d)
    env.legal(st, "scratch", {"g": g, "h": h})


# ------------------------------------------------------------------ E5 rejection list
def small_x_points(C, k):
    """k points (x, y) with the smallest x on the curve; x + p still fits in 32 bytes"""
    out, x = [], 1
    while len(out) < k:
        Q = C.lift_x(x, len(out) & 1)
        if Q is not None:
            out.append(Q)
        x += 1
    return out


def off_curve_x(C, start):
    x = start
    while C.lift_x(x) is not None:
        x += 1
    return x


def chunk_points(env, i, variant):
    """deterministic pair of points for round i of a constructed proof"""
    C = env.C
    if variant == "dl":
        return C.mulG(H(b"X", i)), C.mulG(H(b"R", i))
    if variant == "nums":
        g = env.nums(16)
        return g[(2 * i) % 16], C.neg(g[(2 * i + 1) % 16])
    if variant == "small":
        s = small_x_points(C, 12)
        return s[(2 * i) % 12], s[(2 * i + 1) % 12]
    if variant == "infX":
        return None, C.mulG(H(b"R", i))
    if variant == "infR":
        return C.mulG(H(b"X", i)), None
    if variant == "inf":
        return None, None
    raise KeyError(variant)


def constructed(env, g, h, variant, finals, gk="dl", ti=2, ri=3, ck="fill"):
    """proof bytes with chosen points / final scalars, and the statement pieces"""
    r = M.rounds(g, h)
    pf = b"".join(M.ser_two_points(*chunk_points(env, i, variant)) for i in range(r)) + b32(finals[0]) + b32(finals[1])
    ml, gobj = env.gens(gk, g + h)
    return pf, ml, gobj, vec(ck, h, b"c"), RHOS[ri], TRS[ti]


def expect(env, st, what, d, r, exp, accept_key=None):
    st.count("%s -> %d" % (what, exp))
    if exp and accept_key is not None:
        st.nt(accept_key)
    if r != exp:
        st.count("MISMATCH %s" % what)
        st.fail("%s: verifier returned %d, expected %d" % (what, r, exp), d)


def solve(env, pf, tr, rho, ml, g, cv, lenient=()):
    cf = M.commitment_for(env.C, pf, M.Transcript(tr[1], tr[0]), rho, ml, g, cv, lenient)
    return None if cf is None else xy(M.lp_affine(env.C, cf))


def reject_case(env, case, st):
    cls = case[0]
    L, C = env.L, env.C
    scr = env.scratch(BIG)

    if cls == "constructed-accept":
        # strictly valid proofs around chosen points / final scalars: the solved commitment is accepted,
        # any other commitment is not
        _, g, h, variant, fi, gk = case
        finals = FINALS[fi]
        pf, ml, gobj, cv, rho, tr = constructed(env, g, h, variant, finals, gk)
        cm = solve(env, pf, tr, rho, ml, g, cv)
        assert cm is not None
        d = cdesc(env, cls=cls, g_len=g, h_len=h, points=variant, finals=list(finals), gens=gk, proof=pf, commit=cm)
        for vs in (env.need(g, h), BIG):
            expect(env, st, "constructed valid proof", d, rverify(env, env.scratch(vs), pf, tr, rho, gobj, g, cv, cm, st), 1, (g, h, variant, fi, gk))
        other = xy(C.add(unxy(cm), C.G))
        expect(env, st, "constructed proof, commitment + G", d, rverify(env, scr, pf, tr, rho, gobj, g, cv, other, st), 0)
        if M.rounds(g, h):
            expect(env, st, "constructed proof, other transcript", d, rverify(env, scr, pf, TRS[0], rho, gobj, g, cv, cm, st),
                   int(M.verify(C, pf, M.Transcript(TRS[0][1], TRS[0][0]), rho, ml, g, cv, M.lp_pt(unxy(cm)))))
        st.sample({"class": cls, "g_len": g, "h_len": h, "points": variant, "finals": [hex(x) for x in finals], "commit": hx(cm)})

    elif cls == "length":
        # valid proof + / - bytes; a verifier reading only the prefix it needs would accept the longer ones
        _, g, h, delta, padk = case
        ml, gobj, nv, lv, cv, rho, tr, cm, pf = base_instance(env, g, h, ti=2)
        if delta > 0:
            pad = {0: b"\x00", 1: b"\xff", 2: pf[:1] or b"\x01"}[padk] * delta
            bad = pf + pad
        else:
            bad = pf[:len(pf) + delta] if len(pf) + delta >= 0 else None
        if bad is None:
            return
        d = cdesc(env, cls=cls, g_len=g, h_len=h, delta=delta, proof=bad, commit=cm)
        expect(env, st, "proof length %+d" % delta, d, rverify(env, scr, bad, tr, rho, gobj, g, cv, cm, st), 0)
        if delta == 65 and padk == 0:
            # the same bytes are a well-formed proof for a statement with one more round: model decides
            for (g2, h2) in ((2 * g, h), (g, 2 * h)):
                if g2 + h2 > 130 or M.rounds(g2, h2) != M.rounds(g, h) + 1:
                    continue
                ml2, gobj2 = env.gens("dl", g2 + h2)
                cv2 = vec("fill", h2, b"c")
                exp = int(M.verify(C, bad, M.Transcript(tr[1], tr[0]), rho, ml2, g2, cv2, M.lp_pt(unxy(cm))))
                expect(env, st, "longer proof against the larger statement", d, rverify(env, scr, bad, tr, rho, gobj2, g2, cv2, cm, st), exp)

    elif cls == "trivial":
        # all-zero proof with the commitment at infinity: n = l = 0, X = R = infinity satisfies the equation under
        # ANY coefficient arithmetic, so each structural rule is the only thing standing between it and acceptance
        _, g, h, gcount, plen_delta, rho = case
        fl = lambda k: max(k.bit_length() - 1, 0)
        plen = 65 * max(fl(g), fl(h)) + 64 + plen_delta
        if plen < 0:
            return
        pf = b"\x00" * plen
        ml, gobj = env.gens("dl", gcount)
        cv = vec("fill", h, b"c")
        tr = TRS[0]
        exp = int(M.verify(C, pf, M.Transcript(tr[1], tr[0]), rho, ml, g, cv, M.INF))
        d = cdesc(env, cls=cls, g_len=g, h_len=h, generators=gcount, proof_len=plen, rho=rho)
        r = rverify(env, scr, pf, tr, rho, gobj, g, cv, Z64, st)
        why = "ok" if exp else ("rho=0" if rho == 0 else "size" if not (M.is_pow2(g) and M.is_pow2(h)) else
                                "gens" if gcount != g + h else "len")
        expect(env, st, "trivial zero statement [%s]" % why, d, r, exp, (g, h))

    elif cls == "rho0":
        _, g, h, variant, fi, how = case
        finals = FINALS[fi]
        pf, ml, gobj, cv, _, tr = constructed(env, g, h, variant, finals)
        cm = solve(env, pf, tr, 0, ml, g, cv, {how})
        d = cdesc(env, cls=cls, g_len=g, h_len=h, points=variant, finals=list(finals), convention=how, proof=pf, commit=cm)
        expect(env, st, "rho = 0 (%s)" % how, d, rverify(env, scr, pf, tr, 0, gobj, g, cv, cm, st), 0)

    elif cls == "scalar-range":
        # final scalars re-encoded as s + n (needs s < 2^256 - n), n itself, 2^256 - 1
        _, g, h, variant, which, enc = case
        small = [0, 1, 2**128 + 5, 2**256 - N - 1][enc % 4] if enc < 4 else None
        fin = [H(b"fn", g * 100 + h), H(b"fl", g * 100 + h)]
        if small is not None:
            fin[which] = small
            raw = small + N
        else:
            raw = 2**256 - 1
            fin[which] = raw % N
        pf, ml, gobj, cv, rho, tr = constructed(env, g, h, variant, fin)
        cm = solve(env, pf, tr, rho, ml, g, cv)
        d = cdesc(env, cls=cls, g_len=g, h_len=h, which="nl"[which], value=raw, commit=cm)
        expect(env, st, "canonical final scalars", d, rverify(env, scr, pf, tr, rho, gobj, g, cv, cm, st), 1, (g, h, variant, which, enc))
        r = M.rounds(g, h)
        off = 65 * r + 32 * which
        bad = pf[:off] + b32(raw) + pf[off + 32:]
        assert solve(env, bad, tr, rho, ml, g, cv, {"scmod"}) == cm and solve(env, bad, tr, rho, ml, g, cv) is None
        d["proof"] = hx(bad)
        expect(env, st, "final scalar >= n (same value mod n)", d, rverify(env, scr, bad, tr, rho, gobj, g, cv, cm, st), 0)

    elif cls == "sign-byte":
        # sign byte b > 3 in round `rnd`; commitment solved as if only the two low bits counted
        _, g, h, variant, rnd, b = case
        pf, ml, gobj, cv, rho, tr = constructed(env, g, h, variant, FINALS[3])
        bad = bytearray(pf)
        bad[65 * rnd] = b
        bad = bytes(bad)
        cm = solve(env, bad, tr, rho, ml, g, cv, {"sign", "infsign"})
        assert cm is not None
        d = cdesc(env, cls=cls, g_len=g, h_len=h, round=rnd, byte=bad[65 * rnd], proof=bad, commit=cm)
        exp = int(M.verify(C, bad, M.Transcript(tr[1], tr[0]), rho, ml, g, cv, M.lp_pt(unxy(cm))))
        assert exp == 0 or b <= 3
        expect(env, st, "sign byte %s" % ("> 3" if b > 3 else "<= 3"), d, rverify(env, scr, bad, tr, rho, gobj, g, cv, cm, st), exp,
               (g, h, variant, rnd, b))

    elif cls == "inf-sign":
        # x = 0 (infinity) with / without its parity bit
        _, g, h, variant, rnd, bits = case
        pf, ml, gobj, cv, rho, tr = constructed(env, g, h, variant, FINALS[3])
        bad = bytearray(pf)
        bad[65 * rnd] = bits
        bad = bytes(bad)
        cm = solve(env, bad, tr, rho, ml, g, cv, {"infsign"})
        assert cm is not None
        exp = int(M.verify(C, bad, M.Transcript(tr[1], tr[0]), rho, ml, g, cv, M.lp_pt(unxy(cm))))
        d = cdesc(env, cls=cls, g_len=g, h_len=h, points=variant, round=rnd, sign_byte=bits, proof=bad, commit=cm)
        expect(env, st, "infinity encoding, parity bit %s" % ("clear" if exp else "set"), d,
               rverify(env, scr, bad, tr, rho, gobj, g, cv, cm, st), exp, (g, h, variant, rnd, bits))

    elif cls == "x-range":
        # x coordinate re-encoded as x + p / not on the curve / p / 2^256-1
        _, g, h, rnd, idx, how = case
        pf, ml, gobj, cv, rho, tr = constructed(env, g, h, "small", FINALS[3])
        off = 65 * rnd + 1 + 32 * idx
        x = i32(pf[off:off + 32])
        newx = {"x+p": x + P, "off-curve": off_curve_x(C, x + 1), "p": P, "max": 2**256 - 1, "p-1": P - 1}[how]
        bad = pf[:off] + b32(newx) + pf[off + 32:]
        cm = solve(env, bad, tr, rho, ml, g, cv, {"xmod"}) or solve(env, pf, tr, rho, ml, g, cv)
        exp = int(M.verify(C, bad, M.Transcript(tr[1], tr[0]), rho, ml, g, cv, M.lp_pt(unxy(cm))))
        d = cdesc(env, cls=cls, g_len=g, h_len=h, round=rnd, point="XR"[idx], how=how, proof=bad, commit=cm)
        expect(env, st, "point x %s" % how, d, rverify(env, scr, bad, tr, rho, gobj, g, cv, cm, st), exp, (g, h, rnd, idx, how))
        if how == "x+p":
            assert exp == 0 and solve(env, bad, tr, rho, ml, g, cv, {"xmod"}) is not None

    elif cls == "gens-count":
        # valid proof, generator list longer / shorter than |n| + |l| (shared prefix)
        _, g, h, gcount = case
        ml, gobj, nv, lv, cv, rho, tr, cm, pf = base_instance(env, g, h, ti=2)
        ml2, gobj2 = env.gens("dl", gcount)
        d = cdesc(env, cls=cls, g_len=g, h_len=h, generators=gcount, proof=pf, commit=cm)
        expect(env, st, "generator count %s" % ("== |n|+|l|" if gcount == g + h else "!= |n|+|l|"), d,
               rverify(env, scr, pf, tr, rho, gobj2, g, cv, cm, st), 1 if gcount == g + h else 0, (g, h))

    elif cls == "statement":
        # valid proof presented against a different statement: model decides
        _, g, h, what = case
        ml, gobj, nv, lv, cv, rho, tr, cm, pf = base_instance(env, g, h, ti=2)
        g2, cv2, rho2, tr2, cm2 = g, list(cv), rho, tr, cm
        if what == "swap-lengths":
            g2, cv2 = h, vec("fill", g, b"c")
        elif what == "c+1":
            cv2[-1] = (cv2[-1] + 1) % N
        elif what == "rho+1":
            rho2 = (rho + 1) % N
        elif what == "-rho":
            rho2 = N - rho
        elif what == "transcript":
            tr2 = (tr[0], tr[1][:-1] + b"\x81")
        elif what == "tagged":
            tr2 = (1 - tr[0], tr[1])
        elif what == "-commit":
            cm2 = xy(C.neg(unxy(cm)))
        elif what == "commit-inf":
            cm2 = Z64
        exp = int(M.verify(C, pf, M.Transcript(tr2[1], tr2[0]), rho2, ml, g2, cv2, M.lp_pt(unxy(cm2))))
        d = cdesc(env, cls=cls, g_len=g, h_len=h, what=what, proof=pf, commit=cm2)
        expect(env, st, "other statement (%s)" % what, d, rverify(env, scr, pf, tr2, rho2, gobj, g2, cv2, cm2, st), exp, (g, h, what))

    elif cls == "bitflip":
        # every single-bit flip of bytes [lo, hi) of a valid proof; the model decides each one
        _, g, h, src, lo, hi = case
        if src == "honest":
            ml, gobj, nv, lv, cv, rho, tr, cm, pf = base_instance(env, g, h, ti=2)
        else:
            pf, ml, gobj, cv, rho, tr = constructed(env, g, h, src, FINALS[3])
            cm = solve(env, pf, tr, rho, ml, g, cv)
        cmp_ = M.lp_pt(unxy(cm))
        hi = min(hi, len(pf))
        if lo == 0:
            expect(env, st, "unflipped proof", {"g": g, "h": h}, rverify(env, scr, pf, tr, rho, gobj, g, cv, cm, st), 1, (g, h, src))
        for pos in range(lo, hi):
            for bit in range(8):
                bad = bytearray(pf)
                bad[pos] ^= 1 << bit
                bad = bytes(bad)
                exp = int(M.verify(C, bad, M.Transcript(tr[1], tr[0]), rho, ml, g, cv, cmp_))
                r = rverify(env, scr, bad, tr, rho, gobj, g, cv, cm, st)
                st.count("bit flip -> %d" % exp)
                if exp:
                    st.nt((g, h, src, pos, bit))
                if r != exp:
                    st.fail("proof with bit %d of byte %d flipped: verifier %d, model %d" % (bit, pos, r, exp),
                            cdesc(env, cls=cls, g_len=g, h_len=h, source=src, proof=bad, commit=cm))
    else:
        raise KeyError(cls)
    env.legal(st, cls, {"case": repr(case)})


FINALS = [(0, 0), (1, 0), (0, 1), (H(b"fn", 0), H(b"fl", 0)), (N - 1, N - 1), (1, N - 1), (2**128, 3)]


def reject_cases(thorough, full=True):
    """full=False: reduced list for the secondary configurations"""
    out = []
    sizes = [(1, 1), (2, 1), (1, 2), (2, 2), (4, 2), (2, 8), (8, 8)] + ([(16, 4), (1, 64), (64, 64)] if thorough else [(64, 32)])
    small = [(1, 1), (2, 1), (1, 2), (2, 2), (4, 1), (2, 4)] + ([(4, 4), (1, 8)] if thorough else [])
    variants = ["dl", "nums", "small", "infX", "infR", "inf"]
    for (g, h) in sizes:
        big = g + h > 16
        for v in variants:
            for fi in range(len(FINALS)):
                if big and (fi not in (0, 3) or v in ("nums", "small")):
                    continue
                out.append(("constructed-accept", g, h, v, fi, "dl"))
                if g + h <= 8 and v in ("dl", "inf") and fi in (0, 3, 4):
                    out.append(("constructed-accept", g, h, v, fi, "nums"))
        for delta in (1, 2, 31, 32, 33, 64, 65, 66, 130, -1, -2, -32, -33, -64, -65, -66, -129):
            for padk in ((0, 1, 2) if delta > 0 else (0,)):
                out.append(("length", g, h, delta, padk))
        for gc in sorted({0, 1, g + h - 1, g + h, g + h + 1, 2 * (g + h), g, h} - {-1}):
            if gc <= 130:
                out.append(("gens-count", g, h, gc))
        for what in ("swap-lengths", "c+1", "rho+1", "-rho", "transcript", "tagged", "-commit", "commit-inf"):
            out.append(("statement", g, h, what))
        for v in ("dl", "inf"):
            for fi in (0, 3):
                for how in ("rho0-inv0", "rho0-spec"):
                    out.append(("rho0", g, h, v, fi, how))
        for which in (0, 1):
            for enc in range(5):
                out.append(("scalar-range", g, h, "dl", which, enc))
        for rnd in range(M.rounds(g, h)):
            for idx in (0, 1):
                for how in ("x+p", "off-curve", "p", "max", "p-1"):
                    out.append(("x-range", g, h, rnd, idx, how))
            for v, bits in (("infX", 0), ("infX", 1), ("infX", 2), ("infX", 3), ("infR", 0), ("infR", 1), ("infR", 2), ("infR", 3),
                            ("inf", 0), ("inf", 1), ("inf", 2), ("inf", 3)):
                out.append(("inf-sign", g, h, v, rnd, bits))
    # sign byte: every value 0..255 in every round
    for (g, h) in ([(2, 1), (1, 2), (2, 2), (4, 2), (8, 8)] + ([(64, 64)] if thorough else [])) if full else [(2, 1), (4, 4)]:
        for rnd in range(M.rounds(g, h)):
            for v in ("dl", "inf") if g + h <= 4 and full else ("dl",):
                for b in range(256):
                    out.append(("sign-byte", g, h, v, rnd, b))
    # trivial zero statement: sizes 0..9 (+ 12, 16, 17, 31, 33, 64, 65) on each side; generator count exact, +-1; length exact, +-1, +65; rho = 0
    szs = [0, 1, 2, 3, 4, 5, 6, 7, 8, 9] + ([12, 15, 16, 17, 31, 32, 33, 63, 64, 65] if thorough else [12, 16, 63, 64])
    for g in szs:
        for h in szs:
            if not thorough and g > 9 and h > 9:
                continue
            out.append(("trivial", g, h, g + h, 0, 1))
            out.append(("trivial", g, h, g + h, 0, 0))
            if g + h <= 20:
                out.append(("trivial", g, h, g + h + 1, 0, 7))
                if g + h:
                    out.append(("trivial", g, h, g + h - 1, 0, 7))
                for dl in (1, -1, 65, -65):
                    out.append(("trivial", g, h, g + h, dl, 7))
    # single-bit flips
    if not full:
        small = [(2, 1), (1, 2)]
    for (g, h) in small:
        for src in (("honest", "dl", "small", "inf") if thorough else ("honest", "small", "inf") if g + h <= 4 else ("honest",)) if full else ("honest",):
            ln = M.proof_len(g, h)
            step = 8
            for lo in range(0, ln, step):
                out.append(("bitflip", g, h, src, lo, lo + step))
    for (g, h) in ([(8, 8)] + ([(64, 64), (1, 64)] if thorough else [])) if full else []:
        ln = M.proof_len(g, h)
        for lo in list(range(0, 8, 4)) + list(range(ln - 64, ln, 8)):      # first sign byte & x bytes, both final scalars
            out.append(("bitflip", g, h, "honest", lo, lo + (4 if lo < 8 else 8)))
    return out


# ------------------------------------------------------------------ codec / transcript primitives
def codec_points(C):
    s = small_x_points(C, 4)
    pts = [None, C.G, C.neg(C.G), C.mulG(2), C.mul(LAMBDA, C.G), C.mulG(N - 1), s[0], s[1], C.neg(s[2]), s[3]]
    x = N                                       # a point with x >= n
    while C.lift_x(x) is None:
        x += 1
    pts += [C.lift_x(x, 0), C.lift_x(x, 1)]
    x = P - 1                                   # largest x on the curve
    while C.lift_x(x) is None:
        x -= 1
    pts += [C.lift_x(x, 1)]
    return pts


def codec_case(env, case, st):
    L, C = env.L, env.C
    kind = case[0]
    if kind == "ser":
        pts = codec_points(C)
        for X in pts:
            for R in pts:
                out = buf(65)
                r = L.verif_c19_serialize_points(out, xy(X), xy(R))
                exp = M.ser_two_points(X, R)
                st.calls += 1
                if r != 1 or out.raw != exp:
                    st.fail("serialize_points differs from the model", cdesc(env, X=xy(X), R=xy(R), got=out.raw, model=exp))
                for idx in (0, 1):
                    o2 = buf(64)
                    r = L.verif_c19_parse_point(o2, out.raw, idx)
                    st.calls += 1
                    if r != 1 or o2.raw != xy((X, R)[idx]):
                        st.fail("parse(serialize) is not the identity", cdesc(env, X=xy(X), R=xy(R), idx=idx))
                st.count("round trip")
                st.nt((xy(X), xy(R)))
    elif kind == "parse":
        b0 = case[1]
        pts = codec_points(C)
        xs = sorted({0, 1, 2, 5, P - 1, P, P + 1, P + 2, 2**256 - 1, N, off_curve_x(C, 1), off_curve_x(C, N)} | {Q[0] for Q in pts if Q} |
                    {Q[0] + P for Q in pts if Q and Q[0] + P < 2**256})
        other = b32(C.G[0])
        for x in xs:
            for idx in (0, 1):
                in65 = bytes([b0]) + (b32(x) + other if idx == 0 else other + b32(x))
                for j in (0, 1):
                    ok, Q = M.parse_one_of_points(in65, j, C)
                    o2 = buf(b"\x55" * 64)
                    r = L.verif_c19_parse_point(o2, in65, j)
                    st.calls += 1
                    st.count("parse ok" if ok else "parse reject")
                    if ok:
                        st.nt((b0, x, idx, j))
                    if r != int(ok) or (ok and o2.raw != xy(Q)):
                        st.fail("parse_one_of_points=%d, model %d" % (r, ok), cdesc(env, in65=in65, idx=j))
    elif kind == "challenge":
        tagged = case[1]
        for ln in (0, 1, 3, 23, 24, 55, 56, 63, 64, 65, 119, 120, 128, 200):
            pre = bytes((7 * i + ln) & 0xFF for i in range(ln))
            for idx in (0, 1, 2, 255, 256, 2**32 - 1, 2**32, 2**63, 2**64 - 1):
                out = buf(32)
                L.verif_c19_challenge(L.ctx, out, tagged, pre, ln, idx)
                exp = M.Transcript(pre, tagged).challenge(N, idx)
                st.calls += 1
                st.count("challenge")
                st.nt((tagged, ln, idx))
                if out.raw != b32(exp):
                    st.fail("challenge scalar differs from SHA256(transcript||le64(idx)) mod n", cdesc(env, tagged=tagged, prefix=pre, idx=idx, got=out.raw))
    env.legal(st, "codec", {"case": repr(case)})


# ------------------------------------------------------------------ generator lists
def gens_xy(L, obj):
    k = L.verif_c19_gens_count(obj)
    out = buf(64 * k + 1)
    L.verif_c19_gens_get_xy(obj, out)
    raw = out.raw
    return [unxy(raw[64 * i:64 * i + 64]) for i in range(k)]


def gens_case(env, case, st):
    kind, k = case
    L, C = env.L, env.C
    model = env.nums(k)
    live0 = L.live_allocs
    d = {"cfg": env.cfg, "count": k, "kind": kind}
    if kind == "create":
        obj = L.bppp_generators_create(L.ctx, k)
        st.calls += 1
        if not obj:
            st.fail("generators_create returned NULL", d)
            return
        got = gens_xy(L, obj)
        if got != model:
            bad = [i for i in range(k) if got[i] != model[i]]
            st.fail("generators_create(%d): generator %d differs from the model / from the list of %d (not prefix-consistent)" % (k, bad[0], bad[0] + 1),
                    dict(d, got=hx(xy(got[bad[0]])), model=hx(xy(model[bad[0]]))))
        ser_model = b"".join(M.generator_ser(Q) for Q in model)
        for extra in (0, 1, 33):
            ln = c_size_t(33 * k + extra)
            out = buf(b"\xCC" * (33 * k + extra + 1))
            r = L.bppp_generators_serialize(L.ctx, obj, out, byref(ln))
            st.calls += 1
            if r != 1 or ln.value != 33 * k or out.raw[:33 * k] != ser_model or out.raw[33 * k + extra] != 0xCC:
                st.fail("generators_serialize (buffer +%d): ret=%d len=%d or bytes differ from the model encoding" % (extra, r, ln.value), d)
        obj2 = L.bppp_generators_parse(L.ctx, ser_model, 33 * k)
        st.calls += 1
        if not obj2:
            st.fail("generators_parse rejects the serialization of generators_create(%d)" % k, d)
        else:
            if L.verif_c19_gens_count(obj2) != k or gens_xy(L, obj2) != model:
                st.fail("parse(serialize(list)) is not the list", d)
            ln = c_size_t(33 * k)
            out = buf(33 * k + 1)
            r = L.bppp_generators_serialize(L.ctx, obj2, out, byref(ln))
            st.calls += 1
            if r != 1 or out.raw[:33 * k] != ser_model:
                st.fail("serialize(parse(bytes)) is not the identity", d)
            L.bppp_generators_destroy(L.ctx, obj2)
        # lengths 33k+-1 (and 33k+-32): rejected, nothing allocated afterwards
        for dl in (1, -1, 32, -32, 16):
            ln = 33 * k + dl
            if ln < 0:
                continue
            data = (ser_model + b"\x0a" * 40)[:ln]
            a0 = L.live_allocs
            o = L.bppp_generators_parse(L.ctx, exact(data), ln)
            st.calls += 1
            st.count("parse length 33k%+d -> NULL" % dl)
            if o:
                st.fail("generators_parse accepted %d bytes (not a multiple of 33)" % ln, d)
                L.bppp_generators_destroy(L.ctx, o)
            elif L.live_allocs != a0:
                st.fail("generators_parse leaked %d allocation(s) on a %d-byte input" % (L.live_allocs - a0, ln), d)
        env.legal(st, "generators create/serialize/parse", d)
        if k > 0:
            # too small output buffer: ARG_CHECK at API level -> callback, 0
            ln = c_size_t(33 * k - 1)
            out = buf(33 * k)
            r = L.bppp_generators_serialize(L.ctx, obj, out, byref(ln))
            ill, err = L.cb_take()
            st.calls += 1
            if r != 0 or ill < 1 or err:
                st.fail("generators_serialize with a too small buffer: ret=%d illegal=%d error=%d" % (r, ill, err), d)
            if k <= 4:
                # every shorter declared length on an exactly sized heap buffer: refused before anything is written (ASan red zone)
                for room in range(0, 33 * k):
                    ln = c_size_t(room)
                    ob_ = exact(b"\xee" * max(room, 1))
                    r = L.bppp_generators_serialize(L.ctx, obj, ob_, byref(ln))
                    ill, err = L.cb_take()
                    st.calls += 1
                    if r != 0 or ill < 1 or err:
                        st.fail("generators_serialize into %d bytes (needs %d): ret=%d illegal=%d error=%d" % (room, 33 * k, r, ill, err), d)
                        break
        L.bppp_generators_destroy(L.ctx, obj)
        st.count("list ok")
        st.nt(k)
        if k in (1, 3, 256):
            st.sample({"count": k, "last_generator": hx(M.generator_ser(model[-1])) if k else None})
    elif kind == "badpoint":
        # one malformed entry at every index; parse must fail and free everything it allocated
        ser_model = b"".join(M.generator_ser(Q) for Q in model)
        smallx = small_x_points(C, 1)[0][0]
        for i in range(k):
            e = ser_model[33 * i:33 * i + 33]
            bads = [("prefix 02", b"\x02" + e[1:]), ("prefix 09", b"\x09" + e[1:]), ("prefix 0c", b"\x0c" + e[1:]), ("prefix 00", b"\x00" + e[1:]),
                    ("prefix 8a", b"\x8a" + e[1:]), ("prefix 1a", b"\x1a" + e[1:]),
                    ("x = p", e[:1] + b32(P)), ("x = 2^256-1", e[:1] + b"\xff" * 32), ("x off curve", e[:1] + b32(off_curve_x(C, i32(e[1:]) + 1 if i32(e[1:]) + 1 < P else 1))),
                    ("x + p", e[:1] + b32(smallx + P)), ("zero", b"\x00" * 33)]
            for what, be in bads:
                assert M.generator_parse(be) is None
                data = ser_model[:33 * i] + be + ser_model[33 * i + 33:]
                a0 = L.live_allocs
                o = L.bppp_generators_parse(L.ctx, exact(data), len(data))
                st.calls += 1
                st.count("bad entry (%s) -> NULL" % what)
                if o:
                    st.fail("generators_parse accepted a list with a malformed entry (%s) at index %d" % (what, i), dict(d, data=hx(data)))
                    L.bppp_generators_destroy(L.ctx, o)
                elif L.live_allocs != a0:
                    st.fail("generators_parse leaked %d allocation(s): malformed entry (%s) at index %d of %d" % (L.live_allocs - a0, what, i, k), dict(d, data=hx(data)))
            # a valid non-canonical choice: the other prefix at index i is a different valid list (negated point)
            data = ser_model[:33 * i] + bytes([e[0] ^ 1]) + e[1:] + ser_model[33 * i + 33:]
            o = L.bppp_generators_parse(L.ctx, exact(data), len(data))
            st.calls += 1
            exp = M.generators_parse(data)
            if not o or gens_xy(L, o) != exp or exp[i] != C.neg(model[i]):
                st.fail("generators_parse: flipped prefix at index %d must give the negated point" % i, dict(d, data=hx(data)))
            else:
                st.nt((k, i))
            if o:
                L.bppp_generators_destroy(L.ctx, o)
        env.legal(st, "generators_parse", d)
    elif kind == "misc":
        L.bppp_generators_destroy(L.ctx, None)
        st.calls += 1
        env.legal(st, "destroy(NULL)", d)
        o = L.bppp_generators_parse(L.ctx, None, 33)
        ill, err = L.cb_take()
        st.calls += 1
        if o or ill < 1 or err:
            st.fail("generators_parse(NULL data): must call the illegal callback and return NULL", d)
        o = L.bppp_generators_parse(L.ctx, exact(b""), 0)
        st.calls += 1
        if not o or L.verif_c19_gens_count(o) != 0:
            st.fail("generators_parse of the empty string must give the empty list", d)
        else:
            L.bppp_generators_destroy(L.ctx, o)
        # two independent creations are equal (deterministic) and survive each other's destruction
        a = L.bppp_generators_create(L.ctx, 5)
        b = L.bppp_generators_create(L.ctx, 9)
        L.bppp_generators_destroy(L.ctx, a)
        if gens_xy(L, b) != env.nums(9):
            st.fail("second generator list changed after destroying the first", d)
        L.bppp_generators_destroy(L.ctx, b)
        st.calls += 4
        st.count("misc")
        env.legal(st, "misc", d)
    if L.live_allocs != live0:
        st.fail("allocation ledger: %d allocation(s) not freed after %s(%d)" % (L.live_allocs - live0, kind, k), d)


# ------------------------------------------------------------------ E2: order-13 build
class SgEnv:
    def __init__(self, cfg):
        self.L = L = lib(cfg)
        self.cfg = cfg
        self.C, self.pts = small_group(L)
        self.q = self.C.n
        self.ssz = L.verif_sizeof(1)
        self.align = L.verif_c19_alignment()
        self.scr = L.verif_c19_scratch_create(L.ctx, 1 << 16)
        self.dl = {xy(Q): k for k, Q in enumerate(self.pts)}
        self._gens = {}
        # the distinct 65-byte "two points" strings whose points lie in the group (incl. infinity, incl. bad parity on infinity)
        xs = sorted({Q[0] for Q in self.pts if Q})
        self.xs = [0] + xs

    def gens(self, dls):
        if dls not in self._gens:
            obj = self.L.verif_c19_gens_from_xy(b"".join(xy(self.pts[k]) for k in dls), len(dls))
            assert obj
            self._gens[dls] = ([M.lp_dl(k) for k in dls], obj)
        return self._gens[dls]


def sg_setup(cfg):
    return lambda: SgEnv(cfg)


def sg_complete_case(env, case, st):
    """case = (g, h, gens dls, c vector, rho, first): every (n, l) in Z_q^(g+h) (with n_0 = first if not None: sharding only)"""
    g, h, dls, cv, rho, first = case
    L, C, q = env.L, env.C, env.q
    ml, gobj = env.gens(dls)
    mu = rho * rho % q
    plen = M.proof_len(g, h)
    tr = (0, b"sg")
    ncalls = 0
    for vals in (itertools.product(range(q), repeat=g + h) if first is None else itertools.product([first], *[range(q)] * (g + h - 1))):
        nv, lv = list(vals[:g]), list(vals[g:])
        mcm = xy(M.lp_affine(C, M.commit(C, ml, nv, lv, cv, mu)))
        mpf = M.prove(C, M.Transcript(tr[1]), rho, ml, nv, lv, cv)
        cm = buf(64)
        r1 = L.verif_c19_commit(L.ctx, env.scr, cm, gobj, vb(nv), g, vb(lv), h, vb(cv), h, b32(mu))
        pl = c_size_t(plen)
        pf = buf(plen)
        r2 = L.verif_c19_prove(L.ctx, env.scr, pf, byref(pl), 0, tr[1], len(tr[1]), b32(rho), gobj, vb(nv), g, vb(lv), h, vb(cv), h)
        r3 = L.verif_c19_verify(L.ctx, env.scr, pf.raw, plen, 0, tr[1], len(tr[1]), b32(rho), gobj, g, vb(cv), h, cm.raw)
        ncalls += 3
        if r1 != 1 or cm.raw != mcm or r2 != 1 or pl.value != plen or pf.raw != mpf or r3 != 1:
            st.fail("order-%d group: commit=%d prove=%d verify=%d or outputs differ from the model" % (q, r1, r2, r3),
                    {"cfg": env.cfg, "g_len": g, "h_len": h, "gens_dl": list(dls), "c": list(cv), "rho": rho, "n": nv, "l": lv,
                     "proof": hx(pf.raw), "model_proof": hx(mpf), "commit": hx(cm.raw), "model_commit": hx(mcm)})
            break
    st.calls += ncalls
    st.count("accept %dx%d" % (g, h), ncalls // 3)
    st.nt(case)
    if L.illegal or L.errors or L.verif_c19_scratch_used(env.scr):
        st.fail("callback fired / scratch left allocated", {"cfg": env.cfg, "case": repr(case)})
        L.cb_reset()
    if rho == 1 and not first:
        st.sample({"group_order": q, "g_len": g, "h_len": h, "gens_dl": list(dls), "c": list(cv), "all_vectors": q ** (g + h)})


def sg_exact_case(env, case, st):
    """case = (g, h, gens dls, c vector, rho, sign byte, enc, xsel, lsel): every (X.x, R.x) per round from the group's x set (X.x = xs[xsel] if
    xsel is not None: sharding), every final (n, l) (l restricted to lsel if not None) (enc = 0) or their re-encodings s + kq (enc > 0); every
    commitment in the group: accepted iff the final equation holds."""
    g, h, dls, cv, rho, b0, enc, xsel, lsel = case
    L, C, q = env.L, env.C, env.q
    ml, gobj = env.gens(dls)
    tr = (0, b"sg")
    rnds = M.rounds(g, h)
    assert rnds <= 1
    cms = [xy(Q) for Q in env.pts]
    chunks = [bytes([b0]) + b32(a) + b32(b) for a in (env.xs if xsel is None else [env.xs[xsel]]) for b in env.xs] if rnds else [b""]
    cvb, rhob = vb(cv), b32(rho)
    ncalls = acc = 0
    if enc == 0:
        finals = [(b32(n), b32(l)) for n in range(q) for l in (range(q) if lsel is None else lsel)]
    else:
        kk = [1, 2, (2**32 - 1) // q, 2**32 // q + 1][enc - 1]
        hi = (b"\x00" * 3 + b"\x01" + b"\x00" * 28, b"\x01" + b"\x00" * 31)
        finals = [(b32(n + kk * q), b32(l)) for n in range(q) for l in (0, 5)] + [(b32(n), b32(l + kk * q)) for n in (0, 7) for l in range(q)]
        if enc == 1:
            finals += [(bytes(a | b for a, b in zip(b32(3), hb)), b32(4)) for hb in hi] + [(b32(3), bytes(a | b for a, b in zip(b32(4), hb))) for hb in hi]
    for ch in chunks:
        for (nb, lb) in finals:
            pf = ch + nb + lb
            cf = M.commitment_for(C, pf, M.Transcript(tr[1]), rho, ml, g, cv)
            want = None if cf is None else xy(M.lp_affine(C, cf))
            for cm in cms:
                r = L.verif_c19_verify(L.ctx, env.scr, pf, len(pf), 0, tr[1], len(tr[1]), rhob, gobj, g, cvb, h, cm)
                ncalls += 1
                exp = 1 if (want is not None and cm == want) else 0
                acc += exp
                if r != exp:
                    st.fail("order-%d group: verifier %d, final equation says %d" % (q, r, exp),
                            {"cfg": env.cfg, "g_len": g, "h_len": h, "gens_dl": list(dls), "c": list(cv), "rho": rho, "proof": hx(pf),
                             "commit_dl": env.dl[cm], "commit": hx(cm)})
                    if len(st.viol) > 5:
                        return
    st.calls += ncalls
    st.count("accept", acc)
    st.count("reject", ncalls - acc)
    if acc:
        st.nt(case)
    if L.illegal or L.errors or L.verif_c19_scratch_used(env.scr):
        st.fail("callback fired / scratch left allocated", {"cfg": env.cfg, "case": repr(case)})
        L.cb_reset()


# ------------------------------------------------------------------ driver
import os, time
_ONLY = [x for x in os.environ.get("C19_ONLY", "").split(",") if x]      # development aid: run only phases whose name contains one of these


def phase(run, name, fn, cases, **kw):
    if _ONLY and not any(x in name for x in _ONLY):
        return None
    import resource
    t0 = time.time()
    r0 = resource.getrusage(resource.RUSAGE_CHILDREN)
    st = run_phase(run, name, fn, cases, **kw)
    if os.environ.get("C19_VERBOSE"):
        r1 = resource.getrusage(resource.RUSAGE_CHILDREN)
        sys.stderr.write("%-32s %7d cases %8d calls %7.1fs wall %8.1f cpu-s (user %.0f sys %.0f)\n" % (
            name, st.cases, st.calls, time.time() - t0, r1.ru_utime + r1.ru_stime - r0.ru_utime - r0.ru_stime,
            r1.ru_utime - r0.ru_utime, r1.ru_stime - r0.ru_stime))
    return st


def complete_cases(thorough, cfg_full, lighter=False):
    """cases (g, h, n kind, l kind, c kind, rho index, transcript index, generator kind, depth).
    quick, primary cfg : {1,2,4,8}^2 x 5 n kinds x 5 l kinds x 3 c kinds x rho {1,2,n-1,filler} x 2 transcripts (full product)
    thorough, full cfg : {1,2,4,8}^2 (sum <= 16) x 8 n kinds x 8 l kinds x 10 (c, rho, transcript) combinations covering every c kind,
                         every rho and every transcript, + every other unit vector e_i; larger pairs up to 64x64: 4 x 3 x 3
    secondary cfgs     : 3 x 3 x 2 x 2 x 1 per pair"""
    out = []
    grid = [1, 2, 4, 8] if not thorough else [1, 2, 4, 8, 16, 32, 64]
    combos_t = [("fill", ri, 1) for ri in range(len(RHOS))] + [("max", 3, 0), ("zero", 2, 1), ("one", 1, 0), ("fill", 0, 0)]
    for g in grid:
        for h in grid:
            big = g + h > 16
            if not cfg_full:
                nks, lks = ["fill", "max", "zero"], ["fill", "max", "zero"]
                combos = [(ck, ri, 1) for ck in ("fill", "max") for ri in (2, 3)]
            elif not thorough:
                nks, lks = ["fill", "max", "zero", "eL", "bound"], ["fill", "max", "zero", "e0", "one"]
                combos = [(ck, ri, ti) for ck in ("fill", "max", "zero") for ri in (0, 1, 2, 3) for ti in (0, 1)]
            elif not big:
                nks, lks, combos = (VKINDS, VKINDS, combos_t) if not lighter else (VKINDS[:6], VKINDS[:6], combos_t)
            else:
                nks, lks = ["fill", "max", "eL", "bound"], ["fill", "zero", "e0"]
                combos = [("fill", 3, 1), ("zero", 2, 1), ("fill", 0, 1)]
            for nk in nks:
                for lk in lks:
                    for (ck, ri, ti) in combos:
                        depth = 1 if (nk, lk, ck) == ("fill", "fill", "fill") else 0
                        out.append((g, h, nk, lk, ck, ri, ti, "dl", depth))
            if thorough and cfg_full:
                out += [(g, h, "e%d" % i, "fill", "fill", 3, 1, "dl", 0) for i in range(1, g - 1)]
                out += [(g, h, "fill", "e%d" % i, "fill", 3, 1, "dl", 0) for i in range(1, h - 1)]
    # the library's own NUMS generators (model works on points: smaller sizes / alphabets)
    ngrid = [1, 2, 4] if not thorough else [1, 2, 4, 8]
    for g in ngrid:
        for h in ngrid:
            for nk in ["fill", "max", "e0", "zero"]:
                for lk in ["fill", "max", "eL", "zero"]:
                    for ck in ["fill", "one"]:
                        for ri in (1, 3) if not thorough else (0, 1, 2, 3):
                            if cfg_full or (nk, lk) == ("fill", "fill"):
                                out.append((g, h, nk, lk, ck, ri, 3, "nums", 0))
    if not thorough:
        # large sizes in the quick tier: Pippenger path (>= 88 points) and the longest proofs
        for (g, h) in [(64, 64), (1, 64), (64, 1), (32, 16), (16, 64)]:
            for nk, lk in (("fill", "fill"), ("max", "eL"), ("eL", "zero")):
                for ri in (2, 3):
                    out.append((g, h, nk, lk, "fill", ri, 1, "dl", 1 if nk == "fill" and cfg_full else 0))
    if thorough and cfg_full:
        out.append((16, 16, "fill", "fill", "fill", 3, 3, "nums", 0))
        out.append((64, 64, "fill", "fill", "fill", 3, 3, "nums", 0))
    return out


def main():
    a = args()
    from ..core import REPLAY
    if REPLAY is not None and REPLAY.get("tier") in ("quick", "thorough"):
        a.tier = REPLAY["tier"]         # the case lists / configurations of the tier that produced the replay file
    run = Run(PID, a.tier)
    thorough = a.tier == "thorough"
    try:
        nself = M.selftest(B.REPO)
    except AssertionError as e:
        sys.stderr.write("C19: reference model fails its own vectors (machinery broken): %r\n" % (e,))
        sys.exit(2)
    prods = ["prod-san", "prod-verify"] + (["cfg-int64-noasm-w8-c22", "cfg-i128struct-noasm-w2-c2"] if thorough else [])
    sgs = ["sg13", "sg13-verify"]
    if _ONLY and all("/" in t or t.endswith("-") for t in _ONLY):
        keep = lambda c: any(t.split("/")[0] in c for t in _ONLY)
        prods, sgs = [c for c in prods if keep(c)], [c for c in sgs if keep(c)]
    if REPLAY is not None and REPLAY.get("phase"):
        one = REPLAY["phase"].split("/")[0]
        prods, sgs = [c for c in prods if c == one], [c for c in sgs if c == one]
    B.build_many(prods + sgs)
    for b in prods + sgs:
        run.cov["builds"][b] = B.source_hash()[:16]
        lib(b)      # load in the parent: workers inherit the mapping, so a concurrent rebuild/cleanup of /verif/build cannot stall them
    run.cov["model_selftest_assertions"] = nself
    _NUMS.extend(M.generators(256))

    for cfg in prods:
        full = cfg in ("prod-san", "prod-verify")
        phase(run, "%s/complete" % cfg, complete_case, complete_cases(thorough, full and (thorough or cfg == "prod-san"), lighter=(cfg != "prod-san")), setup=prod_setup(cfg),
                  rule="quick: (|n|,|l|) in {1,2,4,8}^2 x n kinds {filler,n-1,0,e_last,boundary mix} x l kinds {filler,n-1,0,e_first,1} x c {filler,n-1,0} x rho "
                       "{1,2,n-1,filler} x transcript {plain empty, tagged+100 bytes} (full product; prod-verify: 3x3x2x2x1) + 64x64,1x64,64x1,32x16,16x64; thorough: pairs "
                       "with |n|+|l|<=16: 8 n kinds x 8 l kinds x 10 (c,rho,transcript) combinations (every c kind {filler,n-1,0,1}, every rho {1,2,n-1,filler,1/2,lambda}, 2 "
                       "transcripts) + every unit vector; larger pairs up to 64x64: 4x3x3; generators: known-dlog k_i*G, and generators_create on {1,2,4(,8)}^2 x 4x4x2x2(4); "
                       "prover scratch {NULL,1M} (filler case: NULL,0,4K,64K,1M, output capacity exact/+7), verifier scratch {exactly needed,1M} (filler: +4K,+64K): "
                       "commitment point, proof bytes and length (65*rounds+64) equal to the model prover, verify=1, last bit flipped -> 0; non-trivial = accepted")
        if run.out_of_time():
            break
        if full:
            grid = [1, 2, 4, 8, 16, 32, 64]
            sc = []
            for g in grid:
                for h in grid:
                    if (thorough and (cfg == "prod-san" or g + h <= 16)) or (g, h) in (((1, 1), (2, 1), (1, 2), (4, 4), (8, 2), (1, 64), (64, 1), (64, 64), (16, 32)) if cfg == "prod-san" else ((1, 1), (2, 4), (16, 8))):
                        nparts = 1 if g + h <= 8 else (4 if g + h <= 40 else 16)
                        sc += [(g, h, p, nparts) for p in range(nparts)]
            phase(run, "%s/scratch" % cfg, scratch_case, sc, setup=prod_setup(cfg),
                      rule="per size pair: verifier scratch of every multiple of the alignment from 0 to needed+4 steps, needed+-1, needed+2^k and 2^k up to 1M: "
                           "returns 1 iff size >= sum of rounded blocks (rounds, |n|, |l|, log|n| scalars), 0 silently (no callback) below; altered proof 0 at "
                           "every size; scratch left empty; prover/commit identical at every size; scratch create/destroy ledger balanced")
        primary = cfg == "prod-san"
        rc = reject_cases(thorough, primary)
        if not primary:
            rc = [c for c in rc if c[1] + c[2] <= 16]
        phase(run, "%s/reject" % cfg, reject_case, rc, setup=prod_setup(cfg),
                  rule="rejection list; each class uses proofs/commitments built by the model so that a verifier lacking that single rule would accept: "
                       "length +-{1,2,31..33,64..66,129,130} with 3 paddings; all-zero proof + infinity commitment for |n|,|l| in {0..9,12,16,63,64}(thorough more) incl. "
                       "non-powers of two, generator count +-1, length +-1/+-65, rho=0; generator count in {0,1,g,h,g+h-1,g+h,g+h+1,2(g+h)}; rho=0 under two "
                       "conventions; final scalars s+n, n, 2^256-1; every sign byte 0..255 in every round; infinity x with each parity pattern; x+p, off-curve, p, "
                       "p-1, 2^256-1; other statements; every single-bit flip of proofs for sizes <= (2,4) (4 sources) and of the scalars/sign byte of 8x8; "
                       "non-trivial = accepted (model-constructed accepting instances incl. X/R at infinity)")
        if full:
            cc = [("ser",)] + [("parse", b0) for b0 in (range(256) if primary else (0, 1, 2, 3, 4, 5, 128, 255))] + [("challenge", 0), ("challenge", 1)]
            phase(run, "%s/codec" % cfg, codec_case, cc, setup=prod_setup(cfg),
                      rule="two-points codec: 13x13 point pairs (infinity, +-G, lambda*G, small x, x>=n, largest x) serialize = model, parse o serialize = id; "
                           "parse_one_of_points for every sign byte 0..255 x x in {0,1,2,5,p-1,p,p+1,p+2,2^256-1,n,off-curve,on-curve,on-curve+p} x both "
                           "slots; challenge scalar for 14 prefix lengths x 9 indices x tagged/plain")
        gc = [("create", k) for k in range(257)] + [("badpoint", k) for k in (list(range(1, 9)) + ([12, 16, 33] if thorough else []))] + [("misc", 0)]
        if not primary:
            gc = [("create", k) for k in list(range(0, 34)) + [63, 64, 65, 127, 128, 129, 255, 256]] + [("badpoint", k) for k in (1, 2, 5)] + [("misc", 0)]
        if not full:
            gc = [("create", k) for k in (0, 1, 2, 3, 16, 255, 256)] + [("badpoint", 4), ("misc", 0)]
        phase(run, "%s/generators" % cfg, gens_case, gc, setup=prod_setup(cfg),
                  rule="generators_create(k) for every k in 0..256 equals the first k model generators (RFC6979(G) stream -> 2x SvdW -> sum), hence "
                       "prefix-consistent; serialize (buffer exact/+1/+33) = model bytes; parse o serialize = id both ways; lengths 33k+-1, +-32, +16 -> NULL; "
                       "11 malformed entries at every index of lists of 1..8 (thorough +12,16,33) -> NULL with allocations balanced; flipped prefix -> negated "
                       "point; destroy(NULL); parse(NULL) -> illegal callback; too small serialize buffer -> illegal callback")
        if run.out_of_time():
            run.cov["exhaustive"] = False
            break

    # ---- E2 order-13 group
    for cfg in sgs:
        q = 13
        rhos = list(range(1, q))
        main_sg = cfg == "sg13"
        deep = thorough or main_sg
        cs1 = [(0,), (1,), (7,), (12,)]
        cs2 = [(3, 11), (0, 1)] if thorough else [(3, 11)]
        g11 = [(1, 2), (5, 5), (12, 7)]
        g3 = [(1, 2, 5), (4, 4, 9)] if thorough else [(1, 2, 5)]
        g4 = [(1, 2, 5, 7), (3, 3, 12, 6)] if thorough else [(1, 2, 5, 7)]
        r3 = (2, 6, 12) if main_sg or thorough else (6,)
        cc = [(1, 1, dl, c, r, None) for dl in g11 for c in cs1 for r in rhos]
        for dl in g3:
            for c in (cs1[1:3] if thorough else cs1[2:3]):
                cc += [(2, 1, dl, c, r, None) for r in (rhos if deep and (dl, c) == (g3[0], cs1[2]) else r3)]
            for c in cs2:
                cc += [(1, 2, dl, c, r, None) for r in (rhos if deep and (dl, c) == (g3[0], cs2[0]) else r3)]
        for dl in g4:
            for c in cs2:
                mainlist = (dl, c) == (g4[0], cs2[0])
                if not mainlist and not main_sg:
                    continue
                cc += [(2, 2, dl, c, r, f) for r in (rhos if thorough and main_sg and mainlist else (r3 if mainlist else (6,))) for f in range(q)]
        if thorough and main_sg:
            cc += [(4, 1, (1, 2, 5, 7, 3), (4,), r, f) for r in (6,) for f in range(q)]
        phase(run, "%s/complete-total" % cfg, sg_complete_case, cc, setup=sg_setup(cfg),
              rule="order-13 build: EVERY (n,l) in Z_13^(|n|+|l|): 1x1 (every rho, 4 c, 3 generator lists), 2x1 and 1x2 (every rho; sg13-verify quick: rho=6), 2x2 (quick: "
                   "rho in {2,6,12}, sg13-verify rho=6; thorough sg13: every rho for the main list, rho=6 for a second c and a second generator list with "
                   "repeated generators, + 4x1 (2 rounds, rho=6)): commit, proof bytes, verify=1 all equal to the model")
        ee = []
        for r in rhos:
            for dl in g11:
                for c in cs1:
                    ee.append((1, 1, dl, c, r, 0, 0, None, None))
                    if thorough or (r == 5 and c == cs1[2]):
                        ee += [(1, 1, dl, c, r, 0, enc, None, None) for enc in (1, 2, 3, 4)]
        r_ex = ((2, 5, 12) if thorough else (5,)) if main_sg else ((5,) if thorough else ())
        lsel = None if thorough else (0, 1, 5, 12)
        for r in r_ex:
            for b0 in (0, 1, 2, 3, 4, 7, 255):
                for (g, h, dl, c) in ((2, 1, g3[0], (7,)), (1, 2, g3[0], cs2[0]), (2, 2, g4[0], cs2[0])):
                    if b0 > 3 and not (r == r_ex[0] and g == 2 and h == 1):
                        continue
                    ee += [(g, h, dl, c, r, b0, 0, xs, lsel) for xs in range(7)]
            ee += [(2, 2, g4[0], cs2[0], r, 0, enc, None, None) for enc in (1, 2)]
        phase(run, "%s/exact-total" % cfg, sg_exact_case, ee, setup=sg_setup(cfg),
              rule="order-13 build: for 1x1 every final (n,l) in Z_13^2 x all 14 commitments x every rho x 4 c x 3 generator lists, and re-encodings s+13k "
                   "(k=1,2,(2^32-1)/13,2^32/13+1; bits above byte 28); for 2x1, 1x2, 2x2 (sg13; rho=5) every 65-byte pair string over the group's x "
                   "set (7^2) x sign byte {0,1,2,3 (,4,7,255)} x every n x l in {0,1,5,12} (thorough every l, rho in {2,5,12}) x all 14 commitments: verify = 1 iff the commitment is "
                   "the one solving the final equation; non-trivial = case with accepted instances")
        if run.out_of_time():
            run.cov["exhaustive"] = False
            break

    run.assumptions += ["secp256k1 scalar vectors outside the stated alphabets are not explored (the order-13 group is explored totally for sizes up to 2x2)",
                        "known-discrete-log generators k_i*G are inputs chosen by the check; the library's own generators are used on the smaller grid",
                        "non-power-of-two / zero sizes are only driven with the all-zero statement (the one input whose verdict does not depend on out-of-bounds reads in a verifier lacking the rule)",
                        "compilers: gcc 12 / clang 14 as installed"]
    sys.exit(run.finish())


if __name__ == "__main__":
    main()
